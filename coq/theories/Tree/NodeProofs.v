(* NodeProofs.v — GetNode and DeleteNode on the structural view of Tree/NodeFrameProofs.v, and
   the statements of C10 / C12.
   get_rec_spec : under the guards, GetNode at a path with complete canonical keys returns the
                  subtree at the structural address of the path (exactly one node), or nothing /
                  a nil node when it is absent;
   del_rec_spec : DeleteNode at such a path always succeeds, removes the subtree at the address,
                  leaves every subtree that is not on the spine as it was, removes the containers,
                  Go-map lists and list entries on the spine that it finds or leaves empty, and is
                  the identity when the node is absent and nothing on the spine is empty. *)
From Ygot Require Import Tree.Tree Tree.Codec Tree.CodecProofs Tree.TreeOps Tree.Unmarshal Tree.KeyCodec Tree.Leaves Tree.Node Path.PathRel.
From Ygot Require Import Tree.RoundTrip Tree.RoundTripObjProofs Tree.RoundTripProofs Tree.MergeJson Tree.MergeJsonProofs.
From Ygot Require Import Tree.NodeFrameProofs.

(* ====================================================================================== *)
(* 1. GetNode                                                                             *)
(* ====================================================================================== *)

Section GetLoopSpecs.
  Variable env : enum_env.
  Variable fo : float_oracle.
  Variable ko : key_oracle.
  Variable o : get_opts.
  Variable rec : schema -> option tree -> dpath -> dpath -> result (list gnode).
  Variable s : schema.
  Variable sfs : list (finfo * schema).
  Variable keys : list str.
  Variable e0 : pelem.
  Variable prest trav : dpath.
  Variable ord : bool.
  Variable pk : list scalar.
  Hypothesis Hwild : g_wild o = false.
  Hypothesis Hnd : NoDup (go_names sfs).
  Hypothesis Hpk : path_key env fo ko ord sfs keys (ekeys e0) = Some pk.
  Notation entries_ok := (entries_ok env fo ko sfs keys).

  Lemma get_all_nomatch : forall l, entries_ok l -> tl_find pk l = None ->
    get_all env ko o rec s sfs keys e0 prest trav (ekeys e0) l = Ok [].
  Proof.
    induction l as [|[mk e] more IH]; intros Hok Hf; [reflexivity|].
    apply entries_ok_cons in Hok as [(fs & -> & Hk) Hok]. cbn [get_all].
    rewrite Hwild, (keys_match_eq env fo ko (g_partial o) ord sfs (ekeys e0) keys pk mk fs Hpk Hk). cbn [bind].
    cbn [tl_find] in Hf. destruct (keys_eqb pk mk); [discriminate|]. now apply IH.
  Qed.

  Lemma get_all_spec : forall l, entries_ok l -> NoDup (map fst l) ->
    match tl_find pk l with
    | None => get_all env ko o rec s sfs keys e0 prest trav (ekeys e0) l = Ok []
    | Some e => exists kk, get_all env ko o rec s sfs keys e0 prest trav (ekeys e0) l =
                  bind (rec s (Some e) prest (trav ++ [{| ename := ename e0; ekeys := kk |}])) (fun here => Ok (here ++ []))
    end.
  Proof.
    induction l as [|[mk e] more IH]; intros Hok Hd; [reflexivity|].
    apply entries_ok_cons in Hok as [(fs & -> & Hk) Hok]. cbn [get_all tl_find].
    rewrite Hwild, (keys_match_eq env fo ko (g_partial o) ord sfs (ekeys e0) keys pk mk fs Hpk Hk). cbn [bind].
    simpl in Hd. inversion Hd; subst.
    destruct (keys_eqb pk mk) eqn:E; [|now apply IH].
    apply keys_eqb_eq in E. subst mk. cbn [fields_of].
    destruct (entry_elem_keys_ok env fo ko sfs keys pk fs Hk) as (kk & ->). cbn [bind]. exists kk.
    rewrite get_all_nomatch; auto. apply tl_find_not_In. exact H1.
  Qed.

  Lemma get_oall_nomatch : forall l, entries_ok l -> tl_find pk l = None ->
    get_oall env ko o rec s keys e0 prest trav (ekeys e0) l = Ok [].
  Proof.
    induction l as [|[mk e] more IH]; intros Hok Hf; [reflexivity|].
    apply entries_ok_cons in Hok as [(fs & -> & Hk) Hok]. cbn [get_oall].
    destruct (mapkey_strs_ok env fo ko sfs keys mk fs Hk) as (kk & ->). cbn [bind].
    rewrite Hwild, (keys_match_eq env fo ko (g_partial o) ord sfs (ekeys e0) keys pk mk fs Hpk Hk). cbn [bind].
    cbn [tl_find] in Hf. destruct (keys_eqb pk mk); [discriminate|]. now apply IH.
  Qed.

  Lemma get_oall_spec : forall l, entries_ok l -> NoDup (map fst l) ->
    match tl_find pk l with
    | None => get_oall env ko o rec s keys e0 prest trav (ekeys e0) l = Ok []
    | Some e => exists kk, get_oall env ko o rec s keys e0 prest trav (ekeys e0) l =
                  bind (rec s (Some e) prest (trav ++ [{| ename := ename e0; ekeys := kk |}])) (fun here => Ok (here ++ []))
    end.
  Proof.
    induction l as [|[mk e] more IH]; intros Hok Hd; [reflexivity|].
    apply entries_ok_cons in Hok as [(fs & -> & Hk) Hok]. cbn [get_oall tl_find].
    destruct (mapkey_strs_ok env fo ko sfs keys mk fs Hk) as (kk & ->). cbn [bind].
    rewrite Hwild, (keys_match_eq env fo ko (g_partial o) ord sfs (ekeys e0) keys pk mk fs Hpk Hk). cbn [bind].
    simpl in Hd. inversion Hd; subst.
    destruct (keys_eqb pk mk) eqn:E; [|now apply IH].
    apply keys_eqb_eq in E. subst mk. exists kk.
    rewrite get_oall_nomatch; auto. apply tl_find_not_In. exact H1.
  Qed.
End GetLoopSpecs.

Lemma get_first_spec env fo ko rec s sfs e0 prest trav ord pk k s0 :
  NoDup (go_names sfs) -> path_key env fo ko ord sfs [k] (ekeys e0) = Some pk ->
  key_leaf_okb sfs k = true -> al_find k (ekeys e0) = Some s0 ->
  forall l, entries_ok env fo ko sfs [k] l ->
  get_first env ko rec s sfs e0 prest trav k s0 l =
  match tl_find pk l with
  | Some e => rec s (Some e) prest (trav ++ [e0])
  | None => Ok []
  end.
Proof.
  intros Hnd Hpk Hkl Hs0. induction l as [|[mk e] more IH]; intros Hok; [reflexivity|].
  apply entries_ok_cons in Hok as [(fs & -> & Hk) Hok]. cbn [get_first tl_find fields_of].
  destruct (single_key_str_eq env fo ko sfs k mk fs pk ord (ekeys e0) Hnd Hkl Hk Hpk) as (s1 & sv & Hs1 & Hsv & Heq).
  rewrite Hs0 in Hs1. injection Hs1 as <-. rewrite Hsv. cbn [bind]. rewrite Heq.
  destruct (keys_eqb pk mk) eqn:E; [|now apply IH].
  apply keys_eqb_eq in E. subst mk. reflexivity.
Qed.

Section GetSpec.
  Variable env : enum_env.
  Variable fo : float_oracle.
  Variable ko : key_oracle.
  Variable o : get_opts.
  Hypothesis Hsh : g_shadow o = false.
  Hypothesis Hwild : g_wild o = false.
  Notation nwf := (nwf env fo ko).
  Notation cur_ok := (cur_ok env fo ko).
  Notation addr := (addr env fo ko).

  Definition nil_nodes (ns : list gnode) : Prop := Forall (fun n => gn_data n = None) ns.

  Definition get_post (c : option tree) (r : result (list gnode)) : Prop :=
    match c with
    | Some x => exists q, r = Ok [{| gn_path := q; gn_data := Some x |}]
    | None => g_tolerate_nil o = true -> exists ns, r = Ok ns /\ nil_nodes ns
    end.

  Lemma get_post_bind c r : get_post c r -> get_post c (bind r (fun here => Ok (here ++ []))).
  Proof.
    destruct c as [x|]; simpl.
    - intros (q & ->). simpl. eauto.
    - intros H Ht. destruct (H Ht) as (ns & -> & Hn). simpl. rewrite app_nil_r. eauto.
  Qed.

  Theorem get_rec_spec : forall f inl s cur p trav sp fl ss kl,
    swfb s = true -> cur_ok inl s cur -> addr f inl s p = Some (sp, fl, ss, kl) ->
    get_post (osub_at cur sp) (get_rec env fo ko o f s cur p trav).
  Proof.
    induction f as [|f IH]; intros inl s cur p trav sp fl ss kl Hw Hcur Ha; [discriminate|].
    destruct p as [|e0 prest].
    - apply addr_nil in Ha as (-> & -> & _). rewrite osub_at_nil. cbn [get_rec].
      destruct cur as [x|]; simpl; [eauto|]. intros _. eexists. split; [reflexivity|]. repeat constructor.
    - destruct cur as [t|].
      + destruct Hcur as [Hn Hshape]. destruct inl.
        * (* a keyed list *)
          apply addr_list_inv in Ha as (ord & keys & mn & mx & sfs & mk & sp' & fl' & -> & Hpk & Ha & -> & ->).
          destruct Hshape as [es ->].
          destruct (swfb_fields _ Hw) as [Hnd _]. simpl in Hnd.
          destruct (list_keys_ok_inv _ _ (swfb_list_keys _ _ _ _ _ Hw)) as (Hkne & Hkl & Hkd).
          pose proof Hn as Hn0. apply nwf_list in Hn0 as [Hokb Hent].
          assert (Heok : entries_ok env fo ko sfs keys es) by (intros k e Hi; now destruct (Hent _ _ Hi)).
          pose proof (keys_okb_NoDup _ _ Hokb) as Hdist.
          rewrite osub_at_entry.
          assert (Hrec : forall e trav', tl_find mk es = Some e ->
                    get_post (osub_at (Some e) sp') (get_rec env fo ko o f (SList ord keys mn mx sfs) (Some e) prest trav')).
          { intros e trav' Hf. pose proof (tl_find_In _ _ _ Hf) as Hi. destruct (Hent _ _ Hi) as [(fsp & -> & Hko) Hne].
            eapply IH; eauto. split; [auto | simpl; eauto]. }
          assert (Hnone : tl_find mk es = None -> get_post (osub_at None sp') (Ok [])).
          { intros _. simpl. intros _. exists []. split; auto. constructor. }
          rewrite get_rec_list. destruct ord.
          -- rewrite (ordered_keys_parse_ok env fo ko sfs (ekeys e0) keys mk Hpk). cbn [bind].
             pose proof (get_oall_spec env fo ko o (get_rec env fo ko o f) (SList true keys mn mx sfs) sfs keys e0 prest trav true mk
                           Hwild Hpk es Heok Hdist) as Hl.
             destruct (tl_find mk es) as [e|] eqn:Ef.
             ++ destruct Hl as (kk & ->). apply get_post_bind. now apply Hrec.
             ++ rewrite Hl. now apply Hnone.
          -- unfold get_list. destruct keys as [|k [|k2 ks]]; [congruence| |].
             ++ assert (Hs0 : exists s0, al_find k (ekeys e0) = Some s0).
                { cbn [path_key] in Hpk. destruct (al_find k (ekeys e0)); [eauto|discriminate]. }
                destruct Hs0 as (s0 & Hs0). rewrite Hs0, Hwild.
                assert (Hne : nil_b (ekeys e0) = false) by (destruct (ekeys e0); [discriminate|reflexivity]).
                rewrite Hne. cbn [andb orb].
                rewrite (get_first_spec env fo ko _ (SList false [k] mn mx sfs) sfs e0 prest trav false mk k s0 Hnd Hpk
                           (Hkl k (or_introl eq_refl)) Hs0 es Heok).
                destruct (tl_find mk es) as [e|] eqn:Ef; [now apply Hrec | now apply Hnone].
             ++ pose proof (get_all_spec env fo ko o (get_rec env fo ko o f) (SList false (k :: k2 :: ks) mn mx sfs) sfs (k :: k2 :: ks) e0 prest trav false mk
                           Hwild Hpk es Heok Hdist) as Hl.
                destruct (tl_find mk es) as [e|] eqn:Ef.
                ** destruct Hl as (kk & ->). apply get_post_bind. now apply Hrec.
                ** rewrite Hl. now apply Hnone.
        * (* a struct *)
          apply addr_struct_inv in Ha as (sfs & fi & ss1 & alt & sp' & fl' & kl' & Hs & Hf & Ha & -> & -> & Hkl).
          pose proof (struct_schema_fields _ _ Hs) as Hsf.
          assert (Hfs : exists fs, t = TCont fs).
          { destruct Hs as [->|(o1 & k1 & a1 & b1 & ->)]; exact Hshape. }
          destruct Hfs as [fs ->].
          assert (Hunf : get_rec env fo ko o (S f) s (Some (TCont fs)) (e0 :: prest) trav = get_struct env fo ko o f sfs fs (e0 :: prest) trav).
          { destruct Hs as [->|(o1 & k1 & a1 & b1 & ->)]; [apply get_rec_cont | apply get_rec_entry]. }
          rewrite Hunf. unfold get_struct. rewrite Hsh, (find_field_del _ _ _ _ _ _ Hf).
          destruct (find_field_path _ _ _ _ _ _ _ Hf) as [Hin Hmp].
          destruct (swfb_fields _ Hw) as [Hnd Hsub]. rewrite Hsf in Hnd, Hsub.
          apply nwf_cont in Hn. rewrite Hsf in Hn. rewrite osub_at_field.
          eapply IH; eauto. eapply cur_ok_field; eauto.
      + (* nil *)
        assert (Hs : forall t d, s <> SLeaf t d).
        { intros t d ->. destruct inl; simpl in Ha; discriminate. }
        simpl. intros Ht. exists []. split; [|constructor]. cbn [get_rec]. rewrite Ht.
        destruct s; try reflexivity. now destruct (Hs t dflt).
  Qed.
End GetSpec.
(* ====================================================================================== *)
(* 2. DeleteNode                                                                          *)
(* ====================================================================================== *)

(* what the three list loops of del_rec do with the entry the path selects *)
Definition del_entry (upd : list scalar -> tree -> list (list scalar * tree) -> list (list scalar * tree))
    (rec : schema -> option tree -> dpath -> option tree * result unit)
    (s : schema) (prest : dpath) (pk : list scalar) (e : tree) (acc : list (list scalar * tree)) : option tree * result unit :=
  if nil_b prest then (Some (TList (tl_remove pk acc)), Ok tt)
  else
    let '(e', r) := rec s (Some e) prest in
    match r, e' with
    | Ok _, Some e'' => (Some (TList (if Node.is_empty_cont e'' then tl_remove pk acc else upd pk e'' acc)), Ok tt)
    | _, Some e'' => (Some (TList (upd pk e'' acc)), r)
    | _, None => (Some (TList acc), r)
    end.

Section DelLoopSpecs.
  Variable env : enum_env.
  Variable fo : float_oracle.
  Variable ko : key_oracle.
  Variable rec : schema -> option tree -> dpath -> option tree * result unit.
  Variable s : schema.
  Variable sfs : list (finfo * schema).
  Variable keys : list str.
  Variable ek : list (str * str).
  Variable prest : dpath.
  Variable ord : bool.
  Variable pk : list scalar.
  Hypothesis Hnd : NoDup (go_names sfs).
  Hypothesis Hpk : path_key env fo ko ord sfs keys ek = Some pk.
  Notation entries_ok := (entries_ok env fo ko sfs keys).

  Lemma del_all_nomatch : forall l acc, entries_ok l -> tl_find pk l = None ->
    del_all env ko rec s sfs keys ek prest l acc = (Some (TList acc), Ok tt).
  Proof.
    induction l as [|[mk e] more IH]; intros acc Hok Hf; [reflexivity|].
    apply entries_ok_cons in Hok as [(fs & -> & Hk) Hok]. cbn [del_all].
    rewrite (keys_match_eq env fo ko false ord sfs ek keys pk mk fs Hpk Hk).
    cbn [tl_find] in Hf. destruct (keys_eqb pk mk); [discriminate|]. now apply IH.
  Qed.

  Lemma del_all_spec : forall l acc, entries_ok l -> NoDup (map fst l) ->
    del_all env ko rec s sfs keys ek prest l acc =
    match tl_find pk l with
    | None => (Some (TList acc), Ok tt)
    | Some e => del_entry tl_insert rec s prest pk e acc
    end.
  Proof.
    induction l as [|[mk e] more IH]; intros acc Hok Hd; [reflexivity|].
    apply entries_ok_cons in Hok as [(fs & -> & Hk) Hok]. cbn [del_all tl_find].
    rewrite (keys_match_eq env fo ko false ord sfs ek keys pk mk fs Hpk Hk).
    simpl in Hd. inversion Hd; subst.
    destruct (keys_eqb pk mk) eqn:E; [|now apply IH].
    apply keys_eqb_eq in E. subst mk. cbn [fields_of].
    destruct (entry_elem_keys_ok env fo ko sfs keys pk fs Hk) as (kk & ->).
    unfold del_entry. destruct (nil_b prest); auto.
    destruct (rec s (Some (TCont fs)) prest) as [e' r]. destruct r as [[]| |], e' as [e''|]; auto.
    apply del_all_nomatch; auto. apply tl_find_not_In. exact H1.
  Qed.

  Lemma del_oall_nomatch : forall l acc, entries_ok l -> tl_find pk l = None ->
    del_oall env ko rec s keys ek prest l acc = (Some (TList acc), Ok tt).
  Proof.
    induction l as [|[mk e] more IH]; intros acc Hok Hf; [reflexivity|].
    apply entries_ok_cons in Hok as [(fs & -> & Hk) Hok]. cbn [del_oall].
    destruct (mapkey_strs_ok env fo ko sfs keys mk fs Hk) as (kk & ->). cbn [bind].
    rewrite (keys_match_eq env fo ko false ord sfs ek keys pk mk fs Hpk Hk).
    cbn [tl_find] in Hf. destruct (keys_eqb pk mk); [discriminate|]. now apply IH.
  Qed.

  Lemma del_oall_spec : forall l acc, entries_ok l -> NoDup (map fst l) ->
    del_oall env ko rec s keys ek prest l acc =
    match tl_find pk l with
    | None => (Some (TList acc), Ok tt)
    | Some e => del_entry ol_update rec s prest pk e acc
    end.
  Proof.
    induction l as [|[mk e] more IH]; intros acc Hok Hd; [reflexivity|].
    apply entries_ok_cons in Hok as [(fs & -> & Hk) Hok]. cbn [del_oall tl_find].
    destruct (mapkey_strs_ok env fo ko sfs keys mk fs Hk) as (kk & ->). cbn [bind].
    rewrite (keys_match_eq env fo ko false ord sfs ek keys pk mk fs Hpk Hk).
    simpl in Hd. inversion Hd; subst.
    destruct (keys_eqb pk mk) eqn:E; [|now apply IH].
    apply keys_eqb_eq in E. subst mk.
    assert (Hno : tl_find pk more = None) by (apply tl_find_not_In; exact H1).
    unfold del_entry. destruct (nil_b prest); [now apply del_oall_nomatch|].
    destruct (rec s (Some (TCont fs)) prest) as [e' r]. destruct r as [[]| |], e' as [e''|]; auto.
    now apply del_oall_nomatch.
  Qed.
End DelLoopSpecs.

Lemma del_first_spec env fo ko rec s sfs prest ord pk es k s0 ek :
  NoDup (go_names sfs) -> path_key env fo ko ord sfs [k] ek = Some pk ->
  key_leaf_okb sfs k = true -> al_find k ek = Some s0 ->
  forall l, entries_ok env fo ko sfs [k] l ->
  del_first env ko rec s sfs prest (Some (TList es)) es k s0 l =
  match tl_find pk l with
  | None => (Some (TList es), Ok tt)
  | Some e => del_entry tl_insert rec s prest pk e es
  end.
Proof.
  intros Hnd Hpk Hkl Hs0. induction l as [|[mk e] more IH]; intros Hok; [reflexivity|].
  apply entries_ok_cons in Hok as [(fs & -> & Hk) Hok]. cbn [del_first tl_find fields_of].
  destruct (single_key_str_eq env fo ko sfs k mk fs pk ord ek Hnd Hkl Hk Hpk) as (s1 & sv & Hs1 & Hsv & Heq).
  rewrite Hs0 in Hs1. injection Hs1 as <-. rewrite Hsv, Heq.
  destruct (keys_eqb pk mk) eqn:E; [|now apply IH].
  apply keys_eqb_eq in E. subst mk. unfold del_entry. destruct (nil_b prest); auto.
  destruct (rec s (Some (TCont fs)) prest) as [e' r]. destruct r as [[]| |], e' as [e''|]; auto.
Qed.

(* nodes that DeleteNode removes when it finds or leaves them empty *)
Definition is_empty_node (c : option tree) : Prop := c = Some (TCont []) \/ c = Some (TList []).
(* no prunable node strictly inside the spine is empty *)
Fixpoint clean (c : option tree) (sp : list step) (fl : list bool) {struct sp} : Prop :=
  match sp, fl with
  | s :: ((_ :: _) as sp'), b :: fl' =>
      (b = true -> ~ is_empty_node (osub_at c [s])) /\ clean (osub_at c [s]) sp' fl'
  | _, _ => True
  end.

Lemma clean_none : forall sp fl, clean None sp fl.
Proof.
  induction sp as [|s [|s2 sp'] IH]; intros fl; simpl; auto. destruct fl as [|b fl']; auto.
  split; [intros _ [H|H]; discriminate | apply IH].
Qed.
Lemma clean_single c s fl : clean c [s] fl.
Proof. destruct fl; exact I. Qed.
Lemma clean_cons c s s2 sp' b fl' :
  clean c (s :: s2 :: sp') (b :: fl') <-> (b = true -> ~ is_empty_node (osub_at c [s])) /\ clean (osub_at c [s]) (s2 :: sp') fl'.
Proof. reflexivity. Qed.

Lemma shape_kind2 ss x : shape (is_keyed_list ss) ss x -> kind2 ss x = true.
Proof. destruct ss; simpl; auto; intros [y ->]; reflexivity. Qed.

Lemma osub_at_entry1 es k : osub_at (Some (TList es)) [StK k] = tl_find k es.
Proof. simpl. now destruct (tl_find k es). Qed.

Lemma sub_at_empty_cont q : q <> [] -> sub_at (TCont []) q = None.
Proof. destruct q as [|[n|k|i] q]; [congruence| | |]; reflexivity. Qed.
Lemma sub_at_empty_list q : q <> [] -> sub_at (TList []) q = None.
Proof. destruct q as [|[n|k|i] q]; [congruence| | |]; reflexivity. Qed.

Section DelSpec.
  Variable env : enum_env.
  Variable fo : float_oracle.
  Variable ko : key_oracle.
  Notation nwf := (nwf env fo ko).
  Notation cur_ok := (cur_ok env fo ko).
  Notation addr := (addr env fo ko).
  Notation keys_ok := (keys_ok env fo ko).

  Definition del_frame (cur c' : option tree) (sp : list step) : Prop :=
    forall q, ~ sprefix q sp -> ~ sprefix sp q -> osub_at c' q = osub_at cur q.

  Definition del_post (inl : bool) (s : schema) (cur : option tree) (sp : list step) (fl : list bool) (kl : bool)
      (c' : option tree) : Prop :=
    osub_at c' sp = None
    /\ del_frame cur c' sp
    /\ (cur = None -> c' = None)
    /\ (forall t, cur = Some t -> exists t', c' = Some t' /\ shape inl s t')
    /\ (kl = false -> cur_ok inl s c')
    /\ clean c' sp fl
    /\ (osub_at cur sp = None -> clean cur sp fl -> c' = cur)
    /\ (forall q, osub_at cur q = None -> osub_at c' q = None).

  (* one list level: the entry the path selects is e; the recursive call turned it into e'' *)
  Lemma del_list_post ord keys mn mx sfs es mk sp' fl' kl fsp e'' es' :
    let s := SList ord keys mn mx sfs in
    swfb s = true -> nwf s (TList es) -> sp' <> [] ->
    (kl = false -> exists g rest, sp' = StF g :: rest /\ is_key_field s g = false) ->
    tl_find mk es = Some (TCont fsp) ->
    del_post false s (Some (TCont fsp)) sp' fl' kl (Some e'') ->
    es' = (if Node.is_empty_cont e'' then tl_remove mk es else es') ->
    (Node.is_empty_cont e'' = false ->
       tl_find mk es' = Some e'' /\ (forall k, k <> mk -> tl_find k es' = tl_find k es) /\
       keys_okb ord (map fst es') = true /\ (forall x, In x es' -> x = (mk, e'') \/ In x es) /\
       (e'' = TCont fsp -> es' = es)) ->
    del_post true s (Some (TList es)) (StK mk :: sp') (true :: fl') kl (Some (TList es')).
  Proof.
    intros s Hw Hn Hsp' Hnk Hf (Hd1 & Hfr & _ & Hsome & Hok & Hcl & Hid & Hmono) Hes1 Hes2.
    destruct (Hsome _ eq_refl) as (t' & [= <-] & [fs'' ->]).
    pose proof Hn as Hn0. apply nwf_list in Hn0 as [Hokb Hent].
    assert (Hempty : Node.is_empty_cont (TCont fs'') = true -> fs'' = []) by (destruct fs''; [auto|discriminate]).
    split; [|split; [|split; [|split; [|split; [|split; [|split]]]]]].
    - rewrite osub_at_entry. destruct (Node.is_empty_cont (TCont fs'')) eqn:Ee.
      + rewrite Hes1. now rewrite (tl_find_remove_same ord).
      + destruct (Hes2 eq_refl) as (-> & _). exact Hd1.
    - intros q Hq1 Hq2. destruct q as [|[n|k|i] q']; [destruct Hq1; apply sprefix_nil|reflexivity| |reflexivity].
      rewrite !osub_at_entry. destruct (keys_eqb k mk) eqn:Ek.
      + apply keys_eqb_eq in Ek. subst k. rewrite Hf.
        assert (Hq1' : ~ sprefix q' sp') by (intros Hp; apply Hq1; now apply sprefix_cons).
        assert (Hq2' : ~ sprefix sp' q') by (intros Hp; apply Hq2; now apply sprefix_cons).
        rewrite <- (Hfr q' Hq1' Hq2').
        destruct (Node.is_empty_cont (TCont fs'')) eqn:Ee.
        * rewrite Hes1, (tl_find_remove_same ord); auto. rewrite (Hempty eq_refl). simpl. symmetry.
          apply sub_at_empty_cont. intros ->. apply Hq1', sprefix_nil.
        * destruct (Hes2 eq_refl) as (-> & _). reflexivity.
      + apply keys_eqb_false in Ek. destruct (Node.is_empty_cont (TCont fs'')) eqn:Ee.
        * rewrite Hes1. rewrite tl_find_remove_other; auto.
        * destruct (Hes2 eq_refl) as (_ & H2 & _). rewrite H2; auto.
    - congruence.
    - intros t [= <-]. exists (TList es'). split; auto. simpl. eauto.
    - intros Hkl. split; [|simpl; eauto]. apply nwf_list.
      destruct (Node.is_empty_cont (TCont fs'')) eqn:Ee.
      + rewrite Hes1. split; [now apply tl_remove_okb|]. intros k e Hi. apply tl_remove_In in Hi. now apply Hent.
      + destruct (Hes2 eq_refl) as (_ & _ & H3 & H4 & _). split; auto.
        intros k e Hi. destruct (H4 _ Hi) as [[= -> ->]|Hi']; [|now apply Hent].
        destruct (Hok Hkl) as [Hn'' _]. split; auto. exists fs''. split; auto.
        pose proof (tl_find_In _ _ _ Hf) as Hi0. destruct (Hent _ _ Hi0) as [(fsp0 & [= <-] & Hko) _].
        destruct (Hnk Hkl) as (g & rest & -> & Hg).
        eapply keys_ok_ext; [|exact Hko]. intros k0 fi ks Hk0 E.
        pose proof (not_key_field _ _ _ _ _ _ _ Hg Hk0 _ _ E) as Hne.
        assert (H : osub_at (Some (TCont fs'')) [StF (f_go fi)] = osub_at (Some (TCont fsp)) [StF (f_go fi)]).
        { apply Hfr; intros Hp; apply sprefix_cons_inv in Hp as [[= Hp] _]; congruence. }
        now rewrite !osub_at_field1 in H.
    - destruct sp' as [|s2 sp'']; [congruence|]. apply clean_cons. rewrite osub_at_entry1.
      destruct (Node.is_empty_cont (TCont fs'')) eqn:Ee.
      + rewrite Hes1, (tl_find_remove_same ord); auto. split; [intros _ [H|H]; discriminate | apply clean_none].
      + destruct (Hes2 eq_refl) as (-> & _). split; auto.
        intros _ [[= H]|H]; [subst fs''; discriminate | discriminate].
    - rewrite osub_at_entry, Hf. intros Habs Hclean.
      destruct sp' as [|s2 sp'']; [congruence|]. apply clean_cons in Hclean as [Hc1 Hc2].
      rewrite osub_at_entry1, Hf in Hc1, Hc2.
      pose proof (Hid Habs Hc2) as [= ->].
      destruct (Node.is_empty_cont (TCont fsp)) eqn:Ee.
      + exfalso. apply (Hc1 eq_refl). left. now rewrite (Hempty eq_refl).
      + destruct (Hes2 eq_refl) as (_ & _ & _ & _ & H5). now rewrite H5.
    - intros q Hq. destruct q as [|[n|k|i] q']; [discriminate|reflexivity| |reflexivity].
      rewrite osub_at_entry in *. destruct (keys_eqb k mk) eqn:Ek.
      + apply keys_eqb_eq in Ek. subst k. rewrite Hf in Hq.
        destruct (Node.is_empty_cont (TCont fs'')) eqn:Ee.
        * rewrite Hes1, (tl_find_remove_same ord); auto.
        * destruct (Hes2 eq_refl) as (-> & _). now apply Hmono.
      + apply keys_eqb_false in Ek. destruct (Node.is_empty_cont (TCont fs'')) eqn:Ee.
        * rewrite Hes1. rewrite tl_find_remove_other; auto.
        * destruct (Hes2 eq_refl) as (_ & H2 & _). rewrite H2; auto.
  Qed.

  Theorem del_rec_spec : forall f inl s cur p sp fl ss kl,
    swfb s = true -> cur_ok inl s cur -> addr f inl s p = Some (sp, fl, ss, kl) -> p <> [] ->
    exists c', del_rec env fo ko false f s cur p = (c', Ok tt) /\ del_post inl s cur sp fl kl c'.
  Proof.
    induction f as [|f IH]; intros inl s cur p sp fl ss kl Hw Hcur Ha Hp; [discriminate|].
    destruct p as [|e0 prest]; [congruence|]. clear Hp.
    destruct cur as [t|].
    2:{ (* nil *)
      assert (Hs : forall t d, s <> SLeaf t d).
      { intros t d ->. destruct inl; simpl in Ha; discriminate. }
      exists None. split.
      - cbn [del_rec]. destruct s; try reflexivity. now destruct (Hs t dflt).
      - split; [|split; [|split; [|split; [|split; [|split; [|split]]]]]].
        + reflexivity.
        + intros q _ _. reflexivity.
        + reflexivity.
        + discriminate.
        + intros _. exact I.
        + apply clean_none.
        + reflexivity.
        + auto. }
    destruct Hcur as [Hn Hshape]. destruct inl.
    - (* ---------------- a keyed list ---------------- *)
      apply addr_list_inv in Ha as (ord & keys & mn & mx & sfs & mk & sp' & fl' & -> & Hpk & Ha & -> & ->).
      destruct Hshape as [es ->].
      destruct (swfb_fields _ Hw) as [Hnd _]. simpl in Hnd.
      destruct (list_keys_ok_inv _ _ (swfb_list_keys _ _ _ _ _ Hw)) as (Hkne & Hkl & Hkd).
      pose proof Hn as Hn0. apply nwf_list in Hn0 as [Hokb Hent].
      assert (Heok : entries_ok env fo ko sfs keys es) by (intros k e Hi; now destruct (Hent _ _ Hi)).
      pose proof (keys_okb_NoDup _ _ Hokb) as Hdist.
      (* no entry: nothing happens *)
      assert (Hnone : tl_find mk es = None ->
                del_post true (SList ord keys mn mx sfs) (Some (TList es)) (StK mk :: sp') (true :: fl') kl (Some (TList es))).
      { intros Ef. split; [|split; [|split; [|split; [|split; [|split; [|split]]]]]].
        - now rewrite osub_at_entry, Ef.
        - intros q _ _. reflexivity.
        - congruence.
        - intros t [= <-]. exists (TList es). split; auto. simpl. eauto.
        - intros _. split; auto. simpl. eauto.
        - destruct sp' as [|s2 sp'']; [apply clean_single|]. apply clean_cons. rewrite osub_at_entry1, Ef.
          split; [intros _ [H|H]; discriminate | apply clean_none].
        - reflexivity.
        - auto. }
      (* the selected entry *)
      assert (Hsel : forall upd e,
                tl_find mk es = Some e ->
                (forall e'', tl_find mk (upd mk e'' es) = Some e'' /\
                   (forall k, k <> mk -> tl_find k (upd mk e'' es) = tl_find k es) /\
                   keys_okb ord (map fst (upd mk e'' es)) = true /\
                   (forall x, In x (upd mk e'' es) -> x = (mk, e'') \/ In x es) /\
                   (e'' = e -> upd mk e'' es = es)) ->
                exists c', del_entry upd (del_rec env fo ko false f) (SList ord keys mn mx sfs) prest mk e es = (c', Ok tt) /\
                  del_post true (SList ord keys mn mx sfs) (Some (TList es)) (StK mk :: sp') (true :: fl') kl c').
      { intros upd e Ef Hupd. pose proof (tl_find_In _ _ _ Ef) as Hi. destruct (Hent _ _ Hi) as [(fsp & -> & Hko) Hne].
        unfold del_entry. destruct prest as [|e1 prest'].
        - (* the entry itself *)
          apply addr_nil in Ha as (_ & -> & -> & _ & ->). eexists. split; [reflexivity|]. split; [|split; [|split; [|split; [|split; [|split; [|split]]]]]].
          + rewrite osub_at_entry1. apply (tl_find_remove_same ord); auto.
          + intros q Hq1 Hq2. destruct q as [|[n|k|i] q']; [destruct Hq1; apply sprefix_nil|reflexivity| |reflexivity].
            rewrite !osub_at_entry. rewrite tl_find_remove_other; auto. intros ->. apply Hq2. exists q'. reflexivity.
          + congruence.
          + intros t [= <-]. eexists. split; [reflexivity|]. simpl. eauto.
          + intros _. split; [|simpl; eauto]. apply nwf_list. split; [now apply tl_remove_okb|].
            intros k e Hi'. apply tl_remove_In in Hi'. now apply Hent.
          + apply clean_single.
          + rewrite osub_at_entry1, Ef. discriminate.
          + intros q Hq. destruct q as [|[n|k|i] q']; [discriminate|reflexivity| |reflexivity].
            rewrite osub_at_entry in *. destruct (keys_eqb k mk) eqn:Ek.
            * apply keys_eqb_eq in Ek. subst k. now rewrite (tl_find_remove_same ord).
            * apply keys_eqb_false in Ek. rewrite tl_find_remove_other; auto.
        - cbn [nil_b].
          assert (Hc : cur_ok false (SList ord keys mn mx sfs) (Some (TCont fsp))) by (split; [auto | simpl; eauto]).
          assert (Hne1 : e1 :: prest' <> []) by discriminate.
          destruct (IH false _ _ _ _ _ _ _ Hw Hc Ha Hne1) as (ce & Hce & Hpost). rewrite Hce.
          pose proof Hpost as (_ & _ & _ & Hsome & _). destruct (Hsome _ eq_refl) as (e'' & -> & _).
          eexists. split; [reflexivity|].
          assert (Hsp' : sp' <> []) by (eapply addr_nonempty; eauto).
          eapply (del_list_post ord keys mn mx sfs es mk sp' fl' kl fsp e''); eauto.
          + intros ->. destruct f as [|f0]; [discriminate|]. pose proof Ha as Ha0.
            apply addr_struct_inv in Ha0 as (sfs0 & fi & ss1 & alt & sp1 & fl1 & kl1 & _ & _ & _ & -> & _ & _).
            exists (f_go fi), sp1. split; auto. eapply addr_key_field; eauto.
          + destruct (Node.is_empty_cont e''); reflexivity.
          + intros Ee. rewrite Ee. destruct (Hupd e'') as (H1 & H2 & H3 & H4 & H5). auto 10. }
      assert (Hins : forall e'', tl_find mk es <> None ->
                tl_find mk (tl_insert mk e'' es) = Some e'' /\
                (forall k, k <> mk -> tl_find k (tl_insert mk e'' es) = tl_find k es) /\
                (ord = false -> keys_okb ord (map fst (tl_insert mk e'' es)) = true) /\
                (forall x, In x (tl_insert mk e'' es) -> x = (mk, e'') \/ In x es)).
      { intros e'' _. repeat split.
        - apply tl_find_insert_same.
        - intros k Hk. now apply tl_find_insert_other.
        - intros ->. now apply tl_insert_okb.
        - intros x Hx. now apply tl_insert_In in Hx. }
      rewrite del_rec_list. destruct ord.
      + rewrite (ordered_keys_parse_ok env fo ko sfs (ekeys e0) keys mk Hpk).
        rewrite (del_oall_spec env fo ko _ (SList true keys mn mx sfs) sfs keys (ekeys e0) prest true mk Hpk es es Heok Hdist).
        destruct (tl_find mk es) as [e|] eqn:Ef; [|eexists; split; [reflexivity | now apply Hnone]].
        apply Hsel; auto. intros e''. repeat split.
        * apply tl_find_update_same. congruence.
        * intros k Hk. now apply tl_find_update_other.
        * now rewrite ol_update_keys.
        * intros x Hx. now apply ol_update_In in Hx.
        * intros ->. now apply ol_update_present.
      + unfold del_list.
        assert (Hti : forall e e'', tl_find mk es = Some e ->
                  tl_find mk (tl_insert mk e'' es) = Some e'' /\
                  (forall k, k <> mk -> tl_find k (tl_insert mk e'' es) = tl_find k es) /\
                  keys_okb false (map fst (tl_insert mk e'' es)) = true /\
                  (forall x, In x (tl_insert mk e'' es) -> x = (mk, e'') \/ In x es) /\
                  (e'' = e -> tl_insert mk e'' es = es)).
        { intros e e'' Ef. repeat split.
          - apply tl_find_insert_same.
          - intros k Hk. now apply tl_find_insert_other.
          - now apply tl_insert_okb.
          - intros x Hx. now apply tl_insert_In in Hx.
          - intros ->. now apply tl_insert_present. }
        destruct keys as [|k [|k2 ks]]; [congruence| |].
        * assert (Hs0 : exists s0, al_find k (ekeys e0) = Some s0).
          { cbn [path_key] in Hpk. destruct (al_find k (ekeys e0)); [eauto|discriminate]. }
          destruct Hs0 as (s0 & Hs0). rewrite Hs0.
          rewrite (del_first_spec env fo ko _ (SList false [k] mn mx sfs) sfs prest false mk es k s0 (ekeys e0) Hnd Hpk
                     (Hkl k (or_introl eq_refl)) Hs0 es Heok).
          destruct (tl_find mk es) as [e|] eqn:Ef; [|eexists; split; [reflexivity | now apply Hnone]].
          apply Hsel; auto.
        * rewrite (del_all_spec env fo ko _ (SList false (k :: k2 :: ks) mn mx sfs) sfs (k :: k2 :: ks) (ekeys e0) prest false mk Hpk es es Heok Hdist).
          destruct (tl_find mk es) as [e|] eqn:Ef; [|eexists; split; [reflexivity | now apply Hnone]].
          apply Hsel; auto.
    - (* ---------------- a struct ---------------- *)
      apply addr_struct_inv in Ha as (sfs & fi & ss1 & alt & sp' & fl' & kl' & Hs & Hf & Ha & -> & -> & Hkl).
      pose proof (struct_schema_fields _ _ Hs) as Hsf.
      assert (Hfs : exists fs, t = TCont fs).
      { destruct Hs as [->|(o1 & k1 & a1 & b1 & ->)]; exact Hshape. }
      destruct Hfs as [fs ->].
      assert (Hunf : del_rec env fo ko false (S f) s (Some (TCont fs)) (e0 :: prest) = del_struct env fo ko false f sfs fs (e0 :: prest)).
      { destruct Hs as [->|(o1 & k1 & a1 & b1 & ->)]; [apply del_rec_cont | apply del_rec_entry]. }
      rewrite Hunf. clear Hunf. unfold del_struct. rewrite Hf.
      destruct (find_field_path _ _ _ _ _ _ _ Hf) as [Hin Hmp].
      destruct (swfb_fields _ Hw) as [Hnd Hsub]. rewrite Hsf in Hnd, Hsub.
      apply nwf_cont in Hn. rewrite Hsf in Hn. pose proof Hn as [Hss Hch].
      assert (Hino : In (f_go fi) (go_names sfs)) by apply (in_map (fun fs => f_go (fst fs)) _ _ Hin).
      assert (Hndf : NoDup (map fst fs)) by (eapply subseq_NoDup; eauto).
      set (to := consumed ss1 alt) in *.
      assert (Hto : (to <= length (e0 :: prest))%nat).
      { pose proof (matches_prefix_len _ _ Hmp). pose proof (consumed_le ss1 alt). unfold to. lia. }
      set (c0 := field_get (f_go fi) fs) in *.
      assert (Hc0 : cur_ok (is_keyed_list ss1) ss1 c0) by (eapply cur_ok_field; eauto).
      assert (Hshape' : forall fs', shape false s (TCont fs')).
      { intros fs'. destruct Hs as [->|(o1 & k1 & a1 & b1 & ->)]; simpl; eauto. }
      (* rebuilding the struct around the child *)
      assert (Hreb : forall c3, (forall x, c3 = Some x -> kind2 ss1 x = true /\ nwf ss1 x) ->
                nwf s (TCont (put_field (go_names sfs) (f_go fi) c3 fs))).
      { intros c3 Hc3. apply nwf_cont. rewrite Hsf. split; [now apply put_field_subseq|].
        intros nm sub Hi g sg Hg Hgn. apply put_field_In in Hi as [(x & -> & [= -> ->])|Hi]; [|eauto].
        pose proof (go_name_unique sfs Hnd _ _ _ _ Hg Hin Hgn) as [= -> ->]. auto. }
      assert (Hfrm : forall c3 sp1, (forall q, ~ sprefix q sp1 -> ~ sprefix sp1 q -> osub_at c3 q = osub_at c0 q) ->
                del_frame (Some (TCont fs)) (Some (TCont (put_field (go_names sfs) (f_go fi) c3 fs))) (StF (f_go fi) :: sp1)).
      { intros c3 sp1 H q Hq1 Hq2. destruct q as [|[nm|k|i] q']; [destruct Hq1; apply sprefix_nil| |reflexivity|reflexivity].
        rewrite !osub_at_field. destruct (str_eqb nm (f_go fi)) eqn:En.
        - apply cstr_eqb_eq in En. subst nm. rewrite put_field_get_same; auto. fold c0.
          apply H; intros Hp; [apply Hq1|apply Hq2]; now apply sprefix_cons.
        - rewrite put_field_get_other; auto. now apply str_eqb_false_neq. }
      assert (Hmon : forall c3, (forall q, osub_at c0 q = None -> osub_at c3 q = None) ->
                forall q, osub_at (Some (TCont fs)) q = None ->
                          osub_at (Some (TCont (put_field (go_names sfs) (f_go fi) c3 fs))) q = None).
      { intros c3 H q Hq. destruct q as [|[nm|k|i] q']; [discriminate| |reflexivity|reflexivity].
        rewrite osub_at_field in *. destruct (str_eqb nm (f_go fi)) eqn:En.
        - apply cstr_eqb_eq in En. subst nm. rewrite put_field_get_same; auto.
        - rewrite put_field_get_other; auto. now apply str_eqb_false_neq. }
      destruct (Nat.eqb (length (e0 :: prest)) to) eqn:Elen.
      + (* the field itself *)
        apply Nat.eqb_eq in Elen.
        assert (Hskip : skipn to (e0 :: prest) = []) by (rewrite <- Elen; apply skipn_all).
        rewrite Hskip in Ha. apply addr_nil in Ha as (_ & -> & -> & _ & ->).
        eexists. split; [reflexivity|].
        change (field_remove (f_go fi) fs) with (put_field (go_names sfs) (f_go fi) None fs).
        split; [|split; [|split; [|split; [|split; [|split; [|split]]]]]].
        * rewrite osub_at_field1. now apply put_field_get_same.
        * apply Hfrm. intros q Hq1 Hq2. destruct Hq2. apply sprefix_nil.
        * congruence.
        * intros t [= <-]. eexists. split; [reflexivity|]. apply Hshape'.
        * intros _. split; [apply Hreb; discriminate | apply Hshape'].
        * apply clean_single.
        * rewrite osub_at_field1. intros Habs _. simpl. f_equal. f_equal. now apply field_remove_absent.
        * apply Hmon. intros q Hq. reflexivity.
      + (* on the way *)
        apply Nat.eqb_neq in Elen.
        assert (Hrest : skipn to (e0 :: prest) <> []).
        { intros Hskip. apply skipn_nil_len in Hskip. lia. }
        assert (Hsp' : sp' <> []) by (eapply addr_nonempty; eauto).
        assert (Hkl' : kl = kl') by (destruct sp'; [congruence|auto]). subst kl'. clear Hkl.
        destruct (IH _ _ _ _ _ _ _ _ (Hsub _ _ Hin) Hc0 Ha Hrest) as (cc & Hcc & Hpost). fold c0. rewrite Hcc.
        destruct Hpost as (Hd1 & Hfr & Hnn & Hsome & Hok & Hcl & Hid & Hmono).
        set (c2 := prune_child ss1 cc).
        (* the pruned child *)
        assert (Hkindcc : forall x, cc = Some x -> kind2 ss1 x = true).
        { intros x ->. destruct c0 as [y|] eqn:Ec0; [|now discriminate (Hnn eq_refl)].
          destruct (Hsome _ eq_refl) as (t' & [= <-] & Hsh). eapply shape_kind2; eauto. }
        assert (Hc2 : c2 = cc \/ (c2 = None /\ is_empty_node cc /\ prunable ss1 = true)).
        { unfold c2, prune_child. destruct ss1; auto.
          - destruct cc as [[| |[|]| |]|]; auto. right. split; auto. split; [now left | reflexivity].
          - destruct ordered; auto. destruct cc as [[| | |[|]|]|]; auto. right. split; auto. split; [now right | reflexivity]. }
        assert (Hc2sub : forall q, q <> [] -> osub_at c2 q = osub_at cc q).
        { intros q Hq. destruct Hc2 as [->|(-> & [->| ->] & _)]; auto; simpl; symmetry;
            [now apply sub_at_empty_cont | now apply sub_at_empty_list]. }
        assert (Hc2ne : prunable ss1 = true -> ~ is_empty_node c2).
        { intros Hpr. unfold c2, prune_child. destruct ss1; try discriminate.
          - destruct cc as [[| |[|]| |]|]; intros [H|H]; try discriminate.
            pose proof (Hkindcc _ eq_refl). discriminate.
          - destruct ordered; [discriminate|]. destruct cc as [[| | |[|]|]|]; intros [H|H]; try discriminate.
            pose proof (Hkindcc _ eq_refl). discriminate. }
        eexists. split; [reflexivity|].
        change (match c2 with Some x => field_set (go_names sfs) (f_go fi) x fs | None => field_remove (f_go fi) fs end)
          with (put_field (go_names sfs) (f_go fi) c2 fs).
        split; [|split; [|split; [|split; [|split; [|split; [|split]]]]]].
        * rewrite osub_at_field, put_field_get_same; auto. rewrite Hc2sub; auto.
        * apply Hfrm. intros q Hq1 Hq2. rewrite Hc2sub; [now apply Hfr|]. intros ->. apply Hq1, sprefix_nil.
        * congruence.
        * intros t [= <-]. eexists. split; [reflexivity|]. apply Hshape'.
        * intros Hk. split; [|apply Hshape']. apply Hreb. intros x Hx. destruct Hc2 as [E|(E & _)]; [|congruence].
          rewrite E in Hx. pose proof (Hok Hk) as Hcq. rewrite Hx in Hcq. destruct Hcq as [Hn3 Hs3].
          split; auto; eapply shape_kind2; eauto.
        * destruct sp' as [|s2 sp'']; [congruence|]. apply clean_cons.
          rewrite osub_at_field1, put_field_get_same; auto. split; auto.
          destruct Hc2 as [->|(-> & _)]; [exact Hcl | apply clean_none].
        * rewrite osub_at_field. fold c0. intros Habs Hclean.
          destruct sp' as [|s2 sp'']; [congruence|]. apply clean_cons in Hclean as [Hc1 Hc2'].
          rewrite osub_at_field1 in Hc1, Hc2'. fold c0 in Hc1, Hc2'.
          pose proof (Hid Habs Hc2') as ->.
          destruct Hc2 as [->|(_ & He & Hpr)]; [|now destruct (Hc1 Hpr)].
          simpl. f_equal. f_equal. unfold c0. now apply put_field_same.
        * apply Hmon. intros q Hq. destruct Hc2 as [->|(-> & _)]; auto.
  Qed.
End DelSpec.
(* ====================================================================================== *)
(* 3. The payload of a leaf update                                                        *)
(* ====================================================================================== *)

Lemma dec_tv_kind_nil ko k : dec_tv_kind ko k TVNil = Err.
Proof. destruct k; reflexivity. Qed.
Lemma dec_tv_first_nil ko tol : forall ks, dec_tv_first ko tol ks TVNil = Err.
Proof.
  induction ks as [|k ks IH]; [reflexivity|]. cbn [dec_tv_first].
  assert (E : tol_rewrite tol k TVNil = TVNil) by (destruct k; reflexivity). rewrite E, dec_tv_kind_nil. exact IH.
Qed.
Lemma decode_tv_nil env ko tol : forall t, decode_tv env ko tol t TVNil = Err.
Proof.
  assert (K : forall k, dec_tv_kind ko k (tol_rewrite tol k TVNil) = Err).
  { intros k. assert (E : tol_rewrite tol k TVNil = TVNil) by (destruct k; reflexivity). rewrite E. apply dec_tv_kind_nil. }
  induction t; cbn [decode_tv kind_of_type]; auto.
  destruct (enum_types (YUnion ms)); [destruct (dedup_kinds (union_kinds (YUnion ms)) []) as [|k [|]]|]; auto;
    apply dec_tv_first_nil.
Qed.
Lemma decode_tv_not_nil env ko tol t tv v : decode_tv env ko tol t tv = Ok v -> tv_is_nil tv = false.
Proof. destruct tv; auto. rewrite decode_tv_nil. discriminate. Qed.

(* a TypedValue other than json_ietf_val on a leaf: the decoded scalar *)
Lemma set_leaf_scalar env fo ko o tv ty d c nl :
  (forall j, tv <> TVJsonIetf j) ->
  set_leaf env fo ko o tv (SLeaf ty d) c = (nl, Ok tt) ->
  exists v, decode_tv env ko (s_tol_json o) ty tv = Ok v /\ nl = Some (TLeaf v).
Proof.
  intros Hj. unfold set_leaf.
  destruct tv; try (now destruct (Hj j)); try discriminate;
    (destruct (decode_tv env ko (s_tol_json o) ty _) as [v| |]; intros [= <-]; eauto).
Qed.

(* a json_ietf_val on a leaf: the scalar decoded from the JSON value; null changes nothing *)
Lemma set_leaf_json env fo ko o j ty d c nl :
  set_leaf env fo ko o (TVJsonIetf j) (SLeaf ty d) c = (nl, Ok tt) ->
  (j = JNull /\ nl = c) \/ (j <> JNull /\ exists v, dec_json env fo ty j = Ok v /\ nl = Some (TLeaf v)).
Proof.
  unfold set_leaf. replace (jdepth j + 2)%nat with (S (S (jdepth j))) by lia. cbn [unm_node].
  destruct j; try (intros [= <-]; now left);
    (destruct (dec_json env fo ty _) as [v| |]; cbn [bind]; intros [= <-]; right; split; [discriminate|eauto]).
Qed.

(* a leaflist_val on a leaf-list: all elements, decoded *)
Lemma decode_leaflist_ok env ko tol t : forall l acc vs,
  decode_leaflist env ko tol t l acc = (vs, Ok tt) ->
  exists ws, mapM (decode_tv env ko tol t) l = Ok ws /\ vs = acc ++ ws.
Proof.
  induction l as [|x rest IH]; intros acc vs H; simpl in H.
  - injection H as <-. exists []. now rewrite app_nil_r.
  - destruct (decode_tv env ko tol t x) as [v| |] eqn:E; try discriminate.
    apply IH in H as (ws & Hm & ->). exists (v :: ws). simpl. rewrite E, Hm. simpl. split; auto.
    now rewrite <- app_assoc.
Qed.
Lemma set_leaf_leaflist env fo ko o l ty mn mx c nl :
  set_leaf env fo ko o (TVLeafList l) (SLeafList ty mn mx) c = (nl, Ok tt) ->
  exists vs, l <> [] /\ mapM (decode_tv env ko (s_tol_json o) ty) l = Ok vs /\ nl = Some (TLeafList vs).
Proof.
  unfold set_leaf. destruct l as [|x l']; [discriminate|]. cbn [nil_b].
  destruct (decode_leaflist env ko (s_tol_json o) ty (x :: l') []) as [vs r] eqn:E. intros [= <- ->].
  apply decode_leaflist_ok in E as (ws & Hm & ->). exists ws. split; [discriminate|]. split; auto.
  simpl. simpl in Hm. destruct (decode_tv env ko (s_tol_json o) ty x); try discriminate. simpl in Hm.
  destruct (mapM (decode_tv env ko (s_tol_json o) ty) l'); try discriminate. injection Hm as <-. reflexivity.
Qed.

(* ====================================================================================== *)
(* 4. SetNode / GetNode / DeleteNode on a root                                            *)
(* ====================================================================================== *)

Section Top.
  Variable env : enum_env.
  Variable fo : float_oracle.
  Variable ko : key_oracle.
  Notation nwf := (nwf env fo ko).
  Notation addr_of := (addr_of env fo ko).

  (* a root: a container struct that satisfies the tree guard *)
  Definition root_okb (S : schema) (t : tree) : bool :=
    match S, t with SCont _, TCont _ => nwfb env fo ko S t | _, _ => false end.
  Definition root_ok (S : schema) (t : tree) : Prop :=
    (exists sfs, S = SCont sfs) /\ (exists fs, t = TCont fs) /\ nwf S t.

  Lemma root_okb_sound S t : swfb S = true -> root_okb S t = true -> root_ok S t.
  Proof.
    intros Hw H. destruct S; try discriminate. destruct t; try discriminate. unfold root_okb in H.
    split; [eauto|]. split; [eauto|]. now apply nwfb_sound.
  Qed.
  Lemma root_cur_ok S t : root_ok S t -> cur_ok env fo ko false S (Some t).
  Proof. intros ((sfs & ->) & (fs & ->) & Hn). split; auto. simpl. eauto. Qed.
  Lemma cur_ok_root S t : (exists sfs, S = SCont sfs) -> cur_ok env fo ko false S (Some t) -> root_ok S t.
  Proof. intros (sfs & ->) [Hn Hs]. split; [eauto|]. split; auto. Qed.

  Lemma root_path_nonempty S t p sp fl ss kl :
    root_ok S t -> addr_of S p = Some (sp, fl, ss, kl) -> is_leafish ss = true -> p <> [].
  Proof.
    intros ((sfs & ->) & _) Ha Hl ->. apply addr_nil in Ha as (_ & _ & _ & -> & _). discriminate.
  Qed.

  (* ---------- GetNode ---------- *)
  Theorem get_node_at o S t p sp fl ss kl :
    g_shadow o = false -> g_wild o = false -> swfb S = true -> root_ok S t ->
    addr_of S p = Some (sp, fl, ss, kl) ->
    get_post o (sub_at t sp) (get_node env fo ko o S t p).
  Proof.
    intros Hsh Hwi Hw Hr Ha. unfold get_node.
    exact (get_rec_spec env fo ko o Hsh Hwi _ _ _ _ _ [] _ _ _ _ Hw (root_cur_ok _ _ Hr) Ha).
  Qed.

  (* ---------- SetNode on a leaf ---------- *)
  Section SetLeaf.
    Variable o : set_opts.
    Variable og : get_opts.
    Hypothesis Hsh : s_shadow o = false.
    Hypothesis Hig : s_ignore_extra o = false.
    Hypothesis Hgs : g_shadow og = false.
    Hypothesis Hgw : g_wild og = false.

    (* the general form: the new value of the node is what set_leaf computes from the old one *)
    Theorem set_node_at tv S t p sp fl ss t' :
      tv_is_nil tv = false -> swfb S = true -> root_ok S t ->
      addr_of S p = Some (sp, fl, ss, false) -> is_leafish ss = true ->
      set_node env fo ko o tv S t p = Ok t' ->
      exists nl, set_leaf env fo ko o tv ss (sub_at t sp) = (nl, Ok tt)
        /\ sub_at t' sp = nl /\ root_ok S t' /\ frame (Some t) (Some t') sp
        /\ get_post og nl (get_node env fo ko og S t' p).
    Proof.
      intros Hnil Hw Hr Ha Hl Hset.
      pose proof (root_path_nonempty _ _ _ _ _ _ _ Hr Ha Hl) as Hp.
      destruct (set_node_frame env fo ko o tv S t p sp fl ss t' Hsh Hig Hnil Hw (root_cur_ok _ _ Hr) Ha Hl Hp Hset)
        as (nl & Hsl & Hnl & Hc & Hfr).
      assert (Hr' : root_ok S t') by (apply cur_ok_root; auto; apply Hr).
      exists nl. repeat split; auto; try apply Hr'. rewrite <- Hnl. eapply get_node_at; eauto.
    Qed.

    Theorem get_after_set tv S t p sp fl ty d v t' :
      swfb S = true -> root_ok S t ->
      addr_of S p = Some (sp, fl, SLeaf ty d, false) ->
      (forall j, tv <> TVJsonIetf j) -> decode_tv env ko (s_tol_json o) ty tv = Ok v ->
      set_node env fo ko o tv S t p = Ok t' ->
      sub_at t' sp = Some (TLeaf v)
      /\ (exists q, get_node env fo ko og S t' p = Ok [{| gn_path := q; gn_data := Some (TLeaf v) |}])
      /\ root_ok S t' /\ frame (Some t) (Some t') sp.
    Proof.
      intros Hw Hr Ha Hj Hd Hset.
      destruct (set_node_at tv S t p sp fl _ t' (decode_tv_not_nil _ _ _ _ _ _ Hd) Hw Hr Ha eq_refl Hset)
        as (nl & Hsl & Hnl & Hr' & Hfr & Hg).
      apply set_leaf_scalar in Hsl as (v' & Hd' & ->); auto. rewrite Hd in Hd'. injection Hd' as <-.
      repeat split; auto; apply Hr'.
    Qed.

    Theorem get_after_set_json j S t p sp fl ty d v t' :
      swfb S = true -> root_ok S t ->
      addr_of S p = Some (sp, fl, SLeaf ty d, false) ->
      j <> JNull -> dec_json env fo ty j = Ok v ->
      set_node env fo ko o (TVJsonIetf j) S t p = Ok t' ->
      sub_at t' sp = Some (TLeaf v)
      /\ (exists q, get_node env fo ko og S t' p = Ok [{| gn_path := q; gn_data := Some (TLeaf v) |}])
      /\ root_ok S t' /\ frame (Some t) (Some t') sp.
    Proof.
      intros Hw Hr Ha Hj Hd Hset.
      destruct (set_node_at (TVJsonIetf j) S t p sp fl _ t' eq_refl Hw Hr Ha eq_refl Hset)
        as (nl & Hsl & Hnl & Hr' & Hfr & Hg).
      apply set_leaf_json in Hsl as [[-> _]|(_ & v' & Hd' & ->)]; [congruence|].
      rewrite Hd in Hd'. injection Hd' as <-. repeat split; auto; apply Hr'.
    Qed.

    Theorem get_after_set_leaflist tvs S t p sp fl ty mn mx t' :
      swfb S = true -> root_ok S t ->
      addr_of S p = Some (sp, fl, SLeafList ty mn mx, false) ->
      set_node env fo ko o (TVLeafList tvs) S t p = Ok t' ->
      exists vs, tvs <> [] /\ mapM (decode_tv env ko (s_tol_json o) ty) tvs = Ok vs
      /\ sub_at t' sp = Some (TLeafList vs)
      /\ (exists q, get_node env fo ko og S t' p = Ok [{| gn_path := q; gn_data := Some (TLeafList vs) |}])
      /\ root_ok S t' /\ frame (Some t) (Some t') sp.
    Proof.
      intros Hw Hr Ha Hset.
      destruct (set_node_at (TVLeafList tvs) S t p sp fl _ t' eq_refl Hw Hr Ha eq_refl Hset)
        as (nl & Hsl & Hnl & Hr' & Hfr & Hg).
      apply set_leaf_leaflist in Hsl as (vs & Hne & Hm & ->). exists vs. repeat split; auto; apply Hr'.
    Qed.
  End SetLeaf.

  (* ---------- DeleteNode ---------- *)
  Lemma delete_root S fs : delete_node env fo ko false S (TCont fs) [] = Ok (TCont []).
  Proof. reflexivity. Qed.

  Theorem delete_node_at S t p sp fl ss kl :
    swfb S = true -> root_ok S t -> addr_of S p = Some (sp, fl, ss, kl) -> p <> [] ->
    exists t', delete_node env fo ko false S t p = Ok t'
      /\ (forall q, sprefix sp q -> sub_at t' q = None)
      /\ del_frame (Some t) (Some t') sp
      /\ (kl = false -> root_ok S t')
      /\ clean (Some t') sp fl
      /\ (sub_at t sp = None -> clean (Some t) sp fl -> t' = t)
      /\ (forall q, sub_at t q = None -> sub_at t' q = None).
  Proof.
    intros Hw Hr Ha Hp.
    destruct (del_rec_spec env fo ko _ _ _ _ _ _ _ _ _ Hw (root_cur_ok _ _ Hr) Ha Hp) as (c' & Hd & Hpost).
    destruct Hpost as (Hd1 & Hfr & _ & Hsome & Hok & Hcl & Hid & Hmono).
    destruct (Hsome _ eq_refl) as (t' & -> & _).
    exists t'. split; [unfold delete_node, delete_node_st; now rewrite Hd|].
    split; [|split; [|split; [|split; [|split]]]]; auto.
    - intros q [r ->]. change (osub_at (Some t') (sp ++ r) = None). now rewrite osub_at_app, Hd1.
    - intros Hk. apply cur_ok_root; auto. apply Hr.
    - intros Habs Hc. now injection (Hid Habs Hc).
  Qed.

  (* after the deletion GetNode finds nothing at the path *)
  Theorem get_after_delete og S t p sp fl ss t' :
    g_shadow og = false -> g_wild og = false -> g_tolerate_nil og = true ->
    swfb S = true -> root_ok S t -> addr_of S p = Some (sp, fl, ss, false) -> p <> [] ->
    delete_node env fo ko false S t p = Ok t' ->
    exists ns, get_node env fo ko og S t' p = Ok ns /\ nil_nodes ns.
  Proof.
    intros Hgs Hgw Hgt Hw Hr Ha Hp Hd.
    destruct (delete_node_at S t p sp fl ss false Hw Hr Ha Hp) as (t1 & Hd1 & Hsub & _ & Hr' & _).
    rewrite Hd in Hd1. injection Hd1 as <-.
    pose proof (get_node_at og S t' p sp fl ss false Hgs Hgw Hw (Hr' eq_refl) Ha) as Hg.
    rewrite (Hsub sp (sprefix_refl sp)) in Hg. exact (Hg Hgt).
  Qed.

  (* deleting twice is deleting once *)
  Theorem delete_idempotent S t p sp fl ss t' :
    swfb S = true -> root_ok S t -> addr_of S p = Some (sp, fl, ss, false) -> p <> [] ->
    delete_node env fo ko false S t p = Ok t' -> delete_node env fo ko false S t' p = Ok t'.
  Proof.
    intros Hw Hr Ha Hp Hd.
    destruct (delete_node_at S t p sp fl ss false Hw Hr Ha Hp) as (t1 & Hd1 & Hsub & _ & Hr' & Hcl & _).
    rewrite Hd in Hd1. injection Hd1 as <-.
    destruct (delete_node_at S t' p sp fl ss false Hw (Hr' eq_refl) Ha Hp) as (t2 & Hd2 & _ & _ & _ & _ & Hid & _).
    rewrite Hd2. f_equal. apply Hid; auto. apply Hsub, sprefix_refl.
  Qed.

  (* ---------- sequences ---------- *)
  Fixpoint set_seq (o : set_opts) (S : schema) (t : tree) (ops : list (dpath * tval)) : result tree :=
    match ops with
    | [] => Ok t
    | (p, tv) :: r => bind (set_node env fo ko o tv S t p) (fun t1 => set_seq o S t1 r)
    end.
  Fixpoint del_seq (S : schema) (t : tree) (ps : list dpath) : result tree :=
    match ps with
    | [] => Ok t
    | p :: r => bind (delete_node env fo ko false S t p) (fun t1 => del_seq S t1 r)
    end.

  (* a leaf / leaf-list path (not a key leaf) with its address, and a payload *)
  Definition set_op_ok (S : schema) (op : dpath * tval) (sp : list step) : Prop :=
    exists fl ss, addr_of S (fst op) = Some (sp, fl, ss, false) /\ is_leafish ss = true /\ tv_is_nil (snd op) = false.
  Definition del_op_ok (S : schema) (p : dpath) (sp : list step) : Prop :=
    p <> [] /\ exists fl ss, addr_of S p = Some (sp, fl, ss, false).

  Lemma set_seq_app o S : forall a b t, set_seq o S t (a ++ b) = bind (set_seq o S t a) (fun t1 => set_seq o S t1 b).
  Proof.
    induction a as [|[p tv] a IH]; intros b t; [reflexivity|]. simpl.
    destruct (set_node env fo ko o tv S t p); simpl; auto.
  Qed.

  Theorem set_seq_history o S : s_shadow o = false -> s_ignore_extra o = false -> swfb S = true ->
    forall ops sps t t', Forall2 (set_op_ok S) ops sps -> root_ok S t -> set_seq o S t ops = Ok t' ->
    root_ok S t' /\
    forall q, (forall sp, In sp sps -> ~ sprefix q sp) ->
      sub_at t' q = sub_at t q \/ (sub_at t q = None /\ exists sp, In sp sps /\ created_key sp q (sub_at t' q)).
  Proof.
    intros Hsh Hig Hw. induction ops as [|[p tv] ops IH]; intros sps t t' Hf Hr Hs.
    - injection Hs as <-. split; auto.
    - inversion Hf as [|x sp l sps' (fl & ss & Ha & Hl & Hn) Hf']; subst. simpl in Hs, Ha, Hl, Hn.
      destruct (set_node env fo ko o tv S t p) as [t1| |] eqn:E1; try discriminate. simpl in Hs.
      pose proof (root_path_nonempty _ _ _ _ _ _ _ Hr Ha Hl) as Hp.
      destruct (set_node_frame env fo ko o tv S t p sp fl ss t1 Hsh Hig Hn Hw (root_cur_ok _ _ Hr) Ha Hl Hp E1)
        as (nl & _ & _ & Hc1 & Hfr).
      assert (Hr1 : root_ok S t1) by (apply cur_ok_root; auto; apply Hr).
      destruct (IH _ _ _ Hf' Hr1 Hs) as [Hr' Hrest]. split; auto.
      intros q Hq.
      assert (Hq1 : ~ sprefix q sp) by (apply Hq; now left).
      assert (Hq2 : forall sp0, In sp0 sps' -> ~ sprefix q sp0) by (intros sp0 Hi; apply Hq; now right).
      destruct (Hrest q Hq2) as [E|[En (sp0 & Hi & Hck)]]; destruct (Hfr q Hq1) as [E'|[En' Hck']]; simpl in *.
      + left. congruence.
      + right. split; auto. exists sp. split; auto. now rewrite E.
      + right. split; [congruence|]. exists sp0. auto.
      + right. split; auto. exists sp0. auto.
  Qed.

  (* the value a path holds at the end is the one set last *)
  Theorem set_seq_last o og S : s_shadow o = false -> s_ignore_extra o = false ->
    g_shadow og = false -> g_wild og = false -> swfb S = true ->
    forall ops1 p tv ops2 sps1 sps2 t t' sp fl ty d v,
    Forall2 (set_op_ok S) ops1 sps1 -> Forall2 (set_op_ok S) ops2 sps2 -> root_ok S t ->
    addr_of S p = Some (sp, fl, SLeaf ty d, false) ->
    (forall j, tv <> TVJsonIetf j) -> decode_tv env ko (s_tol_json o) ty tv = Ok v ->
    (forall sp', In sp' sps2 -> ~ sprefix sp sp') ->
    set_seq o S t (ops1 ++ (p, tv) :: ops2) = Ok t' ->
    sub_at t' sp = Some (TLeaf v)
    /\ exists q, get_node env fo ko og S t' p = Ok [{| gn_path := q; gn_data := Some (TLeaf v) |}].
  Proof.
    intros Hsh Hig Hgs Hgw Hw ops1 p tv ops2 sps1 sps2 t t' sp fl ty d v Hf1 Hf2 Hr Ha Hj Hd Hlater Hs.
    rewrite set_seq_app in Hs. destruct (set_seq o S t ops1) as [t1| |] eqn:E1; try discriminate.
    destruct (set_seq_history o S Hsh Hig Hw _ _ _ _ Hf1 Hr E1) as [Hr1 _].
    simpl in Hs. destruct (set_node env fo ko o tv S t1 p) as [t2| |] eqn:E2; try discriminate. simpl in Hs.
    destruct (get_after_set o og Hsh Hig Hgs Hgw tv S t1 p sp fl ty d v t2 Hw Hr1 Ha Hj Hd E2) as (Hv & _ & Hr2 & _).
    destruct (set_seq_history o S Hsh Hig Hw _ _ _ _ Hf2 Hr2 Hs) as [Hr' Hrest].
    assert (Hfin : sub_at t' sp = Some (TLeaf v)).
    { destruct (Hrest sp Hlater) as [E|[En _]]; congruence. }
    split; auto. pose proof (get_node_at og S t' p sp fl _ false Hgs Hgw Hw Hr' Ha) as Hg.
    rewrite Hfin in Hg. exact Hg.
  Qed.

  Theorem del_seq_history S : swfb S = true ->
    forall ps sps t, Forall2 (del_op_ok S) ps sps -> root_ok S t ->
    exists t', del_seq S t ps = Ok t' /\ root_ok S t'
      /\ (forall sp q, In sp sps -> sprefix sp q -> sub_at t' q = None)
      /\ (forall q, (forall sp, In sp sps -> ~ sprefix q sp /\ ~ sprefix sp q) -> sub_at t' q = sub_at t q)
      /\ (forall q, sub_at t q = None -> sub_at t' q = None).
  Proof.
    intros Hw. induction ps as [|p ps IH]; intros sps t Hf Hr.
    - inversion Hf; subst. exists t. split; [reflexivity|]. split; auto. split; [intros ? ? []|]. split; auto.
    - inversion Hf as [|x sp l sps' (Hp & fl & ss & Ha) Hf']; subst.
      destruct (delete_node_at S t p sp fl ss false Hw Hr Ha Hp) as (t1 & Hd1 & Hsub & Hfr & Hr1 & _ & _ & Hmono).
      destruct (IH _ _ Hf' (Hr1 eq_refl)) as (t' & Hd & Hr' & Hgone & Hkeep & Hmono').
      exists t'. split; [simpl; now rewrite Hd1|]. split; auto. split; [|split].
      + intros sp0 q [<-|Hi] Hpre; [apply Hmono'; now apply Hsub | eapply Hgone; eauto].
      + intros q Hq. rewrite Hkeep by (intros sp0 Hi; apply Hq; now right).
        destruct (Hq sp (or_introl eq_refl)) as [H1 H2]. exact (Hfr q H1 H2).
      + intros q Hn. apply Hmono', Hmono, Hn.
  Qed.
End Top.
(* ====================================================================================== *)
(* 5. The same through MergeJson.leaf_at                                                  *)
(* ====================================================================================== *)

(* the leaf value of a subtree, as MergeJson.leaf_at reports it *)
Definition lv_of (x : option tree) : option lvalue :=
  match x with
  | Some (TLeaf v) => Some (LvLeaf v)
  | Some (TLeafList vs) => Some (LvList vs)
  | Some (TCont []) => Some LvEmpty
  | _ => None
  end.
Definition no_index (p : list step) : Prop := forall i, ~ In (StI i) p.

Lemma leaf_at_sub_at : forall p t, no_index p -> leaf_at t p = lv_of (sub_at t p).
Proof.
  induction p as [|[n|k|i] p IH]; intros t Hp.
  - reflexivity.
  - assert (Hp' : no_index p) by (intros i Hi; apply (Hp i); now right).
    simpl. destruct t; auto. destruct (field_get n fs); auto.
  - assert (Hp' : no_index p) by (intros i Hi; apply (Hp i); now right).
    simpl. destruct t; auto. destruct (tl_find k es); auto.
  - destruct (Hp i). now left.
Qed.

Lemma set_frame_leaf_at t t' sp q lv :
  frame (Some t) (Some t') sp -> no_index q -> ~ sprefix q sp ->
  (leaf_at t q = Some lv -> leaf_at t' q = Some lv)
  /\ (leaf_at t' q = Some lv -> leaf_at t q = Some lv \/ exists v, lv = LvLeaf v /\ created_key sp q (Some (TLeaf v))).
Proof.
  intros Hfr Hq Hn. rewrite !leaf_at_sub_at by auto.
  destruct (Hfr q Hn) as [E|[En Hck]]; simpl in E || simpl in En, Hck.
  - rewrite E. auto.
  - rewrite En. split; [discriminate|]. intros Hl. right.
    destruct Hck as (a & mk & rest & g & v & Hsp & Hqe & Hx & Hv). rewrite Hx in Hl. injection Hl as <-.
    exists v. split; auto. exists a, mk, rest, g, v. auto.
Qed.

Lemma del_frame_leaf_at t t' sp q :
  del_frame (Some t) (Some t') sp -> no_index q -> ~ sprefix q sp -> ~ sprefix sp q ->
  leaf_at t' q = leaf_at t q.
Proof.
  intros Hfr Hq H1 H2. rewrite !leaf_at_sub_at by auto. specialize (Hfr q H1 H2). simpl in Hfr. now rewrite Hfr.
Qed.
