(* GnmiRtOrdProofs.v — C02 for trees with `ordered-by user` lists in the shape accepted by
   GnmiRtOrd.gn_treeb_ord: TogNMINotifications is total on them (render_total_ord) and
   UnmarshalNotifications of its output into an empty root rebuilds the tree exactly, the order
   of the ordered-list entries included (roundtrip_ord), by induction over trees.
   How: the notifications are the plain one (all leaves outside ordered lists), then one atomic
   notification per ordered list.  (a) The plain part of the tree (plain_t: ordered lists cut
   out, emptied containers pruned) is a tree of the old guard GnmiRt.gn_treeb with exactly the
   plain leaves (plain_guard), so GnmiRtProofs.rebuild_all rebuilds it from the first
   notification.  (b) Each atomic notification is a group (grp): DeleteNode of its prefix, which
   inside the guard addresses a node that does not exist yet and changes nothing (del_noop),
   then its updates, which create the container and append the entries in order (AppendNew:
   olist_step_new / olist_step_hit).  The groups are lifted from a node to its parent struct
   (lift_chain) and through a Go-map entry standing anywhere in its list (lift_chain_list); the
   induction is rebuild_ord, the states between two groups are described by their field lookups
   (fields_ext). *)
From Ygot Require Import Tree.Tree Scalar.Dec Scalar.Base64 Tree.Codec Tree.CodecProofs.
From Ygot Require Import Tree.TreeOps Tree.Render Tree.Unmarshal Tree.RoundTrip Tree.RoundTripObjProofs Tree.RoundTripProofs.
From Ygot Require Import Tree.KeyCodec Tree.Leaves Tree.Notif Tree.Node Tree.SetReq Path.PathRel.
From Ygot Require Import Tree.KeyCodecProofs Tree.NodeStepProofs Tree.GnmiRt Tree.GnmiRtProofs Tree.GnmiRtOrd.
From Ygot Require Tree.NodeFrameProofs.   (* gotype_key_agree only; not imported *)
(* ====================================================================================== *)
(* 1. Field lists and entry lists                                                          *)
(* ====================================================================================== *)

Lemma field_remove_absent n : forall fs, field_get n fs = None -> field_remove n fs = fs.
Proof.
  induction fs as [|[m t] r IH]; simpl; intros H; [reflexivity|].
  destruct (str_eqb m n); [discriminate|]. now rewrite IH.
Qed.

(* writing back the value a sorted field list holds *)
Lemma field_set_same : forall order fs n c,
  NoDup order -> subseq (map fst fs) order -> field_get n fs = Some c ->
  field_set order n c fs = fs.
Proof.
  intros order fs n c Hd Hs Hg.
  pose proof (field_set_restrict order fs (map fst fs) n c Hd Hs (field_get_Some_In n c fs Hg)) as H.
  rewrite (restrict_all (map fst fs) fs) in H by auto.
  rewrite H. apply restrict_all. intros m Hm. now right.
Qed.

Lemma field_get_names n fs : field_get n fs <> None -> In n (map fst fs).
Proof.
  induction fs as [|[m t] r IH]; simpl; [congruence|].
  destruct (str_eqb m n) eqn:E; [apply cstr_eqb_eq in E; auto | auto].
Qed.

(* two sorted field lists with the same lookups are equal *)
Lemma fields_ext : forall order (a b : list (str * tree)),
  NoDup order -> subseq (map fst a) order -> subseq (map fst b) order ->
  (forall m, field_get m a = field_get m b) -> a = b.
Proof.
  induction order as [|o order IH]; intros a b Hd Ha Hb He.
  - apply subseq_nil_r in Ha. apply subseq_nil_r in Hb. destruct a, b; try discriminate. reflexivity.
  - inversion Hd as [|? ? Ho Hd']; subst.
    destruct (sorted_cases o order a Hd Ha) as [(ta & ra & -> & Hra & Hna)|[Ha' Hna]];
    destruct (sorted_cases o order b Hd Hb) as [(tb & rb & -> & Hrb & Hnb)|[Hb' Hnb]].
    + pose proof (He o) as E. simpl in E. rewrite cstr_eqb_refl in E. injection E as ->.
      f_equal. apply (IH ra rb Hd' Hra Hrb). intros m. specialize (He m). simpl in He.
      destruct (str_eqb o m) eqn:Em; [|exact He].
      apply cstr_eqb_eq in Em. subst m.
      destruct (field_get o ra) eqn:G1; [exfalso; apply Hna, field_get_names; congruence|].
      destruct (field_get o rb) eqn:G2; [exfalso; apply Hnb, field_get_names; congruence|]. reflexivity.
    + exfalso. pose proof (He o) as E. simpl in E. rewrite cstr_eqb_refl in E.
      apply Hnb, field_get_names. congruence.
    + exfalso. pose proof (He o) as E. simpl in E. rewrite cstr_eqb_refl in E.
      apply Hna, field_get_names. congruence.
    + apply (IH a b Hd' Ha' Hb' He).
Qed.

Lemma field_set_nonempty order n c fs : field_set order n c fs <> [].
Proof.
  revert fs. induction order as [|o order IH]; intros fs; simpl.
  - destruct fs; discriminate.
  - destruct (str_eqb o n).
    + destruct fs as [|[n0 t0] r]; [discriminate|]. destruct (str_eqb n0 n); discriminate.
    + destruct fs as [|[n0 t0] r]; [discriminate|]. destruct (str_eqb n0 o); [discriminate | apply IH].
Qed.

(* replacing the entry stored under mk, anywhere in a Go map kept in canonical order *)
Lemma tl_insert_mid mk x y post : forall pre,
  (forall k0 e0, In (k0, e0) pre -> keys_eqb mk k0 = false /\ keys_cmp mk k0 <> Lt) ->
  tl_insert mk x (pre ++ (mk, y) :: post) = pre ++ (mk, x) :: post.
Proof.
  induction pre as [|[k' e'] r IH]; intros H; simpl.
  - now rewrite keys_eqb_refl.
  - destruct (H k' e' (or_introl eq_refl)) as [H1 H2]. rewrite H1.
    rewrite IH by (intros k0 e0 Hin; eapply H; right; eauto).
    destruct (keys_cmp mk k'); auto. contradiction.
Qed.

Lemma ol_update_last mk x y : forall pre,
  (forall k0 e0, In (k0, e0) pre -> keys_eqb mk k0 = false) ->
  ol_update mk x (pre ++ [(mk, y)]) = pre ++ [(mk, x)].
Proof.
  induction pre as [|[k' e'] r IH]; intros H; simpl.
  - now rewrite keys_eqb_refl.
  - rewrite (H k' e' (or_introl eq_refl)). f_equal. apply IH. intros k0 e0 Hin. eapply H. right. eauto.
Qed.

Lemma tl_find_none mk : forall es, (forall k0 e0, In (k0, e0) es -> keys_eqb mk k0 = false) -> tl_find mk es = None.
Proof.
  induction es as [|[k' e'] r IH]; intros H; [reflexivity|]. simpl.
  rewrite (H k' e' (or_introl eq_refl)). apply IH. intros k0 e0 Hin. eapply H. right. eauto.
Qed.

Lemma keys_eqb_neq a b : a <> b -> keys_eqb a b = false.
Proof. intros H. destruct (keys_eqb a b) eqn:E; auto. apply keys_eqb_eq in E. contradiction. Qed.

Lemma subseq_tail {A} (x : A) a l : subseq (x :: a) l -> subseq a l.
Proof.
  intros H. remember (x :: a) as xa eqn:E. revert E. induction H; intros E; try discriminate.
  - injection E as -> ->. now constructor.
  - constructor. auto.
Qed.

Lemma subseq_subseqb : forall l a, subseq a l -> subseqb a l = true.
Proof.
  induction l as [|y l IH]; intros a H.
  - apply subseq_nil_r in H. now subst.
  - destruct a as [|x a]; [reflexivity|]. simpl. destruct (str_eqb x y) eqn:E.
    + apply cstr_eqb_eq in E. subst y. apply IH. inversion H; subst; auto. eapply subseq_tail; eauto.
    + apply IH. inversion H; subst; auto. rewrite cstr_eqb_refl in E. discriminate.
Qed.

Lemma subseq_trans {A} : forall (l b a : list A), subseq a b -> subseq b l -> subseq a l.
Proof.
  induction l as [|y l IH]; intros b a Hab Hbl.
  - apply subseq_nil_r in Hbl. subst. exact Hab.
  - inversion Hbl; subst.
    + apply subseq_nil_r in Hab. subst. constructor.
    + inversion Hab; subst.
      * constructor.
      * constructor. eapply IH; eauto.
      * constructor. eapply IH; eauto.
    + constructor. eapply IH; eauto.
Qed.

(* ====================================================================================== *)
(* 2. DeleteNode: which field, one step                                                    *)
(* ====================================================================================== *)

Lemma o_is_prefixb_trans a : forall b c, is_prefixb a b = true -> is_prefixb b c = true -> is_prefixb a c = true.
Proof.
  induction a as [|x a IH]; intros [|y b] [|z c]; simpl; intros H1 H2; try discriminate; auto.
  apply andb_true_iff in H1 as [E1 H1]. apply andb_true_iff in H2 as [E2 H2].
  apply cstr_eqb_eq in E1. apply cstr_eqb_eq in E2. subst. rewrite cstr_eqb_refl. simpl. eauto.
Qed.

Lemma names_agree_cases pre : forall path, names_agree pre path = true ->
  is_prefixb pre (pnames path) = true \/ is_prefixb (pnames path) pre = true.
Proof.
  induction pre as [|n pre IH]; intros [|e path]; simpl; intros H; auto.
  apply andb_true_iff in H as [H1 H2]. apply cstr_eqb_eq in H1. subst n.
  rewrite cstr_eqb_refl. simpl. auto.
Qed.

Section FindFieldDel.
  Variable path : dpath.

  (* with the delete flag: no alternative that is not a prefix of the path matches partially *)
  Lemma try_paths_del fi ss sl ok : forall ps,
    (forall b, In b ps -> names_nonemptyb b = true /\
       (is_prefixb b (pnames path) = true \/ path_partially_matches path b = false)) ->
    try_paths true path fi ss ps sl ok = try_paths false path fi ss ps sl ok.
  Proof.
    induction ps as [|b r IH]; intros H; [reflexivity|]. simpl.
    destruct (H b (or_introl eq_refl)) as [Hn Hb].
    rewrite path_matches_prefix_spec by assumption.
    destruct (is_prefixb b (pnames path)) eqn:Pb; [reflexivity|].
    destruct Hb as [Hb|Hb]; [discriminate|]. rewrite Hb, !andb_false_r, ?andb_false_l.
    cbn [andb]. apply IH. intros b' Hb'. apply H. now right.
  Qed.

  Lemma find_field_del_eq : forall sfs,
    (forall fi ss b, In (fi, ss) sfs -> In b (field_alts fi) -> names_nonemptyb b = true /\
       (is_prefixb b (pnames path) = true \/ path_partially_matches path b = false)) ->
    find_field false true path sfs = find_field false false path sfs.
  Proof.
    induction sfs as [|[fj sj] r IH]; intros H; [reflexivity|].
    cbn [find_field andb negb].
    rewrite (try_paths_del fj sj false true (f_paths fj))
      by (intros b Hb; apply (H fj sj b (or_introl eq_refl)); unfold field_alts; apply in_or_app; now left).
    rewrite (try_paths_del fj sj true false (f_spaths fj))
      by (intros b Hb; apply (H fj sj b (or_introl eq_refl)); unfold field_alts; apply in_or_app; now right).
    rewrite IH; [reflexivity|]. intros fi ss b Hin Hb. apply (H fi ss b); auto. now right.
  Qed.

  (* DeleteNode descends like SetNode when the path runs through a tag alternative *)
  Lemma find_field_hit_del : forall sfs fi ss a,
    gn_struct_okb sfs = true -> In (fi, ss) sfs -> In a (f_paths fi) ->
    is_prefixb a (pnames path) = true ->
    find_field false true path sfs = FMPath fi ss a false.
  Proof.
    intros sfs fi ss a Hok Hin Ha Hp.
    rewrite find_field_del_eq; [now apply find_field_hit|].
    destruct (gn_struct_parts sfs Hok) as [Hs Hne]. destruct (struct_facts sfs Hs) as (_ & _ & _ & Hc).
    intros fj sj b Hj Hb. split; [eapply Hne; eauto|].
    assert (Ia : In a (all_alts sfs)) by (apply (all_alts_In sfs fi ss a Hin); unfold field_alts; apply in_or_app; now left).
    assert (Ib : In b (all_alts sfs)) by (apply (all_alts_In sfs fj sj b Hj Hb)).
    destruct (Hc a b Ia Ib) as [<-|Hinc]; [now left|]. right.
    unfold path_partially_matches. rewrite (trim_trailing_nonempty b) by (eapply Hne; eauto).
    destruct (names_agree b path) eqn:En; [|reflexivity]. exfalso.
    apply names_agree_cases in En as [En|En].
    - eapply (incomp_not_both_prefix a b); eauto.
    - unfold incomp, incompb in Hinc. apply andb_true_iff in Hinc as [H1 _]. apply negb_true_iff in H1.
      rewrite (o_is_prefixb_trans a (pnames path) b Hp En) in H1. discriminate.
  Qed.
End FindFieldDel.

Section DelSteps.
  Variable env : enum_env.
  Variable fo : float_oracle.
  Variable ko : key_oracle.
  Notation DR := (del_rec env fo ko false).

  (* through a container / list field *)
  Lemma del_rec_struct : forall f s sfs fs fi ss a e0 prest,
    struct_schema s sfs -> gn_struct_okb sfs = true -> In (fi, ss) sfs -> In a (f_paths fi) ->
    is_prefixb a (pnames (e0 :: prest)) = true ->
    DR (S f) s (Some (TCont fs)) (e0 :: prest) =
      let path := e0 :: prest in
      let to := consumed ss a in
      if Nat.eqb (length path) to then (Some (TCont (field_remove (f_go fi) fs)), Ok tt)
      else
        let '(c', r) := DR f ss (field_get (f_go fi) fs) (skipn to path) in
        let c'' := match r with Ok _ => prune_child ss c' | _ => c' end in
        (Some (TCont (match c'' with
                      | Some x => field_set (go_names sfs) (f_go fi) x fs
                      | None => field_remove (f_go fi) fs end)), r).
  Proof.
    intros f s sfs fs fi ss a e0 prest Hs Hok Hin Ha Hp.
    destruct Hs as [sfs|o0 k a0 b sfs]; [|destruct o0]; cbn [del_rec];
      rewrite (find_field_hit_del (e0 :: prest) sfs fi ss a Hok Hin Ha Hp); reflexivity.
  Qed.

  (* the path ends inside the tag of an ordered-map field (compressed structs) *)
  Lemma del_rec_ordpartial : forall f s sfs fs fi e0 prest,
    struct_schema s sfs -> find_field false true (e0 :: prest) sfs = FMOrdPartial fi ->
    DR (S f) s (Some (TCont fs)) (e0 :: prest) = (Some (TCont (field_remove (f_go fi) fs)), Ok tt).
  Proof.
    intros f s sfs fs fi e0 prest Hs Hf.
    destruct Hs as [sfs|o0 k a0 b sfs]; [|destruct o0]; cbn [del_rec]; rewrite Hf; reflexivity.
  Qed.

  Lemma del_rec_none : forall f s e0 prest, is_leafish s = false ->
    DR (S f) s None (e0 :: prest) = (None, Ok tt).
  Proof. intros f s e0 prest H. cbn [del_rec]. destruct s; try reflexivity; discriminate. Qed.

  (* ---------- the list step (Go map), exposed ---------- *)
  Variable f : nat.
  Variable s : schema.
  Variable sfs : list (finfo * schema).
  Variable keys : list str.
  Variable ek : list (str * str).
  Variable prest : dpath.
  Variable cur : option tree.

  Fixpoint dfirst_f (k pk : str) (es l : list (list scalar * tree)) : option tree * result unit :=
    match l with
    | [] => (cur, Ok tt)
    | (mk, e) :: more =>
        match single_key_str env ko sfs k mk (fields_of e) with
        | Ok ks =>
            if str_eqb ks pk then
              if nil_b prest then (Some (TList (tl_remove mk es)), Ok tt)
              else
                let '(e', r) := DR f s (Some e) prest in
                match r, e' with
                | Ok _, Some e'' =>
                    (Some (TList (if is_empty_cont e'' then tl_remove mk es else tl_insert mk e'' es)), r)
                | _, Some e'' => (Some (TList (tl_insert mk e'' es)), r)
                | _, None => (cur, r)
                end
            else dfirst_f k pk es more
        | Err => (cur, Err)
        | Panic => (cur, Panic)
        end
    end.

  Fixpoint dall_f (l acc : list (list scalar * tree)) : option tree * result unit :=
    match l with
    | [] => (Some (TList acc), Ok tt)
    | (mk, e) :: more =>
        match keys_match env ko false false ek keys mk with
        | Ok true =>
            match entry_elem_keys env ko sfs keys mk (fields_of e) with
            | Ok _ =>
                if nil_b prest then (Some (TList (tl_remove mk acc)), Ok tt)
                else
                  let '(e', r) := DR f s (Some e) prest in
                  match r, e' with
                  | Ok _, Some e'' =>
                      dall_f more (if is_empty_cont e'' then tl_remove mk acc else tl_insert mk e'' acc)
                  | _, Some e'' => (Some (TList (tl_insert mk e'' acc)), r)
                  | _, None => (Some (TList acc), r)
                  end
            | Err => (Some (TList acc), Err)
            | Panic => (Some (TList acc), Panic)
            end
        | Ok false => dall_f more acc
        | Err => (Some (TList acc), Err)
        | Panic => (Some (TList acc), Panic)
        end
    end.

  Lemma dfirst_f_hit k pk es : forall pre mk e post,
    (forall mk' e', In (mk', e') pre -> exists ks, single_key_str env ko sfs k mk' (fields_of e') = Ok ks /\ ks <> pk) ->
    single_key_str env ko sfs k mk (fields_of e) = Ok pk -> prest <> [] ->
    dfirst_f k pk es (pre ++ (mk, e) :: post) =
      let '(e', r) := DR f s (Some e) prest in
      match r, e' with
      | Ok _, Some e'' => (Some (TList (if is_empty_cont e'' then tl_remove mk es else tl_insert mk e'' es)), r)
      | _, Some e'' => (Some (TList (tl_insert mk e'' es)), r)
      | _, None => (cur, r)
      end.
  Proof.
    induction pre as [|[mk0 e0] pre IH]; intros mk e post Hpre Hk Hne.
    - cbn [app dfirst_f]. rewrite Hk, cstr_eqb_refl. destruct prest; [congruence | reflexivity].
    - cbn [app dfirst_f]. destruct (Hpre mk0 e0 (or_introl eq_refl)) as (ks & -> & Hks).
      apply str_eqb_false_neq in Hks. rewrite Hks. apply IH; auto.
      intros mk' e' Hin. apply Hpre. now right.
  Qed.

  Lemma dall_f_miss : forall l acc,
    (forall mk' e', In (mk', e') l -> keys_match env ko false false ek keys mk' = Ok false) ->
    dall_f l acc = (Some (TList acc), Ok tt).
  Proof.
    induction l as [|[mk0 e0] l IH]; intros acc Hl; [reflexivity|].
    cbn [dall_f]. rewrite (Hl mk0 e0 (or_introl eq_refl)). apply IH. intros mk' e' Hin. apply (Hl mk' e'). now right.
  Qed.

  Lemma dall_f_hit : forall pre mk e post acc kk,
    (forall mk' e', In (mk', e') pre -> keys_match env ko false false ek keys mk' = Ok false) ->
    (forall mk' e', In (mk', e') post -> keys_match env ko false false ek keys mk' = Ok false) ->
    keys_match env ko false false ek keys mk = Ok true ->
    entry_elem_keys env ko sfs keys mk (fields_of e) = Ok kk -> prest <> [] ->
    dall_f (pre ++ (mk, e) :: post) acc =
      let '(e', r) := DR f s (Some e) prest in
      match r, e' with
      | Ok _, Some e'' => (Some (TList (if is_empty_cont e'' then tl_remove mk acc else tl_insert mk e'' acc)), Ok tt)
      | _, Some e'' => (Some (TList (tl_insert mk e'' acc)), r)
      | _, None => (Some (TList acc), r)
      end.
  Proof.
    induction pre as [|[mk0 e0] pre IH]; intros mk e post acc kk Hpre Hpost Hk Hkk Hne.
    - cbn [app dall_f]. rewrite Hk, Hkk. destruct prest as [|p0 pr]; [congruence|]. cbn [nil_b].
      destruct (DR f s (Some e) (p0 :: pr)) as [e' r]. destruct r as [[]| |]; destruct e'; try reflexivity.
      now rewrite dall_f_miss.
    - cbn [app dall_f]. rewrite (Hpre mk0 e0 (or_introl eq_refl)). eapply IH; eauto.
      intros mk' e' Hin. apply (Hpre mk' e'). now right.
  Qed.
End DelSteps.

Section DelListEq.
  Variable env : enum_env.
  Variable fo : float_oracle.
  Variable ko : key_oracle.
  Notation DR := (del_rec env fo ko false).

  Lemma del_rec_list_single : forall f k mn mx sfs es e0 prest pk,
    al_find k (ekeys e0) = Some pk ->
    DR (S f) (SList false [k] mn mx sfs) (Some (TList es)) (e0 :: prest) =
      dfirst_f env fo ko f (SList false [k] mn mx sfs) sfs prest (Some (TList es)) k pk es es.
  Proof.
    intros f k mn mx sfs es e0 prest pk Hf. cbn [del_rec]. rewrite Hf.
    match goal with |- ?F es = _ =>
      assert (G : forall l, F l = dfirst_f env fo ko f (SList false [k] mn mx sfs) sfs prest (Some (TList es)) k pk es l) end.
    { induction l as [|[mk e] more IH]; [reflexivity|].
      cbn [dfirst_f]. destruct (single_key_str env ko sfs k mk (fields_of e)); try reflexivity.
      destruct (str_eqb a pk); [reflexivity | apply IH]. }
    apply G.
  Qed.

  Lemma del_rec_list_multi : forall f k1 k2 ks mn mx sfs es e0 prest,
    DR (S f) (SList false (k1 :: k2 :: ks) mn mx sfs) (Some (TList es)) (e0 :: prest) =
      dall_f env fo ko f (SList false (k1 :: k2 :: ks) mn mx sfs) sfs (k1 :: k2 :: ks) (ekeys e0) prest es es.
  Proof.
    intros. cbn [del_rec].
    match goal with |- ?F es es = _ =>
      assert (G : forall l acc, F l acc = dall_f env fo ko f (SList false (k1 :: k2 :: ks) mn mx sfs) sfs
                                               (k1 :: k2 :: ks) (ekeys e0) prest l acc) end.
    { induction l as [|[mk e] more IH]; intros acc; [reflexivity|].
      cbn [dall_f]. destruct (keys_match env ko false false (ekeys e0) (k1 :: k2 :: ks) mk) as [[|]| |];
        try reflexivity; try apply IH. }
    apply G.
  Qed.
End DelListEq.

(* ====================================================================================== *)
(* 3. The guard, taken apart                                                               *)
(* ====================================================================================== *)

Section GnOrdParts.
  Variable env : enum_env.
  Variable fo : float_oracle.
  Variable ko : key_oracle.

  Definition gn_ofields (inner : bool) (s : schema) (nf : nat) :=
    fix fields (l : list (str * tree)) {struct l} : bool :=
      match l with
      | [] => true
      | (name, sub) :: rest =>
          match find (fun fs => str_eqb (f_go (fst fs)) name) (sfields s) with
          | None => false
          | Some (fi, ss) =>
              kind_matchb ss sub
              && (if is_ordered_list ss
                  then ord_field_okb inner (sfields s) fi nf && gn_olistb env fo ko ss sub
                  else gn_node_ord env fo ko (is_cont_schema ss) ss sub)
              && fields rest
          end
      end.

  Lemma gn_node_ord_cont_eq inner s fs :
    gn_node_ord env fo ko inner s (TCont fs) =
      negb (nil_b fs) && subseqb (map fst fs) (go_names (sfields s)) && gn_ofields inner s (length fs) fs.
  Proof. reflexivity. Qed.

  Lemma gn_ofields_In inner s nf : forall l name sub, gn_ofields inner s nf l = true -> In (name, sub) l ->
    exists fi ss, find (fun fs => str_eqb (f_go (fst fs)) name) (sfields s) = Some (fi, ss)
                  /\ kind_matchb ss sub = true
                  /\ (if is_ordered_list ss
                      then ord_field_okb inner (sfields s) fi nf && gn_olistb env fo ko ss sub
                      else gn_node_ord env fo ko (is_cont_schema ss) ss sub) = true.
  Proof.
    induction l as [|[n0 t0] r IH]; intros name sub H []; simpl in H;
      destruct (find (fun fs => str_eqb (f_go (fst fs)) n0) (sfields s)) as [[fi ss]|] eqn:Ef; try discriminate;
      apply andb_true_iff in H as [H H3]; apply andb_true_iff in H as [H1 H2].
    - injection H0 as -> ->. eauto.
    - eauto.
  Qed.

  Definition gn_oentries (s : schema) (sfs : list (finfo * schema)) (keys : list str) :=
    fix entries (l : list (list scalar * tree)) : bool :=
      match l with
      | [] => true
      | (k, e) :: rest =>
          match e with
          | TCont fs => gn_node_ord env fo ko false s e && key_matchb sfs keys fs k
                        && keys_wfb env fo ko sfs keys k && negb (existsb nan_key k)
          | _ => false
          end && entries rest
      end.

  Lemma gn_node_ord_list_eq inner keys mn mx sfs es :
    gn_node_ord env fo ko inner (SList false keys mn mx sfs) (TList es) =
      negb (nil_b es) && gn_oentries (SList false keys mn mx sfs) sfs keys es && keys_okb false (map fst es).
  Proof. reflexivity. Qed.

  Lemma gn_oentries_In s sfs keys : forall l k e, gn_oentries s sfs keys l = true -> In (k, e) l ->
    exists fs, e = TCont fs /\ gn_node_ord env fo ko false s e = true /\ key_matchb sfs keys fs k = true
               /\ keys_wfb env fo ko sfs keys k = true /\ existsb nan_key k = false.
  Proof.
    induction l as [|[k0 e0] r IH]; intros k e H []; simpl in H; apply andb_true_iff in H as [H H'].
    - injection H0 as -> ->. destruct e as [| |fs| |]; try discriminate.
      apply andb_true_iff in H as [H H4]. apply andb_true_iff in H as [H H3]. apply andb_true_iff in H as [H1 H2].
      exists fs. repeat split; auto. now apply negb_true_iff.
    - eauto.
  Qed.

  Lemma gn_olistb_parts ss sub : gn_olistb env fo ko ss sub = true ->
    exists keys mn mx esfs es, ss = SList true keys mn mx esfs /\ sub = TList es /\ es <> [] /\
      keys_okb true (map fst es) = true /\
      forall mk e, In (mk, e) es ->
        exists efs, e = TCont efs /\ gn_node env fo ko ss e = true /\ key_matchb esfs keys efs mk = true
                    /\ keys_wfb env fo ko esfs keys mk = true /\ okeys_rtb env ko esfs keys mk = true.
  Proof.
    unfold gn_olistb. destruct ss as [| | |[|] keys mn mx esfs|]; try discriminate.
    destruct sub as [| | |es|]; try discriminate. intros H.
    apply andb_true_iff in H as [H H3]. apply andb_true_iff in H as [H1 H2].
    exists keys, mn, mx, esfs, es. repeat split; auto.
    - destruct es; [discriminate | discriminate].
    - intros mk e Hin. rewrite forallb_forall in H2. specialize (H2 _ Hin). unfold gn_oentryb in H2. cbn [fst snd] in H2.
      destruct e as [| |efs| |]; try discriminate.
      apply andb_true_iff in H2 as [G G4]. apply andb_true_iff in G as [G G3]. apply andb_true_iff in G as [G1 G2].
      exists efs. auto.
  Qed.
End GnOrdParts.

(* ====================================================================================== *)
(* 4. The plain part of a tree: without its ordered lists, emptied containers pruned        *)
(* ====================================================================================== *)

Definition is_nilc (t : tree) : bool := match t with TCont [] => true | _ => false end.

Fixpoint plain_t (s : schema) (t : tree) {struct t} : tree :=
  match t with
  | TCont fs =>
      TCont ((fix fields (l : list (str * tree)) : list (str * tree) :=
                match l with
                | [] => []
                | (name, sub) :: rest =>
                    match find (fun fs0 => str_eqb (f_go (fst fs0)) name) (sfields s) with
                    | None => (name, sub) :: fields rest
                    | Some (_, ss) =>
                        if is_ordered_list ss then fields rest
                        else if is_nilc (plain_t ss sub) then fields rest
                             else (name, plain_t ss sub) :: fields rest
                    end
                end) fs)
  | TList es =>
      TList ((fix entries (l : list (list scalar * tree)) : list (list scalar * tree) :=
                match l with
                | [] => []
                | (k, e) :: r => (k, plain_t s e) :: entries r
                end) es)
  | _ => t
  end.

(* the plain value of one field: None = the field is not set in the plain part *)
Definition pval (s : schema) (name : str) (sub : tree) : option tree :=
  match find (fun fs0 => str_eqb (f_go (fst fs0)) name) (sfields s) with
  | None => Some sub
  | Some (_, ss) =>
      if is_ordered_list ss then None
      else if is_nilc (plain_t ss sub) then None else Some (plain_t ss sub)
  end.

Fixpoint plain_fields (s : schema) (l : list (str * tree)) : list (str * tree) :=
  match l with
  | [] => []
  | (name, sub) :: rest =>
      match pval s name sub with
      | Some c => (name, c) :: plain_fields s rest
      | None => plain_fields s rest
      end
  end.

Definition plain_entries (s : schema) (es : list (list scalar * tree)) : list (list scalar * tree) :=
  map (fun ke => (fst ke, plain_t s (snd ke))) es.

Lemma plain_cont_eq s fs : plain_t s (TCont fs) = TCont (plain_fields s fs).
Proof.
  cbn [plain_t]. f_equal. induction fs as [|[name sub] rest IH]; [reflexivity|].
  cbn [plain_fields]. unfold pval. rewrite <- IH.
  destruct (find (fun fs0 => str_eqb (f_go (fst fs0)) name) (sfields s)) as [[fi ss]|]; [|reflexivity].
  destruct (is_ordered_list ss); [reflexivity|]. destruct (is_nilc (plain_t ss sub)); reflexivity.
Qed.

Lemma plain_list_eq s es : plain_t s (TList es) = TList (plain_entries s es).
Proof.
  cbn [plain_t]. f_equal. unfold plain_entries. induction es as [|[k e] r IH]; [reflexivity|].
  cbn [map fst snd]. now rewrite <- IH.
Qed.

Lemma plain_entries_keys s es : map fst (plain_entries s es) = map fst es.
Proof. unfold plain_entries. rewrite map_map. reflexivity. Qed.

Lemma plain_fields_subseq s : forall fs, subseq (map fst (plain_fields s fs)) (map fst fs).
Proof.
  induction fs as [|[name sub] rest IH]; [constructor|]. cbn [plain_fields map fst].
  destruct (pval s name sub); cbn [map fst]; now constructor.
Qed.

Lemma field_get_plain s m : forall fs, NoDup (map fst fs) ->
  field_get m (plain_fields s fs) = match field_get m fs with Some sub => pval s m sub | None => None end.
Proof.
  induction fs as [|[name sub] rest IH]; intros Hd; [reflexivity|].
  cbn [map fst] in Hd. inversion Hd as [|? ? Hn Hd']; subst.
  cbn [plain_fields field_get]. destruct (str_eqb name m) eqn:E.
  - apply cstr_eqb_eq in E. subst m. destruct (pval s name sub) as [c|] eqn:Ep.
    + cbn [field_get]. now rewrite cstr_eqb_refl.
    + rewrite (IH Hd'). destruct (field_get name rest) eqn:G; [|reflexivity].
      exfalso. apply Hn. apply field_get_names. congruence.
  - destruct (pval s name sub) as [c|]; [cbn [field_get]; rewrite E|]; apply (IH Hd').
Qed.

(* leaves and leaf-lists stay *)
Lemma pval_leafish s name sub fi ss :
  find (fun fs0 => str_eqb (f_go (fst fs0)) name) (sfields s) = Some (fi, ss) ->
  kind_matchb ss sub = true -> is_leafish ss = true -> pval s name sub = Some sub.
Proof.
  intros Ef Hk Hl. unfold pval. rewrite Ef.
  destruct ss; try discriminate; destruct sub; try discriminate; reflexivity.
Qed.

(* ====================================================================================== *)
(* 5. The plain part is a guarded tree without ordered lists, with the plain leaves         *)
(* ====================================================================================== *)

Definition is_lleaf (it : litem) : bool := match it with LLeaf _ _ => true | LAtomic _ _ => false end.

Lemma filter_lleaf_map v (ps : list dpath) :
  filter is_lleaf (map (fun p => LLeaf p v) ps) = map (fun p => LLeaf p v) ps.
Proof. induction ps as [|p ps IH]; [reflexivity|]. cbn [map filter is_lleaf]. now rewrite IH. Qed.

Lemma filter_app_l {A} (f : A -> bool) a b : filter f (a ++ b) = filter f a ++ filter f b.
Proof. induction a as [|x a IH]; [reflexivity|]. cbn [app filter]. destruct (f x); cbn [app]; now rewrite IH. Qed.

Section PlainGuard.
  Variable env : enum_env.
  Variable fo : float_oracle.
  Variable ko : key_oracle.

  (* a leaf of a guarded struct is a leaf of its plain part *)
  Lemma plain_keeps_leaf inner s nf fs n v :
    gn_ofields env fo ko inner s nf fs = true -> NoDup (map fst fs) ->
    field_get n fs = Some (TLeaf v) -> field_get n (plain_fields s fs) = Some (TLeaf v).
  Proof.
    intros Hg Hd Hf. rewrite (field_get_plain s n fs Hd), Hf.
    destruct (gn_ofields_In env fo ko inner s nf fs n (TLeaf v) Hg (field_get_Some_In n _ fs Hf)) as (fi & ss & Ef & Hk & _).
    apply (pval_leafish s n (TLeaf v) fi ss Ef Hk). destruct ss; try discriminate; reflexivity.
  Qed.

  Lemma plain_key_leaves inner s nf sfs fs : forall keys mk,
    gn_ofields env fo ko inner s nf fs = true -> NoDup (map fst fs) ->
    key_leaves sfs keys mk fs -> key_leaves sfs keys mk (plain_fields s fs).
  Proof.
    intros keys mk Hg Hd H. induction H as [|k v ks vs Hf _ IH]; constructor; auto.
    eapply plain_keeps_leaf; eauto.
  Qed.

  (* what is known of a guarded Go-map entry *)
  Lemma oentry_facts keys mn mx esfs es mk e :
    gn_schemab (SList false keys mn mx esfs) = true ->
    gn_oentries env fo ko (SList false keys mn mx esfs) esfs keys es = true -> In (mk, e) es ->
    exists efs, e = TCont efs /\ gn_node_ord env fo ko false (SList false keys mn mx esfs) (TCont efs) = true /\
      keys_wfb env fo ko esfs keys mk = true /\ existsb nan_key mk = false /\
      NoDup (map fst efs) /\ subseq (map fst efs) (go_names esfs) /\
      gn_ofields env fo ko false (SList false keys mn mx esfs) (length efs) efs = true /\
      key_leaves esfs keys mk efs /\
      key_leaves esfs keys mk (plain_fields (SList false keys mn mx esfs) efs) /\
      plain_fields (SList false keys mn mx esfs) efs <> [].
  Proof.
    intros Hsch Hge Hin.
    destruct (esfs_facts keys mn mx esfs Hsch) as (Hok & Hd & Hkne & Hdk & Ha & Hdg).
    destruct (gn_oentries_In env fo ko _ esfs keys es mk e Hge Hin) as (efs & -> & Hgn & Hkm & Hkw & Hnan).
    exists efs. pose proof Hgn as Hgn0.
    rewrite gn_node_ord_cont_eq in Hgn. apply andb_true_iff in Hgn as [Hgn Hgf]. apply andb_true_iff in Hgn as [_ Hsub].
    apply subseqb_subseq in Hsub. cbn [sfields] in Hsub.
    assert (Hnd : NoDup (map fst efs)) by (eapply subseq_NoDup; eauto).
    assert (Hek : entry_key esfs keys efs = Ok mk).
    { unfold key_matchb in Hkm. destruct (entry_key esfs keys efs) as [k'| |]; try discriminate.
      apply keys_eqb_eq in Hkm. now subst. }
    pose proof (entry_key_leaves env fo ko esfs keys mk efs Hd Ha Hek Hkw) as Hkl.
    pose proof (plain_key_leaves false _ _ esfs efs keys mk Hgf Hnd Hkl) as Hkl'.
    repeat split; auto.
    destruct keys as [|k0 ks]; [congruence|]. inversion Hkl' as [|? ? ? ? Hg0 _]; subst.
    intros E. rewrite E in Hg0. discriminate.
  Qed.

  Definition PLc (t : tree) : Prop :=
    forall fs, t = TCont fs -> forall inner s sfs,
      struct_schema s sfs -> gn_schemab s = true -> gn_node_ord env fo ko inner s (TCont fs) = true ->
      (plain_fields s fs <> [] -> gn_node env fo ko s (TCont (plain_fields s fs)) = true)
      /\ forall par items, find_leaves env ko false false s (TCont fs) par = Ok items ->
           find_leaves env ko false false s (TCont (plain_fields s fs)) par = Ok (filter is_lleaf items).
  Definition PL (t : tree) : Prop :=
    PLc t /\ forall es, t = TList es -> forall k e, In (k, e) es -> PLc e.

  Theorem plain_guard : forall t, PL t.
  Proof.
    induction t as [v|vs|fs IH|es IH|es IH] using tree_ind2.
    - split; [intros fs E; discriminate | intros es E; discriminate].
    - split; [intros fs E; discriminate | intros es E; discriminate].
    - split; [|intros es E; discriminate].
      intros fs0 E. injection E as <-. intros inner s sfs Hs Hsch Hgn.
      pose proof (struct_schema_sfields s sfs Hs) as Esf.
      rewrite gn_node_ord_cont_eq in Hgn. apply andb_true_iff in Hgn as [Hgn Hgf]. apply andb_true_iff in Hgn as [Hne Hsub].
      pose proof (subseqb_subseq _ _ Hsub) as Hsub'.
      destruct (gn_schemab_fields s Hsch) as [Hok Hch]. rewrite Esf in Hok, Hch.
      destruct (gn_struct_parts sfs Hok) as [Hso _]. destruct (struct_facts sfs Hso) as (Hd & _).
      rewrite Forall_forall in IH.
      (* the plain value of one field: guard and leaves *)
      assert (Hfield : forall name sub, In (name, sub) fs ->
                exists fi ss, find (fun fs0 => str_eqb (f_go (fst fs0)) name) (sfields s) = Some (fi, ss) /\
                  (forall c, pval s name sub = Some c -> kind_matchb ss c = true /\ gn_node env fo ko ss c = true) /\
                  (forall par here, fl_field env ko false sfs par (name, sub) = Ok here ->
                     match pval s name sub with
                     | Some c => fl_field env ko false sfs par (name, c) = Ok (filter is_lleaf here)
                     | None => filter is_lleaf here = []
                     end)).
      { intros name sub Hin.
        destruct (gn_ofields_In env fo ko inner s (length fs) fs name sub Hgf Hin) as (fi & ss & Ef & Hkm & Hcond).
        exists fi, ss. split; [exact Ef|].
        destruct (find_go_name (sfields s) name fi ss Ef) as [Hfi Hgo]. rewrite Esf in Hfi.
        pose proof (IH (name, sub) Hin) as HPsub. cbn [snd] in HPsub.
        unfold pval. rewrite Ef. unfold fl_field. rewrite <- Esf, Ef. cbv zeta.
        destruct (is_ordered_list ss) eqn:Eo.
        - (* ordered list: not in the plain part *)
          split; [intros c [=]|]. intros par here Hfl.
          destruct ss as [| | |[|] keys mn mx esfs|]; try discriminate.
          destruct sub as [| | |es|]; try discriminate.
          destruct (fl_entries env ko true (SList true keys mn mx esfs) esfs keys (hd [] (lib_paths false fi par)) es) as [its| |];
            cbn [bind] in Hfl; try discriminate.
          destruct (flat_map plain_of its); [now injection Hfl as <-|].
          destruct (hd [] (lib_paths false fi par)); [discriminate|]. now injection Hfl as <-.
        - destruct sub as [v|vs|cfs|es|ues].
          + (* leaf *)
            destruct ss as [ty d| | | |]; try discriminate. cbn [plain_t is_nilc].
            split; [intros c [= <-]; split; [reflexivity | exact Hcond]|].
            intros par here Hfl. destruct (leaf_walk_ok env (SLeaf ty d) v); [|discriminate].
            injection Hfl as <-. now rewrite filter_lleaf_map.
          + destruct ss as [|ty mn mx| | |]; try discriminate. cbn [plain_t is_nilc].
            split; [intros c [= <-]; split; [reflexivity | exact Hcond]|].
            intros par here Hfl. destruct vs as [|v0 vs']; [now injection Hfl as <-|].
            injection Hfl as <-. now rewrite filter_lleaf_map.
          + (* container *)
            destruct ss as [| |csfs| |]; try discriminate.
            destruct HPsub as [HPc _].
            destruct (HPc cfs eq_refl (is_cont_schema (SCont csfs)) (SCont csfs) csfs (ss_cont csfs) (Hch fi _ Hfi) Hcond)
              as [Ha Hb].
            rewrite plain_cont_eq.
            destruct (plain_fields (SCont csfs) cfs) as [|pf0 pfr] eqn:Epf.
            * cbn [is_nilc]. split; [intros c [=]|]. intros par here Hfl.
              specialize (Hb _ _ Hfl). cbn [find_leaves] in Hb. now injection Hb as <-.
            * cbn [is_nilc]. split.
              -- intros c [= <-]. split; [reflexivity|]. apply Ha. discriminate.
              -- intros par here Hfl. apply (Hb _ _ Hfl).
          + (* Go map *)
            destruct ss as [| | |[|] keys mn mx esfs|]; try discriminate.
            pose proof (Hch fi _ Hfi) as Hsch'.
            destruct (esfs_facts keys mn mx esfs Hsch') as (Hok' & Hd' & Hkne & Hdk & Ha' & Hdg).
            rewrite gn_node_ord_list_eq in Hcond. apply andb_true_iff in Hcond as [Hcond Hko].
            apply andb_true_iff in Hcond as [Hnil Hge].
            destruct HPsub as [_ HPl]. specialize (HPl es eq_refl).
            rewrite plain_list_eq. cbn [is_nilc]. split.
            * intros c [= <-]. split; [reflexivity|]. rewrite gn_node_list_eq.
              rewrite plain_entries_keys, Hko, andb_true_r.
              apply andb_true_iff. split; [destruct es; [discriminate | reflexivity]|].
              assert (G : forall l, (forall x, In x l -> In x es) ->
                          gn_entries env fo ko (SList false keys mn mx esfs) esfs keys (plain_entries (SList false keys mn mx esfs) l) = true).
              { induction l as [|[mk e] more IHl]; intros Hl; [reflexivity|].
                assert (Hin' : In (mk, e) es) by (apply Hl; now left).
                destruct (oentry_facts keys mn mx esfs es mk e Hsch' Hge Hin')
                  as (efs & -> & Hgn' & Hkw & Hnan & Hnd & Hsb & Hgf' & Hkl & Hkl' & Hpne).
                cbn [plain_entries map fst snd gn_entries]. rewrite plain_cont_eq. fold (plain_entries (SList false keys mn mx esfs) more).
                destruct (HPl mk (TCont efs) Hin' efs eq_refl false (SList false keys mn mx esfs) esfs (ss_entry false keys mn mx esfs) Hsch' Hgn') as [Ha2 _].
                rewrite (Ha2 Hpne). unfold key_matchb.
                rewrite (key_leaves_entry_key esfs keys mk _ Hd' Ha' Hkl'), keys_eqb_refl, Hkw, Hnan. cbn [andb negb].
                apply IHl. intros x Hx. apply Hl. now right. }
              apply G. auto.
            * intros par here Hfl.
              assert (G : forall l, (forall x, In x l -> In x es) -> forall p0 its,
                          fl_entries env ko false (SList false keys mn mx esfs) esfs keys p0 l = Ok its ->
                          fl_entries env ko false (SList false keys mn mx esfs) esfs keys p0 (plain_entries (SList false keys mn mx esfs) l) = Ok (filter is_lleaf its)).
              { induction l as [|[mk e] more IHl]; intros Hl p0 its Hit.
                - cbn [fl_entries] in Hit. now injection Hit as <-.
                - assert (Hin' : In (mk, e) es) by (apply Hl; now left).
                  destruct (oentry_facts keys mn mx esfs es mk e Hsch' Hge Hin')
                    as (efs & -> & Hgn' & Hkw & Hnan & Hnd & Hsb & Hgf' & Hkl & Hkl' & Hpne).
                  cbn [plain_entries map fst snd]. fold (plain_entries (SList false keys mn mx esfs) more). rewrite plain_cont_eq.
                  cbn [fl_entries fields_of] in Hit |- *.
                  rewrite (key_leaves_strs env ko esfs keys mk efs Hd' Ha' Hkl) in Hit.
                  rewrite (key_leaves_strs env ko esfs keys mk _ Hd' Ha' Hkl').
                  destruct (mapkey_strs env ko keys mk) as [kk| |]; cbn [bind] in Hit |- *; try discriminate.
                  destruct (set_last_keys p0 kk) as [child| |]; cbn [bind] in Hit |- *; try discriminate.
                  destruct (find_leaves env ko false false (SList false keys mn mx esfs) (TCont efs) child) as [h| |] eqn:Eh; cbn [bind] in Hit; try discriminate.
                  destruct (fl_entries env ko false (SList false keys mn mx esfs) esfs keys p0 more) as [r| |] eqn:Er; cbn [bind] in Hit; try discriminate.
                  injection Hit as <-.
                  destruct (HPl mk (TCont efs) Hin' efs eq_refl false (SList false keys mn mx esfs) esfs (ss_entry false keys mn mx esfs) Hsch' Hgn') as [_ Hb2].
                  rewrite (Hb2 _ _ Eh). cbn [bind].
                  rewrite (IHl (fun x Hx => Hl x (or_intror Hx)) p0 r Er). cbn [bind].
                  now rewrite filter_app_l. }
              apply G; auto.
          + discriminate. }
      split.
      + (* the guard *)
        intros Hpne. rewrite gn_node_cont_eq. rewrite Esf.
        assert (Hs1 : subseqb (map fst (plain_fields s fs)) (go_names sfs) = true).
        { apply subseq_subseqb. eapply subseq_trans; [apply plain_fields_subseq|]. now rewrite <- Esf. }
        rewrite Hs1, andb_true_r.
        apply andb_true_iff. split; [destruct (plain_fields s fs); [congruence | reflexivity]|].
        assert (G : forall l, (forall x, In x l -> In x fs) -> gn_fields env fo ko s (plain_fields s l) = true).
        { induction l as [|[name sub] rest IHl]; intros Hl; [reflexivity|].
          destruct (Hfield name sub (Hl _ (or_introl eq_refl))) as (fi & ss & Ef & Hg1 & _).
          cbn [plain_fields]. destruct (pval s name sub) as [c|] eqn:Ep.
          - cbn [gn_fields]. rewrite Ef. destruct (Hg1 c eq_refl) as [-> ->]. cbn [andb].
            apply IHl. intros x Hx. apply Hl. now right.
          - apply IHl. intros x Hx. apply Hl. now right. }
        apply G. auto.
      + (* the leaves *)
        intros par items Hfl. rewrite find_leaves_cont_eq, Esf in Hfl |- *.
        assert (G : forall l, (forall x, In x l -> In x fs) -> forall its,
                    fl_fields env ko false sfs par l = Ok its ->
                    fl_fields env ko false sfs par (plain_fields s l) = Ok (filter is_lleaf its)).
        { induction l as [|[name sub] rest IHl]; intros Hl its Hit.
          - cbn [fl_fields] in Hit. now injection Hit as <-.
          - destruct (Hfield name sub (Hl _ (or_introl eq_refl))) as (fi & ss & Ef & _ & Hg2).
            cbn [fl_fields] in Hit.
            destruct (fl_field env ko false sfs par (name, sub)) as [h| |] eqn:Eh; cbn [bind] in Hit; try discriminate.
            destruct (fl_fields env ko false sfs par rest) as [r| |] eqn:Er; cbn [bind] in Hit; try discriminate.
            injection Hit as <-. specialize (Hg2 par h Eh). rewrite filter_app_l.
            cbn [plain_fields]. destruct (pval s name sub) as [c|].
            + cbn [fl_fields]. rewrite Hg2. cbn [bind].
              rewrite (IHl (fun x Hx => Hl x (or_intror Hx)) r eq_refl). reflexivity.
            + rewrite Hg2. cbn [app]. apply (IHl (fun x Hx => Hl x (or_intror Hx)) r eq_refl). }
        apply G; auto.
    - split; [intros fs E; discriminate|].
      intros es0 E k e Hin. injection E as <-. rewrite Forall_forall in IH. apply (IH (k, e) Hin).
    - split; [intros fs E; discriminate | intros es0 E; discriminate].
  Qed.

  (* ---------- inside an ordered list the walk is the ordinary one ---------- *)
  Definition AIc (t : tree) : Prop :=
    forall fs, t = TCont fs -> forall s par, gn_node env fo ko s (TCont fs) = true ->
      find_leaves env ko false true s (TCont fs) par = find_leaves env ko false false s (TCont fs) par.
  Definition AI (t : tree) : Prop :=
    AIc t /\ forall es, t = TList es -> forall k e, In (k, e) es -> AIc e.

  Theorem atomic_irrel : forall t, AI t.
  Proof.
    induction t as [v|vs|fs IH|es IH|es IH] using tree_ind2.
    - split; [intros fs E; discriminate | intros es E; discriminate].
    - split; [intros fs E; discriminate | intros es E; discriminate].
    - split; [|intros es E; discriminate].
      intros fs0 E. injection E as <-. intros s par Hgn.
      rewrite !find_leaves_cont_eq.
      rewrite gn_node_cont_eq in Hgn. apply andb_true_iff in Hgn as [_ Hgf].
      rewrite Forall_forall in IH.
      assert (G : forall l, (forall x, In x l -> In x fs) -> gn_fields env fo ko s l = true ->
                  fl_fields env ko true (sfields s) par l = fl_fields env ko false (sfields s) par l).
      { induction l as [|[name sub] rest IHl]; intros Hl Hg; [reflexivity|].
        assert (Hin : In (name, sub) ((name, sub) :: rest)) by now left.
        destruct (gn_fields_In env fo ko s _ name sub Hg Hin) as (fi & ss & Ef & Hkm & Hgn).
        simpl in Hg. rewrite Ef in Hg. apply andb_true_iff in Hg as [_ Hg'].
        cbn [fl_fields]. rewrite (IHl (fun x Hx => Hl x (or_intror Hx)) Hg'). f_equal.
        unfold fl_field. rewrite Ef. cbv zeta.
        pose proof (IH (name, sub) (Hl _ Hin)) as HA. cbn [snd] in HA.
        destruct sub as [v|vs|cfs|es|ues]; try reflexivity.
        - destruct HA as [HAc _]. apply (HAc cfs eq_refl ss _ Hgn).
        - destruct ss as [| | |[|] keys mn mx esfs|]; try reflexivity; try discriminate.
          rewrite gn_node_list_eq in Hgn. apply andb_true_iff in Hgn as [Hgn _]. apply andb_true_iff in Hgn as [_ Hge].
          destruct HA as [_ HAl]. specialize (HAl es eq_refl).
          assert (G2 : forall l2, (forall x, In x l2 -> In x es) -> forall p0,
                         fl_entries env ko true (SList false keys mn mx esfs) esfs keys p0 l2 =
                         fl_entries env ko false (SList false keys mn mx esfs) esfs keys p0 l2).
          { induction l2 as [|[mk e] more IH2]; intros Hl2 p0; [reflexivity|].
            assert (Hin2 : In (mk, e) es) by (apply Hl2; now left).
            destruct (gn_entries_In env fo ko _ esfs keys es mk e Hge Hin2) as (efs & -> & Hgn2 & _).
            cbn [fl_entries]. rewrite (IH2 (fun x Hx => Hl2 x (or_intror Hx)) p0).
            destruct (entry_key_strs env ko esfs keys (fields_of (TCont efs))); try reflexivity. cbn [bind].
            destruct (set_last_keys p0 a); try reflexivity. cbn [bind].
            now rewrite (HAl mk (TCont efs) Hin2 efs eq_refl _ a0 Hgn2). }
          apply G2; auto. }
      apply G; auto.
    - split; [intros fs E; discriminate|].
      intros es0 E k e Hin. injection E as <-. rewrite Forall_forall in IH. apply (IH (k, e) Hin).
    - split; [intros fs E; discriminate | intros es0 E; discriminate].
  Qed.
End PlainGuard.

(* ====================================================================================== *)
(* 6. SetNode through an ordered list (retrieveNodeOrderedList, AppendNew)                  *)
(* ====================================================================================== *)

Section OListStep.
  Variable env : enum_env.
  Variable fo : float_oracle.
  Variable ko : key_oracle.
  Variable o : set_opts.
  Variable tv : tval.
  Notation SR := (set_rec env fo ko o tv).

  Variable f : nat.
  Variable s : schema.
  Variable sfs : list (finfo * schema).
  Variable keys : list str.
  Variable ek : list (str * str).
  Variable prest : dpath.
  Variable nparsed : nat.

  Definition omatch (mk : list scalar) : result bool :=
    bind (mapkey_strs env ko keys mk) (fun _ => keys_match env ko false false ek keys mk).

  Definition oappend_f (acc : list (list scalar * tree)) : option tree * result nat :=
    if negb (Nat.eqb nparsed (length keys)) then (Some (TList acc), Err)
    else
      match make_ordered_entry env fo ko sfs keys ek with
      | Ok (mk, nfs) =>
          match tl_find mk acc with
          | Some _ => (Some (TList acc), Err)
          | None =>
              let '(e', r) := SR f s (Some (TCont nfs)) prest in
              (Some (TList (acc ++ [(mk, match e' with Some e'' => e'' | None => TCont nfs end)])), r)
          end
      | Err => (Some (TList acc), Err)
      | Panic => (Some (TList acc), Panic)
      end.

  Fixpoint oall_f (l acc : list (list scalar * tree)) (n : nat) : option tree * result nat :=
    match l with
    | [] => if Nat.eqb n O && s_init o then oappend_f acc else (Some (TList acc), Ok n)
    | (mk, e) :: more =>
        match omatch mk with
        | Ok true =>
            let '(e', r) := SR f s (Some e) prest in
            let acc' := match e' with Some e'' => ol_update mk e'' acc | None => acc end in
            match r with
            | Ok m => oall_f more acc' (n + m)%nat
            | _ => (Some (TList acc'), r)
            end
        | Ok false => oall_f more acc n
        | Err => (Some (TList acc), Err)
        | Panic => (Some (TList acc), Panic)
        end
    end.

  Lemma oall_f_miss : forall l acc n,
    (forall mk' e', In (mk', e') l -> omatch mk' = Ok false) ->
    oall_f l acc n = if Nat.eqb n O && s_init o then oappend_f acc else (Some (TList acc), Ok n).
  Proof.
    induction l as [|[mk0 e0] l IH]; intros acc n Hl; [reflexivity|].
    cbn [oall_f]. rewrite (Hl mk0 e0 (or_introl eq_refl)). apply IH. intros mk' e' Hin. apply (Hl mk' e'). now right.
  Qed.

  Lemma oall_f_hit : forall pre mk e post acc,
    (forall mk' e', In (mk', e') pre -> omatch mk' = Ok false) ->
    (forall mk' e', In (mk', e') post -> omatch mk' = Ok false) ->
    omatch mk = Ok true ->
    oall_f (pre ++ (mk, e) :: post) acc O =
      let '(e', r) := SR f s (Some e) prest in
      let acc' := match e' with Some e'' => ol_update mk e'' acc | None => acc end in
      match r with
      | Ok m => if Nat.eqb m O && s_init o then oappend_f acc' else (Some (TList acc'), Ok m)
      | _ => (Some (TList acc'), r)
      end.
  Proof.
    induction pre as [|[mk0 e0] pre IH]; intros mk e post acc Hpre Hpost Hk.
    - cbn [app oall_f]. rewrite Hk. destruct (SR f s (Some e) prest) as [e' r].
      destruct r; try reflexivity. rewrite oall_f_miss by assumption. reflexivity.
    - cbn [app oall_f]. rewrite (Hpre mk0 e0 (or_introl eq_refl)). apply IH; auto.
      intros mk' e' Hin. apply (Hpre mk' e'). now right.
  Qed.
End OListStep.

Lemma set_rec_olist env fo ko o tv : forall f keys mn mx sfs es e0 prest,
  set_rec env fo ko o tv (S f) (SList true keys mn mx sfs) (Some (TList es)) (e0 :: prest) =
    match ordered_keys_parse env fo ko sfs keys (ekeys e0) with
    | Ok nparsed => oall_f env fo ko o tv f (SList true keys mn mx sfs) sfs keys (ekeys e0) prest nparsed es es O
    | Err => (Some (TList es), Err)
    | Panic => (Some (TList es), Panic)
    end.
Proof.
  intros. cbn [set_rec]. destruct (ordered_keys_parse env fo ko sfs keys (ekeys e0)) as [np| |]; reflexivity.
Qed.

(* ====================================================================================== *)
(* 7. The updates of one ordered-list entry at its list                                    *)
(* ====================================================================================== *)

Lemma scalar_eqb_true_eq a b : scalar_eqb a b = true -> a = b.
Proof. apply scalar_eqb_eq. Qed.

Section OEntryLift.
  Variable env : enum_env.
  Variable fo : float_oracle.
  Variable ko : key_oracle.
  Hypothesis Henv : wf_envb env = true.

  Variable keys : list str.
  Variable mn mx : N.
  Variable esfs : list (finfo * schema).
  Let ss := SList true keys mn mx esfs.
  Hypothesis Hsch : gn_schemab ss = true.

  Notation SR tv := (set_rec env fo ko rt_opts tv).

  Lemma oesfs_facts : gn_struct_okb esfs = true /\ NoDup (go_names esfs) /\ keys <> [] /\ NoDup keys /\
    (forall k, In k keys -> key_agreeb esfs k = true) /\ NoDup (map (key_go esfs) keys).
  Proof. exact (esfs_facts keys mn mx esfs Hsch). Qed.

  (* AppendNew: the key strings printed for mk are converted back to mk, the new entry holds the key leaves *)
  Lemma okeys_codec : forall ks mk kk kk', (forall k, In k ks -> key_agreeb esfs k = true) -> NoDup ks ->
    okeys_rtb env ko esfs ks mk = true -> mapkey_strs env ko ks mk = Ok kk ->
    (forall k, In k ks -> al_find k kk' = al_find k kk) ->
    make_ordered_entry env fo ko esfs ks kk' = Ok (mk, key_fields esfs ks mk)
    /\ ordered_keys_parse env fo ko esfs ks kk' = Ok (length ks).
  Proof.
    destruct oesfs_facts as (_ & Hd & _).
    induction ks as [|k ks IH]; intros mk kk kk' Ha Hdk Hw Hs Hf.
    - destruct mk; [split; reflexivity | discriminate].
    - destruct mk as [|v vs]; [discriminate|].
      destruct (key_agree_spec esfs k Hd (Ha k (or_introl eq_refl))) as (fi & ty & d & E1 & _ & E3 & _).
      cbn [okeys_rtb] in Hw. rewrite E1 in Hw. apply andb_true_iff in Hw as [Hv Hw].
      unfold okey_rtb in Hv. cbn [mapkey_strs] in Hs.
      destruct (key_to_string env ko v) as [sv| |] eqn:Es; try discriminate. cbn [bind] in Hs.
      destruct (string_to_gotype env ty sv) as [v'| |] eqn:Eg; try discriminate.
      apply scalar_eqb_true_eq in Hv. subst v'.
      destruct (mapkey_strs env ko ks vs) as [r| |] eqn:Er; try discriminate. cbn [bind] in Hs.
      injection Hs as <-. inversion Hdk as [|? ? Hnk Hdk']; subst.
      assert (Hfk : al_find k kk' = Some sv) by (rewrite (Hf k (or_introl eq_refl)); apply al_find_insert_same).
      destruct (IH vs r kk' (fun k0 H0 => Ha k0 (or_intror H0)) Hdk' Hw Er) as [IH1 IH2].
      { intros k0 Hin. rewrite (Hf k0 (or_intror Hin)). apply al_find_insert_other. intros ->. contradiction. }
      split.
      + cbn [make_ordered_entry]. rewrite Hfk, E1, (NodeFrameProofs.gotype_key_agree env fo ko _ _ _ Eg). cbn [bind]. rewrite IH1. cbn [bind fst snd key_fields].
        now rewrite E3.
      + cbn [ordered_keys_parse]. rewrite Hfk, E1, (NodeFrameProofs.gotype_key_agree env fo ko _ _ _ Eg). cbn [bind]. rewrite IH2. reflexivity.
  Qed.

  (* the entries already in the list when the entry with key mk is appended and filled *)
  Definition oothers_ok (mk : list scalar) (done : list (list scalar * tree)) : Prop :=
    forall mk' e', In (mk', e') done -> keys_wfb env fo ko esfs keys mk' = true /\ mk' <> mk.

  Variable nm : str.
  Variable mk : list scalar.
  Variable kk : list (str * str).
  Hypothesis Hmk : keys_wfb env fo ko esfs keys mk = true.
  Hypothesis Hort : okeys_rtb env ko esfs keys mk = true.
  Hypothesis Hkk : mapkey_strs env ko keys mk = Ok kk.

  Let el : pelem := {| ename := nm; ekeys := kk |}.

  Lemma okk_find : Forall2 (fun k v => exists s, key_to_string env ko v = Ok s /\ al_find k kk = Some s) keys mk.
  Proof.
    destruct oesfs_facts as (_ & _ & _ & Hdk & _).
    apply mapkey_strs_In; auto. eapply keys_wfb_length; eauto.
  Qed.

  Lemma omatch_same : omatch env ko keys kk mk = Ok true.
  Proof.
    unfold omatch. rewrite Hkk. cbn [bind]. eapply keys_match_same; eauto. apply okk_find.
  Qed.

  Lemma omatch_other mk' : keys_wfb env fo ko esfs keys mk' = true -> mk' <> mk -> omatch env ko keys kk mk' = Ok false.
  Proof.
    intros Hw Hne. unfold omatch. destruct (keys_wfb_strs env fo ko esfs keys mk' Hw) as [kk2 ->]. cbn [bind].
    apply (keys_match_other env fo ko Henv esfs keys mk mk' kk okk_find Hmk Hw Hne).
  Qed.

  Lemma olist_step_new : forall done q tv e1,
    oothers_ok mk done ->
    (forall fuel, (need_struct q <= fuel)%nat ->
       SR tv fuel ss (Some (TCont (key_fields esfs keys mk))) q = (Some e1, Ok 1%nat)) ->
    forall fuel, (need_list (el :: q) <= fuel)%nat ->
      SR tv fuel ss (Some (TList done)) (el :: q) = (Some (TList (done ++ [(mk, e1)])), Ok 1%nat).
  Proof.
    intros done q tv e1 Ho Hstep fuel Hfuel.
    destruct oesfs_facts as (Hok & Hd & Hkne & Hdk & Ha & Hdg).
    unfold need_list in Hfuel. cbn [length] in Hfuel. destruct fuel as [|f]; [lia|].
    destruct (okeys_codec keys mk kk kk Ha Hdk Hort Hkk (fun k _ => eq_refl)) as [Hmake Hparse].
    unfold ss. rewrite set_rec_olist. cbn [ekeys el]. rewrite Hparse. fold ss.
    rewrite oall_f_miss by (intros mk' e' Hin; destruct (Ho mk' e' Hin); now apply omatch_other).
    cbn [Nat.eqb andb s_init rt_opts]. unfold oappend_f. rewrite Nat.eqb_refl. cbn [negb]. rewrite Hmake.
    rewrite tl_find_none by (intros k0 e0 Hin; destruct (Ho k0 e0 Hin) as [_ Hne]; apply keys_eqb_neq; congruence).
    rewrite Hstep by (unfold need_struct; lia). reflexivity.
  Qed.

  Lemma olist_step_hit : forall done q tv ecur e2,
    oothers_ok mk done ->
    (forall fuel, (need_struct q <= fuel)%nat -> SR tv fuel ss (Some ecur) q = (Some e2, Ok 1%nat)) ->
    forall fuel, (need_list (el :: q) <= fuel)%nat ->
      SR tv fuel ss (Some (TList (done ++ [(mk, ecur)]))) (el :: q) = (Some (TList (done ++ [(mk, e2)])), Ok 1%nat).
  Proof.
    intros done q tv ecur e2 Ho Hstep fuel Hfuel.
    destruct oesfs_facts as (Hok & Hd & Hkne & Hdk & Ha & Hdg).
    unfold need_list in Hfuel. cbn [length] in Hfuel. destruct fuel as [|f]; [lia|].
    destruct (okeys_codec keys mk kk kk Ha Hdk Hort Hkk (fun k _ => eq_refl)) as [Hmake Hparse].
    unfold ss. rewrite set_rec_olist. cbn [ekeys el]. rewrite Hparse. fold ss.
    rewrite (oall_f_hit env fo ko rt_opts tv f ss esfs keys kk q (length keys) done mk ecur []).
    - rewrite Hstep by (unfold need_struct; lia). cbn [Nat.eqb andb].
      rewrite ol_update_last; [reflexivity|].
      intros k0 e0 Hin. destruct (Ho k0 e0 Hin) as [_ Hne]. apply keys_eqb_neq. congruence.
    - intros mk' e' Hin. destruct (Ho mk' e' Hin). now apply omatch_other.
    - intros mk' e' [].
    - apply omatch_same.
  Qed.

  (* all updates of the entry: the first appends it, the others find it under its key *)
  Lemma lift_oentry (Inv : tree -> Prop) : forall done us e',
    oothers_ok mk done ->
    Run env fo ko Inv need_struct ss (TCont (key_fields esfs keys mk)) us e' -> us <> [] ->
    Run env fo ko (fun _ => True) need_list ss (TList done)
        (map (fun u => (el :: fst u, snd u)) us) (TList (done ++ [(mk, e')])).
  Proof.
    intros done us e' Ho HR Hne. inversion HR as [|c u e1 us1 c'' Hstep HI HR1]; subst; [congruence|].
    cbn [map]. eapply run_cons with (c' := TList (done ++ [(mk, e1)])).
    - intros fuel Hfuel. cbn [fst snd] in *. apply olist_step_new; auto.
    - exact I.
    - clear HR Hstep Hne HI. induction HR1 as [c|c u2 c2 us2 c3 Hs2 HI2 HR2 IH].
      + constructor.
      + cbn [map]. eapply run_cons with (c' := TList (done ++ [(mk, c2)])).
        * intros fuel Hfuel. cbn [fst snd] in *. apply olist_step_hit; auto.
        * exact I.
        * apply IH.
  Qed.
End OEntryLift.

(* ====================================================================================== *)
(* 8. Atomic groups at one node: a delete that changes nothing, then the updates            *)
(* ====================================================================================== *)

(* one atomic notification seen from a node: the path of the deleted container relative to the
   node, and the updates relative to that container *)
Record grp := mk_grp { g_q : dpath; g_us : list upd }.
Definition g_shift (pre : dpath) (g : grp) : grp := mk_grp (pre ++ g_q g) (g_us g).
Definition g_ups (g : grp) : list upd := map (fun u => (g_q g ++ fst u, snd u)) (g_us g).

Lemma g_ups_shift pre g : g_ups (g_shift pre g) = map (fun u => (pre ++ fst u, snd u)) (g_ups g).
Proof.
  unfold g_ups, g_shift. cbn [g_q g_us]. rewrite map_map. apply map_ext. intros u. cbn [fst snd].
  now rewrite app_assoc.
Qed.

Section Chain.
  Variable env : enum_env.
  Variable fo : float_oracle.
  Variable ko : key_oracle.

  Definition del_noop (need : dpath -> nat) (s : schema) (c : tree) (q : dpath) : Prop :=
    forall fuel, (need q <= fuel)%nat -> del_rec env fo ko false fuel s (Some c) q = (Some c, Ok tt).

  (* the groups applied one after the other.  A group whose container is the node itself
     (empty relative path) finds the node empty: its parent has no such child yet *)
  Inductive GChain (Inv : tree -> Prop) (need : dpath -> nat) (s : schema) : tree -> list grp -> tree -> Prop :=
  | gc_nil c : GChain Inv need s c [] c
  | gc_cons c g c' gs c'' :
      (g_q g <> [] -> del_noop need s c (g_q g)) ->
      (g_q g = [] -> c = TCont []) ->
      g_us g <> [] ->
      Run env fo ko Inv need s c (g_ups g) c' ->
      GChain Inv need s c' gs c'' -> GChain Inv need s c (g :: gs) c''.

  Lemma GChain_nil_inv Inv need s c c' : GChain Inv need s c [] c' -> c = c'.
  Proof. intros H. now inversion H. Qed.

  Lemma GChain_app Inv need s : forall a c c' b c'',
    GChain Inv need s c a c' -> GChain Inv need s c' b c'' -> GChain Inv need s c (a ++ b) c''.
  Proof.
    induction a as [|g a IH]; intros c c' b c'' Ha Hb.
    - inversion Ha; subst. exact Hb.
    - inversion Ha; subst. simpl. econstructor; eauto.
  Qed.

  Lemma GChain_weaken (Inv Inv' : tree -> Prop) need s : (forall c, Inv c -> Inv' c) ->
    forall c gs c', GChain Inv need s c gs c' -> GChain Inv' need s c gs c'.
  Proof.
    intros H c gs c' HG. induction HG; econstructor; eauto. eapply Run_weaken; eauto.
  Qed.

  Lemma Run_last_inv Inv need s : forall c us c', Run env fo ko Inv need s c us c' -> us <> [] -> Inv c'.
  Proof.
    intros c us c' HR. induction HR as [c|c u c1 us c2 Hstep HI HR IH]; intros Hne; [congruence|].
    destruct us as [|u2 us']; [inversion HR; subst; exact HI | apply IH; discriminate].
  Qed.

  Lemma prune_child_none ss : prune_child ss None = None.
  Proof. destruct ss as [| | |[|] ? ? ? ?|]; reflexivity. Qed.

  (* ---------- lifting the groups of a child to its parent struct ---------- *)
  Lemma lift_chain : forall (Inv_c Inv_p : tree -> Prop) need_c s sfs fi ss a pre S0,
    struct_schema s sfs -> gn_struct_okb sfs = true -> In (fi, ss) sfs -> In a (f_paths fi) ->
    is_leafish ss = false -> consumed ss a = length pre ->
    (forall cp, (need_c cp <= 2 * (length pre + length cp))%nat) ->
    NoDup (go_names sfs) -> subseq (map fst S0) (go_names sfs) -> In (f_go fi) (go_names sfs) ->
    (forall c1, Inv_p (TCont (field_set (go_names sfs) (f_go fi) c1 S0))) ->
    (forall x, Inv_c x -> prune_child ss (Some x) = Some x) ->
    forall gs c c', GChain Inv_c need_c ss c gs c' ->
      (forall g, In g gs ->
         (g_q g = [] -> is_cont_schema ss = true) /\
         is_prefixb a (pnames (pre ++ g_q g)) = true /\ pre ++ g_q g <> [] /\
         (forall u, In u (g_us g) -> is_prefixb a (pnames (pre ++ g_q g ++ fst u)) = true)) ->
      forall S, subseq (map fst S) (go_names sfs) ->
        (forall c1, field_set (go_names sfs) (f_go fi) c1 S = field_set (go_names sfs) (f_go fi) c1 S0) ->
        ((field_get (f_go fi) S = Some c /\ prune_child ss (Some c) = Some c) \/
         (field_get (f_go fi) S = None /\ init_field ss None = Some c)) ->
        GChain Inv_p need_struct s (TCont S) (map (g_shift pre) gs)
            (TCont (match gs with [] => S | _ => field_set (go_names sfs) (f_go fi) c' S0 end)).
  Proof.
    intros Inv_c Inv_p need_c s sfs fi ss a pre S0 Hs Hok Hin Ha Hlf Hto Hneed Hd Hsub0 Hn Hinv Hprune gs c c' HG.
    induction HG as [c|c g c1 gs c2 Hdel Hemp Hne HR HG IH]; intros Hgs S Hsub HF Hrel; [constructor|].
    cbn [map].
    destruct (Hgs g (or_introl eq_refl)) as (Hg1 & Hg2 & Hg3 & Hg4).
    assert (Hupsne : g_ups g <> []).
    { unfold g_ups. destruct (g_us g); [congruence | discriminate]. }
    pose proof (Run_last_inv _ _ _ _ _ _ HR Hupsne) as HI1.
    assert (HFocus : Focus (go_names sfs) (f_go fi) ss S0 S c).
    { split; [|exact HF]. destruct Hrel as [[-> _]|[-> Hi]]; [reflexivity | exact Hi]. }
    eapply (gc_cons Inv_p need_struct s (TCont S) (g_shift pre g) (TCont (field_set (go_names sfs) (f_go fi) c1 S0))).
    - (* the delete changes nothing *)
      intros _ fuel Hfuel. cbn [g_shift g_q] in *. unfold need_struct in Hfuel.
      destruct fuel as [|f]; [lia|].
      destruct (pre ++ g_q g) as [|e0 prest] eqn:Epath; [congruence|].
      rewrite (del_rec_struct env fo ko f s sfs S fi ss a e0 prest Hs Hok Hin Ha Hg2). cbv zeta.
      rewrite Hto, <- Epath.
      destruct (g_q g) as [|q0 qr] eqn:Eq.
      + rewrite app_nil_r, Nat.eqb_refl.
        specialize (Hemp eq_refl). subst c.
        destruct Hrel as [[_ Hp]|[Hnone _]].
        * specialize (Hg1 eq_refl). destruct ss; discriminate.
        * now rewrite field_remove_absent.
      + assert (El : Nat.eqb (length (pre ++ q0 :: qr)) (length pre) = false).
        { apply Nat.eqb_neq. rewrite app_length. simpl. lia. }
        rewrite El, skipn_app_exact.
        assert (Hf : (need_c (q0 :: qr) <= f)%nat).
        { specialize (Hneed (q0 :: qr)). rewrite <- Epath, app_length in Hfuel. lia. }
        destruct Hrel as [[Hget Hp]|[Hnone _]].
        * rewrite Hget, (Hdel ltac:(discriminate) f Hf), Hp.
          now rewrite (field_set_same (go_names sfs) S (f_go fi) c Hd Hsub Hget).
        * rewrite Hnone. destruct f as [|f']; [rewrite <- Epath, app_length in Hfuel; simpl in Hfuel; lia|].
          rewrite (del_rec_none env fo ko f' ss q0 qr Hlf), prune_child_none.
          now rewrite field_remove_absent.
    - intros E. cbn [g_shift g_q] in E. congruence.
    - exact Hne.
    - rewrite g_ups_shift.
      pose proof (lift_run env fo ko Inv_c Inv_p need_c s sfs fi ss a pre S0 Hs Hok Hin Ha Hlf Hto Hneed Hd Hsub0 Hn Hinv
                    (g_ups g) c c1 HR) as HL.
      assert (Hus : forall u, In u (g_ups g) -> is_prefixb a (pnames (pre ++ fst u)) = true /\ pre ++ fst u <> []).
      { intros u Hu. unfold g_ups in Hu. apply in_map_iff in Hu as (u0 & <- & Hu0). cbn [fst]. split; [now apply Hg4|].
        intros E. apply Hg3. rewrite app_assoc in E. apply app_eq_nil in E as [E _]. exact E. }
      specialize (HL Hus S HFocus).
      destruct (g_ups g); [congruence | exact HL].
    - assert (Hsub1 : subseq (map fst (field_set (go_names sfs) (f_go fi) c1 S0)) (go_names sfs))
        by (apply field_set_sorted; auto).
      specialize (IH (fun g0 H0 => Hgs g0 (or_intror H0)) (field_set (go_names sfs) (f_go fi) c1 S0) Hsub1).
      specialize (IH ltac:(intros c3; now apply field_set_twice)).
      specialize (IH ltac:(left; split; [now apply field_get_set_same | now apply Hprune])).
      destruct gs as [|g2 gs']; [|exact IH].
      inversion HG; subst. exact IH.
  Qed.
End Chain.

(* ====================================================================================== *)
(* 9. An entry in the middle of a Go map                                                   *)
(* ====================================================================================== *)

Section EntryMid.
  Variable env : enum_env.
  Variable fo : float_oracle.
  Variable ko : key_oracle.
  Hypothesis Henv : wf_envb env = true.

  Variable keys : list str.
  Variable mn mx : N.
  Variable esfs : list (finfo * schema).
  Let ss := SList false keys mn mx esfs.
  Hypothesis Hsch : gn_schemab ss = true.

  Notation SR tv := (set_rec env fo ko rt_opts tv).
  Notation DR := (del_rec env fo ko false).

  Variable nm : str.
  Variable mk : list scalar.
  Variable kk : list (str * str).
  Hypothesis Hmk : keys_wfb env fo ko esfs keys mk = true.
  Hypothesis Hkk : mapkey_strs env ko keys mk = Ok kk.

  Let el : pelem := {| ename := nm; ekeys := kk |}.

  (* the other entries of the list *)
  Definition mid_ok (l : list (list scalar * tree)) : Prop :=
    forall mk' e', In (mk', e') l ->
      keys_wfb env fo ko esfs keys mk' = true /\ mk' <> mk /\ key_leaves esfs keys mk' (fields_of e').
  Definition before_ok (l : list (list scalar * tree)) : Prop :=
    forall k0 e0, In (k0, e0) l -> keys_eqb mk k0 = false /\ keys_cmp mk k0 <> Lt.

  Lemma mid_single k v pk l : keys = [k] -> mk = [v] -> key_to_string env ko v = Ok pk ->
    mid_ok l ->
    forall mk' e', In (mk', e') l ->
      exists ks, single_key_str env ko esfs k mk' (fields_of e') = Ok ks /\ ks <> pk.
  Proof.
    intros Ek Em Es Ho mk' e' Hin. destruct (Ho mk' e' Hin) as (Hw & Hne & Hl).
    pose proof Hmk as Hmk'. rewrite Em in Hmk'.
    rewrite Ek in Hl, Hw, Hmk'. inversion Hl as [|? v' ? ? Hg Hl' E1 E2]. subst. inversion Hl'; subst.
    rewrite (single_key_str_leaf env ko keys mn mx esfs Hsch k [v'] (fields_of e') v') by (auto; rewrite Ek; now left).
    cbn [keys_wfb] in Hw, Hmk'.
    destruct (key_name_field esfs k) as [[fi [t d| | | |]]| |]; try discriminate.
    apply andb_true_iff in Hw as [Hw _]. apply andb_true_iff in Hmk' as [Hv _].
    destruct (key_to_string_total env fo ko t v' Hw) as [s' Es']. exists s'. split; auto.
    intros ->. apply Hne. rewrite Em. f_equal. eapply key_to_string_inj; eauto.
  Qed.

  Lemma mid_others_false l : mid_ok l ->
    forall mk' e', In (mk', e') l -> keys_match env ko false false kk keys mk' = Ok false.
  Proof.
    intros Ho mk' e' Hin. destruct (Ho mk' e' Hin) as (Hw & Hne & _).
    apply (keys_match_other env fo ko Henv esfs keys mk mk' kk
             (kk_find env fo ko keys mn mx esfs Hsch mk kk Hmk Hkk) Hmk Hw Hne).
  Qed.

  Lemma keys_shape : (exists k, keys = [k]) \/ exists k1 k2 ks, keys = k1 :: k2 :: ks.
  Proof.
    destruct (esfs_facts keys mn mx esfs Hsch) as (_ & _ & Hkne & _).
    destruct keys as [|? [|? ?]]; eauto. congruence.
  Qed.

  (* an update of the entry under mk, wherever it stands in the list *)
  Lemma list_step_mid : forall pre post q tv ecur e2,
    mid_ok pre -> mid_ok post -> before_ok pre -> key_leaves esfs keys mk (fields_of ecur) ->
    (forall fuel, (need_struct q <= fuel)%nat -> SR tv fuel ss (Some ecur) q = (Some e2, Ok 1%nat)) ->
    forall fuel, (need_list (el :: q) <= fuel)%nat ->
      SR tv fuel ss (Some (TList (pre ++ (mk, ecur) :: post))) (el :: q) =
        (Some (TList (pre ++ (mk, e2) :: post)), Ok 1%nat).
  Proof.
    intros pre post q tv ecur e2 Hpre Hpost Hbef Hl Hstep fuel Hfuel.
    destruct (esfs_facts keys mn mx esfs Hsch) as (Hok & Hd & Hkne & Hdk & Ha & Hdg).
    unfold need_list in Hfuel. cbn [length] in Hfuel. destruct fuel as [|f]; [lia|].
    assert (Hup : upd_entry mk (Some e2) (pre ++ (mk, ecur) :: post) = pre ++ (mk, e2) :: post).
    { unfold upd_entry. now apply tl_insert_mid. }
    pose proof (kk_find env fo ko keys mn mx esfs Hsch mk kk Hmk Hkk) as HF.
    destruct keys_shape as [[k Ek]|(k & k2 & ks & Ek)].
    - rewrite Ek in HF. inversion HF as [|k0 v ks0 vs (pk & Es & Fs) HF' E1 E2].
      inversion HF' as [E3 E4|]. rewrite <- E4 in E2. symmetry in E2.
      unfold ss. rewrite Ek at 1. rewrite set_rec_list_single. cbn [ekeys el]. rewrite Fs.
      rewrite <- Ek. fold ss. rewrite <- E2.
      rewrite (first_f_hit env fo ko rt_opts tv f ss esfs keys kk q k pk _ _ pre mk ecur post).
      + rewrite Hstep by (unfold need_struct; lia). now rewrite Hup.
      + eapply mid_single; eauto.
      + rewrite Ek, E2 in Hl. inversion Hl as [|? ? ? ? Hg _].
        rewrite (single_key_str_leaf env ko keys mn mx esfs Hsch k mk (fields_of ecur) v); auto. rewrite Ek. now left.
    - unfold ss. rewrite Ek at 1. rewrite set_rec_list_multi. cbn [ekeys el].
      rewrite <- Ek. fold ss.
      rewrite (all_f_hit env fo ko rt_opts tv f ss esfs keys kk q pre mk ecur post).
      + rewrite Hstep by (unfold need_struct; lia). cbn [Nat.eqb]. now rewrite Hup.
      + now apply mid_others_false.
      + now apply mid_others_false.
      + eapply keys_match_same; eauto.
  Qed.

  Lemma lift_entry_mid (Inv Inv' : tree -> Prop) : forall pre post,
    mid_ok pre -> mid_ok post -> before_ok pre ->
    (forall c, Inv c -> key_leaves esfs keys mk (fields_of c)) ->
    (forall c1, Inv' (TList (pre ++ (mk, c1) :: post))) ->
    forall ecur us e', Run env fo ko Inv need_struct ss ecur us e' ->
      key_leaves esfs keys mk (fields_of ecur) ->
      Run env fo ko Inv' need_list ss (TList (pre ++ (mk, ecur) :: post))
          (map (fun u => (el :: fst u, snd u)) us) (TList (pre ++ (mk, e') :: post)).
  Proof.
    intros pre post Hpre Hpost Hbef HI HI' ecur us e' HR.
    induction HR as [c|c u c1 us c2 Hstep Hi1 HR IH]; intros Hl; [constructor|].
    cbn [map]. eapply run_cons with (c' := TList (pre ++ (mk, c1) :: post)).
    - intros fuel Hfuel. cbn [fst snd] in *. apply list_step_mid; auto.
    - apply HI'.
    - apply IH. auto.
  Qed.

  Lemma key_leaves_nonempty c : key_leaves esfs keys mk (fields_of c) -> exists x r, c = TCont (x :: r).
  Proof.
    destruct (esfs_facts keys mn mx esfs Hsch) as (_ & _ & Hkne & _).
    intros H. destruct keys as [|k0 ks]; [congruence|]. inversion H as [|? ? ? ? Hg _]; subst.
    destruct c as [| |[|x r]| |]; try discriminate. eauto.
  Qed.

  (* DeleteNode below the entry under mk that leaves the entry as it is leaves the list as it is *)
  Lemma del_noop_list : forall pre post q ecur,
    mid_ok pre -> mid_ok post -> before_ok pre -> key_leaves esfs keys mk (fields_of ecur) ->
    q <> [] -> del_noop env fo ko need_struct ss ecur q ->
    del_noop env fo ko need_list ss (TList (pre ++ (mk, ecur) :: post)) (el :: q).
  Proof.
    intros pre post q ecur Hpre Hpost Hbef Hl Hq Hdel fuel Hfuel.
    destruct (esfs_facts keys mn mx esfs Hsch) as (Hok & Hd & Hkne & Hdk & Ha & Hdg).
    unfold need_list in Hfuel. cbn [length] in Hfuel. destruct fuel as [|f]; [lia|].
    destruct (key_leaves_nonempty ecur Hl) as (x0 & r0 & Ec).
    assert (Hsame : tl_insert mk ecur (pre ++ (mk, ecur) :: post) = pre ++ (mk, ecur) :: post)
      by now apply tl_insert_mid.
    pose proof (kk_find env fo ko keys mn mx esfs Hsch mk kk Hmk Hkk) as HF.
    destruct keys_shape as [[k Ek]|(k & k2 & ks & Ek)].
    - rewrite Ek in HF. inversion HF as [|k0 v ks0 vs (pk & Es & Fs) HF' E1 E2].
      inversion HF' as [E3 E4|]. rewrite <- E4 in E2. symmetry in E2.
      unfold ss. rewrite Ek at 1. rewrite (del_rec_list_single env fo ko f k mn mx esfs _ el q pk Fs).
      rewrite <- Ek. fold ss. rewrite <- E2.
      rewrite (dfirst_f_hit env fo ko f ss esfs q _ k pk _ pre mk ecur post).
      + rewrite (Hdel f) by (unfold need_struct; lia). replace (is_empty_cont ecur) with false by (rewrite Ec; reflexivity).
        now rewrite Hsame.
      + eapply mid_single; eauto.
      + rewrite Ek, E2 in Hl. inversion Hl as [|? ? ? ? Hg _].
        rewrite (single_key_str_leaf env ko keys mn mx esfs Hsch k mk (fields_of ecur) v); auto.
        rewrite Ek. now left.
      + exact Hq.
    - unfold ss. rewrite Ek at 1. rewrite (del_rec_list_multi env fo ko f k k2 ks mn mx esfs _ el q).
      rewrite <- Ek. fold ss. cbn [ekeys el].
      rewrite (dall_f_hit env fo ko f ss esfs keys kk q pre mk ecur post _ kk).
      + rewrite (Hdel f) by (unfold need_struct; lia). replace (is_empty_cont ecur) with false by (rewrite Ec; reflexivity).
        now rewrite Hsame.
      + now apply mid_others_false.
      + now apply mid_others_false.
      + eapply keys_match_same; eauto.
      + unfold entry_elem_keys. now rewrite (key_leaves_strs env ko esfs keys mk _ Hd Ha Hl), Hkk.
      + exact Hq.
  Qed.

  Lemma lift_chain_list (Inv Inv' : tree -> Prop) : forall pre post,
    mid_ok pre -> mid_ok post -> before_ok pre ->
    (forall c, Inv c -> key_leaves esfs keys mk (fields_of c)) ->
    (forall c1, Inv' (TList (pre ++ (mk, c1) :: post))) ->
    forall ecur gs e', GChain env fo ko Inv need_struct ss ecur gs e' ->
      key_leaves esfs keys mk (fields_of ecur) -> (forall g, In g gs -> g_q g <> []) ->
      GChain env fo ko Inv' need_list ss (TList (pre ++ (mk, ecur) :: post))
          (map (g_shift [el]) gs) (TList (pre ++ (mk, e') :: post)).
  Proof.
    intros pre post Hpre Hpost Hbef HI HI' ecur gs e' HG.
    induction HG as [c|c g c1 gs c2 Hdel Hemp Hne HR HG IH]; intros Hl Hgs; [constructor|].
    cbn [map].
    assert (Hq : g_q g <> []) by (apply Hgs; now left).
    assert (Hupsne : g_ups g <> []) by (unfold g_ups; destruct (g_us g); [congruence | discriminate]).
    eapply (gc_cons env fo ko _ need_list ss _ (g_shift [el] g) (TList (pre ++ (mk, c1) :: post))).
    - intros _. cbn [g_shift g_q app]. apply del_noop_list; auto.
    - intros E. cbn [g_shift g_q app] in E. discriminate.
    - exact Hne.
    - rewrite g_ups_shift. cbn [app]. apply (lift_entry_mid Inv Inv' pre post Hpre Hpost Hbef HI HI' c (g_ups g) c1 HR Hl).
    - apply IH.
      + apply HI. eapply Run_last_inv; eauto.
      + intros g0 H0. apply Hgs. now right.
  Qed.
End EntryMid.

(* ====================================================================================== *)
(* 10. The atomic groups of a tree, relative to a node                                     *)
(* ====================================================================================== *)

Lemma removelast_snoc {A} (l : list A) x : removelast (l ++ [x]) = l.
Proof.
  induction l as [|y l IH]; [reflexivity|]. cbn [app].
  change (removelast (y :: l ++ [x])) with (match l ++ [x] with [] => [] | _ :: _ => y :: removelast (l ++ [x]) end).
  rewrite IH. destruct l; reflexivity.
Qed.

Lemma keys_okb_later o : forall a k r, keys_okb o (a ++ k :: r) = true ->
  forall k', In k' r -> keys_eqb k' k = false.
Proof.
  induction a as [|x a IH]; intros k r H k' Hin; simpl in H; apply andb_true_iff in H as [H1 H2].
  - rewrite forallb_forall in H1. specialize (H1 k' Hin). apply andb_true_iff in H1 as [E _].
    now apply negb_true_iff in E.
  - eauto.
Qed.

Lemma field_get_all_none (T : list (str * tree)) : (forall m, field_get m T = None) -> T = [].
Proof.
  destruct T as [|[n t] r]; [reflexivity|]. intros H. specialize (H n). simpl in H.
  rewrite cstr_eqb_refl in H. discriminate.
Qed.

Section Groups.
  Variable env : enum_env.

  Definition grp_of (par : dpath) (it : litem) : list grp :=
    match it with
    | LAtomic P ls =>
        [mk_grp (skipn (length par) P) (map (fun pv => (skipn (length P) (fst pv), enc_l env (snd pv))) ls)]
    | LLeaf _ _ => []
    end.
  Definition grps (par : dpath) (items : list litem) : list grp := flat_map (grp_of par) items.

  Lemma grps_app par a b : grps par (a ++ b) = grps par a ++ grps par b.
  Proof. unfold grps. now rewrite flat_map_app. Qed.

  (* where the items of a subtree rooted at par lie *)
  Definition underO (par : dpath) (it : litem) : Prop :=
    match it with
    | LLeaf p _ => exists q, p = par ++ q /\ q <> []
    | LAtomic P ls =>
        (exists q, P = par ++ q) /\ ls <> [] /\
        forall p v, In (p, v) ls -> exists r, p = P ++ r /\ r <> []
    end.

  Lemma underO_weaken par pre it : underO (par ++ pre) it -> underO par it.
  Proof.
    destruct it as [p v|P ls]; simpl.
    - intros (q & -> & Hq). exists (pre ++ q). split; [now rewrite app_assoc|].
      destruct pre; simpl; auto. discriminate.
    - intros ((q & ->) & H2 & H3). repeat split; auto. exists (pre ++ q). now rewrite app_assoc.
  Qed.

  Lemma under_underO par it : under par it -> underO par it.
  Proof. destruct it; simpl; auto. intros []. Qed.

  Lemma grps_under par : forall items, Forall (under par) items -> grps par items = [].
  Proof.
    induction items as [|it items IH]; intros H; [reflexivity|]. inversion H; subst.
    destruct it; [|contradiction]. simpl. auto.
  Qed.

  Lemma grps_shift par pre : forall items, Forall (underO (par ++ pre)) items ->
    grps par items = map (g_shift pre) (grps (par ++ pre) items).
  Proof.
    induction items as [|it items IH]; intros H; [reflexivity|].
    inversion H as [|? ? Hit Hrest]; subst. change (it :: items) with ([it] ++ items).
    rewrite !grps_app, map_app, (IH Hrest). f_equal.
    destruct it as [p v|P ls]; [reflexivity|]. destruct Hit as ((q & ->) & _).
    unfold grps. cbn [flat_map grp_of app map g_shift g_q g_us]. f_equal. f_equal.
    rewrite skipn_app_exact, <- app_assoc, skipn_app_exact. reflexivity.
  Qed.

  Lemma match_map_nil {A B C} (f : A -> B) (l : list A) (x y : C) :
    match map f l with [] => x | _ :: _ => y end = match l with [] => x | _ :: _ => y end.
  Proof. destruct l; reflexivity. Qed.
End Groups.

(* ====================================================================================== *)
(* 11. Rebuilding the ordered lists of a tree over its plain part: the induction           *)
(* ====================================================================================== *)

Section MainOrd.
  Variable env : enum_env.
  Variable fo : float_oracle.
  Variable ko : key_oracle.
  Hypothesis Henv : wf_envb env = true.

  (* states of a struct while its groups are applied: never empty, the key leaves in place *)
  Definition Cinv (K : list str) (fs : list (str * tree)) (c : tree) : Prop := c <> TCont [] /\ keeps K fs c.
  (* states of a Go map: never empty *)
  Definition LInv (c : tree) : Prop := exists x r, c = TList (x :: r).

  Definition POc (t : tree) : Prop :=
    forall fs, t = TCont fs -> forall inner s sfs par items K,
      struct_schema s sfs -> gn_schemab s = true -> gn_node_ord env fo ko inner s (TCont fs) = true ->
      find_leaves env ko false false s (TCont fs) par = Ok items ->
      (forall n, In n K -> exists v, In (n, TLeaf v) fs) ->
      GChain env fo ko (Cinv K fs) need_struct s (TCont (plain_fields s fs)) (grps env par items) (TCont fs)
      /\ items <> [] /\ Forall (underO par) items
      /\ (inner = false -> forall g, In g (grps env par items) -> g_q g <> []).

  Definition PO (t : tree) : Prop :=
    POc t /\ forall es, t = TList es -> forall k e, In (k, e) es -> POc e.

  (* ---------- the entries of an ordered list, at the list node ---------- *)
  Lemma oentries_fold : forall keys mn mx esfs front nm es,
    gn_schemab (SList true keys mn mx esfs) = true ->
    (forall mk e, In (mk, e) es ->
       exists efs, e = TCont efs /\ gn_node env fo ko (SList true keys mn mx esfs) e = true
                   /\ key_matchb esfs keys efs mk = true
                   /\ keys_wfb env fo ko esfs keys mk = true /\ okeys_rtb env ko esfs keys mk = true) ->
    keys_okb true (map fst es) = true ->
    forall l done, es = done ++ l -> forall items,
      fl_entries env ko true (SList true keys mn mx esfs) esfs keys (front ++ [mk_elem nm]) l = Ok items ->
      Run env fo ko (fun _ => True) need_list (SList true keys mn mx esfs) (TList done) (ups env front items) (TList (done ++ l))
      /\ (l <> [] -> items <> []) /\ Forall (under front) items
      /\ (forall u, In u (ups env front items) -> exists el q, fst u = el :: q /\ ename el = nm).
  Proof.
    intros keys mn mx esfs front nm es Hsch Hge Hko.
    destruct (oesfs_facts keys mn mx esfs Hsch) as (Hok & Hd & Hkne & Hdk & Ha & Hdg).
    induction l as [|[mk e] more IH]; intros done Hes items Hfl.
    - cbn [fl_entries] in Hfl. injection Hfl as <-. rewrite app_nil_r.
      repeat split; try constructor; try congruence. intros u [].
    - cbn [fl_entries] in Hfl.
      assert (Hin : In (mk, e) es) by (rewrite Hes; apply in_or_app; right; now left).
      destruct (Hge mk e Hin) as (efs & -> & Hgn & Hkm & Hkw & Hort).
      cbn [fields_of] in Hfl.
      assert (Hek : entry_key esfs keys efs = Ok mk).
      { unfold key_matchb in Hkm. destruct (entry_key esfs keys efs) as [k'| |]; try discriminate.
        apply keys_eqb_eq in Hkm. now subst. }
      pose proof (entry_key_leaves env fo ko esfs keys mk efs Hd Ha Hek Hkw) as Hkl.
      destruct (keys_wfb_strs env fo ko esfs keys mk Hkw) as [kk Hkk].
      rewrite (key_leaves_strs env ko esfs keys mk efs Hd Ha Hkl), Hkk in Hfl. cbn [bind] in Hfl.
      rewrite set_last_keys_snoc in Hfl. cbn [bind ename mk_elem] in Hfl.
      destruct (atomic_irrel env fo ko (TCont efs)) as [HAc _].
      rewrite (HAc efs eq_refl _ _ Hgn) in Hfl.
      destruct (find_leaves env ko false false (SList true keys mn mx esfs) (TCont efs)
                  (front ++ [{| ename := nm; ekeys := kk |}])) as [here| |] eqn:Eh; try discriminate.
      cbn [bind] in Hfl.
      destruct (fl_entries env ko true (SList true keys mn mx esfs) esfs keys (front ++ [mk_elem nm]) more) as [r| |] eqn:Er;
        try discriminate.
      cbn [bind] in Hfl. injection Hfl as <-.
      pose proof Hgn as Hgn0.
      rewrite gn_node_cont_eq in Hgn. apply andb_true_iff in Hgn as [Hgn Hgf]. apply andb_true_iff in Hgn as [_ Hsub].
      apply subseqb_subseq in Hsub. cbn [sfields] in Hsub.
      destruct (rebuild_all env fo ko Henv (TCont efs)) as [HPc _].
      destruct (HPc efs eq_refl (SList true keys mn mx esfs) esfs (front ++ [{| ename := nm; ekeys := kk |}]) here
                  (map (key_go esfs) keys) (ss_entry true keys mn mx esfs) Hsch Hgn0 Eh (key_leaves_In esfs keys mk efs Hkl))
        as (HR & Hne & Hun).
      rewrite <- (key_fields_restrict esfs efs keys mk Hd Hsub Ha Hkl) in HR.
      assert (Hothers : oothers_ok env fo ko keys esfs mk done).
      { intros mk' e' Hin'.
        assert (Hin2 : In (mk', e') es) by (rewrite Hes; apply in_or_app; now left).
        destruct (Hge mk' e' Hin2) as (efs' & -> & _ & _ & Hkw' & _). split; auto.
        rewrite Hes, map_app in Hko. cbn [map fst] in Hko.
        destruct (keys_okb_app true (map fst done) mk (map fst more) Hko mk') as [Q1 _].
        { change mk' with (fst (mk', TCont efs')). now apply in_map. }
        intros ->. now rewrite keys_eqb_refl in Q1. }
      pose proof (lift_oentry env fo ko Henv keys mn mx esfs Hsch nm mk kk Hkw Hort Hkk _ done
                    (ups env (front ++ [{| ename := nm; ekeys := kk |}]) here) (TCont efs) Hothers HR
                    (ups_nonempty env _ _ Hne Hun)) as HL.
      pose proof (ups_shift env front [{| ename := nm; ekeys := kk |}] here Hun) as Hshift. cbn [app] in Hshift.
      destruct (IH (done ++ [(mk, TCont efs)]) ltac:(rewrite Hes, <- app_assoc; reflexivity) r eq_refl)
        as (HR2 & _ & Hun2 & Hel2).
      rewrite ups_app, Hshift. repeat split.
      + eapply Run_app; [exact HL|]. rewrite <- app_assoc in HR2. exact HR2.
      + intros _. destruct here; [congruence | discriminate].
      + apply Forall_app. split; auto. eapply Forall_impl; [|exact Hun]. intros it. apply under_weaken.
      + intros u Hu. apply in_app_or in Hu as [Hu|Hu]; auto.
        apply in_map_iff in Hu as (u0 & <- & _). cbn [fst]. eexists _, (fst u0). split; reflexivity.
  Qed.

  (* ---------- the entries of a Go map, at the list node ---------- *)
  Lemma chain_entries : forall keys mn mx esfs front nm es,
    gn_schemab (SList false keys mn mx esfs) = true ->
    gn_oentries env fo ko (SList false keys mn mx esfs) esfs keys es = true ->
    keys_okb false (map fst es) = true ->
    (forall k e, In (k, e) es -> POc e) ->
    forall l done, es = done ++ l -> forall items,
      fl_entries env ko false (SList false keys mn mx esfs) esfs keys (front ++ [mk_elem nm]) l = Ok items ->
      GChain env fo ko LInv need_list (SList false keys mn mx esfs)
          (TList (done ++ plain_entries (SList false keys mn mx esfs) l)) (grps env front items) (TList (done ++ l))
      /\ (l <> [] -> items <> []) /\ Forall (underO front) items
      /\ (forall g, In g (grps env front items) -> exists el q, g_q g = el :: q /\ ename el = nm).
  Proof.
    intros keys mn mx esfs front nm es Hsch Hge Hko HP.
    destruct (esfs_facts keys mn mx esfs Hsch) as (Hok & Hd & Hkne & Hdk & Ha & Hdg).
    induction l as [|[mk e] more IH]; intros done Hes items Hfl.
    - cbn [fl_entries] in Hfl. injection Hfl as <-. cbn [plain_entries map]. rewrite app_nil_r.
      repeat split; try constructor; try congruence. intros g [].
    - cbn [fl_entries] in Hfl.
      assert (Hin : In (mk, e) es) by (rewrite Hes; apply in_or_app; right; now left).
      destruct (oentry_facts env fo ko keys mn mx esfs es mk e Hsch Hge Hin)
        as (efs & -> & Hgn & Hkw & Hnan & Hnd & Hsb & Hgf & Hkl & Hkl' & Hpne).
      cbn [fields_of] in Hfl.
      destruct (keys_wfb_strs env fo ko esfs keys mk Hkw) as [kk Hkk].
      rewrite (key_leaves_strs env ko esfs keys mk efs Hd Ha Hkl), Hkk in Hfl. cbn [bind] in Hfl.
      rewrite set_last_keys_snoc in Hfl. cbn [bind ename mk_elem] in Hfl.
      destruct (find_leaves env ko false false (SList false keys mn mx esfs) (TCont efs)
                  (front ++ [{| ename := nm; ekeys := kk |}])) as [here| |] eqn:Eh; try discriminate.
      cbn [bind] in Hfl.
      destruct (fl_entries env ko false (SList false keys mn mx esfs) esfs keys (front ++ [mk_elem nm]) more) as [r| |] eqn:Er;
        try discriminate.
      cbn [bind] in Hfl. injection Hfl as <-.
      destruct (HP mk (TCont efs) Hin efs eq_refl false (SList false keys mn mx esfs) esfs
                  (front ++ [{| ename := nm; ekeys := kk |}]) here (map (key_go esfs) keys)
                  (ss_entry false keys mn mx esfs) Hsch Hgn Eh (key_leaves_In esfs keys mk efs Hkl))
        as (HG & Hne & Hun & Hq).
      specialize (Hq eq_refl).
      (* the other entries *)
      assert (Hmid1 : mid_ok env fo ko keys esfs mk done).
      { intros mk' e' Hin'.
        assert (Hin2 : In (mk', e') es) by (rewrite Hes; apply in_or_app; now left).
        destruct (oentry_facts env fo ko keys mn mx esfs es mk' e' Hsch Hge Hin2)
          as (efs' & -> & _ & Hkw' & _ & _ & _ & _ & Hkl2 & _).
        repeat split; auto.
        rewrite Hes, map_app in Hko. cbn [map fst] in Hko.
        destruct (keys_okb_app false (map fst done) mk (map fst more) Hko mk') as [Q1 _].
        { change mk' with (fst (mk', TCont efs')). now apply in_map. }
        intros ->. now rewrite keys_eqb_refl in Q1. }
      assert (Hbef : before_ok mk done).
      { intros k0 e0 Hin0. rewrite Hes, map_app in Hko. cbn [map fst] in Hko.
        destruct (keys_okb_app false (map fst done) mk (map fst more) Hko k0) as [Q1 Q2].
        { change k0 with (fst (k0, e0)). now apply in_map. }
        split; auto. destruct Q2; [discriminate | assumption]. }
      assert (Hmid2 : mid_ok env fo ko keys esfs mk (plain_entries (SList false keys mn mx esfs) more)).
      { intros mk' e' Hin'. unfold plain_entries in Hin'. apply in_map_iff in Hin' as ([mk2 e2] & E & Hin2).
        cbn [fst snd] in E. injection E as <- <-.
        assert (Hin3 : In (mk2, e2) es) by (rewrite Hes; apply in_or_app; right; now right).
        destruct (oentry_facts env fo ko keys mn mx esfs es mk2 e2 Hsch Hge Hin3)
          as (efs' & -> & _ & Hkw' & _ & _ & _ & _ & _ & Hkl2 & _).
        rewrite plain_cont_eq. cbn [fields_of]. repeat split; auto.
        rewrite Hes, map_app in Hko. cbn [map fst] in Hko.
        pose proof (keys_okb_later false (map fst done) mk (map fst more) Hko mk2) as Q.
        intros ->. rewrite keys_eqb_refl in Q. discriminate Q.
        change mk with (fst (mk, TCont efs')). now apply in_map. }
      pose proof (lift_chain_list env fo ko Henv keys mn mx esfs Hsch nm mk kk Hkw Hkk
                    (Cinv (map (key_go esfs) keys) efs) LInv done (plain_entries (SList false keys mn mx esfs) more)
                    Hmid1 Hmid2 Hbef) as HL.
      specialize (HL ltac:(intros c [_ Hc]; apply (keeps_key_leaves esfs efs c keys mk Hkl Hc))).
      specialize (HL ltac:(intros c1; unfold LInv; destruct done; cbn [app]; eauto)).
      specialize (HL (TCont (plain_fields (SList false keys mn mx esfs) efs)) _ (TCont efs) HG Hkl' Hq).
      pose proof (grps_shift env front [{| ename := nm; ekeys := kk |}] here Hun) as Hshift.
      destruct (IH (done ++ [(mk, TCont efs)]) ltac:(rewrite Hes, <- app_assoc; reflexivity) r eq_refl)
        as (HG2 & _ & Hun2 & Hel2).
      rewrite grps_app, Hshift. repeat split.
      + eapply GChain_app.
        * cbn [plain_entries map fst snd]. rewrite plain_cont_eq. exact HL.
        * rewrite <- !app_assoc in HG2. exact HG2.
      + intros _. destruct here; [congruence | discriminate].
      + apply Forall_app. split; auto. eapply Forall_impl; [|exact Hun]. intros it. apply underO_weaken.
      + intros g Hg. apply in_app_or in Hg as [Hg|Hg]; auto.
        apply in_map_iff in Hg as (g0 & <- & _). cbn [g_shift g_q app]. eexists _, (g_q g0). split; reflexivity.
  Qed.
End MainOrd.

Lemma field_get_absent n (fs : list (str * tree)) : ~ In n (map fst fs) -> field_get n fs = None.
Proof.
  intros H. destruct (field_get n fs) eqn:E; [|reflexivity]. exfalso. apply H, field_get_names. congruence.
Qed.

Section MainOrd2.
  Variable env : enum_env.
  Variable fo : float_oracle.
  Variable ko : key_oracle.
  Hypothesis Henv : wf_envb env = true.

  (* ---------- one field, at its struct ---------- *)
  Lemma field_chain : forall inner s sfs par fs K name sub here,
    struct_schema s sfs -> gn_schemab s = true ->
    subseq (map fst fs) (go_names sfs) ->
    gn_ofields env fo ko inner s (length fs) fs = true -> In (name, sub) fs ->
    PO env fo ko sub ->
    (forall n, In n K -> exists v, In (n, TLeaf v) fs) ->
    fl_field env ko false sfs par (name, sub) = Ok here ->
    forall T, subseq (map fst T) (go_names sfs) -> keeps K fs (TCont T) ->
      field_get name T = pval s name sub ->
      (length fs = 1%nat -> pval s name sub = None -> T = []) ->
      GChain env fo ko (Cinv K fs) need_struct s (TCont T) (grps env par here)
          (TCont (match grps env par here with [] => T | _ :: _ => field_set (go_names sfs) name sub T end))
      /\ (grps env par here = [] -> pval s name sub = Some sub)
      /\ here <> [] /\ Forall (underO par) here
      /\ (inner = false -> forall g, In g (grps env par here) -> g_q g <> []).
  Proof.
    intros inner s sfs par fs K name sub here Hs Hsch Hsub Hgf Hin HP HK Hfl T HsubT HkT Hget Hone.
    pose proof (struct_schema_sfields s sfs Hs) as Esf.
    destruct (gn_schemab_fields s Hsch) as [Hok Hch]. rewrite Esf in Hok, Hch.
    destruct (gn_struct_parts sfs Hok) as [Hso _]. destruct (struct_facts sfs Hso) as (Hd & _).
    assert (Hnd : NoDup (map fst fs)) by (eapply subseq_NoDup; eauto).
    destruct (gn_ofields_In env fo ko inner s (length fs) fs name sub Hgf Hin) as (fi & ss & Ef' & Hkm & Hcond).
    pose proof Ef' as Ef. rewrite Esf in Ef. destruct (find_go_name sfs name fi ss Ef) as [Hfi Hgo].
    assert (Hn : In (f_go fi) (go_names sfs)) by (eapply go_names_In; eauto).
    unfold fl_field in Hfl. rewrite Ef in Hfl. cbv zeta in Hfl.
    assert (Elib : lib_paths false fi par = map (fun alt => par ++ path_of_names alt) (f_paths fi)) by reflexivity.
    pose proof (paths_nonempty sfs fi ss Hok Hfi) as Hpne.
    assert (Hinv : (forall v, sub <> TLeaf v) -> forall c1, Cinv K fs (TCont (field_set (go_names sfs) name c1 T))).
    { intros Hnl c1. split.
      - intros E. injection E as E. eapply field_set_nonempty; eauto.
      - intros m Hm. cbn [fields_of]. rewrite field_get_set_other; [now apply HkT|].
        intros ->. destruct (HK name Hm) as [v Hv].
        pose proof (field_get_In name sub fs Hnd Hin) as G1.
        pose proof (field_get_In name (TLeaf v) fs Hnd Hv) as G2. apply (Hnl v). congruence. }
    assert (Hunder_alts : forall lv, Forall (under par) (map (fun p => LLeaf p lv) (map (fun alt => par ++ path_of_names alt) (f_paths fi)))).
    { intros lv. apply Forall_forall. intros it Hit. apply in_map_iff in Hit as (p & <- & Hp).
      apply in_map_iff in Hp as (alt & <- & Halt). exists (path_of_names alt). split; auto.
      pose proof (alt_nonempty sfs fi ss alt Hok Hfi Halt). destruct alt; [congruence | discriminate]. }
    assert (Hplain_case : forall hs, Forall (under par) hs -> hs <> [] -> pval s name sub = Some sub ->
              GChain env fo ko (Cinv K fs) need_struct s (TCont T) (grps env par hs)
                (TCont (match grps env par hs with [] => T | _ :: _ => field_set (go_names sfs) name sub T end))
              /\ (grps env par hs = [] -> pval s name sub = Some sub)
              /\ hs <> [] /\ Forall (underO par) hs
              /\ (inner = false -> forall g, In g (grps env par hs) -> g_q g <> [])).
    { intros hs Hu Hne Hp. rewrite (grps_under env par hs Hu).
      split; [constructor|]. split; [intros _; exact Hp|]. split; [exact Hne|]. split.
      - eapply Forall_impl; [|exact Hu]. apply under_underO.
      - intros _ g []. }
    destruct (is_ordered_list ss) eqn:Eo.
    - (* an ordered list: one group *)
      apply andb_true_iff in Hcond as [Hord Hol].
      destruct (gn_olistb_parts env fo ko ss sub Hol) as (keys & mn & mx & esfs & es & -> & -> & Hesne & Hko & Hent).
      destruct (f_paths fi) as [|a0 alts] eqn:Epaths; [congruence|].
      rewrite Elib in Hfl. cbn [map hd] in Hfl.
      assert (Ha0 : In a0 (f_paths fi)) by (rewrite Epaths; now left).
      pose proof (alt_nonempty sfs fi _ a0 Hok Hfi Ha0) as Ha0ne.
      rewrite (removelast_last_names a0 Ha0ne), app_assoc in Hfl.
      set (front := par ++ path_of_names (removelast a0)) in *.
      set (nm := last a0 []) in *.
      destruct (fl_entries env ko true (SList true keys mn mx esfs) esfs keys (front ++ [mk_elem nm]) es) as [its| |] eqn:Eits;
        cbn [bind] in Hfl; try discriminate.
      destruct (oentries_fold env fo ko Henv keys mn mx esfs front nm es (Hch fi _ Hfi) Hent Hko es [] eq_refl its Eits)
        as (HR & Hne & Hun & Hel).
      assert (Hne' : its <> []) by (apply Hne; exact Hesne).
      pose proof (ups_nonempty env front its Hne' Hun) as Hupsne.
      assert (Eups : ups env front its =
                map (fun pv => (skipn (length front) (fst pv), enc_l env (snd pv))) (flat_map plain_of its)) by reflexivity.
      destruct (flat_map plain_of its) as [|pv lv'] eqn:Elv; [rewrite Eups in Hupsne; now contradiction Hupsne|].
      destruct (front ++ [mk_elem nm]) as [|p00 p0r] eqn:Ep0; [destruct front; discriminate|].
      rewrite <- Ep0, removelast_snoc in Hfl. injection Hfl as <-.
      assert (Epv : pval s name (TList es) = None) by (unfold pval; now rewrite Ef', Eo).
      assert (Eg : grps env par [LAtomic front (pv :: lv')] = [mk_grp (path_of_names (removelast a0)) (ups env front its)]).
      { unfold grps. cbn [flat_map grp_of app]. unfold front at 1. rewrite skipn_app_exact. now rewrite Eups. }
      rewrite Eg.
      assert (HnotLeaf : forall v, TList es <> TLeaf v) by (intros v; discriminate).
      assert (Hnone : field_get name T = None) by (rewrite Hget; exact Epv).
      split; [|split; [discriminate|split; [discriminate|split]]].
      + eapply (gc_cons env fo ko _ need_struct s (TCont T) _ (TCont (field_set (go_names sfs) name (TList es) T)));
          [| | | |apply gc_nil]; cbn [g_q g_us].
        * (* the delete removes the absent ordered-map field *)
          intros Hq fuel Hfuel. unfold ord_field_okb in Hord. rewrite Esf, Epaths in Hord.
          destruct (removelast a0) as [|x q'] eqn:Erl; [now contradiction Hq|].
          destruct (find_field false true (path_of_names (x :: q')) sfs) as [| fi'|] eqn:Eff; try discriminate.
          apply cstr_eqb_eq in Hord.
          destruct fuel as [|f]; [unfold need_struct in Hfuel; lia|].
          cbn [path_of_names map] in Eff |- *.
          rewrite (del_rec_ordpartial env fo ko f s sfs T fi' _ _ Hs Eff).
          rewrite field_remove_absent; [reflexivity|]. now rewrite Hord, Hgo.
        * intros Eq. f_equal. apply Hone; [|exact Epv].
          unfold ord_field_okb in Hord. rewrite Esf, Epaths in Hord.
          destruct (removelast a0) as [|x q'] eqn:Erl; [|discriminate].
          apply andb_true_iff in Hord as [_ Hord]. now apply Nat.eqb_eq in Hord.
        * exact Hupsne.
        * pose proof (lift_run env fo ko (fun _ => True) (Cinv K fs) need_list s sfs fi (SList true keys mn mx esfs) a0
                        (path_of_names (removelast a0)) T Hs Hok Hfi Ha0 eq_refl) as HL.
          specialize (HL ltac:(unfold consumed, path_of_names; cbn [is_keyed_list]; rewrite map_length, removelast_length; reflexivity)).
          specialize (HL ltac:(intros cp; unfold need_list; lia)).
          specialize (HL Hd HsubT Hn). rewrite Hgo in HL.
          specialize (HL (Hinv HnotLeaf)).
          specialize (HL (ups env front its) (TList []) (TList es) HR).
          assert (Hus : forall u, In u (ups env front its) ->
                    is_prefixb a0 (pnames (path_of_names (removelast a0) ++ fst u)) = true /\
                    path_of_names (removelast a0) ++ fst u <> []).
          { intros u Hu. destruct (Hel u Hu) as (el & q & -> & Hname). split.
            - assert (Eq : pnames (path_of_names (removelast a0) ++ el :: q) = a0 ++ pnames q).
              { rewrite pnames_app, pnames_of_names. change (pnames (el :: q)) with ([ename el] ++ pnames q).
                rewrite Hname, app_assoc. f_equal. symmetry. apply app_removelast_last. exact Ha0ne. }
              rewrite Eq. apply is_prefixb_app.
            - destruct (path_of_names (removelast a0)); discriminate. }
          specialize (HL Hus T ltac:(split; [rewrite Hnone; reflexivity | reflexivity])).
          unfold g_ups. cbn [g_q g_us].
          destruct (ups env front its) as [|u0 us0]; [congruence | exact HL].
      + constructor; [|constructor]. cbn [underO]. repeat split.
        * exists (path_of_names (removelast a0)). reflexivity.
        * discriminate.
        * intros p v Hpv. rewrite <- Elv in Hpv. apply in_flat_map in Hpv as (it & Hit & Hpv).
          rewrite Forall_forall in Hun. specialize (Hun it Hit). destruct it as [p1 v1|]; [|contradiction].
          destruct Hpv as [[= <- <-]|[]]. exact Hun.
      + intros Hi g [<-|[]]. cbn [g_q]. subst inner.
        unfold ord_field_okb in Hord. rewrite Epaths in Hord.
        destruct (removelast a0); [discriminate | discriminate].
    - destruct sub as [v|vs|cfs|es|ues].
      + (* leaf *)
        destruct ss as [ty d| | | |]; try discriminate.
        destruct (leaf_walk_ok env (SLeaf ty d) v); [|discriminate]. injection Hfl as <-. rewrite Elib.
        apply Hplain_case; auto.
        * destruct (f_paths fi); [congruence | discriminate].
        * apply (pval_leafish s name (TLeaf v) fi _ Ef' Hkm eq_refl).
      + destruct ss as [|ty mn mx| | |]; try discriminate. cbn [gn_node_ord] in Hcond.
        apply andb_true_iff in Hcond as [Hne Hall]. destruct vs as [|v0 vs']; [discriminate|].
        injection Hfl as <-. rewrite Elib.
        apply Hplain_case; auto.
        * destruct (f_paths fi); [congruence | discriminate].
        * apply (pval_leafish s name _ fi _ Ef' Hkm eq_refl).
      + (* container *)
        destruct ss as [| |csfs| |]; try discriminate.
        destruct (f_paths fi) as [|a0 alts] eqn:Epaths; [congruence|].
        rewrite Elib in Hfl. cbn [map hd] in Hfl.
        assert (Ha0 : In a0 (f_paths fi)) by (rewrite Epaths; now left).
        pose proof (alt_nonempty sfs fi _ a0 Hok Hfi Ha0) as Ha0ne.
        destruct HP as [HPc _].
        destruct (HPc cfs eq_refl (is_cont_schema (SCont csfs)) (SCont csfs) csfs (par ++ path_of_names a0) here []
                    (ss_cont csfs) (Hch fi _ Hfi) Hcond Hfl ltac:(intros n []))
          as (HG & Hne & Hun & _).
        assert (HnotLeaf : forall v, TCont cfs <> TLeaf v) by (intros v; discriminate).
        pose proof (lift_chain env fo ko (Cinv [] cfs) (Cinv K fs) need_struct s sfs fi (SCont csfs) a0 (path_of_names a0) T
                      Hs Hok Hfi Ha0 eq_refl) as HL.
        specialize (HL ltac:(unfold consumed, path_of_names; cbn [is_keyed_list]; now rewrite map_length)).
        specialize (HL ltac:(intros cp; unfold need_struct, path_of_names; rewrite map_length;
                             destruct a0; [congruence | simpl; lia])).
        specialize (HL Hd HsubT Hn). rewrite Hgo in HL.
        specialize (HL (Hinv HnotLeaf)).
        specialize (HL ltac:(intros x [Hx _]; destruct x as [| |[|x0 xr]| |]; try reflexivity; congruence)).
        specialize (HL (grps env (par ++ path_of_names a0) here) _ _ HG).
        assert (Hgs : forall g, In g (grps env (par ++ path_of_names a0) here) ->
                  (g_q g = [] -> is_cont_schema (SCont csfs) = true) /\
                  is_prefixb a0 (pnames (path_of_names a0 ++ g_q g)) = true /\ path_of_names a0 ++ g_q g <> [] /\
                  (forall u, In u (g_us g) -> is_prefixb a0 (pnames (path_of_names a0 ++ g_q g ++ fst u)) = true)).
        { intros g _. repeat split.
          - rewrite pnames_app, pnames_of_names. apply is_prefixb_app.
          - destruct a0; [congruence | discriminate].
          - intros u _. rewrite pnames_app, pnames_of_names. apply is_prefixb_app. }
        specialize (HL Hgs T HsubT (fun c1 => eq_refl)).
        assert (Epv : pval s name (TCont cfs) =
                  if is_nilc (TCont (plain_fields (SCont csfs) cfs)) then None else Some (TCont (plain_fields (SCont csfs) cfs))).
        { unfold pval. rewrite Ef'. cbn [is_ordered_list]. now rewrite plain_cont_eq. }
        assert (Hrel : (field_get name T = Some (TCont (plain_fields (SCont csfs) cfs)) /\
                        prune_child (SCont csfs) (Some (TCont (plain_fields (SCont csfs) cfs))) =
                          Some (TCont (plain_fields (SCont csfs) cfs))) \/
                       (field_get name T = None /\ init_field (SCont csfs) None = Some (TCont (plain_fields (SCont csfs) cfs)))).
        { rewrite Hget, Epv. destruct (plain_fields (SCont csfs) cfs); [right | left]; split; reflexivity. }
        specialize (HL Hrel).
        rewrite (grps_shift env par (path_of_names a0) here Hun), match_map_nil.
        split; [exact HL|]. split; [|split; [exact Hne|split]].
        * intros Eg. apply map_eq_nil in Eg. rewrite Eg in HG. apply GChain_nil_inv in HG.
          rewrite Epv. injection HG as Ec2. rewrite Ec2.
          rewrite gn_node_ord_cont_eq in Hcond. apply andb_true_iff in Hcond as [Hcond _].
          apply andb_true_iff in Hcond as [Hcne _]. destruct cfs; [discriminate | reflexivity].
        * eapply Forall_impl; [|exact Hun]. intros it. apply underO_weaken.
        * intros _ g Hg. apply in_map_iff in Hg as (g0 & <- & _). cbn [g_shift g_q].
          destruct a0; [congruence | discriminate].
      + (* Go map *)
        destruct ss as [| | |[|] keys mn mx esfs|]; try discriminate.
        destruct (f_paths fi) as [|a0 alts] eqn:Epaths; [congruence|].
        rewrite Elib in Hfl. cbn [map hd] in Hfl.
        assert (Ha0 : In a0 (f_paths fi)) by (rewrite Epaths; now left).
        pose proof (alt_nonempty sfs fi _ a0 Hok Hfi Ha0) as Ha0ne.
        rewrite (removelast_last_names a0 Ha0ne), app_assoc in Hfl.
        rewrite gn_node_ord_list_eq in Hcond. apply andb_true_iff in Hcond as [Hcond Hko].
        apply andb_true_iff in Hcond as [Hnil Hge].
        destruct HP as [_ HPl].
        destruct (chain_entries env fo ko Henv keys mn mx esfs (par ++ path_of_names (removelast a0)) (last a0 []) es
                    (Hch fi _ Hfi) Hge Hko (HPl es eq_refl) es [] eq_refl here Hfl)
          as (HG & Hne & Hun & Hel).
        cbn [app] in HG.
        assert (Hne' : here <> []) by (apply Hne; destruct es; [discriminate | discriminate]).
        assert (HnotLeaf : forall v, TList es <> TLeaf v) by (intros v; discriminate).
        pose proof (lift_chain env fo ko LInv (Cinv K fs) need_list s sfs fi (SList false keys mn mx esfs) a0
                      (path_of_names (removelast a0)) T Hs Hok Hfi Ha0 eq_refl) as HL.
        specialize (HL ltac:(unfold consumed, path_of_names; cbn [is_keyed_list]; rewrite map_length, removelast_length; reflexivity)).
        specialize (HL ltac:(intros cp; unfold need_list; lia)).
        specialize (HL Hd HsubT Hn). rewrite Hgo in HL.
        specialize (HL (Hinv HnotLeaf)).
        specialize (HL ltac:(intros x (x0 & xr & ->); reflexivity)).
        specialize (HL (grps env (par ++ path_of_names (removelast a0)) here) _ _ HG).
        assert (Hgs : forall g, In g (grps env (par ++ path_of_names (removelast a0)) here) ->
                  (g_q g = [] -> is_cont_schema (SList false keys mn mx esfs) = true) /\
                  is_prefixb a0 (pnames (path_of_names (removelast a0) ++ g_q g)) = true /\
                  path_of_names (removelast a0) ++ g_q g <> [] /\
                  (forall u, In u (g_us g) -> is_prefixb a0 (pnames (path_of_names (removelast a0) ++ g_q g ++ fst u)) = true)).
        { intros g Hg. destruct (Hel g Hg) as (el & q & Eq & Hname). rewrite Eq.
          assert (Epre : forall rest, pnames (path_of_names (removelast a0) ++ (el :: q) ++ rest) = a0 ++ pnames (q ++ rest)).
          { intros rest. rewrite pnames_app, pnames_of_names. cbn [app].
            change (pnames (el :: q ++ rest)) with ([ename el] ++ pnames (q ++ rest)).
            rewrite Hname, app_assoc. f_equal. symmetry. apply app_removelast_last. exact Ha0ne. }
          repeat split.
          - discriminate.
          - pose proof (Epre []) as E. rewrite !app_nil_r in E. rewrite E. apply is_prefixb_app.
          - destruct (path_of_names (removelast a0)); discriminate.
          - intros u _. rewrite Epre. apply is_prefixb_app. }
        specialize (HL Hgs T HsubT (fun c1 => eq_refl)).
        assert (Epv : pval s name (TList es) = Some (TList (plain_entries (SList false keys mn mx esfs) es))).
        { unfold pval. rewrite Ef'. cbn [is_ordered_list]. now rewrite plain_list_eq. }
        assert (Hrel : (field_get name T = Some (TList (plain_entries (SList false keys mn mx esfs) es)) /\
                        prune_child (SList false keys mn mx esfs) (Some (TList (plain_entries (SList false keys mn mx esfs) es))) =
                          Some (TList (plain_entries (SList false keys mn mx esfs) es))) \/
                       (field_get name T = None /\
                        init_field (SList false keys mn mx esfs) None = Some (TList (plain_entries (SList false keys mn mx esfs) es)))).
        { left. rewrite Hget, Epv. split; [reflexivity|]. destruct es; [discriminate | reflexivity]. }
        specialize (HL Hrel).
        rewrite (grps_shift env par (path_of_names (removelast a0)) here Hun), match_map_nil.
        split; [exact HL|]. split; [|split; [exact Hne'|split]].
        * intros Eg. apply map_eq_nil in Eg. rewrite Eg in HG. apply GChain_nil_inv in HG.
          rewrite Epv. now rewrite HG.
        * eapply Forall_impl; [|exact Hun]. intros it. apply underO_weaken.
        * intros _ g Hg. apply in_map_iff in Hg as (g0 & <- & Hg0). cbn [g_shift g_q].
          destruct (Hel g0 Hg0) as (el & q & -> & _). destruct (path_of_names (removelast a0)); discriminate.
      + discriminate.
  Qed.
End MainOrd2.

Lemma in_names_snoc D n m : in_names (D ++ [n]) m = in_names D m || str_eqb m n.
Proof. rewrite in_names_app. unfold in_names at 2. cbn [existsb]. now rewrite orb_false_r. Qed.

Section MainOrd3.
  Variable env : enum_env.
  Variable fo : float_oracle.
  Variable ko : key_oracle.
  Hypothesis Henv : wf_envb env = true.

  (* ---------- all fields of a struct ---------- *)
  Lemma chain_fields : forall inner s sfs par fs K,
    struct_schema s sfs -> gn_schemab s = true ->
    subseq (map fst fs) (go_names sfs) ->
    gn_ofields env fo ko inner s (length fs) fs = true ->
    (forall name sub, In (name, sub) fs -> PO env fo ko sub) ->
    (forall n, In n K -> exists v, In (n, TLeaf v) fs) ->
    forall l done, fs = done ++ l -> forall items,
      fl_fields env ko false sfs par l = Ok items ->
      forall T, subseq (map fst T) (go_names sfs) ->
        (forall m, field_get m T = if in_names (map fst done) m then field_get m fs
                                   else field_get m (plain_fields s fs)) ->
        exists T', GChain env fo ko (Cinv K fs) need_struct s (TCont T) (grps env par items) (TCont T')
          /\ subseq (map fst T') (go_names sfs)
          /\ (forall m, field_get m T' = if in_names (map fst (done ++ l)) m then field_get m fs
                                         else field_get m (plain_fields s fs))
          /\ (l <> [] -> items <> []) /\ Forall (underO par) items
          /\ (inner = false -> forall g, In g (grps env par items) -> g_q g <> []).
  Proof.
    intros inner s sfs par fs K Hs Hsch Hsub Hgf HP HK.
    pose proof (struct_schema_sfields s sfs Hs) as Esf.
    destruct (gn_schemab_fields s Hsch) as [Hok Hch]. rewrite Esf in Hok, Hch.
    destruct (gn_struct_parts sfs Hok) as [Hso _]. destruct (struct_facts sfs Hso) as (Hd & _).
    assert (Hnd : NoDup (map fst fs)) by (eapply subseq_NoDup; eauto).
    induction l as [|[name sub] rest IH]; intros done Hfs items Hfl T HsT HJ.
    - cbn [fl_fields] in Hfl. injection Hfl as <-. exists T. rewrite app_nil_r.
      split; [constructor|]. split; [exact HsT|]. split; [exact HJ|]. split; [congruence|].
      split; [constructor | intros _ g []].
    - cbn [fl_fields] in Hfl.
      destruct (fl_field env ko false sfs par (name, sub)) as [here| |] eqn:Eh; try discriminate. cbn [bind] in Hfl.
      destruct (fl_fields env ko false sfs par rest) as [r| |] eqn:Er; try discriminate. cbn [bind] in Hfl.
      injection Hfl as <-.
      assert (Hin : In (name, sub) fs) by (rewrite Hfs; apply in_or_app; right; now left).
      pose proof (field_get_In name sub fs Hnd Hin) as Hgfs.
      assert (Hnot : in_names (map fst done) name = false).
      { destruct (in_names (map fst done) name) eqn:E; [|reflexivity]. apply in_names_In in E.
        rewrite Hfs, map_app in Hnd. cbn [map fst] in Hnd. exfalso.
        apply (NoDup_app_disj (map fst done) (name :: map fst rest) name Hnd E). now left. }
      assert (HkT : keeps K fs (TCont T)).
      { intros m Hm. cbn [fields_of]. rewrite HJ. destruct (in_names (map fst done) m); [reflexivity|].
        destruct (HK m Hm) as [v Hv]. pose proof (field_get_In m (TLeaf v) fs Hnd Hv) as G.
        rewrite G. eapply plain_keeps_leaf; eauto. }
      assert (Hget : field_get name T = pval s name sub).
      { rewrite HJ, Hnot, (field_get_plain s name fs Hnd), Hgfs. reflexivity. }
      assert (Hone : length fs = 1%nat -> pval s name sub = None -> T = []).
      { intros Hlen Hpv. apply field_get_all_none. intros m. rewrite HJ.
        rewrite Hfs in Hlen |- *. rewrite app_length in Hlen. cbn [length] in Hlen.
        destruct done as [|d0 dr]; [|cbn [length] in Hlen; lia].
        destruct rest as [|r0 rr]; [|cbn [length] in Hlen; lia].
        cbn [app map in_names existsb plain_fields]. now rewrite Hpv. }
      destruct (field_chain env fo ko Henv inner s sfs par fs K name sub here Hs Hsch Hsub Hgf Hin (HP name sub Hin) HK Eh
                  T HsT HkT Hget Hone) as (HG1 & Hpl & Hne1 & Hun1 & Hq1).
      set (T1 := match grps env par here with [] => T | _ :: _ => field_set (go_names sfs) name sub T end) in *.
      assert (Hname : In name (go_names sfs)).
      { eapply subseq_In; [exact Hsub|]. change name with (fst (name, sub)). now apply in_map. }
      assert (HsT1 : subseq (map fst T1) (go_names sfs)).
      { unfold T1. destruct (grps env par here); [exact HsT | now apply field_set_sorted]. }
      assert (HJ1 : forall m, field_get m T1 = if in_names (map fst (done ++ [(name, sub)])) m then field_get m fs
                                                else field_get m (plain_fields s fs)).
      { intros m. rewrite map_app. cbn [map fst]. rewrite in_names_snoc.
        destruct (str_eqb m name) eqn:Em.
        - apply cstr_eqb_eq in Em. subst m. rewrite orb_true_r, Hgfs. unfold T1.
          destruct (grps env par here) eqn:Eg.
          + rewrite Hget. now apply Hpl.
          + now apply field_get_set_same.
        - rewrite orb_false_r. rewrite <- HJ. unfold T1.
          destruct (grps env par here); [reflexivity|]. apply field_get_set_other.
          now apply str_eqb_false_neq. }
      destruct (IH (done ++ [(name, sub)]) ltac:(rewrite Hfs, <- app_assoc; reflexivity) r eq_refl T1 HsT1 HJ1)
        as (T' & HG2 & HsT' & HJ' & _ & Hun2 & Hq2).
      exists T'. rewrite grps_app. split; [eapply GChain_app; eauto|]. split; [exact HsT'|].
      split; [rewrite <- app_assoc in HJ'; exact HJ'|].
      split; [intros _; destruct here; [congruence | discriminate]|].
      split; [apply Forall_app; auto|].
      intros Hi g Hg. apply in_app_or in Hg as [Hg|Hg]; auto.
  Qed.

  (* ---------- the theorem ---------- *)
  Theorem rebuild_ord : forall t, PO env fo ko t.
  Proof.
    induction t as [v|vs|fs IH|es IH|es IH] using tree_ind2.
    - split; [intros fs E; discriminate | intros es E; discriminate].
    - split; [intros fs E; discriminate | intros es E; discriminate].
    - split; [|intros es E; discriminate].
      intros fs0 E. injection E as <-. intros inner s sfs par items K Hs Hsch Hgn Hfl HK.
      pose proof (struct_schema_sfields s sfs Hs) as Esf.
      rewrite find_leaves_cont_eq, Esf in Hfl.
      rewrite gn_node_ord_cont_eq in Hgn. apply andb_true_iff in Hgn as [Hgn Hgf]. apply andb_true_iff in Hgn as [Hne Hsub].
      apply subseqb_subseq in Hsub. rewrite Esf in Hsub.
      destruct (gn_schemab_fields s Hsch) as [Hok _]. rewrite Esf in Hok.
      destruct (gn_struct_parts sfs Hok) as [Hso _]. destruct (struct_facts sfs Hso) as (Hd & _).
      assert (Hnd : NoDup (map fst fs)) by (eapply subseq_NoDup; eauto).
      assert (HPs : forall name sub, In (name, sub) fs -> PO env fo ko sub).
      { intros name sub Hin. rewrite Forall_forall in IH. apply (IH (name, sub) Hin). }
      assert (Hps : subseq (map fst (plain_fields s fs)) (go_names sfs)).
      { eapply subseq_trans; [apply plain_fields_subseq | exact Hsub]. }
      destruct (chain_fields inner s sfs par fs K Hs Hsch Hsub Hgf HPs HK fs [] eq_refl items Hfl
                  (plain_fields s fs) Hps ltac:(intros m; reflexivity))
        as (T' & HG & HsT' & HJ' & Hne' & Hun & Hq).
      cbn [app] in HJ'.
      assert (ET : T' = fs).
      { apply (fields_ext (go_names sfs) T' fs Hd HsT' Hsub). intros m. rewrite HJ'.
        destruct (in_names (map fst fs) m) eqn:E; [reflexivity|].
        assert (Hnm : ~ In m (map fst fs)) by (intros Hx; apply in_names_In in Hx; congruence).
        rewrite (field_get_absent m fs Hnm). apply field_get_absent.
        intros Hx. apply Hnm. eapply subseq_In; [apply plain_fields_subseq | exact Hx]. }
      rewrite ET in HG. split; [exact HG|]. split; [|split; [exact Hun | exact Hq]].
      apply Hne'. destruct fs; [discriminate | discriminate].
    - split; [intros fs E; discriminate|].
      intros es0 E k e Hin. injection E as <-. rewrite Forall_forall in IH. apply (IH (k, e) Hin).
    - split; [intros fs E; discriminate | intros es0 E; discriminate].
  Qed.
End MainOrd3.

(* ====================================================================================== *)
(* 12. C02 with ordered lists: TogNMINotifications and UnmarshalNotifications               *)
(* ====================================================================================== *)

Lemma strip_prefix_skipn : forall pfx g x, strip_prefix pfx g = Ok x -> x = skipn (length pfx) g.
Proof.
  induction pfx as [|e pfx IH]; intros g x H.
  - destruct g; simpl in H; injection H as <-; reflexivity.
  - destruct g as [|y g]; simpl in H; [discriminate|].
    destruct (elems_equal y e); [|discriminate]. simpl. now apply IH.
Qed.

Lemma plain_of_filter : forall items, flat_map plain_of (filter is_lleaf items) = flat_map plain_of items.
Proof.
  induction items as [|it items IH]; [reflexivity|]. destruct it; cbn [filter is_lleaf flat_map plain_of app]; now rewrite IH.
Qed.

Definition notif_of_grp (g : grp) : notif :=
  {| n_prefix := g_q g; n_atomic := true; n_updates := g_us g; n_deletes := [] |}.

Section C02Ord.
  Variable env : enum_env.
  Variable fo : float_oracle.
  Variable ko : key_oracle.
  Hypothesis Henv : wf_envb env = true.

  (* the updates of a Run whose paths are given relative to a SetRequest prefix *)
  Lemma run_updates_pre (Inv : tree -> Prop) S q : forall us c c',
    Run env fo ko Inv need_struct S c (map (fun u => (q ++ fst u, snd u)) us) c' ->
    forall ce, run_phase rt_sropts (update_step env fo ko S rt_sropts (gp_of q))
                 (map (fun u => (gp_of (fst u), snd u)) us) c ce = (c', ce, None).
  Proof.
    induction us as [|u us IH]; intros c c' HR ce.
    - inversion HR; subst. reflexivity.
    - cbn [map] in HR. inversion HR as [|c0 u0 c1 us0 c2 Hstep _ HR1]; subst.
      cbn [map run_phase]. unfold update_step at 1.
      cbn [fst snd join_paths empty_gp gp_of origin target elems nil_b negb andb].
      unfold set_node_st. change (sn_opts rt_sropts) with rt_opts.
      unfold step_ok in Hstep. cbn [fst snd] in Hstep.
      unfold dpath in *.
      match goal with |- context [set_rec ?a ?b ?c ?d ?e ?f ?g ?h ?i] =>
        assert (E : set_rec a b c d e f g h i = (Some c1, Ok 1%nat)) by (apply Hstep; unfold need_struct; lia) end.
      rewrite E.
      cbn [Nat.eqb andb of_res]. apply IH. exact HR1.
  Qed.

  (* one atomic notification: DeleteNode of its prefix, then its updates *)
  Lemma apply_group (Inv : tree -> Prop) S c g c' :
    (g_q g <> [] -> del_noop env fo ko need_struct S c (g_q g)) -> (g_q g = [] -> c = TCont []) ->
    Run env fo ko Inv need_struct S c (g_ups g) c' ->
    unmarshal_setrequest env fo ko S rt_sropts c (req_of_notif (notif_of_grp g)) = (c', SROk).
  Proof.
    intros Hdel Hemp HR. unfold unmarshal_setrequest, req_of_notif, notif_of_grp.
    cbn [n_prefix n_atomic n_updates n_deletes sr_prefix sr_deletes sr_replaces sr_updates map app].
    cbn [run_phase]. unfold delete_step.
    cbn [join_paths empty_gp gp_of origin target elems nil_b negb andb].
    rewrite app_nil_r. unfold delete_node_st. cbn [so_shadow rt_sropts].
    assert (Hd : del_rec env fo ko false (2 * length (g_q g) + 2) S (Some c) (g_q g) = (Some c, Ok tt)).
    { destruct (g_q g) as [|q0 qr] eqn:Eq.
      - rewrite (Hemp eq_refl). reflexivity.
      - apply Hdel; [discriminate|]. unfold need_struct. lia. }
    rewrite Hd. cbn [of_res run_phase].
    rewrite (run_updates_pre Inv S (g_q g) (g_us g) c c' HR false). reflexivity.
  Qed.

  Lemma apply_chain (Inv : tree -> Prop) S : forall c gs c', GChain env fo ko Inv need_struct S c gs c' ->
    unmarshal_notifs env fo ko S rt_sropts c (map notif_of_grp gs) = (c', SROk).
  Proof.
    intros c gs c' HG. induction HG as [c|c g c1 gs c2 Hdel Hemp Hne HR HG IH]; [reflexivity|].
    cbn [map unmarshal_notifs]. rewrite (apply_group Inv S c g c1 Hdel Hemp HR). exact IH.
  Qed.

  (* the atomic notifications TogNMINotifications builds, with the caller's prefix taken off,
     are the groups of section 10 *)
  Lemma atomic_updates P : forall ls us, mapM (mk_update env P) ls = Ok us ->
    us = map (fun pv => (skipn (length P) (fst pv), enc_l env (snd pv))) ls.
  Proof.
    induction ls as [|[p v] ls IH]; intros us H; cbn [mapM] in H; [now injection H as <-|].
    unfold mk_update at 1 in H. cbn [fst snd] in H.
    destruct (strip_prefix P p) as [p'| |] eqn:Es; try discriminate. cbn [bind] in H.
    destruct (encode_lval env v) as [tv| |] eqn:Ev; try discriminate. cbn [bind] in H.
    destruct (mapM (mk_update env P) ls) as [r| |]; try discriminate. cbn [bind] in H. injection H as <-.
    cbn [map fst snd]. rewrite (strip_prefix_skipn P p p' Es), (encode_lval_enc env v tv Ev). f_equal. now apply IH.
  Qed.

  Lemma atomics_grps pfx : forall items ats,
    mapM (fun g => bind (strip_prefix pfx (fst g)) (fun _ => atomic_notif env (fst g) (snd g)))
         (flat_map atomic_of items) = Ok ats ->
    map (strip_notif pfx) ats = map notif_of_grp (grps env pfx items).
  Proof.
    induction items as [|it items IH]; intros ats H.
    - cbn [flat_map mapM] in H. now injection H as <-.
    - destruct it as [p v|P ls].
      + cbn [flat_map atomic_of app] in H. now apply IH.
      + cbn [flat_map atomic_of app mapM fst snd] in H.
        destruct (strip_prefix pfx P) as [q| |]; try discriminate. cbn [bind] in H.
        unfold atomic_notif at 1 in H.
        destruct (mapM (mk_update env P) ls) as [us| |] eqn:Eus; try discriminate. cbn [bind] in H.
        match type of H with bind ?X _ = _ => destruct X as [r| |] eqn:Er; try discriminate end.
        cbn [bind] in H. injection H as <-.
        change (LAtomic P ls :: items) with ([LAtomic P ls] ++ items).
        rewrite grps_app, map_app. cbn [map]. rewrite (IH r eq_refl). f_equal.
        unfold grps. cbn [flat_map grp_of app map]. unfold strip_notif, notif_of_grp.
        cbn [n_prefix n_atomic n_updates n_deletes g_q g_us]. now rewrite (atomic_updates P ls us Eus).
  Qed.

  Lemma unmarshal_plain S t us :
    (forall ce, run_phase rt_sropts (update_step env fo ko S rt_sropts empty_gp)
                  (map (fun u => (gp_of (fst u), snd u)) us) (TCont []) ce = (t, ce, None)) ->
    unmarshal_setrequest env fo ko S rt_sropts (TCont [])
      (req_of_notif {| n_prefix := []; n_atomic := false; n_updates := us; n_deletes := [] |}) = (t, SROk).
  Proof.
    intros H. unfold unmarshal_setrequest, req_of_notif.
    cbn [n_prefix n_atomic n_updates n_deletes sr_prefix sr_deletes sr_replaces sr_updates map app run_phase].
    change (gp_of []) with empty_gp. rewrite H. reflexivity.
  Qed.

  (* C02 with ordered lists: the round trip, for any PathElem prefix *)
  Theorem roundtrip_ord : forall S t pfx ns,
    gn_treeb_ord env fo ko S t = true -> prefix_okb pfx = true ->
    to_notifs env ko pfx S t = Ok ns ->
    unmarshal_notifs env fo ko S rt_sropts (TCont []) (map (strip_notif pfx) ns) = (t, SROk).
  Proof.
    intros S t pfx ns Hg Hp Hn. unfold gn_treeb_ord in Hg.
    apply andb_true_iff in Hg as [Hg Ht]. apply andb_true_iff in Hg as [Hsch Hc].
    destruct S as [| |sfs| |]; try discriminate.
    destruct t as [| |fs| |]; try discriminate.
    unfold to_notifs in Hn.
    destruct (find_leaves env ko false false (SCont sfs) (TCont fs) pfx) as [items| |] eqn:Ef; try discriminate.
    cbn [bind] in Hn.
    destruct (mapM (mk_update env pfx) (flat_map plain_of items)) as [us| |] eqn:Eu; try discriminate. cbn [bind] in Hn.
    match type of Hn with bind ?X _ = _ => destruct X as [ats| |] eqn:Ea; try discriminate end. cbn [bind] in Hn.
    pose proof (atomics_grps pfx items ats Ea) as Hats.
    (* the plain part and the groups *)
    assert (Hmain : exists pfs,
              Run env fo ko (fun _ => True) need_struct (SCont sfs) (TCont []) us (TCont pfs) /\
              (us = [] -> pfs = []) /\
              GChain env fo ko (fun _ => True) need_struct (SCont sfs) (TCont pfs) (grps env pfx items) (TCont fs)).
    { destruct fs as [|f0 fs'].
      - cbn [find_leaves] in Ef. injection Ef as <-. cbn [flat_map mapM] in Eu. injection Eu as <-.
        exists []. split; [constructor|]. split; [reflexivity | constructor].
      - destruct (rebuild_ord env fo ko Henv (TCont (f0 :: fs'))) as [HPc _].
        destruct (HPc _ eq_refl false (SCont sfs) sfs pfx items [] (ss_cont sfs) Hsch Ht Ef ltac:(intros n []))
          as (HG & _ & Hun & _).
        destruct (plain_guard env fo ko (TCont (f0 :: fs'))) as [HLc _].
        destruct (HLc _ eq_refl false (SCont sfs) sfs (ss_cont sfs) Hsch Ht) as [Hpg Hpl].
        specialize (Hpl pfx items Ef).
        set (pfs := plain_fields (SCont sfs) (f0 :: fs')) in *.
        assert (Hunf : Forall (under pfx) (filter is_lleaf items)).
        { apply Forall_forall. intros it Hit. apply filter_In in Hit as [Hit Hl].
          rewrite Forall_forall in Hun. specialize (Hun it Hit). destruct it; [exact Hun | discriminate]. }
        rewrite <- plain_of_filter in Eu.
        pose proof (mk_updates_ups env pfx Hp (filter is_lleaf items) us Hunf Eu) as ->.
        exists pfs. split; [|split].
        + destruct pfs as [|p0 pr] eqn:Epfs.
          * cbn [find_leaves] in Hpl. injection Hpl as Hpl. rewrite <- Hpl. constructor.
          * destruct (rebuild_all env fo ko Henv (TCont (p0 :: pr))) as [HRc _].
            destruct (HRc _ eq_refl (SCont sfs) sfs pfx (filter is_lleaf items) [] (ss_cont sfs) Hsch
                        (Hpg ltac:(discriminate)) Hpl ltac:(intros n [])) as (HR & _ & _).
            rewrite restrict_nil in HR. eapply Run_weaken; [|exact HR]. auto.
        + intros Eups. destruct pfs as [|p0 pr] eqn:Epfs; [reflexivity|]. exfalso.
          destruct (rebuild_all env fo ko Henv (TCont (p0 :: pr))) as [HRc _].
          destruct (HRc _ eq_refl (SCont sfs) sfs pfx (filter is_lleaf items) [] (ss_cont sfs) Hsch
                      (Hpg ltac:(discriminate)) Hpl ltac:(intros n [])) as (_ & Hne & Hu2).
          apply (ups_nonempty env pfx _ Hne Hu2). exact Eups.
        + eapply GChain_weaken; [|exact HG]. auto. }
    destruct Hmain as (pfs & HR & Hemp & HG).
    pose proof (apply_chain _ _ _ _ _ HG) as Hch. rewrite <- Hats in Hch.
    assert (Hplain : unmarshal_setrequest env fo ko (SCont sfs) rt_sropts (TCont [])
              (req_of_notif (strip_notif pfx {| n_prefix := pfx; n_atomic := false; n_updates := us; n_deletes := [] |}))
              = (TCont pfs, SROk)).
    { unfold strip_notif. cbn [n_prefix n_atomic n_updates n_deletes]. rewrite skipn_all.
      apply unmarshal_plain. intros ce.
      apply (run_updates env fo ko _ _ _ _ _ HR ce). }
    destruct us as [|u0 us'].
    - specialize (Hemp eq_refl). subst pfs. destruct ats as [|a0 ats'].
      + injection Hn as <-. cbn [map unmarshal_notifs]. rewrite Hplain.
        cbn [map] in Hch. destruct (grps env pfx items); [|discriminate].
        apply GChain_nil_inv in HG. now rewrite HG.
      + injection Hn as <-. exact Hch.
    - injection Hn as <-. cbn [map unmarshal_notifs]. rewrite Hplain. exact Hch.
  Qed.
End C02Ord.

(* ====================================================================================== *)
(* 13. Nothing is rejected: TogNMINotifications is total on the guarded trees               *)
(* ====================================================================================== *)

Lemma prefix_okb_app a b : prefix_okb (a ++ b) = prefix_okb a && prefix_okb b.
Proof. unfold prefix_okb. apply forallb_app. Qed.

Lemma prefix_okb_names l : prefix_okb (path_of_names l) = true.
Proof. induction l as [|x l IH]; [reflexivity|]. exact IH. Qed.

Lemma ssorted_nodup : forall (l : list (str * str)), ssorted l -> nodup_keysb l = true.
Proof.
  induction l as [|[k v] t IH]; intros H; [reflexivity|]. destruct H as [H1 H2].
  cbn [nodup_keysb]. rewrite (IH H2), andb_true_r. apply negb_true_iff. unfold has_key.
  destruct (al_find k t) as [x|] eqn:E; [|reflexivity]. exfalso.
  assert (G : forall l0, al_find k l0 = Some x -> exists kv, In kv l0 /\ fst kv = k).
  { induction l0 as [|[k0 v0] r IHr]; simpl; [discriminate|]. destruct (str_eqb k k0) eqn:Ek.
    - apply cstr_eqb_eq in Ek. subst. intros _. exists (k0, v0). auto.
    - intros Hf. destruct (IHr Hf) as (kv & Hin & Hk). exists kv. auto. }
  destruct (G t E) as (kv & Hin & Hk). specialize (H1 kv Hin). rewrite Hk, str_cmp_refl in H1. discriminate.
Qed.

Lemma mapkey_strs_ssorted env ko : forall keys mk kk, mapkey_strs env ko keys mk = Ok kk -> ssorted kk.
Proof.
  induction keys as [|k ks IH]; intros mk kk H.
  - destruct mk; simpl in H; injection H as <-; exact I.
  - destruct mk as [|v vs]; simpl in H; [discriminate|].
    destruct (key_to_string env ko v) as [s| |]; try discriminate. cbn [bind] in H.
    destruct (mapkey_strs env ko ks vs) as [r| |] eqn:Er; try discriminate. cbn [bind] in H.
    injection H as <-. apply al_insert_ssorted. eapply IH; eauto.
Qed.

Section TotalOrd.
  Variable env : enum_env.
  Variable fo : float_oracle.
  Variable ko : key_oracle.
  Hypothesis Henv : wf_envb env = true.

  Definition enc_ok (it : litem) : Prop :=
    match it with
    | LLeaf _ v => exists tv, encode_lval env v = Ok tv
    | LAtomic P ls => prefix_okb P = true /\ forall p v, In (p, v) ls -> exists tv, encode_lval env v = Ok tv
    end.

  Definition TOc (t : tree) : Prop :=
    forall fs, t = TCont fs -> forall inner s sfs par,
      struct_schema s sfs -> gn_schemab s = true -> gn_node_ord env fo ko inner s (TCont fs) = true ->
      prefix_okb par = true ->
      exists items, find_leaves env ko false false s (TCont fs) par = Ok items /\ Forall enc_ok items.
  Definition TO (t : tree) : Prop :=
    TOc t /\ forall es, t = TList es -> forall k e, In (k, e) es -> TOc e.

  (* the entries of an ordered list: the ordinary walk of GnmiRtProofs.leaves_total *)
  Lemma oentries_total : forall keys mn mx esfs front nm es,
    gn_schemab (SList true keys mn mx esfs) = true ->
    forall l, (forall x, In x l -> In x es) ->
    (forall mk e, In (mk, e) es ->
       exists efs, e = TCont efs /\ gn_node env fo ko (SList true keys mn mx esfs) e = true
                   /\ key_matchb esfs keys efs mk = true
                   /\ keys_wfb env fo ko esfs keys mk = true /\ okeys_rtb env ko esfs keys mk = true) ->
    exists items, fl_entries env ko true (SList true keys mn mx esfs) esfs keys (front ++ [mk_elem nm]) l = Ok items
                  /\ Forall (encodable env) items.
  Proof.
    intros keys mn mx esfs front nm es Hsch.
    destruct (oesfs_facts keys mn mx esfs Hsch) as (Hok & Hd & Hkne & Hdk & Ha & Hdg).
    induction l as [|[mk e] more IH]; intros Hl Hge; [exists []; split; [reflexivity | constructor]|].
    destruct (Hge mk e (Hl _ (or_introl eq_refl))) as (efs & -> & Hgn & Hkm & Hkw & _).
    assert (Hek : entry_key esfs keys efs = Ok mk).
    { unfold key_matchb in Hkm. destruct (entry_key esfs keys efs) as [k'| |]; try discriminate.
      apply keys_eqb_eq in Hkm. now subst. }
    pose proof (entry_key_leaves env fo ko esfs keys mk efs Hd Ha Hek Hkw) as Hkl.
    destruct (keys_wfb_strs env fo ko esfs keys mk Hkw) as [kk Hkk].
    cbn [fl_entries fields_of]. rewrite (key_leaves_strs env ko esfs keys mk efs Hd Ha Hkl), Hkk. cbn [bind].
    rewrite set_last_keys_snoc. cbn [bind].
    destruct (atomic_irrel env fo ko (TCont efs)) as [HAc _]. rewrite (HAc efs eq_refl _ _ Hgn).
    destruct (leaves_total env fo ko (TCont efs)) as [HTc _].
    destruct (HTc efs eq_refl (SList true keys mn mx esfs) esfs
                (front ++ [{| ename := ename (mk_elem nm); ekeys := kk |}])
                (ss_entry true keys mn mx esfs) Hsch Hgn) as (here & Eh & Hen).
    rewrite Eh. cbn [bind].
    destruct (IH (fun x Hx => Hl x (or_intror Hx)) Hge) as (r & Er & Hr).
    rewrite Er. cbn [bind]. eexists. split; [reflexivity|]. apply Forall_app. auto.
  Qed.

  Theorem leaves_total_ord : forall t, TO t.
  Proof.
    induction t as [v|vs|fs IH|es IH|es IH] using tree_ind2.
    - split; [intros fs E; discriminate | intros es E; discriminate].
    - split; [intros fs E; discriminate | intros es E; discriminate].
    - split; [|intros es E; discriminate].
      intros fs0 E. injection E as <-. intros inner s sfs par Hs Hsch Hgn Hpar.
      pose proof (struct_schema_sfields s sfs Hs) as Esf.
      rewrite find_leaves_cont_eq, Esf.
      rewrite gn_node_ord_cont_eq in Hgn. apply andb_true_iff in Hgn as [_ Hgf].
      destruct (gn_schemab_fields s Hsch) as [Hok Hch]. rewrite Esf in Hok, Hch.
      rewrite Forall_forall in IH.
      assert (G : forall l, (forall x, In x l -> In x fs) ->
                  exists items, fl_fields env ko false sfs par l = Ok items /\ Forall enc_ok items).
      { induction l as [|[name sub] rest IHl]; intros Hl; [exists []; split; [reflexivity | constructor]|].
        assert (Hin : In (name, sub) fs) by (apply Hl; now left).
        destruct (gn_ofields_In env fo ko inner s (length fs) fs name sub Hgf Hin) as (fi & ss & Ef & Hkm & Hcond).
        rewrite Esf in Ef. destruct (find_go_name sfs name fi ss Ef) as [Hfi Hgo].
        pose proof (IH (name, sub) Hin) as HTs. cbn [snd] in HTs.
        destruct (IHl (fun x Hx => Hl x (or_intror Hx))) as (r & Er & Hr).
        assert (Hhere : exists here, fl_field env ko false sfs par (name, sub) = Ok here /\ Forall enc_ok here).
        { unfold fl_field. rewrite Ef. cbv zeta.
          pose proof (paths_nonempty sfs fi ss Hok Hfi) as Hpne.
          assert (Elib : lib_paths false fi par = map (fun alt => par ++ path_of_names alt) (f_paths fi)) by reflexivity.
          destruct (is_ordered_list ss) eqn:Eo.
          - apply andb_true_iff in Hcond as [Hord Hol].
            destruct (gn_olistb_parts env fo ko ss sub Hol) as (keys & mn & mx & esfs & es & -> & -> & Hesne & Hko & Hent).
            destruct (f_paths fi) as [|a0 alts] eqn:Epaths; [congruence|].
            rewrite Elib. cbn [map hd].
            assert (Ha0 : In a0 (f_paths fi)) by (rewrite Epaths; now left).
            pose proof (alt_nonempty sfs fi _ a0 Hok Hfi Ha0) as Ha0ne.
            rewrite (removelast_last_names a0 Ha0ne), app_assoc.
            destruct (oentries_total keys mn mx esfs (par ++ path_of_names (removelast a0)) (last a0 []) es
                        (Hch fi _ Hfi) es (fun x H => H) Hent) as (its & Eits & Hits).
            rewrite Eits. cbn [bind].
            destruct (flat_map plain_of its) as [|pv lv'] eqn:Elv; [eexists; split; [reflexivity | constructor]|].
            destruct ((par ++ path_of_names (removelast a0)) ++ [mk_elem (last a0 [])]) as [|p00 p0r] eqn:Ep0;
              [destruct (par ++ path_of_names (removelast a0)); discriminate|].
            rewrite <- Ep0, removelast_snoc. eexists. split; [reflexivity|].
            constructor; [|constructor]. split.
            + now rewrite prefix_okb_app, Hpar, prefix_okb_names.
            + intros p v Hpv. rewrite <- Elv in Hpv. apply in_flat_map in Hpv as (it & Hit & Hpv).
              rewrite Forall_forall in Hits. specialize (Hits it Hit). destruct it as [p1 v1|]; [|contradiction].
              destruct Hpv as [[= <- <-]|[]]. exact Hits.
          - destruct sub as [v|vs|cfs|es|ues].
            + destruct ss as [ty d| | | |]; try discriminate. cbn [gn_node_ord] in Hcond.
              rewrite (tv_rtb_walk env ko ty d v Hcond). eexists. split; [reflexivity|].
              apply Forall_forall. intros it Hit. apply in_map_iff in Hit as (p & <- & _).
              destruct (enc_s_rt env ko ty v Hcond) as (E & _). simpl. eauto.
            + destruct ss as [|ty mn mx| | |]; try discriminate. cbn [gn_node_ord] in Hcond.
              apply andb_true_iff in Hcond as [Hne Hall]. destruct vs as [|v0 vs']; [discriminate|].
              eexists. split; [reflexivity|].
              apply Forall_forall. intros it Hit. apply in_map_iff in Hit as (p & <- & _).
              cbn [enc_ok encode_lval]. rewrite (mapM_enc env ko ty (v0 :: vs') Hall). cbn [bind]. eauto.
            + destruct ss as [| |csfs| |]; try discriminate. destruct HTs as [HTc _].
              destruct (f_paths fi) as [|a0 alts] eqn:Epaths; [congruence|].
              rewrite Elib. cbn [map hd].
              apply (HTc cfs eq_refl _ (SCont csfs) csfs _ (ss_cont csfs) (Hch fi _ Hfi) Hcond).
              now rewrite prefix_okb_app, Hpar, prefix_okb_names.
            + destruct ss as [| | |[|] keys mn mx esfs|]; try discriminate.
              rewrite gn_node_ord_list_eq in Hcond. apply andb_true_iff in Hcond as [Hcond _].
              apply andb_true_iff in Hcond as [_ Hge].
              destruct HTs as [_ HTl]. specialize (HTl es eq_refl).
              destruct (f_paths fi) as [|a0 alts] eqn:Epaths; [congruence|].
              rewrite Elib. cbn [map hd].
              assert (Ha0 : In a0 (f_paths fi)) by (rewrite Epaths; now left).
              pose proof (alt_nonempty sfs fi _ a0 Hok Hfi Ha0) as Ha0ne.
              rewrite (removelast_last_names a0 Ha0ne), app_assoc.
              pose proof (Hch fi _ Hfi) as Hsch'.
              destruct (esfs_facts keys mn mx esfs Hsch') as (Hok' & Hd' & Hkne & Hdk & Ha' & Hdg).
              assert (G2 : forall l2, (forall x, In x l2 -> In x es) ->
                        exists items, fl_entries env ko false (SList false keys mn mx esfs) esfs keys
                                        ((par ++ path_of_names (removelast a0)) ++ [mk_elem (last a0 [])]) l2 = Ok items
                                      /\ Forall enc_ok items).
              { induction l2 as [|[mk e] more IH2]; intros Hl2; [exists []; split; [reflexivity | constructor]|].
                assert (Hin2 : In (mk, e) es) by (apply Hl2; now left).
                destruct (oentry_facts env fo ko keys mn mx esfs es mk e Hsch' Hge Hin2)
                  as (efs & -> & Hgn' & Hkw & Hnan & Hnd & Hsb & Hgf' & Hkl & _).
                destruct (keys_wfb_strs env fo ko esfs keys mk Hkw) as [kk Hkk].
                cbn [fl_entries fields_of]. rewrite (key_leaves_strs env ko esfs keys mk efs Hd' Ha' Hkl), Hkk. cbn [bind].
                rewrite set_last_keys_snoc. cbn [bind].
                destruct (HTl mk (TCont efs) Hin2 efs eq_refl false (SList false keys mn mx esfs) esfs
                            ((par ++ path_of_names (removelast a0)) ++ [{| ename := ename (mk_elem (last a0 [])); ekeys := kk |}])
                            (ss_entry false keys mn mx esfs) Hsch' Hgn') as (here & Eh & Hen).
                { rewrite !prefix_okb_app, Hpar, prefix_okb_names. cbn [prefix_okb forallb ekeys andb].
                  rewrite andb_true_r. apply ssorted_nodup. eapply mapkey_strs_ssorted; eauto. }
                rewrite Eh. cbn [bind].
                destruct (IH2 (fun x Hx => Hl2 x (or_intror Hx))) as (r2 & Er2 & Hr2).
                rewrite Er2. cbn [bind]. eexists. split; [reflexivity|]. apply Forall_app. auto. }
              apply G2; auto.
            + discriminate. }
        destruct Hhere as (here & Eh & Hh). cbn [fl_fields]. rewrite Eh, Er. cbn [bind].
        eexists. split; [reflexivity|]. apply Forall_app. auto. }
      apply G; auto.
    - split; [intros fs E; discriminate|].
      intros es0 E k e Hin. injection E as <-. rewrite Forall_forall in IH. apply (IH (k, e) Hin).
    - split; [intros fs E; discriminate | intros es0 E; discriminate].
  Qed.

  (* C02 with ordered lists: nothing is rejected *)
  Theorem render_total_ord : forall S t pfx,
    gn_treeb_ord env fo ko S t = true -> prefix_okb pfx = true -> exists ns, to_notifs env ko pfx S t = Ok ns.
  Proof.
    intros S t pfx Hg Hp. unfold gn_treeb_ord in Hg.
    apply andb_true_iff in Hg as [Hg Ht]. apply andb_true_iff in Hg as [Hsch Hc].
    destruct S as [| |sfs| |]; try discriminate.
    destruct t as [| |fs| |]; try discriminate.
    assert (G : exists items, find_leaves env ko false false (SCont sfs) (TCont fs) pfx = Ok items /\
                  Forall enc_ok items /\ Forall (underO pfx) items).
    { destruct fs as [|f0 fs'].
      - exists []. repeat split; constructor.
      - destruct (leaves_total_ord (TCont (f0 :: fs'))) as [HTc _].
        destruct (HTc _ eq_refl false (SCont sfs) sfs pfx (ss_cont sfs) Hsch Ht Hp) as (items & Ef & Hen).
        exists items. repeat split; auto.
        destruct (rebuild_ord env fo ko Henv (TCont (f0 :: fs'))) as [HPc _].
        now destruct (HPc _ eq_refl false (SCont sfs) sfs pfx items [] (ss_cont sfs) Hsch Ht Ef ltac:(intros n []))
          as (_ & _ & Hun & _). }
    destruct G as (items & Ef & Hen & Hun).
    unfold to_notifs. rewrite Ef. cbn [bind].
    assert (Hus : exists us, mapM (mk_update env pfx) (flat_map plain_of items) = Ok us).
    { clear Ef. induction items as [|it items IH]; [exists []; reflexivity|].
      inversion Hen; subst. inversion Hun; subst. destruct (IH H2 H4) as [us Eus].
      destruct it as [p v|P ls]; [|cbn [flat_map plain_of app]; eauto].
      destruct H1 as [tv Ev]. destruct H3 as (q & -> & _).
      cbn [flat_map plain_of app mapM].
      unfold mk_update at 1. cbn [fst snd]. rewrite strip_prefix_app by assumption. cbn [bind].
      rewrite Ev. cbn [bind]. rewrite Eus. cbn [bind]. eauto. }
    destruct Hus as [us ->]. cbn [bind].
    assert (Hats : exists ats,
              mapM (fun g => bind (strip_prefix pfx (fst g)) (fun _ => atomic_notif env (fst g) (snd g)))
                   (flat_map atomic_of items) = Ok ats).
    { clear Ef. induction items as [|it items IH]; [exists []; reflexivity|].
      inversion Hen; subst. inversion Hun; subst. destruct (IH H2 H4) as [ats Eats].
      destruct it as [p v|P ls]; [cbn [flat_map atomic_of app]; eauto|].
      destruct H1 as [HP Hls]. destruct H3 as ((q & ->) & _ & Hunder).
      cbn [flat_map atomic_of app mapM fst snd]. rewrite strip_prefix_app by assumption. cbn [bind].
      assert (Hm : exists us2, mapM (mk_update env (pfx ++ q)) ls = Ok us2).
      { clear -HP Hls Hunder. induction ls as [|[p v] ls IHl]; [exists []; reflexivity|].
        destruct (Hls p v (or_introl eq_refl)) as [tv Ev].
        destruct (Hunder p v (or_introl eq_refl)) as (r & -> & _).
        destruct IHl as [us2 E2]; [intros; eapply Hls; right; eauto | intros; eapply Hunder; right; eauto|].
        cbn [mapM]. unfold mk_update at 1. cbn [fst snd]. rewrite strip_prefix_app by assumption. cbn [bind].
        rewrite Ev. cbn [bind]. rewrite E2. cbn [bind]. eauto. }
      destruct Hm as [us2 E2]. unfold atomic_notif at 1. rewrite E2. cbn [bind]. rewrite Eats. cbn [bind]. eauto. }
    destruct Hats as [ats ->]. cbn [bind]. destruct us, ats; eauto.
  Qed.
End TotalOrd.


(* ====================================================================================== *)
(* 14. The guard extends GnmiRt.gn_treeb                                                   *)
(* ====================================================================================== *)

Section Extends.
  Variable env : enum_env.
  Variable fo : float_oracle.
  Variable ko : key_oracle.

  Lemma gn_node_ord_extends : forall t inner s, gn_node env fo ko s t = true -> gn_node_ord env fo ko inner s t = true.
  Proof.
    induction t as [v|vs|fs IH|es IH|es IH] using tree_ind2; intros inner s H.
    - exact H.
    - exact H.
    - rewrite gn_node_cont_eq in H. rewrite gn_node_ord_cont_eq.
      apply andb_true_iff in H as [H Hgf]. rewrite H. cbn [andb].
      rewrite Forall_forall in IH.
      assert (G : forall l, (forall x, In x l -> In x fs) -> gn_fields env fo ko s l = true ->
                  gn_ofields env fo ko inner s (length fs) l = true).
      { induction l as [|[name sub] rest IHl]; intros Hl Hg; [reflexivity|].
        cbn [gn_fields gn_ofields] in Hg |- *.
        destruct (find (fun fs0 => str_eqb (f_go (fst fs0)) name) (sfields s)) as [[fi ss]|]; [|discriminate].
        apply andb_true_iff in Hg as [Hg Hr]. apply andb_true_iff in Hg as [Hk Hn].
        rewrite Hk, (IHl (fun x Hx => Hl x (or_intror Hx)) Hr), andb_true_r. cbn [andb].
        assert (Eo : is_ordered_list ss = false).
        { destruct ss as [| | |[|] ? ? ? ?|]; try reflexivity.
          destruct sub; discriminate. }
        rewrite Eo. apply (IH (name, sub) (Hl _ (or_introl eq_refl))). exact Hn. }
      apply G; auto.
    - destruct s as [| | |[|] keys mn mx sfs|]; try discriminate.
      rewrite gn_node_list_eq in H. rewrite gn_node_ord_list_eq.
      apply andb_true_iff in H as [H Hko]. apply andb_true_iff in H as [Hnil Hge].
      rewrite Hnil, Hko, andb_true_r. cbn [andb]. rewrite Forall_forall in IH.
      assert (G : forall l, (forall x, In x l -> In x es) ->
                  gn_entries env fo ko (SList false keys mn mx sfs) sfs keys l = true ->
                  gn_oentries env fo ko (SList false keys mn mx sfs) sfs keys l = true).
      { induction l as [|[k e] rest IHl]; intros Hl Hg; [reflexivity|].
        cbn [gn_entries gn_oentries] in Hg |- *. apply andb_true_iff in Hg as [Hg Hr].
        rewrite (IHl (fun x Hx => Hl x (or_intror Hx)) Hr), andb_true_r.
        destruct e as [| |efs| |]; try discriminate.
        apply andb_true_iff in Hg as [Hg H4]. apply andb_true_iff in Hg as [Hg H3]. apply andb_true_iff in Hg as [H1 H2].
        rewrite H2, H3, H4, !andb_true_r.
        apply (IH (k, TCont efs) (Hl _ (or_introl eq_refl))). exact H1. }
      apply G; auto.
    - discriminate.
  Qed.

  (* every tree of the guard without ordered lists is a tree of the guard with them *)
  Theorem gn_treeb_ord_extends : forall S t, gn_treeb env fo ko S t = true -> gn_treeb_ord env fo ko S t = true.
  Proof.
    intros S t H. unfold gn_treeb in H. unfold gn_treeb_ord.
    apply andb_true_iff in H as [H Ht]. rewrite H. cbn [andb].
    destruct t as [| |[|f0 fs]| |]; try discriminate; [reflexivity|]. now apply gn_node_ord_extends.
  Qed.
End Extends.

Print Assumptions roundtrip_ord.
Print Assumptions render_total_ord.
Print Assumptions gn_treeb_ord_extends.
