(* CodecProofs.v — the scalar codec round trip (kernel of C18/C19): decoding what enc_scalar
   produced gives the value back; the shape of the encoder's output (RFC 7951); the exact
   acceptance condition of the JSON-number arm of the decoder; typing of decoded values. *)
From Ygot Require Import Tree.Tree Scalar.Dec Scalar.Base64 Tree.Codec.
From Ygot Require Import Scalar.DecProofs Scalar.Base64Proofs.

(* ---------- typing of scalars by decoding kind ---------- *)

Definition has_kind (k : ukind) (v : scalar) : bool :=
  match k, v with
  | KInt ik, VInt ik' z => ikind_eqb ik ik' && (ikind_min ik <=? z)%Z && (z <=? ikind_max ik)%Z
  | KStr, VStr _ => true
  | KBool, VBool _ => true
  | KDec, VDec _ => true
  | KBin, VBin bs => bytesb bs
  | KEmpty, VEmpty => true
  | _, _ => false
  end.

Lemma ikind_eqb_eq a b : ikind_eqb a b = true <-> a = b.
Proof. destruct a, b; simpl; split; intros H; try reflexivity; try discriminate. Qed.

Lemma ikind_eqb_refl a : ikind_eqb a a = true.
Proof. now apply ikind_eqb_eq. Qed.

Lemma has_kind_int ik v :
  has_kind (KInt ik) v = true <-> exists z, v = VInt ik z /\ (ikind_min ik <= z <= ikind_max ik)%Z.
Proof.
  split.
  - destruct v; simpl; try discriminate. intros H.
    apply andb_true_iff in H as [H H3]. apply andb_true_iff in H as [H1 H2].
    apply ikind_eqb_eq in H1. subst k. apply Z.leb_le in H2. apply Z.leb_le in H3. eauto.
  - intros (z & -> & H1 & H2). simpl. rewrite ikind_eqb_refl.
    apply Z.leb_le in H1. apply Z.leb_le in H2. now rewrite H1, H2.
Qed.

Lemma ikind_min_nonpos_unsigned ik : ikind_signed ik = false -> ikind_min ik = 0%Z.
Proof. destruct ik; simpl; congruence. Qed.

(* ---------- JSON numbers ---------- *)

Lemma jnum_trunc_0 z : jnum_trunc z 0 = z.
Proof. unfold jnum_trunc. simpl. apply Z.mul_1_r. Qed.

Lemma jnum_int_0 z : jnum_int z 0 = Some z.
Proof. unfold jnum_int. simpl. now rewrite Z.mul_1_r. Qed.

(* when m * 10^e is an integer, truncation is that integer *)
Lemma jnum_int_trunc m e z : jnum_int m e = Some z -> jnum_trunc m e = z.
Proof.
  unfold jnum_int, jnum_trunc. destruct (0 <=? e)%Z eqn:E.
  - congruence.
  - apply Z.leb_gt in E. set (d := (10 ^ (- e))%Z).
    assert (Hd : (0 < d)%Z) by (apply Z.pow_pos_nonneg; lia).
    destruct (m mod d =? 0)%Z eqn:Em; [|discriminate]. intros [= <-].
    apply Z.eqb_eq in Em.
    pose proof (Z.div_mod m d ltac:(lia)) as Hm. rewrite Em, Z.add_0_r in Hm.
    rewrite Hm at 1. rewrite Z.mul_comm. apply Z.quot_mul. lia.
Qed.

(* ---------- round trip for the non-enum kinds ---------- *)

Theorem dec_kind_enc : forall env fo pmi k v,
  has_kind k v = true ->
  (forall b, fparse fo (ffmt fo b) = Some b) ->
  (forall b, dec64_lexb (ffmt fo b) = true) ->
  forall j, enc_scalar env fo pmi v = Ok j -> dec_kind fo k j = Ok v.
Proof.
  intros env fo pmi k v Hk Hf Hl j He.
  destruct k as [ik| | | | |]; destruct v; simpl in Hk; try discriminate; simpl in He.
  - (* integers *)
    apply andb_true_iff in Hk as [Hk H3]. apply andb_true_iff in Hk as [H1 H2].
    apply ikind_eqb_eq in H1. subst k. apply Z.leb_le in H2. apply Z.leb_le in H3.
    destruct (ikind_is64 ik) eqn:E64; injection He as <-; unfold dec_kind; rewrite E64.
    + destruct (ikind_signed ik) eqn:Es.
      * rewrite parse_int_range_roundtrip by lia. reflexivity.
      * rewrite (ikind_min_nonpos_unsigned ik Es) in H2.
        rewrite parse_uint_range_roundtrip by lia. reflexivity.
    + rewrite jnum_trunc_0, jnum_int_0.
      apply Z.ltb_ge in H2. apply Z.ltb_ge in H3. now rewrite H2, H3.
  - injection He as <-. simpl. now rewrite Hf, Hl.
  - injection He as <-. reflexivity.
  - injection He as <-. simpl. now rewrite b64dec_b64enc.
  - injection He as <-. reflexivity.
  - injection He as <-. reflexivity.
Qed.

(* the same through dec_json for a leaf whose type is not an enum, union or leafref *)
Corollary dec_json_enc_simple : forall env fo pmi t k v,
  kind_of_type t = Some k -> has_kind k v = true ->
  (forall b, fparse fo (ffmt fo b) = Some b) ->
  (forall b, dec64_lexb (ffmt fo b) = true) ->
  forall j, enc_scalar env fo pmi v = Ok j -> dec_json env fo t j = Ok v.
Proof.
  intros env fo pmi t k v Ht Hk Hf Hl j He.
  destruct t; simpl in Ht; try discriminate; injection Ht as <-;
    cbn [dec_json kind_of_type]; eapply dec_kind_enc; eauto.
Qed.

(* ---------- exact acceptance of JSON numbers for 8/16/32-bit kinds ---------- *)

Theorem dec_kind_rejects : forall fo ik m e v,
  ikind_is64 ik = false ->
  (dec_kind fo (KInt ik) (JNum m e) = Ok v <->
   exists z, jnum_int m e = Some z /\ (ikind_min ik <= z <= ikind_max ik)%Z /\ v = VInt ik z).
Proof.
  intros fo ik m e v E64. unfold dec_kind. rewrite E64. split.
  - destruct ((jnum_trunc m e <? ikind_min ik)%Z || (ikind_max ik <? jnum_trunc m e)%Z) eqn:Er;
      [discriminate|].
    destruct (jnum_int m e) as [z|] eqn:Ez; [|discriminate]. intros [= <-].
    apply jnum_int_trunc in Ez as Et. rewrite Et in Er.
    apply orb_false_iff in Er as [R1 R2]. apply Z.ltb_ge in R1. apply Z.ltb_ge in R2.
    exists z. repeat split; assumption.
  - intros (z & Ez & [R1 R2] & ->). rewrite (jnum_int_trunc _ _ _ Ez), Ez.
    apply Z.ltb_ge in R1. apply Z.ltb_ge in R2. now rewrite R1, R2.
Qed.

(* a 64-bit kind never accepts a JSON number, a narrower kind never accepts a JSON string *)
Lemma dec_kind_int_num64 fo ik m e : ikind_is64 ik = true -> dec_kind fo (KInt ik) (JNum m e) = Err.
Proof. intros H. unfold dec_kind. now rewrite H. Qed.
Lemma dec_kind_int_str_narrow fo ik s : ikind_is64 ik = false -> dec_kind fo (KInt ik) (JStr s) = Err.
Proof. intros H. unfold dec_kind. now rewrite H. Qed.

Lemma dec_kind_no_panic fo k j : dec_kind fo k j <> Panic.
Proof.
  unfold dec_kind. destruct k, j; try discriminate;
  repeat match goal with
         | |- context [match ?x with _ => _ end] => destruct x; try discriminate
         end.
Qed.

(* ---------- decoded values are well typed ---------- *)

Theorem dec_kind_has_kind : forall fo k j v, dec_kind fo k j = Ok v -> has_kind k v = true.
Proof.
  intros fo k j v H. destruct k as [ik| | | | |].
  - destruct j; try discriminate H.
    + destruct (ikind_is64 ik) eqn:E64; [now rewrite dec_kind_int_num64 in H|].
      apply dec_kind_rejects in H; [|assumption]. destruct H as (z & _ & Hr & ->).
      apply has_kind_int. eauto.
    + unfold dec_kind in H. destruct (ikind_is64 ik); [|discriminate].
      destruct (ikind_signed ik) eqn:Es.
      * destruct (parse_int_range _ _ s) as [z|] eqn:Ep; [|discriminate]. injection H as <-.
        apply parse_int_range_bounds in Ep. apply has_kind_int. eauto.
      * destruct (parse_uint_range _ s) as [z|] eqn:Ep; [|discriminate]. injection H as <-.
        apply parse_uint_range_bounds in Ep. apply has_kind_int. exists z. split; [reflexivity|].
        rewrite (ikind_min_nonpos_unsigned ik Es). exact Ep.
  - destruct j; try discriminate H. simpl in H. destruct (fparse fo s); [|discriminate].
    destruct (dec64_lexb s); [|discriminate].
    injection H as <-. reflexivity.
  - destruct j; try discriminate H. injection H as <-. reflexivity.
  - destruct j; try discriminate H. simpl in H. destruct (b64dec s) as [bs|] eqn:Eb; [|discriminate].
    injection H as <-. simpl. eapply b64dec_bytes; eauto.
  - destruct j; try discriminate H. injection H as <-. reflexivity.
  - destruct j as [| | | |l|]; try discriminate H.
    destruct l as [|[] [|]]; try discriminate H. injection H as <-. reflexivity.
Qed.

(* ---------- strings, module prefixes ---------- *)

Lemma cstr_eqb_eq a b : str_eqb a b = true <-> a = b.
Proof.
  revert b. induction a as [|x a IH]; intros [|y b]; simpl; split; intros H;
    try reflexivity; try discriminate.
  - apply andb_true_iff in H as [H1 H2]. apply N.eqb_eq in H1. apply IH in H2. congruence.
  - injection H as -> ->. rewrite N.eqb_refl. now apply IH.
Qed.

Lemma cstr_eqb_refl a : str_eqb a a = true.
Proof. now apply cstr_eqb_eq. Qed.

Definition no_colonb (s : str) : bool := forallb (fun c => negb (c =? COLON)) s.

Lemma split_colon_no_colon s : forall cur, no_colonb s = true -> split_colon s cur = [cur ++ s].
Proof.
  induction s as [|c t IH]; intros cur H; simpl.
  - now rewrite app_nil_r.
  - simpl in H. apply andb_true_iff in H as [Hc Ht]. apply negb_true_iff in Hc. rewrite Hc.
    rewrite IH by assumption. now rewrite <- app_assoc.
Qed.

Lemma split_colon_prefix m n : forall cur, no_colonb m = true ->
  split_colon (m ++ COLON :: n) cur = (cur ++ m) :: split_colon n [].
Proof.
  induction m as [|c t IH]; intros cur H; simpl.
  - now rewrite app_nil_r.
  - simpl in H. apply andb_true_iff in H as [Hc Ht]. apply negb_true_iff in Hc. rewrite Hc.
    rewrite IH by assumption. now rewrite <- app_assoc.
Qed.

Lemma strip_mod_no_colon s : no_colonb s = true -> strip_mod s = s.
Proof. intros H. unfold strip_mod. now rewrite split_colon_no_colon. Qed.

Lemma strip_mod_prefixed m n :
  no_colonb m = true -> no_colonb n = true -> strip_mod (m ++ COLON :: n) = n.
Proof.
  intros Hm Hn. unfold strip_mod. rewrite split_colon_prefix by assumption.
  now rewrite split_colon_no_colon.
Qed.

(* ---------- enum tables ---------- *)

(* names pairwise distinct after stripping a module prefix *)
Fixpoint tbl_okb (t : list enumval) : bool :=
  match t with
  | [] => true
  | e :: r =>
      negb (existsb (fun e' => str_eqb (strip_mod (ev_name e)) (strip_mod (ev_name e'))) r)
      && tbl_okb r
  end.

(* no ':' inside names or module names (YANG identifiers never contain one) *)
Definition tbl_nocolonb (t : list enumval) : bool :=
  forallb (fun e => no_colonb (ev_name e) && no_colonb (ev_mod e)) t.

Lemma enum_by_num_In t n e : enum_by_num t n = Some e -> In e t /\ ev_num e = n.
Proof.
  induction t as [|x r IH]; simpl; [discriminate|].
  destruct (ev_num x =? n)%Z eqn:E.
  - intros [= <-]. apply Z.eqb_eq in E. auto.
  - intros H. apply IH in H as [H1 H2]. auto.
Qed.

(* in a table with distinct stripped names, the cast finds exactly the entry whose stripped
   name equals the stripped input *)
Lemma enum_cast_unique t e s :
  tbl_okb t = true -> In e t -> strip_mod s = strip_mod (ev_name e) -> enum_cast t s = Some e.
Proof.
  induction t as [|x r IH]; intros Hok Hin Hs; [destruct Hin|].
  simpl in Hok. apply andb_true_iff in Hok as [Hx Hr]. apply negb_true_iff in Hx.
  simpl. destruct Hin as [->|Hin].
  - rewrite Hs, cstr_eqb_refl. reflexivity.
  - destruct (str_eqb (strip_mod (ev_name x)) (strip_mod s)) eqn:E.
    + exfalso. rewrite Hs in E.
      assert (existsb (fun e' => str_eqb (strip_mod (ev_name x)) (strip_mod (ev_name e'))) r = true).
      { apply existsb_exists. eauto. }
      congruence.
    + now apply IH.
Qed.

(* the name alone: no condition on the characters of the names *)
Theorem enum_cast_by_num : forall t n e,
  enum_by_num t n = Some e -> tbl_okb t = true -> enum_cast t (ev_name e) = Some e.
Proof.
  intros t n e H Hok. apply enum_by_num_In in H as [Hin _]. now apply enum_cast_unique.
Qed.

(* "module:name" *)
Theorem enum_cast_by_num_prefixed : forall t n e,
  enum_by_num t n = Some e -> tbl_okb t = true ->
  no_colonb (ev_mod e) = true -> no_colonb (ev_name e) = true ->
  enum_cast t (ev_mod e ++ COLON :: ev_name e) = Some e.
Proof.
  intros t n e H Hok Hm Hn. apply enum_by_num_In in H as [Hin _].
  apply enum_cast_unique; try assumption.
  rewrite strip_mod_prefixed by assumption. now rewrite strip_mod_no_colon.
Qed.

(* the forms asked for: whatever the cast returns has the number we started from *)
Corollary enum_cast_name_num : forall t n e e',
  enum_by_num t n = Some e -> tbl_okb t = true ->
  (forall x, In x t -> strip_mod (ev_name x) = ev_name x) ->
  enum_cast t (ev_name e) = Some e' -> ev_num e' = ev_num e.
Proof.
  intros t n e e' H Hok _ Hc. rewrite (enum_cast_by_num t n e H Hok) in Hc. congruence.
Qed.

Corollary enum_cast_prefixed_num : forall t n e e',
  enum_by_num t n = Some e -> tbl_okb t = true ->
  no_colonb (ev_mod e) = true -> no_colonb (ev_name e) = true ->
  enum_cast t (ev_mod e ++ COLON :: ev_name e) = Some e' -> ev_num e' = ev_num e.
Proof.
  intros t n e e' H Hok Hm Hn Hc.
  rewrite (enum_cast_by_num_prefixed t n e H Hok Hm Hn) in Hc. congruence.
Qed.

(* Why the prefixed form needs "no ':' in the name" and not just strip_mod name = name:
   a name with two colons is left alone by strip_mod, so is its prefixed form, and the two
   differ; the cast can then land on another entry. *)
Example enum_prefixed_needs_no_colon :
  let e1 := {| ev_num := 1; ev_name := [97; 58; 98; 58; 99]; ev_mod := [109] |} in        (* "a:b:c", "m" *)
  let e2 := {| ev_num := 2; ev_name := [109; 58; 97; 58; 98; 58; 99]; ev_mod := [109] |} in (* "m:a:b:c" *)
  let t := [e1; e2] in
  tbl_okb t = true /\ (forall x, In x t -> strip_mod (ev_name x) = ev_name x) /\
  enum_by_num t 1 = Some e1 /\
  enum_cast t (ev_mod e1 ++ COLON :: ev_name e1) = Some e2.
Proof.
  cbv zeta. repeat split. intros x [<-|[<-|[]]]; reflexivity.
Qed.

Lemma tbl_nocolonb_In t e : tbl_nocolonb t = true -> In e t ->
  no_colonb (ev_name e) = true /\ no_colonb (ev_mod e) = true.
Proof.
  intros H Hin. unfold tbl_nocolonb in H. rewrite forallb_forall in H.
  apply H in Hin. now apply andb_true_iff in Hin.
Qed.

(* encode then decode an enumeration / identityref value, with or without module prefix *)
Theorem dec_json_enum_roundtrip : forall env fo pmi ty n j,
  tbl_okb (enum_table env ty) = true ->
  (pmi = true -> tbl_nocolonb (enum_table env ty) = true) ->
  enc_scalar env fo pmi (VEnum ty n) = Ok j ->
  dec_json env fo (YEnum ty) j = Ok (VEnum ty n) /\
  dec_json env fo (YIdref ty) j = Ok (VEnum ty n).
Proof.
  intros env fo pmi ty n j Hok Hnc He.
  simpl in He. unfold enc_enum in He.
  destruct (enum_by_num (enum_table env ty) n) as [e|] eqn:En; [|discriminate].
  simpl in He. injection He as <-.
  pose proof (enum_by_num_In _ _ _ En) as [Hin Hnum].
  cbn [dec_json].
  match goal with |- context [enum_cast ?t ?s] => assert (Hc : enum_cast t s = Some e) end.
  { destruct pmi; simpl.
    - destruct (tbl_nocolonb_In _ _ (Hnc eq_refl) Hin) as [Hn Hm].
      destruct (negb (nil_b (ev_mod e))).
      + eapply enum_cast_by_num_prefixed; eauto.
      + eapply enum_cast_by_num; eauto.
    - eapply enum_cast_by_num; eauto. }
  rewrite Hc, Hnum. split; reflexivity.
Qed.

(* enc_scalar fails on an enum exactly when the number is not in the table (e.g. UNSET = 0) *)
Lemma enc_scalar_enum_err env fo pmi ty n :
  enc_scalar env fo pmi (VEnum ty n) = Err <-> enum_by_num (enum_table env ty) n = None.
Proof.
  simpl. unfold enc_enum. destruct (enum_by_num (enum_table env ty) n); simpl; split; congruence.
Qed.

(* ---------- shape of the encoder's output (RFC 7951 section 6) ---------- *)

Theorem enc_scalar_lexical : forall env fo pmi v j,
  enc_scalar env fo pmi v = Ok j ->
  match v with
  | VInt k z =>
      if ikind_is64 k then j = JStr (dec_of_Z z) /\ dec_lexical (dec_of_Z z) = true
      else j = JNum z 0
  | VStr s => j = JStr s
  | VBool b => j = JBool b
  | VDec bits => j = JStr (ffmt fo bits)
  | VBin bs => j = JStr (b64enc bs) /\ forallb b64_alphab (b64enc bs) = true
  | VEmpty => j = JArr [JNull]
  | VEnum ty n => exists s, j = JStr s
  end.
Proof.
  intros env fo pmi v j H. destruct v; simpl in H.
  - destruct (ikind_is64 k); injection H as <-; [split; [reflexivity | apply dec_of_Z_digits] | reflexivity].
  - now injection H as <-.
  - now injection H as <-.
  - now injection H as <-.
  - injection H as <-. split; [reflexivity | apply b64enc_alphabet_all].
  - now injection H as <-.
  - destruct (enc_enum env pmi ty n) as [s| |]; try discriminate. simpl in H. injection H as <-. eauto.
Qed.

(* every non-enum scalar encodes successfully *)
Lemma enc_scalar_total env fo pmi v :
  (forall ty n, v <> VEnum ty n) -> exists j, enc_scalar env fo pmi v = Ok j.
Proof.
  intros H. destruct v; simpl; eauto.
  - destruct (ikind_is64 k); eauto.
  - now destruct (H ty n).
Qed.

Print Assumptions dec_kind_enc.
Print Assumptions dec_kind_rejects.
Print Assumptions dec_kind_has_kind.
Print Assumptions dec_json_enum_roundtrip.
Print Assumptions enc_scalar_lexical.
