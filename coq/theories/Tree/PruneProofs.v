(* PruneProofs.v — proofs about Tree/Prune.v (C14) by induction over arbitrary schemas and
   arbitrary field lists. *)
From Ygot Require Import Tree.Tree Tree.TreeOps Tree.Merge Tree.Prune Path.PathRelProofs.

(* ---------- induction over the nested schema type ---------- *)
Section SchemaInd.
  Variable P : schema -> Prop.
  Hypothesis Hleaf : forall t d, P (SLeaf t d).
  Hypothesis Hll : forall t mn mx, P (SLeafList t mn mx).
  Hypothesis Hcont : forall fs, Forall (fun x => P (snd x)) fs -> P (SCont fs).
  Hypothesis Hlist : forall o k mn mx fs, Forall (fun x => P (snd x)) fs -> P (SList o k mn mx fs).
  Hypothesis Hunk : forall fs, Forall (fun x => P (snd x)) fs -> P (SUnkeyed fs).
  Fixpoint schema_ind2 (s : schema) : P s :=
    let fix go (l : list (finfo * schema)) : Forall (fun x => P (snd x)) l :=
      match l with
      | [] => Forall_nil _
      | x :: r => Forall_cons x (schema_ind2 (snd x)) (go r)
      end in
    match s with
    | SLeaf t d => Hleaf t d
    | SLeafList t mn mx => Hll t mn mx
    | SCont fs => Hcont fs (go fs)
    | SList o k mn mx fs => Hlist o k mn mx fs (go fs)
    | SUnkeyed fs => Hunk fs (go fs)
    end.
End SchemaInd.

(* a property of all structs follows from the property of field lists *)
Lemma schema_struct_ind (P : schema -> Prop) :
  (forall s, Forall (fun x => P (snd x)) (sfields s) -> P s) -> forall s, P s.
Proof.
  intros H. induction s using schema_ind2; apply H; simpl; auto.
Qed.

(* ---------- unfolding: f_struct s = f_fields f_struct (sfields s) ---------- *)
Lemma mg_prune_struct_eq f s fs :
  mg_prune_struct f s fs = mg_prune_fields f (mg_prune_struct f) (sfields s) fs.
Proof. destruct s; reflexivity. Qed.
Lemma mg_leaves_eq s fs : mg_leaves s fs = mg_leaves_fields mg_leaves (sfields s) fs.
Proof. destruct s; reflexivity. Qed.
Lemma mg_ro_panics_eq s fs : mg_ro_panics s fs = mg_ro_fields mg_ro_panics (sfields s) fs.
Proof. destruct s; reflexivity. Qed.
Lemma mg_empty_tree_eq s : mg_empty_tree s = mg_empty_fields mg_empty_tree (sfields s).
Proof. destruct s; reflexivity. Qed.
Lemma mg_conforms_eq s fs : mg_conforms s fs = mg_conf_fields mg_conforms (sfields s) fs.
Proof. destruct s; reflexivity. Qed.
Lemma mg_nobin_eq s fs : mg_nobin s fs = mg_nobin_fields mg_nobin (sfields s) fs.
Proof. destruct s; reflexivity. Qed.
Lemma mg_prune_safe_eq s fs : mg_prune_safe s fs = mg_safe_fields mg_prune_safe (sfields s) fs.
Proof. destruct s; reflexivity. Qed.
Lemma mg_has_empty_cont_eq d s fs :
  mg_has_empty_cont d s fs = mg_ec_fields d (mg_has_empty_cont d) (sfields s) fs.
Proof. destruct s; reflexivity. Qed.
Lemma mg_wf_schema_eq s :
  mg_wf_schema s = mg_nodup_names (go_names (sfields s)) && mg_wf_fields mg_wf_schema (sfields s).
Proof. destruct s; reflexivity. Qed.

(* ---------- field lists ---------- *)
Lemma field_get_cons n m t r :
  field_get n ((m, t) :: r) = if str_eqb m n then Some t else field_get n r.
Proof. reflexivity. Qed.

Lemma field_get_opt_cons_same n (o : option tree) r :
  (o = None -> field_get n r = None) -> field_get n (mg_opt_cons n o r) = o.
Proof.
  destruct o; simpl; intros H.
  - now rewrite str_eqb_refl.
  - now apply H.
Qed.

Lemma field_get_opt_cons_other n m (o : option tree) r :
  m <> n -> field_get n (mg_opt_cons m o r) = field_get n r.
Proof.
  intros H. destruct o; simpl; auto.
  destruct (str_eqb m n) eqn:E; auto. apply str_eqb_eq in E. contradiction.
Qed.

(* names of a field list *)
Definition fnames (fs : list (str * tree)) : list str := map fst fs.

Lemma field_get_none_notin n fs : ~ In n (fnames fs) -> field_get n fs = None.
Proof.
  induction fs as [|[m t] r IH]; simpl; auto. intros H.
  destruct (str_eqb m n) eqn:E.
  - apply str_eqb_eq in E. subst. exfalso. apply H. now left.
  - apply IH. intros Hi. apply H. now right.
Qed.

Lemma fnames_opt_cons n (o : option tree) r x :
  In x (fnames (mg_opt_cons n o r)) -> x = n \/ In x (fnames r).
Proof. destruct o; simpl; intuition. Qed.

Lemma nodup_names_cons n r :
  mg_nodup_names (n :: r) = true -> ~ In n r /\ mg_nodup_names r = true.
Proof.
  simpl. intros H. apply andb_prop in H. destruct H as [H1 H2]. split; auto.
  intros Hin. apply negb_true_iff in H1.
  assert (existsb (str_eqb n) r = true).
  { apply existsb_exists. exists n. split; auto. apply str_eqb_refl. }
  congruence.
Qed.

(* ---------- results ---------- *)
Lemma bind_ok {A B} (r : result A) (f : A -> result B) y :
  bind r f = Ok y -> exists x, r = Ok x /\ f x = Ok y.
Proof. destruct r; simpl; try discriminate. eauto. Qed.

Lemma mapM_ok_forall {A B} (f : A -> result B) l :
  (forall x, In x l -> exists y, f x = Ok y) -> exists ys, mapM f l = Ok ys.
Proof.
  induction l as [|x r IH]; simpl; intros H; eauto.
  destruct (H x) as [y Hy]; auto. rewrite Hy. simpl.
  destruct IH as [ys Hys]; auto. rewrite Hys. simpl. eauto.
Qed.

Lemma mapM_ok_inv {A B} (f : A -> result B) l ys :
  mapM f l = Ok ys -> Forall2 (fun x y => f x = Ok y) l ys.
Proof.
  revert ys. induction l as [|x r IH]; simpl; intros ys H.
  - inversion H. constructor.
  - apply bind_ok in H. destruct H as [y [Hy H]]. apply bind_ok in H. destruct H as [ys' [Hys H]].
    inversion H. subst. constructor; auto.
Qed.

Lemma mapM_ext_in {A B} (f g : A -> result B) l :
  (forall x, In x l -> f x = g x) -> mapM f l = mapM g l.
Proof.
  induction l as [|x r IH]; simpl; intros H; auto.
  rewrite H by auto. rewrite IH; auto.
Qed.

(* ====================================================================== *)
(* C14 (1): totality                                                       *)
(* ====================================================================== *)

Lemma prune_entries_total rec ss es :
  (forall fs, exists r, rec ss fs = Ok r) ->
  exists es', mg_prune_entries rec ss es = Ok es'.
Proof.
  intros H. unfold mg_prune_entries. apply mapM_ok_forall. intros ke _.
  destruct (H (fields_of (snd ke))) as [r Hr]. rewrite Hr. simpl. eauto.
Qed.

Lemma prune_field_total_fixed rec ss sub :
  (forall fs, exists r, rec ss fs = Ok r) ->
  exists r, mg_prune_field true rec ss sub = Ok r.
Proof.
  intros H. destruct ss as [t d|t mn mx|sfs|[|] k mn mx sfs|sfs]; destruct sub as [v|vs|cfs|es|es]; simpl; eauto.
  - destruct (H cfs) as [[r b] Hr]. rewrite Hr. simpl. destruct b; eauto.
  - destruct (nil_b es); eauto.
    destruct (prune_entries_total rec (SList true k mn mx sfs) es H) as [es' He]. rewrite He. simpl. eauto.
  - destruct (prune_entries_total rec (SList false k mn mx sfs) es H) as [es' He]. rewrite He. simpl. eauto.
Qed.

Lemma prune_fields_total_fixed rec l fs :
  Forall (fun x => forall fs, exists r, rec (snd x) fs = Ok r) l ->
  exists r, mg_prune_fields true rec l fs = Ok r.
Proof.
  induction 1 as [|[fi ss] rest Hx Hr IH]; simpl; eauto.
  destruct IH as [r' Hr'].
  destruct (field_get (f_go fi) fs) as [sub|].
  - destruct (prune_field_total_fixed rec ss sub Hx) as [nv Hnv]. rewrite Hnv. simpl. rewrite Hr'. simpl. eauto.
  - simpl. rewrite Hr'. simpl. eauto.
Qed.

(* with the fix, pruneBranchesInternal returns normally on every struct *)
Theorem prune_struct_total_fixed : forall s fs, exists r, mg_prune_struct true s fs = Ok r.
Proof.
  apply (schema_struct_ind (fun s => forall fs, exists r, mg_prune_struct true s fs = Ok r)).
  intros s IH fs. rewrite mg_prune_struct_eq. now apply prune_fields_total_fixed.
Qed.

Theorem prune_total_fixed S t : exists t', mg_prune true S t = Ok t'.
Proof.
  unfold mg_prune. destruct (prune_struct_total_fixed S (fields_of t)) as [r Hr]. rewrite Hr. simpl. eauto.
Qed.

(* the code as it is: it never returns an error, and it panics exactly when the read-only walk
   of an ordered-list entry panics (mg_prune_safe = false) *)
Definition prune_spec (safe : bool) (r : result (list (str * tree) * bool)) : Prop :=
  if safe then exists x, r = Ok x else r = Panic.

Lemma mapM_ok_or_panic {A B} (f : A -> result B) (okb : A -> bool) l :
  (forall x, In x l -> if okb x then exists y, f x = Ok y else f x = Panic) ->
  if forallb okb l then exists ys, mapM f l = Ok ys else mapM f l = Panic.
Proof.
  induction l as [|x r IH]; simpl; intros H; eauto.
  pose proof (H x (or_introl eq_refl)) as Hx.
  destruct (okb x); simpl.
  - destruct Hx as [y Hy]. rewrite Hy. simpl.
    assert (Hr := IH (fun z Hz => H z (or_intror Hz))).
    destruct (forallb okb r).
    + destruct Hr as [ys Hys]. rewrite Hys. simpl. eauto.
    + rewrite Hr. reflexivity.
  - rewrite Hx. reflexivity.
Qed.

Lemma prune_entries_spec rec ss es :
  (forall fs, prune_spec (mg_prune_safe ss fs) (rec ss fs)) ->
  if forallb (fun ke => mg_prune_safe ss (fields_of (snd ke))) es
  then exists es', mg_prune_entries rec ss es = Ok es'
  else mg_prune_entries rec ss es = Panic.
Proof.
  intros H. unfold mg_prune_entries.
  apply (mapM_ok_or_panic _ (fun ke => mg_prune_safe ss (fields_of (snd ke)))).
  intros ke _. specialize (H (fields_of (snd ke))). unfold prune_spec in H.
  destruct (mg_prune_safe ss (fields_of (snd ke))).
  - destruct H as [x Hx]. rewrite Hx. simpl. eauto.
  - rewrite H. reflexivity.
Qed.

Lemma prune_field_spec rec ss sub :
  (forall fs, prune_spec (mg_prune_safe ss fs) (rec ss fs)) ->
  if mg_safe_field mg_prune_safe ss sub
  then exists r, mg_prune_field false rec ss sub = Ok r
  else mg_prune_field false rec ss sub = Panic.
Proof.
  intros H. destruct ss as [t d|t mn mx|sfs|[|] k mn mx sfs|sfs]; destruct sub as [v|vs|cfs|es|es]; cbn [mg_safe_field mg_prune_field]; eauto.
  - specialize (H cfs). unfold prune_spec in H. destruct (mg_prune_safe (SCont sfs) cfs).
    + destruct H as [[r b] Hr]. rewrite Hr. simpl. destruct b; eauto.
    + rewrite H. reflexivity.
  - destruct (nil_b es) eqn:En.
    + destruct es; try discriminate. simpl. eauto.
    + destruct (existsb (fun ke => mg_ro_panics (SList true k mn mx sfs) (fields_of (snd ke))) es); simpl; eauto.
  - pose proof (prune_entries_spec rec (SList false k mn mx sfs) es H) as He.
    destruct (forallb (fun ke => mg_prune_safe (SList false k mn mx sfs) (fields_of (snd ke))) es).
    + destruct He as [es' He]. rewrite He. simpl. eauto.
    + rewrite He. reflexivity.
Qed.

Lemma prune_fields_spec rec l fs :
  Forall (fun x => forall fs, prune_spec (mg_prune_safe (snd x) fs) (rec (snd x) fs)) l ->
  prune_spec (mg_safe_fields mg_prune_safe l fs) (mg_prune_fields false rec l fs).
Proof.
  induction 1 as [|[fi ss] rest Hx Hr IH]; simpl.
  - eexists. reflexivity.
  - unfold prune_spec in *. simpl in Hx.
    destruct (field_get (f_go fi) fs) as [sub|]; simpl.
    + pose proof (prune_field_spec rec ss sub Hx) as Hf.
      destruct (mg_safe_field mg_prune_safe ss sub); simpl.
      * destruct Hf as [nv Hnv]. rewrite Hnv. simpl.
        destruct (mg_safe_fields mg_prune_safe rest fs).
        -- destruct IH as [r' Hr']. rewrite Hr'. simpl. eauto.
        -- rewrite IH. reflexivity.
      * rewrite Hf. reflexivity.
    + destruct (mg_safe_fields mg_prune_safe rest fs).
      * destruct IH as [r' Hr']. rewrite Hr'. simpl. eauto.
      * rewrite IH. reflexivity.
Qed.

Theorem prune_struct_spec : forall s fs, prune_spec (mg_prune_safe s fs) (mg_prune_struct false s fs).
Proof.
  apply (schema_struct_ind (fun s => forall fs, prune_spec (mg_prune_safe s fs) (mg_prune_struct false s fs))).
  intros s IH fs. rewrite mg_prune_struct_eq, mg_prune_safe_eq. now apply prune_fields_spec.
Qed.

Theorem prune_total_partial S t :
  mg_prune_safe S (fields_of t) = true -> exists t', mg_prune false S t = Ok t'.
Proof.
  intros H. unfold mg_prune. pose proof (prune_struct_spec S (fields_of t)) as Hs. rewrite H in Hs.
  destruct Hs as [x Hx]. rewrite Hx. simpl. eauto.
Qed.

Theorem prune_panics_iff S t :
  mg_prune false S t = Panic <-> mg_prune_safe S (fields_of t) = false.
Proof.
  unfold mg_prune. pose proof (prune_struct_spec S (fields_of t)) as Hs. unfold prune_spec in Hs.
  destruct (mg_prune_safe S (fields_of t)).
  - destruct Hs as [x Hx]. rewrite Hx. simpl. split; discriminate.
  - rewrite Hs. simpl. split; auto.
Qed.

Theorem prune_never_err f S t : mg_prune f S t <> Err.
Proof.
  destruct f.
  - destruct (prune_total_fixed S t) as [x Hx]. rewrite Hx. discriminate.
  - unfold mg_prune. pose proof (prune_struct_spec S (fields_of t)) as Hs. unfold prune_spec in Hs.
    destruct (mg_prune_safe S (fields_of t)).
    + destruct Hs as [x Hx]. rewrite Hx. discriminate.
    + rewrite Hs. discriminate.
Qed.

(* ====================================================================== *)
(* the struct produced by the loop over the fields                         *)
(* ====================================================================== *)

Lemma prune_fields_names f rec l fs out b :
  mg_prune_fields f rec l fs = Ok (out, b) -> forall x, In x (fnames out) -> In x (go_names l).
Proof.
  revert out b. induction l as [|[fi ss] rest IH]; simpl; intros out b H x Hx.
  - inversion H. subst. simpl in Hx. contradiction.
  - apply bind_ok in H. destruct H as [nv [_ H]]. apply bind_ok in H. destruct H as [[r br] [Hr H]].
    inversion H. subst. simpl in Hx. apply fnames_opt_cons in Hx. destruct Hx as [->|Hx]; eauto.
Qed.

(* what the loop computed for the field named by the head of the list is found in the result,
   and the rest of the list does not see that field *)
Lemma field_get_head_out name (o : option tree) r rest :
  ~ In name rest -> (forall x, In x (fnames r) -> In x rest) ->
  field_get name (mg_opt_cons name o r) = o.
Proof.
  intros Hn Hsub. apply field_get_opt_cons_same. intros _.
  apply field_get_none_notin. intros Hin. apply Hn. now apply Hsub.
Qed.

Lemma leaves_fields_congr rec l a b :
  (forall n, In n (go_names l) -> field_get n a = field_get n b) ->
  mg_leaves_fields rec l a = mg_leaves_fields rec l b.
Proof.
  induction l as [|[fi ss] rest IH]; simpl; intros H; auto.
  rewrite (H (f_go fi)) by now left. rewrite IH; auto.
Qed.

Lemma congr_tail name (o : option tree) r rest :
  ~ In name rest ->
  forall n, In n rest -> field_get n (mg_opt_cons name o r) = field_get n r.
Proof.
  intros Hn n Hin. apply field_get_opt_cons_other. intros ->. contradiction.
Qed.

(* ====================================================================== *)
(* C14 (2): the leaves are preserved                                       *)
(* ====================================================================== *)

Definition leaves_of_opt (ss : schema) (o : option tree) : mg_leafset :=
  match o with Some sub => mg_leaves_field mg_leaves ss sub | None => [] end.

Definition leaves_IH (f : bool) (ss : schema) : Prop :=
  forall cfs r b, mg_prune_struct f ss cfs = Ok (r, b) -> mg_nobin ss cfs = true ->
    mg_leaves ss r = mg_leaves ss cfs /\ (b = true -> mg_leaves ss cfs = []).

Lemma entries_leaves f ss es es' :
  leaves_IH f ss ->
  mg_prune_entries (mg_prune_struct f) ss es = Ok es' ->
  forallb (fun ke => mg_nobin ss (fields_of (snd ke))) es = true ->
  flat_map (fun ke => ([MgK (fst ke)], MgEntry) :: mg_pre (MgK (fst ke)) (mg_leaves ss (fields_of (snd ke)))) es' =
  flat_map (fun ke => ([MgK (fst ke)], MgEntry) :: mg_pre (MgK (fst ke)) (mg_leaves ss (fields_of (snd ke)))) es.
Proof.
  intros IH H. unfold mg_prune_entries in H. apply mapM_ok_inv in H.
  induction H as [|ke ke' es es' Hk Hr IHl]; simpl; intros Hnb; auto.
  apply andb_prop in Hnb. destruct Hnb as [Hn1 Hn2].
  apply bind_ok in Hk. destruct Hk as [[r b] [Hp Hk]]. inversion Hk. subst. simpl.
  destruct (IH _ _ _ Hp Hn1) as [Hl _]. rewrite Hl. f_equal. f_equal. now apply IHl.
Qed.

Lemma entries_nil_b {A B} (f : A -> result B) es es' : mapM f es = Ok es' -> nil_b es' = nil_b es.
Proof. intros H. apply mapM_ok_inv in H. destruct H; reflexivity. Qed.

Lemma prune_field_leaves f ss sub nv :
  leaves_IH f ss ->
  mg_prune_field f (mg_prune_struct f) ss sub = Ok nv ->
  mg_nobin_field mg_nobin ss sub = true ->
  leaves_of_opt ss (fst nv) = mg_leaves_field mg_leaves ss sub /\
  (snd nv = false -> mg_leaves_field mg_leaves ss sub = []).
Proof.
  intros IH H Hnb.
  destruct ss as [t d|t mn mx|sfs|[|] k mn mx sfs|sfs]; destruct sub as [v|vs|cfs|es|es];
    cbn [mg_prune_field mg_nobin_field] in H, Hnb;
    try (inversion H; subst; cbn [fst snd leaves_of_opt]; split; [reflexivity|discriminate]).
  - (* binary or other leaf *)
    inversion H. subst. cbn [fst snd leaves_of_opt]. split; auto.
    destruct (mg_repr_of t); try discriminate. rewrite Hnb. discriminate.
  - (* leaf-list *)
    inversion H. subst. cbn [fst snd leaves_of_opt]. split; auto.
    destruct vs; simpl; auto; try discriminate.
  - (* container *)
    apply bind_ok in H. destruct H as [[r b] [Hp H]]. cbn [fst snd] in H.
    destruct (IH _ _ _ Hp Hnb) as [Hl Hb].
    destruct b; inversion H; subst; cbn [fst snd leaves_of_opt mg_leaves_field].
    + split; auto. symmetry. now apply Hb.
    + split; auto; try discriminate.
  - (* ordered list *)
    destruct (nil_b es) eqn:En.
    + inversion H. subst. destruct es; [|discriminate En]. cbn. split; auto.
    + destruct f.
      * apply bind_ok in H. destruct H as [es' [He H]]. inversion H. subst.
        cbn [fst snd leaves_of_opt mg_leaves_field]. split; [|discriminate].
        now apply (entries_leaves true).
      * destruct (existsb _ es); try discriminate. inversion H. subst. cbn [fst snd leaves_of_opt]. split; auto; try discriminate.
  - (* keyed list *)
    apply bind_ok in H. destruct H as [es' [He H]]. inversion H. subst.
    cbn [fst snd leaves_of_opt mg_leaves_field]. split.
    + now apply (entries_leaves f).
    + destruct es; simpl; auto; try discriminate.
  - (* unkeyed list *)
    inversion H. subst. cbn [fst snd leaves_of_opt]. split; auto.
    destruct es; simpl; auto; try discriminate.
Qed.

Lemma prune_fields_leaves f l fs out b :
  mg_nodup_names (go_names l) = true ->
  Forall (fun x => leaves_IH f (snd x)) l ->
  mg_prune_fields f (mg_prune_struct f) l fs = Ok (out, b) ->
  mg_nobin_fields mg_nobin l fs = true ->
  mg_leaves_fields mg_leaves l out = mg_leaves_fields mg_leaves l fs /\
  (b = true -> mg_leaves_fields mg_leaves l fs = []).
Proof.
  intros Hnd HF. revert out b. induction HF as [|[fi ss] rest Hx HF IH]; intros out b H Hnb.
  - simpl in *. inversion H. subst. auto.
  - cbn [mg_prune_fields] in H. cbn [mg_nobin_fields] in Hnb. cbn [go_names map fst] in Hnd.
    apply nodup_names_cons in Hnd. destruct Hnd as [Hnotin Hnd].
    apply andb_prop in Hnb. destruct Hnb as [Hnb1 Hnb2].
    apply bind_ok in H. destruct H as [nv [Hnv H]]. apply bind_ok in H. destruct H as [[r br] [Hr H]].
    inversion H. subst. clear H. cbn [fst snd] in *.
    destruct (IH Hnd _ _ Hr Hnb2) as [IH1 IH2].
    cbn [mg_leaves_fields].
    rewrite (field_get_head_out (f_go fi) (fst nv) r (go_names rest) Hnotin (prune_fields_names _ _ _ _ _ _ Hr)).
    rewrite (leaves_fields_congr mg_leaves rest _ r (congr_tail _ _ _ _ Hnotin)).
    rewrite IH1.
    destruct (field_get (f_go fi) fs) as [sub|] eqn:Eg.
    + destruct (prune_field_leaves f ss sub nv Hx Hnv Hnb1) as [Hl Hb].
      split.
      * f_equal. unfold leaves_of_opt in Hl. rewrite <- Hl. destruct (fst nv); reflexivity.
      * intros Hbb. apply andb_prop in Hbb. destruct Hbb as [Hb1 Hb2].
        apply negb_true_iff in Hb1. rewrite (Hb Hb1), (IH2 Hb2). reflexivity.
    + inversion Hnv. subst. cbn [fst snd]. split; [reflexivity|].
      intros Hbb. apply IH2. exact Hbb.
Qed.

Theorem prune_struct_leaves f : forall s, mg_wf_schema s = true -> leaves_IH f s.
Proof.
  apply (schema_struct_ind (fun s => mg_wf_schema s = true -> leaves_IH f s)).
  intros s IH Hwf cfs r b H Hnb.
  rewrite mg_wf_schema_eq in Hwf. apply andb_prop in Hwf. destruct Hwf as [Hnd Hwf].
  rewrite mg_prune_struct_eq in H. rewrite mg_nobin_eq in Hnb. rewrite !mg_leaves_eq.
  apply (prune_fields_leaves f (sfields s) cfs r b); auto.
  clear -IH Hwf. induction IH as [|[fi ss] rest Hx HF IHl]; constructor.
  - simpl in Hwf. apply andb_prop in Hwf. apply Hx. tauto.
  - simpl in Hwf. apply andb_prop in Hwf. apply IHl. tauto.
Qed.

(* ====================================================================== *)
(* C14 (3): no container without data is left                              *)
(* ====================================================================== *)

Lemma ec_fields_congr d rec l a b :
  (forall n, In n (go_names l) -> field_get n a = field_get n b) ->
  mg_ec_fields d rec l a = mg_ec_fields d rec l b.
Proof.
  induction l as [|[fi ss] rest IH]; simpl; intros H; auto.
  rewrite (H (f_go fi)) by now left. rewrite IH; auto.
Qed.

(* a struct on which the read-only walk does not panic holds no container at all *)
Lemma ro_no_cont : forall s fs, mg_ro_panics s fs = false -> mg_has_empty_cont false s fs = false.
Proof.
  apply (schema_struct_ind (fun s => forall fs, mg_ro_panics s fs = false -> mg_has_empty_cont false s fs = false)).
  intros s IH fs. rewrite mg_ro_panics_eq, mg_has_empty_cont_eq.
  induction IH as [|[fi ss] rest Hx HF IHl]; simpl; auto.
  intros H. apply orb_false_iff in H. destruct H as [H1 H2]. rewrite (IHl H2), orb_false_r.
  unfold mg_ro_field in H1. apply orb_false_iff in H1. destruct H1 as [_ H1].
  destruct (field_get (f_go fi) fs) as [sub|]; auto.
  destruct ss as [t d|t mn mx|sfs|[|] k mn mx sfs|sfs]; destruct sub as [v|vs|cfs|es|es];
    cbn [mg_ec_field] in *; try discriminate; auto.
  simpl in Hx.
  induction es as [|ke es IHe]; simpl in *; auto.
  apply orb_false_iff in H1. destruct H1 as [Ha Hb]. rewrite (Hx _ Ha). simpl. auto.
Qed.

Lemma ro_entries_no_cont ss (es : list (list scalar * tree)) :
  existsb (fun ke => mg_ro_panics ss (fields_of (snd ke))) es = false ->
  existsb (fun ke => mg_has_empty_cont false ss (fields_of (snd ke))) es = false.
Proof.
  induction es as [|ke es IHe]; cbn [existsb]; auto.
  intros Ex. apply orb_false_iff in Ex. destruct Ex as [Ha Hb].
  rewrite (ro_no_cont _ _ Ha), (IHe Hb). reflexivity.
Qed.

Definition ec_IH (f : bool) (ss : schema) : Prop :=
  forall cfs r b, mg_conforms ss cfs = true -> mg_prune_struct f ss cfs = Ok (r, b) ->
    mg_has_empty_cont false ss r = false /\ (b = false -> mg_leaves ss r <> []).

Definition ec_of_opt (ss : schema) (o : option tree) : bool :=
  match o with Some sub => mg_ec_field false (mg_has_empty_cont false) ss sub | None => false end.

Lemma entries_ec f ss es es' :
  ec_IH f ss ->
  mg_prune_entries (mg_prune_struct f) ss es = Ok es' ->
  forallb (fun ke => mg_conforms ss (fields_of (snd ke))) es = true ->
  existsb (fun ke => mg_has_empty_cont false ss (fields_of (snd ke))) es' = false.
Proof.
  intros IH H. unfold mg_prune_entries in H. apply mapM_ok_inv in H.
  induction H as [|ke ke' es es' Hk Hr IHl]; simpl; intros Hc; auto.
  apply andb_prop in Hc. destruct Hc as [Hc1 Hc2].
  apply bind_ok in Hk. destruct Hk as [[r b] [Hp Hk]]. inversion Hk. subst. simpl.
  destruct (IH _ _ _ Hc1 Hp) as [He _]. rewrite He. simpl. now apply IHl.
Qed.

Lemma flat_map_entries_nonnil {A} (g : A -> mg_leafset) (k : A -> list scalar) es :
  es <> [] -> flat_map (fun ke => ([MgK (k ke)], MgEntry) :: g ke) es <> [].
Proof. destruct es; simpl; [congruence|discriminate]. Qed.

Lemma prune_field_ec f ss sub nv :
  ec_IH f ss ->
  mg_conf_field mg_conforms ss sub = true ->
  mg_prune_field f (mg_prune_struct f) ss sub = Ok nv ->
  ec_of_opt ss (fst nv) = false /\ (snd nv = true -> leaves_of_opt ss (fst nv) <> []).
Proof.
  intros IH Hc H.
  destruct ss as [t d|t mn mx|sfs|[|] k mn mx sfs|sfs]; destruct sub as [v|vs|cfs|es|es];
    cbn [mg_prune_field mg_conf_field] in H, Hc; try discriminate Hc.
  - inversion H. subst. cbn. split; auto. discriminate.
  - inversion H. subst. cbn [fst snd ec_of_opt leaves_of_opt mg_ec_field mg_leaves_field]. split; auto.
    destruct vs; simpl; [discriminate|]. intros _. discriminate.
  - apply bind_ok in H. destruct H as [[r b] [Hp H]]. cbn [fst snd] in H.
    destruct (IH _ _ _ Hc Hp) as [He Hl].
    destruct b; inversion H; subst; cbn [fst snd ec_of_opt leaves_of_opt mg_ec_field mg_leaves_field].
    + split; auto. discriminate.
    + split.
      * rewrite He, orb_false_r. specialize (Hl eq_refl). destruct (mg_leaves (SCont sfs) r); [congruence|reflexivity].
      * intros _. now apply Hl.
  - destruct (nil_b es) eqn:En.
    + inversion H. subst. cbn. split; auto. discriminate.
    + assert (Hne : es <> []) by (destruct es; [discriminate En|discriminate]).
      destruct f.
      * apply bind_ok in H. destruct H as [es' [He H]]. inversion H. subst.
        cbn [fst snd ec_of_opt leaves_of_opt mg_ec_field mg_leaves_field]. split.
        -- now apply (entries_ec true _ es).
        -- intros _. apply flat_map_entries_nonnil. intros ->.
           pose proof (entries_nil_b _ _ _ He) as Hn. simpl in Hn. congruence.
      * destruct (existsb _ es) eqn:Ex; try discriminate. inversion H. subst.
        cbn [fst snd ec_of_opt leaves_of_opt mg_ec_field mg_leaves_field]. split.
        -- now apply ro_entries_no_cont.
        -- intros _. now apply flat_map_entries_nonnil.
  - apply bind_ok in H. destruct H as [es' [He H]]. inversion H. subst.
    cbn [fst snd ec_of_opt leaves_of_opt mg_ec_field mg_leaves_field]. split.
    + now apply (entries_ec f _ es).
    + intros Hne. apply flat_map_entries_nonnil. intros ->.
      pose proof (entries_nil_b _ _ _ He) as Hn. simpl in Hn. rewrite <- Hn in Hne. discriminate.
  - inversion H. subst. cbn [fst snd ec_of_opt leaves_of_opt mg_ec_field mg_leaves_field]. split; auto.
    destruct es; simpl; [discriminate|]. intros _. discriminate.
Qed.

Lemma prune_fields_ec f l fs out b :
  mg_nodup_names (go_names l) = true ->
  Forall (fun x => ec_IH f (snd x)) l ->
  mg_conf_fields mg_conforms l fs = true ->
  mg_prune_fields f (mg_prune_struct f) l fs = Ok (out, b) ->
  mg_ec_fields false (mg_has_empty_cont false) l out = false /\
  (b = false -> mg_leaves_fields mg_leaves l out <> []).
Proof.
  intros Hnd HF. revert out b. induction HF as [|[fi ss] rest Hx HF IH]; intros out b Hc H.
  - simpl in *. inversion H. subst. split; auto. discriminate.
  - cbn [mg_prune_fields] in H. cbn [mg_conf_fields] in Hc. cbn [go_names map fst] in Hnd.
    apply nodup_names_cons in Hnd. destruct Hnd as [Hnotin Hnd].
    apply andb_prop in Hc. destruct Hc as [Hc1 Hc2].
    apply bind_ok in H. destruct H as [nv [Hnv H]]. apply bind_ok in H. destruct H as [[r br] [Hr H]].
    inversion H. subst. clear H. cbn [fst snd] in *.
    destruct (IH Hnd _ _ Hc2 Hr) as [IH1 IH2].
    cbn [mg_ec_fields mg_leaves_fields].
    rewrite (field_get_head_out (f_go fi) (fst nv) r (go_names rest) Hnotin (prune_fields_names _ _ _ _ _ _ Hr)).
    rewrite (ec_fields_congr false _ rest _ r (congr_tail _ _ _ _ Hnotin)).
    rewrite (leaves_fields_congr mg_leaves rest _ r (congr_tail _ _ _ _ Hnotin)).
    rewrite IH1, orb_false_r.
    destruct (field_get (f_go fi) fs) as [sub|] eqn:Eg.
    + destruct (prune_field_ec f ss sub nv Hx Hc1 Hnv) as [He Hl].
      split.
      * unfold ec_of_opt in He. destruct (fst nv); auto.
      * intros Hb. apply andb_false_iff in Hb. intros Happ. apply app_eq_nil in Happ. destruct Happ as [Ha1 Ha2].
        destruct Hb as [Hb|Hb].
        -- apply negb_false_iff in Hb. apply (Hl Hb). unfold leaves_of_opt.
           destruct (fst nv); auto. unfold mg_pre in Ha1. apply map_eq_nil in Ha1. exact Ha1.
        -- now apply IH2.
    + inversion Hnv. subst. cbn [fst snd]. split; [reflexivity|].
      intros Hb. simpl in Hb. simpl. now apply IH2.
Qed.

Theorem prune_struct_ec f : forall s, mg_wf_schema s = true -> ec_IH f s.
Proof.
  apply (schema_struct_ind (fun s => mg_wf_schema s = true -> ec_IH f s)).
  intros s IH Hwf cfs r b Hc H.
  rewrite mg_wf_schema_eq in Hwf. apply andb_prop in Hwf. destruct Hwf as [Hnd Hwf].
  rewrite mg_prune_struct_eq in H. rewrite mg_conforms_eq in Hc. rewrite mg_leaves_eq, mg_has_empty_cont_eq.
  apply (prune_fields_ec f (sfields s) cfs r b); auto.
  clear -IH Hwf. induction IH as [|[fi ss] rest Hx HF IHl]; constructor.
  - simpl in Hwf. apply andb_prop in Hwf. apply Hx. tauto.
  - simpl in Hwf. apply andb_prop in Hwf. apply IHl. tauto.
Qed.

(* ====================================================================== *)
(* C14 (4): a second call changes nothing                                  *)
(* ====================================================================== *)

Lemma prune_fields_congr f rec l a b :
  (forall n, In n (go_names l) -> field_get n a = field_get n b) ->
  mg_prune_fields f rec l a = mg_prune_fields f rec l b.
Proof.
  induction l as [|[fi ss] rest IH]; simpl; intros H; auto.
  rewrite (H (f_go fi)) by now left. rewrite IH; auto.
Qed.

Definition idem_IH (f : bool) (ss : schema) : Prop :=
  forall cfs r b, mg_prune_struct f ss cfs = Ok (r, b) -> mg_prune_struct f ss r = Ok (r, b).

Lemma entries_idem f ss es es' :
  idem_IH f ss ->
  mg_prune_entries (mg_prune_struct f) ss es = Ok es' ->
  mg_prune_entries (mg_prune_struct f) ss es' = Ok es'.
Proof.
  intros IH H. unfold mg_prune_entries in *. apply mapM_ok_inv in H.
  induction H as [|ke ke' es es' Hk Hr IHl]; simpl; auto.
  apply bind_ok in Hk. destruct Hk as [[r b] [Hp Hk]]. inversion Hk. subst. cbn [fst snd fields_of].
  rewrite (IH _ _ _ Hp). simpl. rewrite IHl. reflexivity.
Qed.

Lemma prune_field_idem f ss sub nv :
  idem_IH f ss ->
  mg_prune_field f (mg_prune_struct f) ss sub = Ok nv ->
  match fst nv with
  | Some sub' => mg_prune_field f (mg_prune_struct f) ss sub' = Ok (Some sub', snd nv)
  | None => snd nv = false
  end.
Proof.
  intros IH H.
  destruct ss as [t d|t mn mx|sfs|[|] k mn mx sfs|sfs]; destruct sub as [v|vs|cfs|es|es];
    cbn [mg_prune_field] in H;
    try (inversion H; subst; cbn [fst snd mg_prune_field]; reflexivity).
  - apply bind_ok in H. destruct H as [[r b] [Hp H]]. cbn [fst snd] in H.
    destruct b; inversion H; subst; cbn [fst snd mg_prune_field]; auto.
    rewrite (IH _ _ _ Hp). reflexivity.
  - destruct (nil_b es) eqn:En.
    + inversion H. subst. reflexivity.
    + destruct f.
      * apply bind_ok in H. destruct H as [es' [He H]]. inversion H. subst. cbn [fst snd mg_prune_field].
        rewrite (entries_nil_b _ _ _ He), En. rewrite (entries_idem true _ _ _ IH He). reflexivity.
      * destruct (existsb _ es) eqn:Ex; try discriminate. inversion H. subst. cbn [fst snd mg_prune_field].
        rewrite En, Ex. reflexivity.
  - apply bind_ok in H. destruct H as [es' [He H]]. inversion H. subst. cbn [fst snd mg_prune_field].
    rewrite (entries_idem f _ _ _ IH He). simpl. rewrite (entries_nil_b _ _ _ He). reflexivity.
Qed.

Lemma prune_fields_idem f l fs out b :
  mg_nodup_names (go_names l) = true ->
  Forall (fun x => idem_IH f (snd x)) l ->
  mg_prune_fields f (mg_prune_struct f) l fs = Ok (out, b) ->
  mg_prune_fields f (mg_prune_struct f) l out = Ok (out, b).
Proof.
  intros Hnd HF. revert out b. induction HF as [|[fi ss] rest Hx HF IH]; intros out b H.
  - simpl in *. inversion H. reflexivity.
  - cbn [mg_prune_fields] in H. cbn [go_names map fst] in Hnd.
    apply nodup_names_cons in Hnd. destruct Hnd as [Hnotin Hnd].
    apply bind_ok in H. destruct H as [nv [Hnv H]]. apply bind_ok in H. destruct H as [[r br] [Hr H]].
    inversion H. subst. clear H. cbn [fst snd] in *.
    cbn [mg_prune_fields].
    rewrite (field_get_head_out (f_go fi) (fst nv) r (go_names rest) Hnotin (prune_fields_names _ _ _ _ _ _ Hr)).
    rewrite (prune_fields_congr f _ rest _ r (congr_tail _ _ _ _ Hnotin)).
    rewrite (IH Hnd _ _ Hr).
    destruct (field_get (f_go fi) fs) as [sub|] eqn:Eg.
    + pose proof (prune_field_idem f ss sub nv Hx Hnv) as Hi.
      destruct (fst nv) as [sub'|] eqn:Ef.
      * rewrite Hi. reflexivity.
      * rewrite Hi. reflexivity.
    + inversion Hnv. subst. reflexivity.
Qed.

Theorem prune_struct_idem f : forall s, mg_wf_schema s = true -> idem_IH f s.
Proof.
  apply (schema_struct_ind (fun s => mg_wf_schema s = true -> idem_IH f s)).
  intros s IH Hwf cfs r b H.
  rewrite mg_wf_schema_eq in Hwf. apply andb_prop in Hwf. destruct Hwf as [Hnd Hwf].
  rewrite mg_prune_struct_eq in *.
  apply (prune_fields_idem f (sfields s) cfs r b); auto.
  clear -IH Hwf. induction IH as [|[fi ss] rest Hx HF IHl]; constructor.
  - simpl in Hwf. apply andb_prop in Hwf. apply Hx. tauto.
  - simpl in Hwf. apply andb_prop in Hwf. apply IHl. tauto.
Qed.

(* ====================================================================== *)
(* C14 (5): BuildEmptyTree followed by PruneEmptyBranches                  *)
(* ====================================================================== *)

Definition empty_lookup (ss : schema) : option tree :=
  match ss with SCont _ => Some (TCont (mg_empty_tree ss)) | _ => None end.

Lemma In_go_names (fi : finfo) (ss : schema) l : In (fi, ss) l -> In (f_go fi) (go_names l).
Proof. intros H. unfold go_names. apply in_map_iff. exists (fi, ss). auto. Qed.

Lemma empty_fields_lookup l :
  mg_nodup_names (go_names l) = true ->
  forall fi ss, In (fi, ss) l -> field_get (f_go fi) (mg_empty_fields mg_empty_tree l) = empty_lookup ss.
Proof.
  induction l as [|[fj sj] rest IH]; intros Hnd fi ss Hin; [contradiction|].
  cbn [go_names map fst] in Hnd. apply nodup_names_cons in Hnd. destruct Hnd as [Hnotin Hnd].
  destruct Hin as [Heq|Hin].
  - inversion Heq. subst. cbn [mg_empty_fields]. unfold empty_lookup.
    destruct ss; try (apply field_get_none_notin; intros Hi; apply Hnotin;
      clear -Hi; induction rest as [|[fk sk] rest IHr]; simpl in *; [contradiction|];
      destruct sk; simpl in *; tauto).
    simpl. now rewrite str_eqb_refl.
  - assert (Hne : f_go fj <> f_go fi).
    { intros E. apply Hnotin. rewrite E. now apply (In_go_names fi ss). }
    cbn [mg_empty_fields]. destruct sj; try now apply IH.
    rewrite field_get_cons. destruct (str_eqb (f_go fj) (f_go fi)) eqn:E.
    + apply str_eqb_eq in E. contradiction.
    + now apply IH.
Qed.

Definition empty_IH (f : bool) (ss : schema) : Prop :=
  mg_prune_struct f ss (mg_empty_tree ss) = Ok ([], true).

Lemma prune_fields_empty f l fs :
  Forall (fun x => empty_IH f (snd x)) l ->
  (forall fi ss, In (fi, ss) l -> field_get (f_go fi) fs = empty_lookup ss) ->
  mg_prune_fields f (mg_prune_struct f) l fs = Ok ([], true).
Proof.
  induction 1 as [|[fi ss] rest Hx HF IH]; intros Hl; [reflexivity|].
  cbn [mg_prune_fields]. rewrite (Hl fi ss) by now left.
  rewrite IH by (intros; apply Hl; now right).
  unfold empty_lookup. destruct ss; try reflexivity.
  cbn [mg_prune_field]. unfold empty_IH in Hx. cbn [snd] in Hx. rewrite Hx. reflexivity.
Qed.

Theorem prune_empty_tree f : forall s, mg_wf_schema s = true -> empty_IH f s.
Proof.
  apply (schema_struct_ind (fun s => mg_wf_schema s = true -> empty_IH f s)).
  intros s IH Hwf. unfold empty_IH.
  rewrite mg_wf_schema_eq in Hwf. apply andb_prop in Hwf. destruct Hwf as [Hnd Hwf].
  rewrite mg_prune_struct_eq, mg_empty_tree_eq.
  apply prune_fields_empty.
  - clear -IH Hwf. induction IH as [|[fi ss] rest Hx HF IHl]; constructor.
    + simpl in Hwf. apply andb_prop in Hwf. apply Hx. tauto.
    + simpl in Hwf. apply andb_prop in Hwf. apply IHl. tauto.
  - now apply empty_fields_lookup.
Qed.

Lemma build_fields_names l fs x : In x (fnames (mg_build_fields l fs)) -> In x (go_names l).
Proof.
  induction l as [|[fj sj] rest IH]; simpl; auto.
  destruct (field_get (f_go fj) fs); simpl; [intuition|].
  destruct sj; simpl; intuition.
Qed.

Lemma build_fields_lookup l fs :
  mg_nodup_names (go_names l) = true ->
  forall fi ss, In (fi, ss) l ->
    field_get (f_go fi) (mg_build_fields l fs) =
    match field_get (f_go fi) fs with Some sub => Some sub | None => empty_lookup ss end.
Proof.
  induction l as [|[fj sj] rest IH]; intros Hnd fi ss Hin; [contradiction|].
  cbn [go_names map fst] in Hnd. apply nodup_names_cons in Hnd. destruct Hnd as [Hnotin Hnd].
  destruct Hin as [Heq|Hin].
  - inversion Heq. subst. cbn [mg_build_fields].
    destruct (field_get (f_go fi) fs) as [sub|].
    + simpl. now rewrite str_eqb_refl.
    + unfold empty_lookup. destruct ss;
        try (apply field_get_none_notin; intros Hi; apply Hnotin; now apply (build_fields_names rest fs)).
      simpl. now rewrite str_eqb_refl.
  - assert (Hne : f_go fj <> f_go fi).
    { intros E. apply Hnotin. rewrite E. now apply (In_go_names fi ss). }
    assert (Hskip : forall t r, field_get (f_go fi) ((f_go fj, t) :: r) = field_get (f_go fi) r).
    { intros t r. rewrite field_get_cons. destruct (str_eqb (f_go fj) (f_go fi)) eqn:E; auto.
      apply str_eqb_eq in E. contradiction. }
    cbn [mg_build_fields]. destruct (field_get (f_go fj) fs).
    + rewrite Hskip. now apply IH.
    + destruct sj; try now apply IH. rewrite Hskip. now apply IH.
Qed.

Lemma prune_fields_build f l fs1 fs2 :
  Forall (fun x => empty_IH f (snd x)) l ->
  (forall fi ss, In (fi, ss) l ->
     field_get (f_go fi) fs1 = match field_get (f_go fi) fs2 with Some sub => Some sub | None => empty_lookup ss end) ->
  mg_prune_fields f (mg_prune_struct f) l fs1 = mg_prune_fields f (mg_prune_struct f) l fs2.
Proof.
  induction 1 as [|[fi ss] rest Hx HF IH]; intros Hl; [reflexivity|].
  cbn [mg_prune_fields]. rewrite (Hl fi ss) by now left.
  rewrite IH by (intros; apply Hl; now right).
  destruct (field_get (f_go fi) fs2); [reflexivity|].
  unfold empty_lookup. destruct ss; try reflexivity.
  cbn [mg_prune_field]. unfold empty_IH in Hx. cbn [snd] in Hx. rewrite Hx. reflexivity.
Qed.

Theorem prune_build f s fs :
  mg_wf_schema s = true ->
  mg_prune_struct f s (mg_build_struct s fs) = mg_prune_struct f s fs.
Proof.
  intros Hwf. pose proof Hwf as Hwf'.
  rewrite mg_wf_schema_eq in Hwf. apply andb_prop in Hwf. destruct Hwf as [Hnd Hwf].
  rewrite !mg_prune_struct_eq. unfold mg_build_struct.
  apply prune_fields_build.
  - clear -Hwf. induction (sfields s) as [|[fi ss] rest IHl]; constructor.
    + simpl in Hwf. apply andb_prop in Hwf. apply prune_empty_tree. tauto.
    + simpl in Hwf. apply andb_prop in Hwf. apply IHl. tauto.
  - now apply build_fields_lookup.
Qed.

(* ---------- the statements of the property file ---------- *)
Lemma c14_preserves_leaves_partial_lemma : forall f S t t',
  mg_wf_schema S = true -> mg_nobin S (fields_of t) = true ->
  mg_prune f S t = Ok t' ->
  mg_leaves S (fields_of t') = mg_leaves S (fields_of t).
Proof.
  intros f S t t' Hwf Hnb H. unfold mg_prune in H. apply bind_ok in H.
  destruct H as [[r b] [Hp H]]. inversion H. subst. simpl.
  exact (proj1 (prune_struct_leaves f S Hwf _ _ _ Hp Hnb)).
Qed.

Lemma c14_no_empty_partial_lemma : forall f S t t',
  mg_wf_schema S = true -> mg_conforms S (fields_of t) = true ->
  mg_prune f S t = Ok t' ->
  mg_has_empty_cont false S (fields_of t') = false.
Proof.
  intros f S t t' Hwf Hc H. unfold mg_prune in H. apply bind_ok in H.
  destruct H as [[r b] [Hp H]]. inversion H. subst. simpl.
  exact (proj1 (prune_struct_ec f S Hwf _ _ _ Hc Hp)).
Qed.

Lemma c14_idempotent_lemma : forall f S t t',
  mg_wf_schema S = true -> mg_prune f S t = Ok t' -> mg_prune f S t' = Ok t'.
Proof.
  intros f S t t' Hwf H. unfold mg_prune in *. apply bind_ok in H.
  destruct H as [[r b] [Hp H]]. inversion H. subst. simpl.
  rewrite (prune_struct_idem f S Hwf _ _ _ Hp). reflexivity.
Qed.

Lemma c14_build_prune_lemma : forall f S t,
  mg_wf_schema S = true -> mg_prune f S (build_empty S t) = mg_prune f S t.
Proof.
  intros f S t Hwf. unfold mg_prune, build_empty. simpl. now rewrite prune_build.
Qed.

Lemma c14_build_prune_leaves_partial_lemma : forall f S t t',
  mg_wf_schema S = true -> mg_nobin S (fields_of t) = true ->
  mg_prune f S (build_empty S t) = Ok t' ->
  mg_leaves S (fields_of t') = mg_leaves S (fields_of t).
Proof.
  intros f S t t' Hwf Hnb H. rewrite c14_build_prune_lemma in H by assumption.
  now apply (c14_preserves_leaves_partial_lemma f S t t').
Qed.
