(* DefaultsProofs.v — PopulateDefaults (Tree/Defaults.v):
   - pop_fills / pop_reach: in every struct reachable through containers and existing list
     entries, a leaf that was set keeps its value, an unset leaf gets exactly its default (if it
     has one), leaf-lists are untouched, and no list entry appears or disappears;
   - parse_default_in_space: a default literal the generator accepts is in the leaf's value space;
   - pop_valid: a valid tree stays valid, for schemas where what PopulateDefaults adds on its own
     (defaulted leaves, instantiated containers) lies outside every choice. *)
From Ygot Require Import Tree.Tree Tree.TreeOps Tree.Codec Tree.CodecProofs Scalar.Dec Scalar.DecProofs
  Scalar.Base64 Scalar.Base64Proofs Tree.Validate Tree.ValidateProofs Tree.Defaults.

Section SchemaInd.
  Variable P : schema -> Prop.
  Hypothesis Hleaf : forall t d, P (SLeaf t d).
  Hypothesis Hll : forall t mn mx, P (SLeafList t mn mx).
  Hypothesis Hcont : forall sfs, Forall (fun x => P (snd x)) sfs -> P (SCont sfs).
  Hypothesis Hlist : forall o k mn mx sfs, Forall (fun x => P (snd x)) sfs -> P (SList o k mn mx sfs).
  Hypothesis Hunk : forall sfs, Forall (fun x => P (snd x)) sfs -> P (SUnkeyed sfs).
  Fixpoint schema_ind2 (s : schema) : P s :=
    let go := fix go (l : list (finfo * schema)) : Forall (fun x => P (snd x)) l :=
                match l with
                | [] => Forall_nil _
                | x :: r => Forall_cons x (schema_ind2 (snd x)) (go r)
                end in
    match s with
    | SLeaf t d => Hleaf t d
    | SLeafList t mn mx => Hll t mn mx
    | SCont sfs => Hcont sfs (go sfs)
    | SList o k mn mx sfs => Hlist o k mn mx sfs (go sfs)
    | SUnkeyed sfs => Hunk sfs (go sfs)
    end.
End SchemaInd.

(* ---------- field lookup in the populated struct ---------- *)

Lemma field_get_app n (a b : list (str * tree)) :
  field_get n (a ++ b) = match field_get n a with Some x => Some x | None => field_get n b end.
Proof.
  induction a as [|[m t] a IH]; simpl; [reflexivity|]. destruct (str_eqb m n); [reflexivity|exact IH].
Qed.

Lemma nodup_strs_cons x r : nodup_strs (x :: r) = true -> ~ In x r /\ nodup_strs r = true.
Proof.
  simpl. intros H. apply andb_true_iff in H as [H1 H2]. split; [|assumption].
  intros Hin. apply negb_true_iff in H1.
  assert (existsb (str_eqb x) r = true) by (apply existsb_exists; exists x; split; [assumption|apply cstr_eqb_refl]).
  congruence.
Qed.

Section Pop.
  Variable env : enum_env.
  Variable fo : float_oracle.
  Notation pop_fields := (pop_fields env fo).
  Notation pop_node := (pop_node env fo).

  Lemma pop_fields_cons x sfs fs :
    pop_fields (x :: sfs) fs =
    (match pop_node (snd x) (field_get (f_go (fst x)) fs) with Some y => [(f_go (fst x), y)] | None => [] end)
    ++ pop_fields sfs fs.
  Proof. reflexivity. Qed.

  Lemma field_get_pop_notin n sfs fs : ~ In n (go_names sfs) -> field_get n (pop_fields sfs fs) = None.
  Proof.
    induction sfs as [|x sfs IH]; intros Hn; [reflexivity|].
    rewrite pop_fields_cons, field_get_app. simpl in Hn.
    destruct (pop_node (snd x) (field_get (f_go (fst x)) fs)); simpl.
    - destruct (str_eqb (f_go (fst x)) n) eqn:E; [apply cstr_eqb_eq in E; tauto|]. apply IH. tauto.
    - apply IH. tauto.
  Qed.

  Lemma field_get_pop sfs fs fi ss :
    nodup_strs (go_names sfs) = true -> In (fi, ss) sfs ->
    field_get (f_go fi) (pop_fields sfs fs) = pop_node ss (field_get (f_go fi) fs).
  Proof.
    induction sfs as [|x sfs IH]; intros Hnd Hin; [destruct Hin|].
    simpl in Hnd. apply nodup_strs_cons in Hnd as [Hx Hnd].
    rewrite pop_fields_cons, field_get_app. destruct Hin as [->|Hin].
    - simpl. destruct (pop_node ss (field_get (f_go fi) fs)) as [y|] eqn:Ep; simpl.
      + now rewrite cstr_eqb_refl.
      + now apply field_get_pop_notin.
    - assert (Hne : str_eqb (f_go (fst x)) (f_go fi) = false).
      { destruct (str_eqb (f_go (fst x)) (f_go fi)) eqn:E; [|reflexivity].
        apply cstr_eqb_eq in E. exfalso. apply Hx. rewrite E.
        unfold go_names. apply in_map_iff. exists (fi, ss). auto. }
      destruct (pop_node (snd x) (field_get (f_go (fst x)) fs)); simpl; [rewrite Hne|]; now apply IH.
  Qed.

  Lemma sfind_spec n sfs fi ss : sfind n sfs = Some (fi, ss) -> In (fi, ss) sfs /\ f_go fi = n.
  Proof.
    unfold sfind. intros H. apply find_some in H as [H1 H2]. split; [assumption|]. now apply cstr_eqb_eq in H2.
  Qed.

  Lemma sfind_nodup sfs fi ss :
    nodup_strs (go_names sfs) = true -> In (fi, ss) sfs -> sfind (f_go fi) sfs = Some (fi, ss).
  Proof.
    induction sfs as [|x sfs IH]; intros Hnd Hin; [destruct Hin|].
    simpl in Hnd. apply nodup_strs_cons in Hnd as [Hx Hnd]. unfold sfind. simpl. destruct Hin as [->|Hin].
    - simpl. now rewrite cstr_eqb_refl.
    - destruct (str_eqb (f_go (fst x)) (f_go fi)) eqn:E.
      + apply cstr_eqb_eq in E. exfalso. apply Hx. rewrite E. unfold go_names. apply in_map_iff. exists (fi, ss). auto.
      + now apply IH.
  Qed.

  Lemma field_get_pop_sfind n sfs fs fi ss :
    nodup_strs (go_names sfs) = true -> sfind n sfs = Some (fi, ss) ->
    field_get n (pop_fields sfs fs) = pop_node ss (field_get n fs).
  Proof. intros Hnd Hf. apply sfind_spec in Hf as [Hin <-]. now apply field_get_pop. Qed.

  (* ---------- C33 "fills": one struct ---------- *)

  Theorem pop_fills_leaf n sfs fs fi ty dflt :
    nodup_strs (go_names sfs) = true -> sfind n sfs = Some (fi, SLeaf ty dflt) ->
    field_get n (pop_fields sfs fs) =
    match field_get n fs with Some x => Some x | None => option_map TLeaf (leaf_default env fo ty dflt) end.
  Proof. intros Hnd Hf. now rewrite (field_get_pop_sfind _ _ _ _ _ Hnd Hf). Qed.

  Theorem pop_keeps_leaflist n sfs fs fi ty mn mx :
    nodup_strs (go_names sfs) = true -> sfind n sfs = Some (fi, SLeafList ty mn mx) ->
    field_get n (pop_fields sfs fs) = field_get n fs.
  Proof. intros Hnd Hf. now rewrite (field_get_pop_sfind _ _ _ _ _ Hnd Hf). Qed.

  (* ---------- C33 "fills": reachable structs ---------- *)

  Lemma schema_nodup_fields s : schema_nodup s = true -> nodup_strs (go_names (sfields s)) = true.
  Proof. destruct s; simpl; intros H; try reflexivity; now apply andb_true_iff in H as [H _]. Qed.

  Lemma schema_nodup_child (sfs : list (finfo * schema)) (fi : finfo) (ss : schema) :
    forallb (fun x => schema_nodup (snd x)) sfs = true -> In (fi, ss) sfs -> schema_nodup ss = true.
  Proof. intros H Hin. rewrite forallb_forall in H. exact (H _ Hin). Qed.

  Lemma tl_find_map (f : tree -> tree) k es :
    tl_find k (map (fun ke => (fst ke, f (snd ke))) es) = option_map f (tl_find k es).
  Proof.
    induction es as [|[k' e] es IH]; simpl; [reflexivity|]. destruct (keys_eqb k k'); [reflexivity|exact IH].
  Qed.

  Definition wrap (r : option (list (finfo * schema) * list (str * tree))) :=
    option_map (fun sf : list (finfo * schema) * list (str * tree) => (fst sf, pop_fields (fst sf) (snd sf))) r.

  Theorem pop_reach : forall p sfs fs,
    nodup_strs (go_names sfs) = true -> forallb (fun x => schema_nodup (snd x)) sfs = true ->
    reach sfs (pop_fields sfs fs) p = wrap (reach sfs fs p).
  Proof.
    induction p as [|st p IH]; intros sfs fs Hnd Hch; [reflexivity|].
    destruct st as [n|n k|n i]; cbn [reach].
    - destruct (sfind n sfs) as [[fi ss]|] eqn:Ef; [|reflexivity].
      destruct ss as [| |sfs'| |]; try reflexivity.
      rewrite (field_get_pop_sfind _ _ _ _ _ Hnd Ef). cbn [pop_node cont_fields].
      apply sfind_spec in Ef as [Hin _]. pose proof (schema_nodup_child _ _ _ Hch Hin) as Hs.
      simpl in Hs. apply andb_true_iff in Hs as [H1 H2]. now apply IH.
    - destruct (sfind n sfs) as [[fi ss]|] eqn:Ef; [|reflexivity].
      destruct ss as [| | |o keys mn mx sfs'|]; try reflexivity.
      rewrite (field_get_pop_sfind _ _ _ _ _ Hnd Ef). cbn [pop_node].
      apply sfind_spec in Ef as [Hin _]. pose proof (schema_nodup_child _ _ _ Hch Hin) as Hs.
      simpl in Hs. apply andb_true_iff in Hs as [H1 H2].
      destruct (field_get n fs) as [[| | |es|]|]; try reflexivity.
      rewrite (tl_find_map (fun e => TCont (pop_fields sfs' (fields_of e)))).
      destruct (tl_find k es) as [e|]; [|reflexivity]. cbn [option_map fields_of]. now apply IH.
    - destruct (sfind n sfs) as [[fi ss]|] eqn:Ef; [|reflexivity].
      destruct ss as [| | | |sfs']; try reflexivity.
      rewrite (field_get_pop_sfind _ _ _ _ _ Hnd Ef). cbn [pop_node].
      apply sfind_spec in Ef as [Hin _]. pose proof (schema_nodup_child _ _ _ Hch Hin) as Hs.
      simpl in Hs. apply andb_true_iff in Hs as [H1 H2].
      destruct (field_get n fs) as [[| | | |es]|]; try reflexivity.
      rewrite nth_error_map. destruct (nth_error es i) as [e|]; [|reflexivity]. cbn [option_map fields_of]. now apply IH.
  Qed.

  Lemma reach_nodup : forall p sfs fs sfs' fs',
    nodup_strs (go_names sfs) = true -> forallb (fun x => schema_nodup (snd x)) sfs = true ->
    reach sfs fs p = Some (sfs', fs') ->
    nodup_strs (go_names sfs') = true /\ forallb (fun x => schema_nodup (snd x)) sfs' = true.
  Proof.
    induction p as [|st p IH]; intros sfs fs sfs' fs' Hnd Hch H.
    - injection H as <- <-. auto.
    - destruct st as [n|n k|n i]; cbn [reach] in H;
        destruct (sfind n sfs) as [[fi ss]|] eqn:Ef; try discriminate H;
        apply sfind_spec in Ef as [Hin _]; pose proof (schema_nodup_child _ _ _ Hch Hin) as Hs;
        destruct ss; try discriminate H; simpl in Hs; apply andb_true_iff in Hs as [H1 H2].
      + eapply IH; eauto.
      + destruct (field_get n fs) as [[| | |es|]|]; try discriminate H.
        destruct (tl_find k es); try discriminate H. eapply IH; eauto.
      + destruct (field_get n fs) as [[| | | |es]|]; try discriminate H.
        destruct (nth_error es i); try discriminate H. eapply IH; eauto.
  Qed.

  (* the C33 "fills" statement: at any struct reachable from the root before the call, the same
     struct is reachable after it and holds, for every leaf field, the old value if there was one
     and otherwise exactly the default; conversely nothing new becomes reachable *)
  Theorem pop_fills : forall sfs fs p sfs' fs' n fi ty dflt,
    schema_nodup (SCont sfs) = true ->
    reach sfs fs p = Some (sfs', fs') -> sfind n sfs' = Some (fi, SLeaf ty dflt) ->
    exists fs'', reach sfs (pop_fields sfs fs) p = Some (sfs', fs'') /\
                 field_get n fs'' = match field_get n fs' with
                                    | Some x => Some x
                                    | None => option_map TLeaf (leaf_default env fo ty dflt) end.
  Proof.
    intros sfs fs p sfs' fs' n fi ty dflt Hs Hr Hf. simpl in Hs. apply andb_true_iff in Hs as [H1 H2].
    exists (pop_fields sfs' fs'). split.
    - rewrite pop_reach by assumption. now rewrite Hr.
    - destruct (reach_nodup _ _ _ _ _ H1 H2 Hr) as [H1' _]. eapply pop_fills_leaf; eauto.
  Qed.

  Theorem pop_reach_inv : forall sfs fs p sfs' fs'',
    schema_nodup (SCont sfs) = true ->
    reach sfs (pop_fields sfs fs) p = Some (sfs', fs'') ->
    exists fs', reach sfs fs p = Some (sfs', fs') /\ fs'' = pop_fields sfs' fs'.
  Proof.
    intros sfs fs p sfs' fs'' Hs Hr. simpl in Hs. apply andb_true_iff in Hs as [H1 H2].
    rewrite pop_reach in Hr by assumption. destruct (reach sfs fs p) as [[a b]|]; [|discriminate].
    simpl in Hr. injection Hr as <- <-. eauto.
  Qed.

End Pop.

(* ---------- default literals are in the value space ---------- *)

Section ParseDefault.
  Variable env : enum_env.
  Variable fo : float_oracle.

  Lemma enum_by_name_In t s e : enum_by_name t s = Some e -> In e t.
  Proof.
    induction t as [|x r IH]; simpl; [discriminate|].
    destruct (str_eqb (ev_name x) s); [intros [= <-]; now left|]. intros H. right. now apply IH.
  Qed.

  Lemma enum_by_num_of_In t e : In e t -> exists e', enum_by_num t (ev_num e) = Some e'.
  Proof.
    induction t as [|x r IH]; intros Hin; [destruct Hin|]. simpl.
    destruct (ev_num x =? ev_num e)%Z eqn:E; [eauto|]. destruct Hin as [->|Hin]; [|now apply IH].
    rewrite Z.eqb_refl in E. discriminate.
  Qed.

  Theorem parse_default_in_space : forall t lit v,
    parse_default env fo t lit = Some v -> in_space env t v = true.
  Proof.
    induction t as [k rs|f|l n|l| | |ty|ty|ms IHF|t IHt] using ytype_ind2; intros lit v H; simpl in H.
    - (* int *)
      destruct (negb (dec_literal lit)); [discriminate|].
      destruct (ikind_signed k) eqn:Es.
      + destruct (parse_int_range (ikind_min k) (ikind_max k) lit) as [z|] eqn:Ep; [|discriminate].
        destruct (in_ranges rs z) eqn:Er; [|discriminate]. injection H as <-.
        apply parse_int_range_bounds in Ep as [B1 B2]. simpl. rewrite ikind_eqb_refl, Er.
        apply Z.leb_le in B1, B2. now rewrite B1, B2.
      + destruct (parse_uint_range (ikind_max k) lit) as [z|] eqn:Ep; [|discriminate].
        destruct (in_ranges rs z) eqn:Er; [|discriminate]. injection H as <-.
        apply parse_uint_range_bounds in Ep as [B1 B2]. simpl. rewrite ikind_eqb_refl, Er.
        rewrite (ikind_min_nonpos_unsigned k Es). apply Z.leb_le in B1, B2. now rewrite B1, B2.
    - destruct (fparse fo lit); [|discriminate]. now injection H as <-.
    - destruct (in_lens l (nlen lit)) eqn:E; [|discriminate]. injection H as <-. exact E.
    - destruct (b64dec lit) as [bs|] eqn:Eb; [|discriminate].
      destruct (in_lens l (nlen bs)) eqn:E; [|discriminate]. injection H as <-. simpl.
      apply b64dec_bytes in Eb. unfold bytesb in Eb. now rewrite Eb, E.
    - destruct (str_eqb lit STR_TRUE); [now injection H as <-|].
      destruct (str_eqb lit STR_FALSE); [now injection H as <-|discriminate].
    - discriminate.
    - destruct (enum_by_name (enum_table env ty) (after_colon lit)) as [e|] eqn:Ee; [|discriminate].
      injection H as <-. simpl. rewrite cstr_eqb_refl.
      apply enum_by_name_In, enum_by_num_of_In in Ee as [e' Ee]. now rewrite Ee.
    - destruct (enum_by_name (enum_table env ty) (after_colon lit)) as [e|] eqn:Ee; [|discriminate].
      injection H as <-. simpl. rewrite cstr_eqb_refl.
      apply enum_by_name_In, enum_by_num_of_In in Ee as [e' Ee]. now rewrite Ee.
    - (* union *)
      cbn [in_space]. induction ms as [|m ms IHms]; [discriminate|].
      inversion IHF as [|? ? Hm Hms]; subst. simpl.
      destruct (parse_default env fo m lit) as [w|] eqn:Em.
      + injection H as <-. now rewrite (Hm _ _ Em).
      + rewrite (IHms Hms H). apply orb_true_r.
    - simpl. eauto.
  Qed.
End ParseDefault.

(* ---------- a valid tree stays valid ---------- *)

Section PopValid.
  Variable env : enum_env.
  Variable fo : float_oracle.
  Notation pop_fields := (pop_fields env fo).
  Notation pop_node := (pop_node env fo).

  Definition ovalid (cfg : bool) (s : schema) (o : option tree) : Prop :=
    match o with Some t => validb_node env false cfg s t = true | None => True end.

  Definition fields_valid (sfs : list (finfo * schema)) (fs : list (str * tree)) : bool :=
    forallb (fun nt => match sfind (fst nt) sfs with
                       | None => false
                       | Some (fi, ss) => validb_node env false (f_cfg fi) ss (snd nt)
                       end) fs.

  Definition guards (s : schema) : Prop := schema_nodup s = true /\ defaults_ok s = true.

  Definition P (s : schema) : Prop :=
    guards s -> forall cfg o, ovalid cfg s o -> ovalid cfg s (pop_node s o).

  Lemma field_get_In n (fs : list (str * tree)) t : field_get n fs = Some t -> exists m, In (m, t) fs /\ m = n.
  Proof.
    induction fs as [|[m u] fs IH]; simpl; [discriminate|].
    destruct (str_eqb m n) eqn:E.
    - intros [= <-]. apply cstr_eqb_eq in E. eauto.
    - intros H. destruct (IH H) as (m' & Hin & Hm). eauto.
  Qed.

  Lemma In_pop_fields sfs fs n y :
    In (n, y) (pop_fields sfs fs) ->
    exists fi ss, In (fi, ss) sfs /\ n = f_go fi /\ pop_node ss (field_get (f_go fi) fs) = Some y.
  Proof.
    unfold Defaults.pop_fields. intros H. apply in_flat_map in H as ([fi ss] & Hin & H). simpl in H.
    destruct (Defaults.pop_node env fo ss (field_get (f_go fi) fs)) as [z|] eqn:E; [|destruct H].
    destruct H as [[= <- <-]|[]]. eauto.
  Qed.

  (* the struct-level step *)
  Lemma pop_struct_valid sfs fs :
    Forall (fun x => P (snd x)) sfs ->
    nodup_strs (go_names sfs) = true ->
    forallb (fun x => (negb (adds_field (snd x)) || nil_b (f_case (fst x))) && defaults_ok (snd x)) sfs = true ->
    forallb (fun x => schema_nodup (snd x)) sfs = true ->
    fields_valid sfs fs = true -> choices_ok sfs fs = true ->
    fields_valid sfs (pop_fields sfs fs) = true /\ choices_ok sfs (pop_fields sfs fs) = true.
  Proof.
    intros HP Hnd Hdef Hsn Hfv Hco.
    rewrite Forall_forall in HP. rewrite forallb_forall in Hdef, Hsn.
    unfold fields_valid in Hfv. rewrite forallb_forall in Hfv.
    (* what a field of the result looks like *)
    assert (Hov : forall fi ss, In (fi, ss) sfs -> ovalid (f_cfg fi) ss (field_get (f_go fi) fs)).
    { intros fi ss Hin. unfold ovalid. destruct (field_get (f_go fi) fs) as [t|] eqn:Eg; [|exact I].
      apply field_get_In in Eg as (m & Hm & ->). specialize (Hfv _ Hm). simpl in Hfv.
      now rewrite (sfind_nodup _ _ _ Hnd Hin) in Hfv. }
    split.
    - unfold fields_valid. apply forallb_forall. intros [n y] Hin. simpl.
      apply In_pop_fields in Hin as (fi & ss & Hin & -> & Hp).
      rewrite (sfind_nodup _ _ _ Hnd Hin).
      specialize (Hdef _ Hin). simpl in Hdef. apply andb_true_iff in Hdef as [_ Hd].
      assert (Hg : guards ss) by (split; [exact (Hsn _ Hin)|exact Hd]).
      pose proof (HP _ Hin Hg (f_cfg fi) _ (Hov fi ss Hin)) as H. simpl in H. rewrite Hp in H. exact H.
    - apply choices_ok_iff. intros x y Hx Hy Sx Sy.
      assert (Hset : forall z, In z sfs -> is_set (pop_fields sfs fs) (f_go (fst z)) = true ->
                               is_set fs (f_go (fst z)) = true \/ f_case (fst z) = []).
      { intros [fi ss] Hz Sz. simpl in *. unfold is_set in *.
        rewrite (field_get_pop env fo _ _ _ _ Hnd Hz) in Sz.
        destruct (field_get (f_go fi) fs) as [t|] eqn:Eg; [now left|]. right.
        specialize (Hdef _ Hz). simpl in Hdef. apply andb_true_iff in Hdef as [Ha _].
        destruct ss as [ty [|d dl]| | | |]; simpl in Sz, Ha; try discriminate Sz.
        - now destruct (f_case fi).
        - now destruct (f_case fi). }
      destruct (Hset x Hx Sx) as [Ox|Ex]; [|rewrite Ex; reflexivity].
      destruct (Hset y Hy Sy) as [Oy|Ey]; [|rewrite Ey; apply case_compat_nil_r].
      apply (proj1 (choices_ok_iff sfs fs) Hco); assumption.
  Qed.

  Lemma fields_valid_nil sfs : fields_valid sfs [] = true.
  Proof. reflexivity. Qed.
  Lemma choices_ok_nil sfs : choices_ok sfs [] = true.
  Proof.
    unfold choices_ok. assert (filter (fun x => is_set [] (f_go (fst x))) sfs = []) as ->; [|reflexivity].
    induction sfs; simpl; auto.
  Qed.

  Lemma keys_match_pop sfs keys : forall k fs,
    nodup_strs (go_names sfs) = true -> fields_valid sfs fs = true ->
    keys_match sfs keys k fs = true -> keys_match sfs keys k (pop_fields sfs fs) = true.
  Proof.
    induction keys as [|kn keys IH]; intros [|kv k] fs Hnd Hfv H; simpl in H |- *; try discriminate H; [reflexivity|].
    destruct (key_field sfs kn) as [[fi ks]|] eqn:Ek; [|discriminate].
    destruct (field_get (f_go fi) fs) as [[v| | | |]|] eqn:Eg; try discriminate.
    apply andb_true_iff in H as [Hv Hr].
    assert (Hin : In (fi, ks) sfs) by (unfold key_field in Ek; now apply find_some in Ek).
    rewrite (field_get_pop env fo _ _ _ _ Hnd Hin), Eg.
    (* the key field is a leaf, because the entry was valid *)
    apply field_get_In in Eg as (m & Hm & ->).
    pose proof Hfv as Hfv0.
    unfold fields_valid in Hfv. rewrite forallb_forall in Hfv. specialize (Hfv _ Hm). simpl in Hfv.
    rewrite (sfind_nodup _ _ _ Hnd Hin) in Hfv.
    destruct ks; simpl in Hfv; try discriminate Hfv. simpl. rewrite Hv. now apply IH.
  Qed.

  Lemma map_fst_map {A B C} (g : A * B -> C) (l : list (A * B)) :
    map fst (map (fun ke => (fst ke, g ke)) l) = map fst l.
  Proof. induction l as [|x l IH]; simpl; [reflexivity|]. now rewrite IH. Qed.

  Ltac fold_pop sfs fs :=
    change (flat_map (fun x : finfo * schema =>
                        match pop_node (snd x) (field_get (f_go (fst x)) fs) with
                        | Some y => [(f_go (fst x), y)] | None => [] end) sfs)
      with (pop_fields sfs fs).

  Lemma pop_valid_all : forall s, P s.
  Proof.
    induction s as [ty d|ty mn mx|sfs IH|ord keys mn mx sfs IH|sfs IH] using schema_ind2;
      intros [Hnd Hdef] cfg o Hv.
    - (* leaf *)
      destruct o as [t|]; [exact Hv|]. simpl. unfold leaf_default.
      destruct d as [|d0 [|d1 dl]]; try exact I.
      destruct (parse_default env fo ty d0) as [v|] eqn:Ep; [|exact I].
      simpl. now apply (parse_default_in_space env fo ty d0).
    - exact Hv.
    - (* container *)
      simpl in Hnd, Hdef. apply andb_true_iff in Hnd as [Hn1 Hn2].
      assert (Hfs : fields_valid sfs (cont_fields o) = true /\ choices_ok sfs (cont_fields o) = true).
      { destruct o as [t|]; [|split; [apply fields_valid_nil|apply choices_ok_nil]].
        simpl in Hv. destruct t; try discriminate Hv. cbn [validb_node sfields] in Hv.
        apply andb_true_iff in Hv as [Hv Hc]. apply andb_true_iff in Hv as [_ Hf]. split; assumption. }
      destruct Hfs as [Hf Hc].
      destruct (pop_struct_valid sfs (cont_fields o) IH Hn1 Hdef Hn2 Hf Hc) as [Hf' Hc'].
      cbn [pop_node ovalid validb_node sfields]. fold_pop sfs (cont_fields o).
      unfold fields_valid in Hf'. now rewrite Hf', Hc'.
    - (* keyed list *)
      simpl in Hnd, Hdef. apply andb_true_iff in Hnd as [Hn1 Hn2].
      destruct o as [t|]; [|exact I]. destruct t as [| | |es|]; try exact Hv.
      simpl in Hv. cbn [pop_node ovalid validb_node].
      apply andb_true_iff in Hv as [Hv Hes]. apply andb_true_iff in Hv as [Hb Hk].
      rewrite map_fst_map.
      unfold nlen in *. rewrite map_length. cbn [negb andb] in Hb |- *. rewrite Hb, Hk. cbn [andb].
      rewrite forallb_forall in Hes. apply forallb_forall. intros ke' Hin'.
      apply in_map_iff in Hin' as ([k e] & <- & Hin). cbn [fst snd fields_of].
      specialize (Hes _ Hin). cbn [fst snd] in Hes. apply andb_true_iff in Hes as [Hkm Hev].
      destruct e as [| |fs| |]; try (simpl in Hev; discriminate Hev).
      cbn [validb_node sfields fields_of] in Hev, Hkm |- *.
      apply andb_true_iff in Hev as [Hev Hc]. apply andb_true_iff in Hev as [_ Hf].
      destruct (pop_struct_valid sfs fs IH Hn1 Hdef Hn2 Hf Hc) as [Hf' Hc'].
      fold_pop sfs fs. rewrite (keys_match_pop _ _ _ _ Hn1 Hf Hkm).
      unfold fields_valid in Hf'. now rewrite Hf', Hc'.
    - (* unkeyed list *)
      simpl in Hnd, Hdef. apply andb_true_iff in Hnd as [Hn1 Hn2].
      destruct o as [t|]; [|exact I]. destruct t as [| | | |es]; try exact Hv.
      simpl in Hv. cbn [pop_node ovalid validb_node negb andb].
      rewrite forallb_forall in Hv. apply forallb_forall. intros e' Hin'.
      apply in_map_iff in Hin' as (e & <- & Hin). specialize (Hv _ Hin).
      destruct e as [| |fs| |]; try (simpl in Hv; discriminate Hv).
      cbn [validb_node sfields fields_of] in Hv |- *.
      apply andb_true_iff in Hv as [Hv Hc]. apply andb_true_iff in Hv as [_ Hf].
      destruct (pop_struct_valid sfs fs IH Hn1 Hdef Hn2 Hf Hc) as [Hf' Hc'].
      fold_pop sfs fs. unfold fields_valid in Hf'. now rewrite Hf', Hc'.
  Qed.

  Theorem pop_valid s t cfg :
    schema_nodup s = true -> defaults_ok s = true ->
    validb env cfg s t = true -> validb env cfg s (populate_defaults env fo s t) = true.
  Proof.
    intros Hn Hd Hv. unfold populate_defaults, validb in *.
    pose proof (pop_valid_all s (conj Hn Hd) cfg (Some t) Hv) as H. simpl in H.
    now destruct (pop_node s (Some t)).
  Qed.
End PopValid.

Print Assumptions pop_fills.
Print Assumptions pop_reach_inv.
Print Assumptions pop_reach.
Print Assumptions parse_default_in_space.
Print Assumptions pop_valid.
