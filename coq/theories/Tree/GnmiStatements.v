(* GnmiStatements.v — the statements of C02, C16, C10, C12, C13 on the gNMI-layer models, as
   propositions (Definition ... : Prop).  Nothing is proved, assumed or admitted here: a later
   phase proves the guarded statements (names ending in _partial or without suffix) and the
   _refuted ones (existential witnesses, the inputs the streams found, checkable by vm_compute).
   The domain predicates are executable booleans. *)
From Ygot Require Import Tree.Tree Tree.Codec Tree.TreeOps Tree.Unmarshal Tree.KeyCodec Tree.Leaves
  Tree.Notif Tree.Node Tree.SetReq Path.PathRel.
From Coq Require Import Permutation.

(* ====================================================================================== *)
(* Domain predicates                                                                      *)
(* ====================================================================================== *)

(* v is a value the generated Go field of a leaf of type t can hold (unions: any member) *)
Fixpoint scalar_has_type (env : enum_env) (t : ytype) (v : scalar) {struct t} : bool :=
  match t, v with
  | YLeafref t', _ => scalar_has_type env t' v
  | YInt k _, VInt k' z => ikind_eqb k k' && int_in_range k z
  | YDec _, VDec _ => true
  | YStr _ _, VStr _ => true
  | YBin _, VBin bs => forallb (fun b => b <? 256) bs
  | YBool, VBool _ => true
  | YEmpty, VEmpty => true
  | YEnum ty, VEnum ty' n | YIdref ty, VEnum ty' n =>
      str_eqb ty ty' && negb (n =? 0)%Z &&
      match enum_by_num (enum_table env ty) n with Some _ => true | None => false end
  | YUnion ms, _ => existsb (fun m => scalar_has_type env m v) ms
  | _, _ => false
  end.

(* the float tables behave like Go on the floats in use: ParseFloat (%g f) = f, and f is no NaN *)
Definition float_key_ok (fo : float_oracle) (ko : key_oracle) (v : scalar) : bool :=
  match v with
  | VDec b => negb (nan_bits b) && match fparse fo (fmt_g ko b) with Some b' => b' =? b | None => false end
  | _ => true
  end.

(* the key value is read back from its own string.  False for: a union member whose text an
   earlier member also accepts (union {int64; string} holding the string "5"), `empty` keys,
   binary members of wrapper unions, NaN *)
Definition key_roundtrips (env : enum_env) (fo : float_oracle) (ko : key_oracle) (t : ytype) (v : scalar) : bool :=
  match key_to_string env ko v with
  | Ok s => match string_to_key env fo ko t s with Ok v' => scalar_eqb v v' | _ => false end
  | _ => false
  end.

(* every enum table lists non-zero numbers and names that stay distinct when the module prefix is stripped *)
Definition enum_env_ok (env : enum_env) : bool :=
  forallb (fun tb =>
    forallb (fun e => negb (ev_num e =? 0)%Z &&
                      Nat.eqb (length (filter (fun e' => str_eqb (strip_mod (ev_name e')) (strip_mod (ev_name e))) (snd tb))) 1)
            (snd tb)) env.

(* ---- schema ---- *)
(* no path alternative of a struct is empty, holds an empty name, or is a prefix of an
   alternative of another field; list keys are leaves with a one-element alternative; the keys
   of an ordered list have a Go type StringToType supports *)
Fixpoint no_prefix_clash (alts : list (list str)) : bool :=
  match alts with
  | [] => true
  | a :: rest =>
      negb (nil_b a) && forallb (fun s => negb (nil_b s)) a &&
      forallb (fun b => negb (names_prefix a (path_of_names b)) && negb (names_prefix b (path_of_names a))) rest &&
      no_prefix_clash rest
  end.
Definition gotype_supported (t : ytype) : bool :=
  match resolve_lref t with
  | YInt _ _ | YStr _ _ | YBool | YEnum _ | YIdref _ => true
  | _ => false
  end.
Fixpoint wf_schema (fuel : nat) (s : schema) : bool :=
  match fuel with
  | O => false
  | S f =>
      match s with
      | SLeaf _ _ | SLeafList _ _ _ => true
      | SCont sfs | SUnkeyed sfs =>
          no_prefix_clash (map (fun fs => hd [] (f_paths (fst fs))) sfs) && forallb (fun fs => wf_schema f (snd fs)) sfs
      | SList ordered keys _ _ sfs =>
          negb (nil_b keys) &&
          forallb (fun k => match key_field sfs k with
                            | Some (_, SLeaf t _) => if ordered then gotype_supported t else true
                            | _ => false end) keys &&
          no_prefix_clash (map (fun fs => hd [] (f_paths (fst fs))) sfs) && forallb (fun fs => wf_schema f (snd fs)) sfs
      end
  end.
Definition schema_ok (s : schema) : Prop := exists fuel, wf_schema fuel s = true.

(* ---- trees ---- *)
(* the guards that exclude the known findings from the round trip *)
Record tree_guard := {
  leaflists_nonempty : bool;     (* gnmi/empty-leaflist *)
  no_empty_type : bool;          (* gnmi/empty-type *)
  no_unkeyed : bool;             (* gnmi/unkeyed-list *)
  no_ordered : bool;             (* gnmi/atomic-prefix-wipes-siblings *)
  keys_rt : bool                 (* every list key is read back from its own string *)
}.

Section TreeOk.
  Variable env : enum_env.
  Variable fo : float_oracle.
  Variable ko : key_oracle.
  Variable g : tree_guard.

  (* the key leaves of an entry equal its map key (Unmarshal.entry_key reads the leaves) *)
  Definition entry_consistent (sfs : list (finfo * schema)) (keys : list str) (mk : list scalar) (e : tree) : bool :=
    match entry_key sfs keys (fields_of e) with
    | Ok k => keys_eqb k mk
    | _ => false
    end.
  Fixpoint entry_keys_rt (sfs : list (finfo * schema)) (keys : list str) (mk : list scalar) : bool :=
    match keys, mk with
    | [], [] => true
    | k :: ks, v :: vs =>
        match key_field sfs k with
        | Some (_, SLeaf t _) => key_roundtrips env fo ko t v && entry_keys_rt sfs ks vs
        | _ => false
        end
    | _, _ => false
    end.

  (* typed values, only fields of the schema, list entries consistent with distinct map keys *)
  Fixpoint tree_ok (s : schema) (t : tree) {struct t} : bool :=
    match s, t with
    | SLeaf ty _, TLeaf v =>
        scalar_has_type env ty v && float_key_ok fo ko v &&
        (if no_empty_type g then negb (scalar_eqb v VEmpty) else true)
    | SLeafList ty _ _, TLeafList vs =>
        forallb (fun v => scalar_has_type env ty v && float_key_ok fo ko v) vs &&
        (if leaflists_nonempty g then negb (nil_b vs) else true)
    | SCont sfs, TCont fs | SList _ _ _ _ sfs, TCont fs | SUnkeyed sfs, TCont fs =>
        (fix fields (l : list (str * tree)) : bool :=
           match l with
           | [] => true
           | (n, sub) :: rest =>
               match find (fun fs => str_eqb (f_go (fst fs)) n) sfs with
               | Some (_, ss) => tree_ok ss sub && negb (existsb (fun o => str_eqb (fst o) n) rest) && fields rest
               | None => false
               end
           end) fs
    | SList ordered keys _ _ sfs, TList es =>
        (if no_ordered g then negb ordered else true) &&
        (fix entries (l : list (list scalar * tree)) : bool :=
           match l with
           | [] => true
           | (mk, e) :: rest =>
               entry_consistent sfs keys mk e && (if keys_rt g then entry_keys_rt sfs keys mk else true) &&
               tree_ok s e && negb (existsb (fun o => keys_eqb (fst o) mk) rest) && entries rest
           end) es
    | SUnkeyed sfs, TUnkeyed es =>
        negb (no_unkeyed g) &&
        (fix entries (l : list tree) : bool :=
           match l with [] => true | e :: rest => tree_ok s e && entries rest end) es
    | _, _ => false
    end.
End TreeOk.

Definition strict_guard : tree_guard :=
  {| leaflists_nonempty := true; no_empty_type := true; no_unkeyed := true; no_ordered := true; keys_rt := true |}.
Definition loose_guard : tree_guard :=
  {| leaflists_nonempty := false; no_empty_type := false; no_unkeyed := false; no_ordered := false; keys_rt := false |}.
(* strict except for one guard *)
Definition drop_leaflists : tree_guard :=
  {| leaflists_nonempty := false; no_empty_type := true; no_unkeyed := true; no_ordered := true; keys_rt := true |}.
Definition drop_empty : tree_guard :=
  {| leaflists_nonempty := true; no_empty_type := false; no_unkeyed := true; no_ordered := true; keys_rt := true |}.
Definition drop_unkeyed : tree_guard :=
  {| leaflists_nonempty := true; no_empty_type := true; no_unkeyed := false; no_ordered := true; keys_rt := true |}.
Definition drop_ordered : tree_guard :=
  {| leaflists_nonempty := true; no_empty_type := true; no_unkeyed := true; no_ordered := false; keys_rt := true |}.
Definition drop_keys_rt : tree_guard :=
  {| leaflists_nonempty := true; no_empty_type := true; no_unkeyed := true; no_ordered := true; keys_rt := false |}.

Definition no_opts : sr_opts := {| so_shadow := false; so_ignore_extra := false; so_best_effort := false |}.
Definition plain_get : get_opts := {| g_partial := false; g_wild := false; g_tolerate_nil := true; g_shadow := false |}.
Definition init_set : set_opts := {| s_init := true; s_tol_json := false; s_shadow := false; s_ignore_extra := false |}.

(* leaf sets are compared up to order (Go collects them in a map) *)
Definition same_leaves (a b : list (dpath * lval)) : Prop := Permutation a b.

(* the caller's prefix is taken off again before the notifications are applied to the root *)
Definition strip_notif (pfx : dpath) (n : notif) : notif :=
  {| n_prefix := skipn (length pfx) (n_prefix n); n_atomic := n_atomic n;
     n_updates := n_updates n; n_deletes := n_deletes n |}.

Definition lval_tree (v : lval) : tree := match v with LV x => TLeaf x | LVs xs => TLeafList xs end.

(* ---- the schema node a data path leads to ---- *)
Record node_info := {
  ni_schema : schema;
  ni_alts : list dpath;        (* all paths of the node: they differ in the last field only (`config/name|name`) *)
  ni_key_leaf : bool;          (* a key leaf of the enclosing list *)
  ni_parent : dpath            (* the path of the enclosing struct *)
}.
Fixpoint keys_on_last (p : dpath) (ks : list (str * str)) : dpath :=
  match p with
  | [] => []
  | [e] => [{| ename := ename e; ekeys := ks |}]
  | e :: r => e :: keys_on_last r ks
  end.
Fixpoint schema_at (fuel : nat) (s : schema) (p done : dpath) : option node_info :=
  match fuel with
  | O => None
  | S f =>
      match p with
      | [] => Some {| ni_schema := s; ni_alts := [done]; ni_key_leaf := false; ni_parent := done |}
      | _ =>
          match find_field false false p (sfields s) with
          | FMPath fi ss alt false =>
              let n := length alt in
              if Nat.eqb (length p) n then
                let lastkeys := ekeys (last p (mk_elem [])) in
                Some {| ni_schema := ss;
                        ni_alts := map (fun a => done ++ keys_on_last (path_of_names a) lastkeys) (f_paths fi);
                        ni_key_leaf := match s with
                                       | SList _ keys _ _ _ =>
                                           is_leafish ss &&
                                           existsb (fun k => existsb (fun a => match a with [x] => str_eqb x k | _ => false end) (f_paths fi)) keys
                                       | _ => false
                                       end;
                        ni_parent := done |}
              else schema_at f ss (skipn n p) (done ++ firstn n p)
          | _ => None
          end
      end
  end.
Definition node_at (s : schema) (p : dpath) : option node_info := schema_at (2 * length p + 2) s p [].

(* q is a key leaf of a list entry that lies on the way to p *)
Definition key_leaf_on_path (s : schema) (p q : dpath) : Prop :=
  exists ni, node_at s q = Some ni /\ ni_key_leaf ni = true /\ elems_prefix (ni_parent ni) p = true.

(* ====================================================================================== *)
(* C02 — gNMI notification round trip                                                     *)
(* ====================================================================================== *)

(* TogNMINotifications rejects nothing in the guarded domain (any PathElem prefix) *)
Definition c02_render_total : Prop :=
  forall sch env fo ko pfx t,
    schema_ok sch -> enum_env_ok env = true -> tree_ok env fo ko strict_guard sch t = true ->
    exists ns, to_notifs env ko pfx sch t = Ok ns.

(* the notifications carry exactly the leaves, prefix stripped, values as encode_lval gives them *)
Definition c02_notifs_are_leaves : Prop :=
  forall sch env fo ko pfx t ns l,
    tree_ok env fo ko strict_guard sch t = true ->
    to_notifs env ko pfx sch t = Ok ns -> leaves env ko false sch t [] = Ok l ->
    exists us, ns = [{| n_prefix := pfx; n_atomic := false; n_updates := us; n_deletes := [] |}] /\
               mapM (fun pv => bind (encode_lval env (snd pv)) (fun tv => Ok (fst pv, tv))) l = Ok us.

(* round trip: unmarshalling into an empty root succeeds and gives back the same leaves *)
Definition c02_roundtrip_partial : Prop :=
  forall sch env fo ko pfx t ns,
    schema_ok sch -> enum_env_ok env = true -> tree_ok env fo ko strict_guard sch t = true ->
    to_notifs env ko pfx sch t = Ok ns ->
    exists t' l l',
      unmarshal_notifs env fo ko sch no_opts (TCont []) (map (strip_notif pfx) ns) = (t', SROk) /\
      leaves env ko false sch t [] = Ok l /\ leaves env ko false sch t' [] = Ok l' /\ same_leaves l l'.

(* ordered lists whose atomic prefix covers nothing but the list (compressed OpenConfig shape):
   entries and their order survive *)
Definition c02_ordered_partial : Prop :=
  forall sch env fo ko t ns gs l,
    schema_ok sch -> enum_env_ok env = true -> tree_ok env fo ko drop_ordered sch t = true ->
    ordered_groups env ko false sch t [] = Ok gs -> leaves env ko false sch t [] = Ok l ->
    (forall p ls q v, In (p, ls) gs -> In (q, v) l -> elems_prefix p q = false) ->
    (forall p ls p' ls', In (p, ls) gs -> In (p', ls') gs -> elems_prefix p p' = true -> p = p' /\ ls = ls') ->
    to_notifs env ko [] sch t = Ok ns ->
    exists t' l' gs',
      unmarshal_notifs env fo ko sch no_opts (TCont []) ns = (t', SROk) /\
      leaves env ko false sch t' [] = Ok l' /\ same_leaves l l' /\
      ordered_groups env ko false sch t' [] = Ok gs' /\ Permutation gs gs'.

(* the unguarded statement fails: one witness per dropped guard *)
Definition c02_refuted_empty_leaflist : Prop :=
  exists sch env fo ko t ns t',
    tree_ok env fo ko drop_leaflists sch t = true /\ to_notifs env ko [] sch t = Ok ns /\
    unmarshal_notifs env fo ko sch no_opts (TCont []) ns = (t', SRErr).
Definition c02_refuted_empty_type : Prop :=
  exists sch env fo ko t ns t',
    tree_ok env fo ko drop_empty sch t = true /\ to_notifs env ko [] sch t = Ok ns /\
    unmarshal_notifs env fo ko sch no_opts (TCont []) ns = (t', SRErr).
Definition c02_refuted_unkeyed : Prop :=
  exists sch env fo ko t,
    tree_ok env fo ko drop_unkeyed sch t = true /\ to_notifs env ko [] sch t = Err.
Definition c02_refuted_atomic_wipes : Prop :=        (* an ordered list next to other data *)
  exists sch env fo ko t ns t' l l',
    tree_ok env fo ko drop_ordered sch t = true /\ to_notifs env ko [] sch t = Ok ns /\
    unmarshal_notifs env fo ko sch no_opts (TCont []) ns = (t', SROk) /\
    leaves env ko false sch t [] = Ok l /\ leaves env ko false sch t' [] = Ok l' /\ ~ same_leaves l l'.

(* ====================================================================================== *)
(* C16 — list keys through gNMI paths                                                     *)
(* ====================================================================================== *)

(* (a) codec law: every key type except `empty` and interface unions round-trips unconditionally *)
Definition c16_key_codec : Prop :=
  forall env fo ko ty v s,
    enum_env_ok env = true -> scalar_has_type env ty v = true -> float_key_ok fo ko v = true ->
    is_iface_union ty = false -> (match resolve_lref ty with YEmpty => false | _ => true end) = true ->
    key_to_string env ko v = Ok s -> string_to_key env fo ko ty s = Ok v.
(* ... unions round-trip exactly when no earlier member accepts the text *)
Definition c16_refuted_union_string : Prop :=
  exists env fo ko ty v,
    enum_env_ok env = true /\ scalar_has_type env ty v = true /\ float_key_ok fo ko v = true /\
    key_roundtrips env fo ko ty v = false.
(* ordered maps: StringToType agrees with stringToKeyType on the types it supports *)
Definition c16_gotype_agrees : Prop :=
  forall env fo ko ty s, gotype_supported ty = true -> string_to_gotype env ty s = string_to_key env fo ko ty s.

(* (b) the strings ygot prints address the same node again: every leaf path of `leaves` is found
   by GetNode with the value it carries ... *)
Definition c16_leaf_paths_resolve : Prop :=
  forall sch env fo ko t l q v,
    schema_ok sch -> enum_env_ok env = true -> tree_ok env fo ko drop_keys_rt sch t = true ->
    leaves env ko false sch t [] = Ok l -> In (q, v) l ->
    get_node env fo ko plain_get sch t q = Ok [{| gn_path := q; gn_data := Some (lval_tree v) |}].
(* ... SetNode with the rendered value of a leaf changes nothing (keys parse back: keys_rt) ... *)
Definition c16_reset_is_identity : Prop :=
  forall sch env fo ko t l q v tv,
    schema_ok sch -> enum_env_ok env = true -> tree_ok env fo ko strict_guard sch t = true ->
    leaves env ko false sch t [] = Ok l -> In (q, v) l -> encode_lval env v = Ok tv ->
    set_node env fo ko init_set tv sch t q = Ok t.
(* ... and DeleteNode removes that leaf (a key leaf excepted: without it the entry can no longer
   be rendered at all, `leaves` fails on the result) *)
Definition c16_delete_by_printed_path : Prop :=
  forall sch env fo ko t l q v ni,
    schema_ok sch -> enum_env_ok env = true -> tree_ok env fo ko drop_keys_rt sch t = true ->
    leaves env ko false sch t [] = Ok l -> In (q, v) l ->
    node_at sch q = Some ni -> ni_key_leaf ni = false ->
    exists t' l', delete_node env fo ko false sch t q = Ok t' /\ leaves env ko false sch t' [] = Ok l' /\
                  ~ In q (map fst l').
Definition c16_refuted_key_leaf_delete : Prop :=
  exists sch env fo ko t q t',
    tree_ok env fo ko strict_guard sch t = true /\ delete_node env fo ko false sch t q = Ok t' /\
    leaves env ko false sch t' [] = Err.

(* (c) entries created by SetNode carry key leaves equal to their map key: tree_ok (which
   contains entry_consistent) is preserved unless the target is itself a key leaf *)
Definition c16_created_entries_consistent : Prop :=
  forall sch env fo ko o tv t p t' ni,
    schema_ok sch -> enum_env_ok env = true -> tree_ok env fo ko loose_guard sch t = true ->
    s_shadow o = false -> node_at sch p = Some ni -> ni_key_leaf ni = false ->
    (forall j, tv <> TVJsonIetf j) ->
    set_node env fo ko o tv sch t p = Ok t' ->
    tree_ok env fo ko loose_guard sch t' = true.
(* overwriting a key leaf desynchronises map key and key leaf *)
Definition c16_refuted_key_leaf_overwrite : Prop :=
  exists sch env fo ko o tv t p t',
    tree_ok env fo ko loose_guard sch t = true /\ set_node env fo ko o tv sch t p = Ok t' /\
    tree_ok env fo ko loose_guard sch t' = false.
(* a NaN key string panics *)
Definition c16_refuted_nan_key : Prop :=
  exists sch env fo ko t p t', set_node_st env fo ko init_set TVNil sch t p = (t', Panic).

(* ====================================================================================== *)
(* C10 — SetNode then GetNode                                                             *)
(* ====================================================================================== *)

Definition c10_get_after_set : Prop :=
  forall sch env fo ko o tv t p t' ni ty dflt v,
    schema_ok sch -> enum_env_ok env = true -> tree_ok env fo ko loose_guard sch t = true ->
    s_shadow o = false ->
    node_at sch p = Some ni -> ni_schema ni = SLeaf ty dflt -> ni_key_leaf ni = false ->
    decode_tv env ko (s_tol_json o) ty tv = Ok v ->
    set_node env fo ko o tv sch t p = Ok t' ->
    get_node env fo ko plain_get sch t' p = Ok [{| gn_path := p; gn_data := Some (TLeaf v) |}].

Definition c10_get_after_set_leaflist : Prop :=
  forall sch env fo ko o tvs t p t' ni ty mn mx vs,
    schema_ok sch -> enum_env_ok env = true -> tree_ok env fo ko loose_guard sch t = true ->
    s_shadow o = false ->
    node_at sch p = Some ni -> ni_schema ni = SLeafList ty mn mx -> tvs <> [] ->
    mapM (decode_tv env ko (s_tol_json o) ty) tvs = Ok vs ->
    set_node env fo ko o (TVLeafList tvs) sch t p = Ok t' ->
    get_node env fo ko plain_get sch t' p = Ok [{| gn_path := p; gn_data := Some (TLeafList vs) |}].

(* success conditions: with InitMissingElements a type-correct scalar on a leaf path with
   parseable keys is accepted (`empty` leaves excepted) *)
Definition c10_set_succeeds : Prop :=
  forall sch env fo ko tv t p ni ty dflt v,
    schema_ok sch -> enum_env_ok env = true -> tree_ok env fo ko strict_guard sch t = true ->
    node_at sch p = Some ni -> ni_schema ni = SLeaf ty dflt ->
    decode_tv env ko false ty tv = Ok v ->
    (* every keyed element of p carries exactly the list's keys, each parseable *)
    (exists t0, set_node env fo ko init_set TVNil sch t p = Ok t0) ->
    exists t', set_node env fo ko init_set tv sch t p = Ok t'.

(* frame: every other leaf keeps its value; the only additions are the leaf itself (all its
   path alternatives) and the key leaves of the list entries the path created *)
Definition c10_frame : Prop :=
  forall sch env fo ko o tv t p t' ni l l',
    schema_ok sch -> enum_env_ok env = true -> tree_ok env fo ko loose_guard sch t = true ->
    s_shadow o = false ->
    node_at sch p = Some ni -> is_leafish (ni_schema ni) = true -> ni_key_leaf ni = false ->
    (forall j, tv <> TVJsonIetf j) ->
    set_node env fo ko o tv sch t p = Ok t' ->
    leaves env ko false sch t [] = Ok l -> leaves env ko false sch t' [] = Ok l' ->
    (forall q v, In (q, v) l -> ~ In q (ni_alts ni) -> In (q, v) l') /\
    (forall q v, In (q, v) l' -> In (q, v) l \/ In q (ni_alts ni) \/ key_leaf_on_path sch p q).

(* a failing SetNode is not a no-op: InitMissingElements leaves containers / entries behind *)
Definition c10_refuted_failed_set_mutates : Prop :=
  exists sch env fo ko o tv t p t' l l',
    set_node_st env fo ko o tv sch t p = (t', Err) /\
    leaves env ko false sch t [] = Ok l /\ leaves env ko false sch t' [] = Ok l' /\ ~ same_leaves l l'.
(* without InitMissingElements it is *)
Definition c10_failed_set_without_init : Prop :=
  forall sch env fo ko o tv t p t',
    s_init o = false -> (forall j, tv <> TVJsonIetf j) ->
    set_node_st env fo ko o tv sch t p = (t', Err) ->
    forall l, leaves env ko false sch t [] = Ok l -> leaves env ko false sch t' [] = Ok l.

(* SetNode does not panic unless a decimal64 key string parses to NaN *)
Definition c10_no_panic : Prop :=
  forall sch env fo ko o tv t p t',
    (forall e kv, In e p -> In kv (ekeys e) ->
       match fparse fo (snd kv) with Some b => nan_bits b = false | None => True end) ->
    (forall j, tv <> TVJsonIetf j) ->
    set_node_st env fo ko o tv sch t p <> (t', Panic).

(* GetNode never changes anything (it is a function of the tree) and never panics *)
Definition c10_get_total : Prop :=
  forall sch env fo ko o t p, get_node env fo ko o sch t p <> Panic.

(* ====================================================================================== *)
(* C12 — DeleteNode                                                                       *)
(* ====================================================================================== *)

Definition c12_delete_removes_subtree : Prop :=
  forall sch env fo ko t p t' ni l',
    schema_ok sch -> tree_ok env fo ko loose_guard sch t = true ->
    node_at sch p = Some ni ->
    delete_node env fo ko false sch t p = Ok t' -> leaves env ko false sch t' [] = Ok l' ->
    forall q v a, In (q, v) l' -> In a (ni_alts ni) -> elems_prefix a q = false.

Definition c12_delete_frame : Prop :=
  forall sch env fo ko t p t' ni l l',
    schema_ok sch -> tree_ok env fo ko loose_guard sch t = true ->
    node_at sch p = Some ni ->
    delete_node env fo ko false sch t p = Ok t' ->
    leaves env ko false sch t [] = Ok l -> leaves env ko false sch t' [] = Ok l' ->
    (forall q v, In (q, v) l' -> In (q, v) l) /\
    (forall q v, In (q, v) l -> (forall a, In a (ni_alts ni) -> elems_prefix a q = false) -> In (q, v) l').

Definition c12_delete_idempotent : Prop :=
  forall sch env fo ko t p t',
    tree_ok env fo ko loose_guard sch t = true ->
    delete_node env fo ko false sch t p = Ok t' -> delete_node env fo ko false sch t' p = Ok t'.

(* an absent node: success and the same leaves (the tree may lose containers the descent emptied) *)
Definition c12_delete_absent_noop : Prop :=
  forall sch env fo ko t p t' l,
    tree_ok env fo ko loose_guard sch t = true ->
    get_node env fo ko plain_get sch t p = Ok [] ->
    delete_node env fo ko false sch t p = Ok t' ->
    leaves env ko false sch t [] = Ok l -> exists l', leaves env ko false sch t' [] = Ok l' /\ same_leaves l l'.

(* a schema-valid path whose keyed elements carry all keys is never rejected *)
Definition c12_delete_succeeds : Prop :=
  forall sch env fo ko t p ni,
    schema_ok sch -> tree_ok env fo ko strict_guard sch t = true ->
    node_at sch p = Some ni -> is_keyed_list (ni_schema ni) = false \/ ekeys (last p (mk_elem [])) <> [] ->
    (exists t0, set_node env fo ko init_set TVNil sch t p = Ok t0) ->
    exists t', delete_node env fo ko false sch t p = Ok t'.

(* pruning: after a delete no emptied non-presence container or list entry remains on the path *)
Definition c12_delete_total : Prop :=
  forall sch env fo ko sh t p t', delete_node_st env fo ko sh sch t p <> (t', Panic).

(* known deviations *)
Definition c12_refuted_keyless_list_path : Prop :=   (* naming a non-empty list without keys is an error *)
  exists sch env fo ko t p ni,
    tree_ok env fo ko loose_guard sch t = true /\ node_at sch p = Some ni /\
    is_keyed_list (ni_schema ni) = true /\ delete_node env fo ko false sch t p = Err.
Definition c12_refuted_presence_pruned : Prop :=     (* an emptied presence container is removed too *)
  exists sch env fo ko t a b t' fi ss,
    In (fi, ss) (sfields sch) /\ f_presence fi = true /\ f_paths fi = [[ename a]] /\
    field_get (f_go fi) (fields_of t) <> None /\
    delete_node env fo ko false sch t [a; b] = Ok t' /\ field_get (f_go fi) (fields_of t') = None.

(* ====================================================================================== *)
(* C13 — UnmarshalSetRequest                                                              *)
(* ====================================================================================== *)

(* the reference semantics: a left fold of the operations in the order deletes, replaces,
   updates, each list in message order, every path joined to the prefix *)
Definition apply_delete env fo ko sch (pre : gp) (t : tree) (p : gp) : result tree :=
  bind (join_paths pre p) (fun jp => delete_node env fo ko false sch t (elems jp)).
Definition apply_update env fo ko sch (pre : gp) (t : tree) (u : gp * tval) : result tree :=
  bind (join_paths pre (fst u)) (fun jp => set_node env fo ko init_set (snd u) sch t (elems jp)).
Definition apply_replace env fo ko sch (pre : gp) (t : tree) (u : gp * tval) : result tree :=
  bind (join_paths pre (fst u)) (fun jp =>
  bind (delete_node env fo ko false sch t (elems jp)) (fun t1 =>
        set_node env fo ko init_set (snd u) sch t1 (elems jp))).
Fixpoint fold_res {X} (f : tree -> X -> result tree) (l : list X) (t : tree) : result tree :=
  match l with [] => Ok t | x :: r => bind (f t x) (fun t' => fold_res f r t') end.
Definition reference_set env fo ko sch (t : tree) (r : sreq) : result tree :=
  bind (fold_res (apply_delete env fo ko sch (sr_prefix r)) (sr_deletes r) t) (fun t1 =>
  bind (fold_res (apply_replace env fo ko sch (sr_prefix r)) (sr_replaces r) t1) (fun t2 =>
        fold_res (apply_update env fo ko sch (sr_prefix r)) (sr_updates r) t2)).

Definition c13_setrequest_is_fold : Prop :=
  forall sch env fo ko t r t',
    unmarshal_setrequest env fo ko sch no_opts t r = (t', SROk) <-> reference_set env fo ko sch t r = Ok t'.

(* a request that does not succeed stops at its first failing operation: what was applied before
   it stays (no rollback) *)
Definition c13_no_rollback : Prop :=
  exists sch env fo ko t r t' l l',
    unmarshal_setrequest env fo ko sch no_opts t r = (t', SRErr) /\
    leaves env ko false sch t [] = Ok l /\ leaves env ko false sch t' [] = Ok l' /\ ~ same_leaves l l'.

(* replace on a leaf: afterwards the leaf holds the payload *)
Definition c13_replace_leaf : Prop :=
  forall sch env fo ko t pre p tv t' ni ty dflt v,
    schema_ok sch -> enum_env_ok env = true -> tree_ok env fo ko loose_guard sch t = true ->
    node_at sch (elems pre ++ elems p) = Some ni -> ni_schema ni = SLeaf ty dflt -> ni_key_leaf ni = false ->
    decode_tv env ko false ty tv = Ok v ->
    apply_replace env fo ko sch pre t (p, tv) = Ok t' ->
    get_node env fo ko plain_get sch t' (elems pre ++ elems p) =
      Ok [{| gn_path := elems pre ++ elems p; gn_data := Some (TLeaf v) |}].

(* replace with a JSON subtree: below the path only the payload's leaves remain *)
Definition c13_replace_subtree : Prop :=
  forall sch env fo ko t pre p j t' ni l' sub subl,
    schema_ok sch -> enum_env_ok env = true -> tree_ok env fo ko loose_guard sch t = true ->
    node_at sch (elems pre ++ elems p) = Some ni -> is_leafish (ni_schema ni) = false ->
    apply_replace env fo ko sch pre t (p, TVJsonIetf j) = Ok t' ->
    leaves env ko false sch t' [] = Ok l' ->
    unm_node env fo {| o_ignore_extra := false; o_prefer_shadow := false |} (jdepth j + 2)
             (SCont (sfields (ni_schema ni))) (Some (TCont [])) j = Ok (Some sub) ->
    find_leaves env ko false false (ni_schema ni) sub (elems pre ++ elems p) = Ok subl ->
    forall q v, In (q, v) l' -> elems_prefix (elems pre ++ elems p) q = true ->
      In (q, v) (flat_map (plain_of) subl) \/ key_leaf_on_path sch (elems pre ++ elems p) q.

(* an atomic notification replaces the subtree at its prefix: below the prefix only leaves named
   by its updates remain *)
Definition c13_atomic_replaces_prefix : Prop :=
  forall sch env fo ko t n t' l',
    n_atomic n = true -> n_deletes n = [] ->
    unmarshal_notifs env fo ko sch no_opts t [n] = (t', SROk) ->
    leaves env ko false sch t' [] = Ok l' ->
    forall q v, In (q, v) l' -> elems_prefix (n_prefix n) q = true ->
      (exists u, In u (n_updates n) /\ elems_prefix (n_prefix n ++ fst u) q = true) \/
      key_leaf_on_path sch (n_prefix n) q \/
      (exists u, In u (n_updates n) /\ key_leaf_on_path sch (n_prefix n ++ fst u) q).

(* UnmarshalNotifications is the sequence of the per-notification requests *)
Definition c13_notifs_are_requests : Prop :=
  forall sch env fo ko o t n ns t1,
    unmarshal_setrequest env fo ko sch o t (req_of_notif n) = (t1, SROk) ->
    unmarshal_notifs env fo ko sch o t (n :: ns) = unmarshal_notifs env fo ko sch o t1 ns.

(* BestEffortUnmarshal attempts every operation and reports ComplianceErrors ... *)
Definition c13_best_effort_attempts_all : Prop :=
  forall sch env fo ko t r t' out,
    (forall p, In p (sr_deletes r) -> join_paths (sr_prefix r) p <> Err) ->
    (forall u, In u (sr_replaces r ++ sr_updates r) -> join_paths (sr_prefix r) (fst u) <> Err) ->
    unmarshal_setrequest env fo ko sch {| so_shadow := false; so_ignore_extra := false; so_best_effort := true |} t r = (t', out) ->
    out = SROk \/ out = SRCompliance \/ out = SRPanic.
(* ... but panics when prefix and path disagree on origin or target *)
Definition c13_refuted_best_effort_panic : Prop :=
  exists sch env fo ko t r t',
    unmarshal_setrequest env fo ko sch {| so_shadow := false; so_ignore_extra := false; so_best_effort := true |} t r = (t', SRPanic).
