(* KeyCodec.v — list keys as gNMI path strings.
   key_to_string  : ygot/render.go KeyValueAsString (+ enumFieldToString, unionPtrValue,
                    binaryBase64) on the value held by a key leaf / a Go map key;
   string_to_key  : ytypes/util_types.go stringToKeyType, stringToUnionType (+ enumStringToValue,
                    castToEnumValue, castToOneEnumValue, getLoneUnionType);
   string_to_gotype : ytypes/util_types.go StringToType (converted ordered-map keys until fix
                      7d0d94c2; Node.v uses string_to_key for them now; the guards of the
                      ordered-list theorems still use it: it agrees with string_to_key where it
                      succeeds, NodeFrameProofs.gotype_key_agree).
   Definitions only.  Floats: %g and big.Rat->float64 come from the key oracle (tables written
   by the harness), ParseFloat from the float oracle of Tree.v. *)
From Ygot Require Import Tree.Tree Tree.Codec Scalar.Dec Scalar.Base64.

(* What Go's fmt / math/big do on floats, supplied as tables and quantified over in theorems. *)
Record key_oracle := {
  fmt_g : N -> str;                    (* fmt.Sprintf("%g", f) for the float64 with these bits *)
  dec_f64 : Z -> N -> option N;        (* big.Rat(digits / 10^prec).Float64() bits (Decimal64 TypedValue) *)
  union_bytes : bool                   (* does the generated To_<Union>() accept a []byte?  simple unions: yes;
                                          wrapper unions: no (only ygot.Binary), so a binary member can never be
                                          produced by a decoder *)
}.

Definition mk_key_oracle (g : list (N * str)) (d : list (Z * N * N)) (ub : bool) : key_oracle :=
  {| fmt_g := fun b => match find (fun p => fst p =? b) g with Some p => snd p | None => [] end;
     dec_f64 := fun dg pr =>
       match find (fun p => (fst (fst p) =? dg)%Z && (snd (fst p) =? pr)) d with
       | Some p => Some (snd p) | None => None end;
     union_bytes := ub |}.

(* getUnionVal on a decoded member value: the generated conversion function must know its Go type *)
Definition union_val (ko : key_oracle) (v : scalar) : result scalar :=
  match v with
  | VBin _ => if union_bytes ko then Ok v else Err
  | _ => Ok v
  end.

Definition TRUE_S : str := [116;114;117;101].
Definition FALSE_S : str := [102;97;108;115;101].
Definition bool_str (b : bool) : str := if b then TRUE_S else FALSE_S.

(* leafrefs are transparent for every decoder below *)
Fixpoint resolve_lref (t : ytype) : ytype :=
  match t with YLeafref t' => resolve_lref t' | _ => t end.

(* Go field kinds that are not pointers/interfaces: an unset value is the zero value, not nil *)
Definition is_enum_type (t : ytype) : bool :=
  match resolve_lref t with YEnum _ | YIdref _ => true | _ => false end.
Definition nonptr_leaf (t : ytype) : bool :=
  match resolve_lref t with YEnum _ | YIdref _ | YEmpty => true | _ => false end.

(* KeyValueAsString.  An enum prints its YANG name without module ("" for UNSET: enumFieldToString
   returns "", false, nil and the name is used unchecked); unions are transparent. *)
Definition key_to_string (env : enum_env) (ko : key_oracle) (v : scalar) : result str :=
  match v with
  | VInt _ z => Ok (dec_of_Z z)                       (* %d *)
  | VStr s => Ok s                                    (* %s *)
  | VBool b => Ok (bool_str b)                        (* %t *)
  | VDec bits => Ok (fmt_g ko bits)                   (* %g *)
  | VBin bs => Ok (b64enc bs)                         (* binaryBase64 *)
  | VEmpty => Ok TRUE_S                               (* YANGEmpty is a bool: %t *)
  | VEnum ty n =>
      if (n =? 0)%Z then Ok []
      else match enum_by_num (enum_table env ty) n with
           | Some e => Ok (ev_name e)
           | None => Err
           end
  end.

(* stringToKeyType for one built-in kind (restrictions of the type are not consulted) *)
Definition key_of_kind (fo : float_oracle) (k : ukind) (s : str) : result scalar :=
  match k with
  | KInt ik =>
      match (if ikind_signed ik then parse_int_range (ikind_min ik) (ikind_max ik) s
             else parse_uint_range (ikind_max ik) s) with
      | Some z => Ok (VInt ik z)
      | None => Err
      end
  | KDec => match fparse fo s with Some b => Ok (VDec b) | None => Err end   (* strconv.ParseFloat, no lexical check *)
  | KStr => Ok (VStr s)
  | KBin => match b64dec s with Some bs => Ok (VBin bs) | None => Err end
  | KBool => if str_eqb s TRUE_S then Ok (VBool true)
             else if str_eqb s FALSE_S then Ok (VBool false) else Err
  | KEmpty => Err                                      (* unsupported type for conversion *)
  end.

Fixpoint key_first_kind (fo : float_oracle) (ko : key_oracle) (ks : list ukind) (s : str) : result scalar :=
  match ks with
  | [] => Err
  | k :: t => match key_of_kind fo k s with Ok v => union_val ko v | _ => key_first_kind fo ko t s end
  end.

(* stringToKeyType / stringToUnionType: enum members first (in ΛEnumTypes order), then the
   non-enum kinds in declaration order; a union whose members share one Go type is that type *)
Fixpoint string_to_key (env : enum_env) (fo : float_oracle) (ko : key_oracle) (t : ytype) (s : str) : result scalar :=
  match t with
  | YLeafref t' => string_to_key env fo ko t' s
  | YEnum ty | YIdref ty =>
      match enum_cast (enum_table env ty) s with
      | Some e => Ok (VEnum ty (ev_num e))
      | None => Err
      end
  | YUnion ms =>
      let ets := enum_types t in
      let ks := dedup_kinds (union_kinds t) [] in
      match ets, ks with
      | [], [k] => key_of_kind fo k s
      | _, _ =>
          match cast_one_enum env ets s with
          | Some v => Ok v
          | None => key_first_kind fo ko ks s
          end
      end
  | _ => match kind_of_type t with Some k => key_of_kind fo k s | None => Err end
  end.

(* StringToType(t, s) on the Go type generated for a key of YANG type t: integers, string, bool
   and enums only; float64, []byte and union interfaces are "no matching type to cast" *)
Definition gotype_of_kind (k : ukind) (s : str) : result scalar :=
  match k with
  | KInt _ | KStr | KBool => key_of_kind {| ffmt := fun _ => []; fparse := fun _ => None |} k s
  | _ => Err
  end.
Definition string_to_gotype (env : enum_env) (t : ytype) (s : str) : result scalar :=
  match resolve_lref t with
  | YEnum ty | YIdref ty =>
      match enum_cast (enum_table env ty) s with
      | Some e => Ok (VEnum ty (ev_num e))
      | None => Err
      end
  | YUnion ms =>
      match enum_types (YUnion ms), dedup_kinds (union_kinds (YUnion ms)) [] with
      | [], [k] => gotype_of_kind k s
      | _, _ => Err
      end
  | t' => match kind_of_type t' with Some k => gotype_of_kind k s | None => Err end
  end.
