(* UnmarshalProofs.v — totality of the JSON decoder model: no input makes it panic (C20). *)
From Ygot Require Import Tree.Tree Tree.Codec Tree.CodecProofs Tree.TreeOps Tree.Unmarshal.

Lemma bind_no_panic {A B} (r : result A) (f : A -> result B) :
  r <> Panic -> (forall a, f a <> Panic) -> bind r f <> Panic.
Proof. destruct r; simpl; auto; intros; discriminate. Qed.

Lemma dec_first_kind_no_panic fo ks j : dec_first_kind fo ks j <> Panic.
Proof.
  induction ks as [|k ks IH]; simpl; [discriminate|].
  destruct (dec_kind fo k j); [discriminate | exact IH | exact IH].
Qed.

Lemma dec_json_no_panic env fo t j : dec_json env fo t j <> Panic.
Proof.
  revert j. induction t; intros j; cbn [dec_json kind_of_type].
  - apply dec_kind_no_panic.
  - apply dec_kind_no_panic.
  - apply dec_kind_no_panic.
  - apply dec_kind_no_panic.
  - apply dec_kind_no_panic.
  - apply dec_kind_no_panic.
  - destruct j; try discriminate. destruct (enum_cast (enum_table env ty) s); discriminate.
  - destruct j; try discriminate. destruct (enum_cast (enum_table env ty) s); discriminate.
  - set (ets := enum_types (YUnion ms)). set (ks := dedup_kinds (union_kinds (YUnion ms)) []).
    destruct ets; [destruct ks as [|k [|k' r]]|];
      try apply dec_kind_no_panic;
      match goal with |- context[match ?x with Some _ => _ | None => _ end] => destruct x end;
      first [discriminate | apply dec_first_kind_no_panic].
  - apply IHt.
Qed.

Lemma jget_field_no_panic j ps : forall out, jget_field j ps out <> Panic.
Proof.
  induction ps as [|p ps IH]; intros out; simpl; [discriminate|].
  destruct (jget j p); [|apply IH]. destruct out; [destruct (json_eqb j1 j0); [apply IH|discriminate]|apply IH].
Qed.

Section NoPanic.
  Variable env : enum_env.
  Variable fo : float_oracle.
  Variable opts : uopts.

  Lemma entry_key_no_panic sfs keys fs : entry_key sfs keys fs <> Panic.
  Proof.
    induction keys as [|k keys IH]; simpl; [discriminate|].
    destruct (key_field sfs k) as [[fi ks]|]; [|discriminate].
    assert (Hfallback : match ks with
                        | SLeaf kt _ => match enum_key_type kt with
                                        | Some ty => bind (entry_key sfs keys fs) (fun r => Ok (VEnum ty 0 :: r))
                                        | None => Err end
                        | _ => Err end <> Panic).
    { destruct ks; try discriminate. destruct (enum_key_type t); [|discriminate].
      apply bind_no_panic; auto; discriminate. }
    destruct (field_get (f_go fi) fs) as [t|]; [|exact Hfallback].
    destruct t; try exact Hfallback. apply bind_no_panic; auto; discriminate.
  Qed.

  Lemma dec_leaflist_no_panic t l : dec_leaflist env fo t l <> Panic.
  Proof.
    induction l as [|j l IH]; simpl; [discriminate|].
    destruct j; auto; apply bind_no_panic; try apply dec_json_no_panic; intros; apply bind_no_panic; auto; discriminate.
  Qed.

  Theorem unm_node_no_panic : forall fuel s cur j, unm_node env fo opts fuel s cur j <> Panic.
  Proof.
    induction fuel as [|f IH]; intros s cur j; [simpl; discriminate|].
    (* the struct loop, for any field list and accumulator *)
    assert (Hstruct : forall (sfs all : list (finfo * schema)) (jm : list (str * json)) acc,
      (fix fields (l : list (finfo * schema)) (acc : list (str * tree)) : result (list (str * tree)) :=
         match l with
         | [] => Ok acc
         | (fi, ss) :: rest =>
             bind (jget_field (JObj jm) (upaths opts fi) None) (fun ov =>
               match ov with
               | None => fields rest acc
               | Some jv =>
                   bind (unm_node env fo opts f ss (field_get (f_go fi) acc) jv) (fun nt =>
                     match nt with
                     | Some t => fields rest (field_set (go_names all) (f_go fi) t acc)
                     | None => fields rest (field_remove (f_go fi) acc)
                     end)
               end)
         end) sfs acc <> Panic).
    { induction sfs as [|[fi ss] rest IHs]; intros all jm acc; [discriminate|].
      apply bind_no_panic; [apply jget_field_no_panic|]. intros [jv|]; [|apply IHs].
      apply bind_no_panic; [apply IH|]. intros [t|]; apply IHs. }
    cbn [unm_node]. destruct s.
    - destruct j; try discriminate; apply bind_no_panic; try apply dec_json_no_panic; discriminate.
    - destruct j; try discriminate. apply bind_no_panic; [apply dec_leaflist_no_panic|]. intros; discriminate.
    - destruct j; try discriminate. apply bind_no_panic; [|intros; discriminate].
      apply bind_no_panic; [apply Hstruct|]. intros res. destruct (o_ignore_extra opts); [discriminate|].
      match goal with |- context[if ?c then _ else _] => destruct c end; discriminate.
    - destruct j; try discriminate. apply bind_no_panic; [|intros; discriminate].
      generalize (match cur with Some (TList es) => es | _ => [] end).
      induction l as [|e l IHl]; intros es; [discriminate|].
      destruct e; try discriminate.
      apply bind_no_panic.
      { apply bind_no_panic; [apply Hstruct|]. intros res. destruct (o_ignore_extra opts); [discriminate|].
        match goal with |- context[if ?c then _ else _] => destruct c end; discriminate. }
      intros nfs. apply bind_no_panic; [apply entry_key_no_panic|]. intros k.
      destruct ordered.
      + destruct (tl_find k es); [discriminate|apply IHl].
      + destruct (tl_find k es); [|apply IHl].
        apply bind_no_panic; [|intros; apply IHl].
        apply bind_no_panic; [apply Hstruct|]. intros res. destruct (o_ignore_extra opts); [discriminate|].
        match goal with |- context[if ?c then _ else _] => destruct c end; discriminate.
    - destruct j; try discriminate. apply bind_no_panic; [|intros; discriminate].
      generalize (match cur with Some (TUnkeyed es) => es | _ => [] end).
      induction l as [|e l IHl]; intros es; [discriminate|].
      destruct e; try discriminate.
      apply bind_no_panic; [|intros; apply IHl].
      apply bind_no_panic; [apply Hstruct|]. intros res. destruct (o_ignore_extra opts); [discriminate|].
      match goal with |- context[if ?c then _ else _] => destruct c end; discriminate.
  Qed.

  Theorem unmarshal_no_panic s cur j : unmarshal env fo opts s cur j <> Panic.
  Proof.
    unfold unmarshal. apply bind_no_panic; [apply unm_node_no_panic|]. intros [t|]; discriminate.
  Qed.
End NoPanic.
