(* SetReqProofs.v — proofs about Tree/SetReq.v (ytypes.UnmarshalSetRequest / UnmarshalNotifications)
   against the reference semantics of Tree/SetReqSpec.v.  Property C13.

   Part A: the three loops of UnmarshalSetRequest are one loop over deletes ++ replaces ++ updates
           (any options, any outcome); success = the monadic / plain left fold of DeleteNode and
           SetNode over the joined paths; first error stops (no rollback); BestEffortUnmarshal
           attempts everything.
   Part B: UnmarshalNotifications = the requests req_of_notif run in sequence; an atomic
           notification deletes the subtree at its prefix first.
   Part C: refinement of the declarative leaf-map spec, from the two per-operation lemmas
           (Section hypotheses), by induction over the operation lists; histories. *)
From Ygot Require Import Tree.Tree Tree.Codec Tree.TreeOps Tree.Unmarshal Tree.KeyCodec Tree.Leaves
  Tree.Notif Tree.Node Tree.SetReq Tree.GnmiStatements Tree.SetReqSpec Path.PathRel.
From Coq Require Import Permutation.

(* ====================================================================================== *)
(* Part A — the phases                                                                    *)
(* ====================================================================================== *)

Lemma join_paths_elems : forall pre p jp, join_paths pre p = Ok jp -> elems jp = jelems pre p.
Proof.
  intros pre p jp H. unfold join_paths in H.
  destruct (_ && _ && _) in H; [discriminate|].
  destruct (_ && _ && _) in H; [discriminate|].
  inversion H. reflexivity.
Qed.

Lemma join_paths_no_panic : forall pre p, join_paths pre p <> Panic.
Proof.
  intros pre p. unfold join_paths.
  destruct (_ && _ && _); [discriminate|]. destruct (_ && _ && _); discriminate.
Qed.

Lemma join_paths_ok_or_err : forall pre p, join_paths pre p <> Err -> exists jp, join_paths pre p = Ok jp.
Proof.
  intros pre p H. destruct (join_paths pre p) eqn:E; [eauto | congruence | exfalso; eapply join_paths_no_panic; eauto].
Qed.

Lemma of_res_not_join : forall r, of_res r <> StJoinErr.
Proof. destruct r; discriminate. Qed.

Lemma of_res_ok : forall r, of_res r = StOk -> r = Ok tt.
Proof. destruct r as [[]| |]; simpl; congruence. Qed.

Section PartA.
  Variable env : enum_env.
  Variable fo : float_oracle.
  Variable ko : key_oracle.
  Variable sch : schema.
  Variable o : sr_opts.

  Local Notation step_op := (step_op env fo ko sch o).
  Local Notation run_ops := (run_ops env fo ko sch o).
  Local Notation run_strict := (run_strict env fo ko sch o).
  Local Notation attempt_all := (attempt_all env fo ko sch o).
  Local Notation unmarshal_setrequest := (unmarshal_setrequest env fo ko sch o).

  (* ---------- one loop ---------- *)

  Lemma run_phase_app : forall X (K : X -> pop) (step : tree -> X -> tree * step_out) pre,
    (forall t x, step t x = step_op pre t (K x)) ->
    forall items rest t ce,
      run_ops pre t (map K items ++ rest) ce =
      let '(t', ce', st) := run_phase o step items t ce in
      match st with Some x => (t', x) | None => run_ops pre t' rest ce' end.
  Proof.
    intros X K step pre Hs items rest. induction items as [|a items IH]; intros t ce; simpl.
    - reflexivity.
    - rewrite Hs. destruct (step_op pre t (K a)) as [t1 so]. destruct so; try reflexivity.
      + apply IH.
      + destruct (so_best_effort o); [apply IH | reflexivity].
  Qed.

  (* UnmarshalSetRequest is the single loop over deletes ++ replaces ++ updates: the phases and
     their order are the gNMI ones.  Unconditional: any options, any outcome. *)
  Theorem setrequest_run_ops : forall t r,
    unmarshal_setrequest t r = run_ops (sr_prefix r) t (pending r) false.
  Proof.
    intros t r. unfold SetReq.unmarshal_setrequest, pending.
    rewrite (run_phase_app _ PDel (delete_step env fo ko sch o (sr_prefix r))) by reflexivity.
    destruct (run_phase o (delete_step env fo ko sch o (sr_prefix r)) (sr_deletes r) t false) as [[t1 ce1] [x|]]; [reflexivity|].
    rewrite (run_phase_app _ PRep (replace_step env fo ko sch o (sr_prefix r))) by reflexivity.
    destruct (run_phase o (replace_step env fo ko sch o (sr_prefix r)) (sr_replaces r) t1 ce1) as [[t2 ce2] [x|]]; [reflexivity|].
    rewrite <- (app_nil_r (map PUpd (sr_updates r))).
    rewrite (run_phase_app _ PUpd (update_step env fo ko sch o (sr_prefix r))) by reflexivity.
    destruct (run_phase o (update_step env fo ko sch o (sr_prefix r)) (sr_updates r) t2 ce2) as [[t3 ce3] [x|]]; reflexivity.
  Qed.

  (* ---------- success ---------- *)

  Lemma run_ops_ok_iff : forall pre ops t ce t',
    run_ops pre t ops ce = (t', SROk) <-> (so_best_effort o && ce = false /\ run_strict pre t ops = Some t').
  Proof.
    intros pre ops. induction ops as [|op ops IH]; intros t ce t'; simpl.
    - destruct (so_best_effort o && ce); split.
      + intros H; discriminate.
      + intros [H _]; discriminate.
      + intros H; inversion H; auto.
      + intros [_ H]; inversion H; auto.
    - destruct (step_op pre t op) as [t1 so]. destruct so.
      + apply IH.
      + destruct (so_best_effort o) eqn:B.
        * rewrite IH. simpl. split; intros [H1 H2]; discriminate.
        * split; [intros H; discriminate | intros [_ H]; discriminate].
      + split; [intros H; discriminate | intros [_ H]; discriminate].
      + split; [intros H; discriminate | intros [_ H]; discriminate].
  Qed.

  Lemma delete_step_ok : forall pre t p t',
    step_op pre t (PDel p) = (t', StOk) <-> ref_delete env fo ko sch o pre t p = Ok t'.
  Proof.
    intros pre t p t'. simpl. unfold delete_step, ref_delete, delete_node.
    destruct (join_paths pre p) as [jp| |]; simpl.
    - destruct (delete_node_st env fo ko (so_shadow o) sch t (elems jp)) as [t1 r].
      destruct r as [[]| |]; simpl; split; intros H; inversion H; reflexivity.
    - split; intros H; discriminate.
    - split; intros H; discriminate.
  Qed.

  Lemma update_step_ok : forall pre t u t',
    step_op pre t (PUpd u) = (t', StOk) <-> ref_update env fo ko sch o pre t u = Ok t'.
  Proof.
    intros pre t u t'. simpl. unfold update_step, ref_update, set_node.
    destruct (join_paths pre (fst u)) as [jp| |]; simpl.
    - destruct (set_node_st env fo ko (sn_opts o) (snd u) sch t (elems jp)) as [t1 r].
      destruct r as [[]| |]; simpl; split; intros H; inversion H; reflexivity.
    - split; intros H; discriminate.
    - split; intros H; discriminate.
  Qed.

  Lemma replace_step_ok : forall pre t u t',
    step_op pre t (PRep u) = (t', StOk) <-> ref_replace env fo ko sch o pre t u = Ok t'.
  Proof.
    intros pre t u t'. simpl. unfold replace_step, ref_replace, delete_node, set_node.
    destruct (join_paths pre (fst u)) as [jp| |]; simpl.
    - destruct (delete_node_st env fo ko (so_shadow o) sch t (elems jp)) as [t1 r1].
      destruct r1 as [[]| |]; simpl.
      + destruct (set_node_st env fo ko (sn_opts o) (snd u) sch t1 (elems jp)) as [t2 r2].
        destruct r2 as [[]| |]; simpl; split; intros H; inversion H; reflexivity.
      + split; intros H; discriminate.
      + split; intros H; discriminate.
    - split; intros H; discriminate.
    - split; intros H; discriminate.
  Qed.

  Lemma run_strict_phase : forall X (K : X -> pop) (f : tree -> X -> result tree) pre,
    (forall t x t', step_op pre t (K x) = (t', StOk) <-> f t x = Ok t') ->
    forall items rest t,
      run_strict pre t (map K items ++ rest) =
      match fold_res f items t with Ok t1 => run_strict pre t1 rest | _ => None end.
  Proof.
    intros X K f pre Hf items rest. induction items as [|a items IH]; intros t; simpl.
    - reflexivity.
    - destruct (step_op pre t (K a)) as [t1 so] eqn:E.
      assert (Hno : so <> StOk -> forall t2, f t a <> Ok t2).
      { intros Hso t2 F. apply Hf in F. rewrite E in F. inversion F. congruence. }
      destruct so.
      + apply Hf in E. rewrite E. simpl. apply IH.
      + destruct (f t a) eqn:F; simpl; try reflexivity. exfalso. eapply Hno; eauto. discriminate.
      + destruct (f t a) eqn:F; simpl; try reflexivity. exfalso. eapply Hno; eauto. discriminate.
      + destruct (f t a) eqn:F; simpl; try reflexivity. exfalso. eapply Hno; eauto. discriminate.
  Qed.

  Lemma run_strict_pending : forall t r,
    run_strict (sr_prefix r) t (pending r) =
    match reference_set_o env fo ko sch o t r with Ok t' => Some t' | _ => None end.
  Proof.
    intros t r. unfold pending, reference_set_o.
    rewrite (run_strict_phase _ PDel (ref_delete env fo ko sch o (sr_prefix r))) by (intros; apply delete_step_ok).
    destruct (fold_res _ (sr_deletes r) t) as [t1| |]; simpl; try reflexivity.
    rewrite (run_strict_phase _ PRep (ref_replace env fo ko sch o (sr_prefix r))) by (intros; apply replace_step_ok).
    destruct (fold_res _ (sr_replaces r) t1) as [t2| |]; simpl; try reflexivity.
    rewrite <- (app_nil_r (map PUpd (sr_updates r))).
    rewrite (run_strict_phase _ PUpd (ref_update env fo ko sch o (sr_prefix r))) by (intros; apply update_step_ok).
    destruct (fold_res _ (sr_updates r) t2) as [t3| |]; reflexivity.
  Qed.

  (* success = the monadic left fold of the gNMI phases; holds for every option set (with
     BestEffortUnmarshal, SROk means that nothing failed) *)
  Theorem setrequest_is_reference : forall t r t',
    unmarshal_setrequest t r = (t', SROk) <-> reference_set_o env fo ko sch o t r = Ok t'.
  Proof.
    intros t r t'. rewrite setrequest_run_ops, run_ops_ok_iff, run_strict_pending.
    rewrite andb_false_r.
    destruct (reference_set_o env fo ko sch o t r); split; intros H; try discriminate.
    - destruct H as [_ H]. inversion H. reflexivity.
    - inversion H. auto.
    - destruct H; discriminate.
    - destruct H; discriminate.
  Qed.

  (* ... and the plain left fold of the state transformers over the joined paths *)
  Lemma delete_node_fst : forall sh t p t', delete_node env fo ko sh sch t p = Ok t' ->
    delete_node_st env fo ko sh sch t p = (t', Ok tt).
  Proof.
    intros sh t p t'. unfold delete_node. destruct (delete_node_st env fo ko sh sch t p) as [t1 r].
    destruct r as [[]| |]; simpl; intros H; inversion H; reflexivity.
  Qed.
  Lemma set_node_fst : forall so x t p t', set_node env fo ko so x sch t p = Ok t' ->
    set_node_st env fo ko so x sch t p = (t', Ok tt).
  Proof.
    intros so x t p t'. unfold set_node. destruct (set_node_st env fo ko so x sch t p) as [t1 r].
    destruct r as [[]| |]; simpl; intros H; inversion H; reflexivity.
  Qed.

  Lemma ref_delete_inv : forall pre t p t', ref_delete env fo ko sch o pre t p = Ok t' ->
    (exists jp, join_paths pre p = Ok jp) /\
    delete_node_st env fo ko (so_shadow o) sch t (jelems pre p) = (t', Ok tt).
  Proof.
    intros pre t p t' H. unfold ref_delete in H. destruct (join_paths pre p) as [jp| |] eqn:J; try discriminate.
    simpl in H. rewrite (join_paths_elems _ _ _ J) in H. split; [eauto | apply delete_node_fst; exact H].
  Qed.
  Lemma ref_update_inv : forall pre t u t', ref_update env fo ko sch o pre t u = Ok t' ->
    (exists jp, join_paths pre (fst u) = Ok jp) /\
    set_node_st env fo ko (sn_opts o) (snd u) sch t (jelems pre (fst u)) = (t', Ok tt).
  Proof.
    intros pre t u t' H. unfold ref_update in H. destruct (join_paths pre (fst u)) as [jp| |] eqn:J; try discriminate.
    simpl in H. rewrite (join_paths_elems _ _ _ J) in H. split; [eauto | apply set_node_fst; exact H].
  Qed.
  Lemma ref_replace_inv : forall pre t u t', ref_replace env fo ko sch o pre t u = Ok t' ->
    (exists jp, join_paths pre (fst u) = Ok jp) /\
    exists t1, delete_node_st env fo ko (so_shadow o) sch t (jelems pre (fst u)) = (t1, Ok tt) /\
               set_node_st env fo ko (sn_opts o) (snd u) sch t1 (jelems pre (fst u)) = (t', Ok tt).
  Proof.
    intros pre t u t' H. unfold ref_replace in H. destruct (join_paths pre (fst u)) as [jp| |] eqn:J; try discriminate.
    simpl in H. rewrite (join_paths_elems _ _ _ J) in H.
    destruct (delete_node env fo ko (so_shadow o) sch t (jelems pre (fst u))) as [t1| |] eqn:D; try discriminate.
    simpl in H. split; [eauto|]. exists t1. split; [apply delete_node_fst; exact D | apply set_node_fst; exact H].
  Qed.

  Lemma fold_res_fold_left : forall X Y (f : tree -> X -> result tree) (g : tree -> Y -> tree) (h : X -> Y),
    (forall t x t', f t x = Ok t' -> t' = g t (h x)) ->
    forall items t t', fold_res f items t = Ok t' -> t' = fold_left g (map h items) t.
  Proof.
    intros X Y f g h Hf items. induction items as [|a items IH]; intros t t' H; simpl in *.
    - inversion H. reflexivity.
    - destruct (f t a) as [t1| |] eqn:F; try discriminate. simpl in H.
      rewrite <- (Hf _ _ _ F). apply IH. exact H.
  Qed.

  Lemma fold_res_all : forall X (f : tree -> X -> result tree) (P : X -> Prop),
    (forall t x t', f t x = Ok t' -> P x) ->
    forall items t t', fold_res f items t = Ok t' -> forall x, In x items -> P x.
  Proof.
    intros X f P Hf items. induction items as [|a items IH]; intros t t' H x Hin; simpl in *.
    - contradiction.
    - destruct (f t a) as [t1| |] eqn:F; try discriminate. simpl in H.
      destruct Hin as [<-|Hin]; [eapply Hf; eauto | eapply IH; eauto].
  Qed.

  Theorem setrequest_fold_left : forall t r t',
    unmarshal_setrequest t r = (t', SROk) -> t' = fold_set env fo ko sch o t r /\ joins_ok r.
  Proof.
    intros t r t' H. apply setrequest_is_reference in H. unfold reference_set_o in H.
    destruct (fold_res (ref_delete env fo ko sch o (sr_prefix r)) (sr_deletes r) t) as [t1| |] eqn:D; try discriminate.
    simpl in H.
    destruct (fold_res (ref_replace env fo ko sch o (sr_prefix r)) (sr_replaces r) t1) as [t2| |] eqn:Rp; try discriminate.
    simpl in H. split.
    - unfold fold_set.
      assert (E1 : t1 = fold_left (del_f env fo ko sch o) (map (jelems (sr_prefix r)) (sr_deletes r)) t).
      { apply (fold_res_fold_left _ _ (ref_delete env fo ko sch o (sr_prefix r))); [|exact D].
        intros t0 p t0' F. apply ref_delete_inv in F. destruct F as [_ F].
        unfold del_f. rewrite F. reflexivity. }
      assert (E2 : t2 = fold_left (rep_f env fo ko sch o) (map (jupd (sr_prefix r)) (sr_replaces r)) t1).
      { apply (fold_res_fold_left _ _ (ref_replace env fo ko sch o (sr_prefix r))); [|exact Rp].
        intros t0 u t0' F. apply ref_replace_inv in F. destruct F as [_ [t01 [F1 F2]]].
        unfold rep_f, upd_f, del_f, jupd. simpl. rewrite F1. simpl. rewrite F2. reflexivity. }
      rewrite <- E1, <- E2.
      apply (fold_res_fold_left _ _ (ref_update env fo ko sch o (sr_prefix r))); [|exact H].
      intros t0 u t0' F. apply ref_update_inv in F. destruct F as [_ F].
      unfold upd_f, jupd. simpl. rewrite F. reflexivity.
    - split.
      + eapply (fold_res_all _ _ (fun p => exists jp, join_paths (sr_prefix r) p = Ok jp)); [|exact D].
        intros t0 p t0' F. apply ref_delete_inv in F. tauto.
      + intros u Hin. apply in_app_or in Hin. destruct Hin as [Hin|Hin].
        * eapply (fold_res_all _ _ (fun u => exists jp, join_paths (sr_prefix r) (fst u) = Ok jp)); [|exact Rp|exact Hin].
          intros t0 p t0' F. apply ref_replace_inv in F. tauto.
        * eapply (fold_res_all _ _ (fun u => exists jp, join_paths (sr_prefix r) (fst u) = Ok jp)); [|exact H|exact Hin].
          intros t0 p t0' F. apply ref_update_inv in F. tauto.
  Qed.

  (* ---------- errors ---------- *)

  Definition out_of_step (so : step_out) : sr_out := match so with StPanic => SRPanic | _ => SRErr end.

  (* without BestEffortUnmarshal the first operation that is not OK ends the request: the tree
     is the one the operations before it produced, plus whatever the failing operation left
     behind; nothing after it is looked at *)
  Lemma run_ops_first_error : forall pre ops1 op ops2 t t1 t2 so ce,
    so_best_effort o = false ->
    run_strict pre t ops1 = Some t1 -> step_op pre t1 op = (t2, so) -> so <> StOk ->
    run_ops pre t (ops1 ++ op :: ops2) ce = (t2, out_of_step so).
  Proof.
    intros pre ops1 op ops2. induction ops1 as [|a ops1 IH]; intros t t1 t2 so ce B H1 H2 Hso; simpl in *.
    - inversion H1; subst. rewrite H2. destruct so; try reflexivity; [congruence | rewrite B; reflexivity].
    - destruct (step_op pre t a) as [ta sa]. destruct sa; try discriminate. eapply IH; eauto.
  Qed.

  Theorem setrequest_first_error_stops : forall t r ops1 op ops2 t1 t2 so,
    so_best_effort o = false -> pending r = ops1 ++ op :: ops2 ->
    run_strict (sr_prefix r) t ops1 = Some t1 -> step_op (sr_prefix r) t1 op = (t2, so) -> so <> StOk ->
    unmarshal_setrequest t r = (t2, out_of_step so).
  Proof.
    intros t r ops1 op ops2 t1 t2 so B Hp H1 H2 Hso.
    rewrite setrequest_run_ops, Hp. eapply run_ops_first_error; eauto.
  Qed.

  (* conversely: a request that is not OK has such a first failing operation *)
  Lemma run_ops_not_ok : forall pre ops t ce t' out,
    so_best_effort o = false -> run_ops pre t ops ce = (t', out) -> out <> SROk ->
    exists ops1 op ops2 t1 so, ops = ops1 ++ op :: ops2 /\ run_strict pre t ops1 = Some t1 /\
      step_op pre t1 op = (t', so) /\ so <> StOk /\ out = out_of_step so.
  Proof.
    intros pre ops. induction ops as [|a ops IH]; intros t ce t' out B H Hout; simpl in H.
    - rewrite B in H. simpl in H. inversion H. congruence.
    - destruct (step_op pre t a) as [ta sa] eqn:E. destruct sa.
      + destruct (IH _ _ _ _ B H Hout) as [ops1 [op [ops2 [t1 [so [E1 [E2 [E3 [E4 E5]]]]]]]]].
        exists (a :: ops1), op, ops2, t1, so. simpl. rewrite E, E1. auto.
      + rewrite B in H. inversion H; subst. exists [], a, ops, t, StErr. simpl. repeat split; auto. discriminate.
      + inversion H; subst. exists [], a, ops, t, StJoinErr. simpl. repeat split; auto. discriminate.
      + inversion H; subst. exists [], a, ops, t, StPanic. simpl. repeat split; auto. discriminate.
  Qed.

  Theorem setrequest_error_is_first_failure : forall t r t' out,
    so_best_effort o = false -> unmarshal_setrequest t r = (t', out) -> out <> SROk ->
    exists ops1 op ops2 t1 so, pending r = ops1 ++ op :: ops2 /\
      run_strict (sr_prefix r) t ops1 = Some t1 /\ step_op (sr_prefix r) t1 op = (t', so) /\
      so <> StOk /\ out = out_of_step so.
  Proof.
    intros t r t' out B H Hout. rewrite setrequest_run_ops in H. eapply run_ops_not_ok; eauto.
  Qed.

  (* the path of an operation *)
  Definition pop_path (op : pop) : gp := match op with PDel p => p | PRep u | PUpd u => fst u end.

  Lemma step_op_join_err : forall pre t op t',
    step_op pre t op = (t', StJoinErr) -> forall jp, join_paths pre (pop_path op) <> Ok jp.
  Proof.
    intros pre t op t' H jp J. destruct op as [p|u|u]; simpl in *.
    - unfold delete_step in H. rewrite J in H.
      destruct (delete_node_st env fo ko (so_shadow o) sch t (elems jp)) as [t1 r]. inversion H.
      eapply of_res_not_join; eauto.
    - unfold replace_step in H. rewrite J in H.
      destruct (delete_node_st env fo ko (so_shadow o) sch t (elems jp)) as [t1 r1].
      destruct r1 as [[]| |]; try (inversion H; fail).
      destruct (set_node_st env fo ko (sn_opts o) (snd u) sch t1 (elems jp)) as [t2 r2]. inversion H.
      eapply of_res_not_join; eauto.
    - unfold update_step in H. rewrite J in H.
      destruct (set_node_st env fo ko (sn_opts o) (snd u) sch t (elems jp)) as [t1 r]. inversion H.
      eapply of_res_not_join; eauto.
  Qed.

  (* BestEffortUnmarshal: unless a path does not join or an operation panics, every operation is
     attempted, on the tree its predecessors left (failed ones included), and the outcome is OK
     or ComplianceErrors *)
  Lemma run_ops_best_effort : forall pre ops t ce t' out,
    so_best_effort o = true ->
    (forall op, In op ops -> exists jp, join_paths pre (pop_path op) = Ok jp) ->
    run_ops pre t ops ce = (t', out) ->
    out = SRPanic \/ ((out = SROk \/ out = SRCompliance) /\ t' = attempt_all pre t ops).
  Proof.
    intros pre ops. induction ops as [|a ops IH]; intros t ce t' out B Hj H; simpl in H.
    - right. inversion H. split; [destruct (so_best_effort o && ce); auto | reflexivity].
    - unfold SetReqSpec.attempt_all. simpl.
      destruct (step_op pre t a) as [ta sa] eqn:E. simpl. destruct sa.
      + eapply IH; eauto. intros; apply Hj; right; auto.
      + rewrite B in H. eapply IH; eauto. intros; apply Hj; right; auto.
      + exfalso. destruct (Hj a (or_introl eq_refl)) as [jp J]. eapply step_op_join_err; eauto.
      + left. inversion H. reflexivity.
  Qed.

  Lemma joins_ok_pending : forall r, joins_ok r ->
    forall op, In op (pending r) -> exists jp, join_paths (sr_prefix r) (pop_path op) = Ok jp.
  Proof.
    intros r [Hd Hu] op Hin. unfold pending in Hin.
    apply in_app_or in Hin. destruct Hin as [Hin|Hin].
    - apply in_map_iff in Hin. destruct Hin as [p [<- Hp]]. simpl. auto.
    - apply in_app_or in Hin. destruct Hin as [Hin|Hin]; apply in_map_iff in Hin; destruct Hin as [u [<- Hu']];
        simpl; apply Hu; apply in_or_app; auto.
  Qed.

  Theorem setrequest_best_effort_attempts_all : forall t r t' out,
    so_best_effort o = true -> joins_ok r ->
    unmarshal_setrequest t r = (t', out) ->
    out = SRPanic \/ ((out = SROk \/ out = SRCompliance) /\ t' = attempt_all (sr_prefix r) t (pending r)).
  Proof.
    intros t r t' out B Hj H. rewrite setrequest_run_ops in H.
    eapply run_ops_best_effort; eauto. apply joins_ok_pending; exact Hj.
  Qed.

  (* ---------- Part B: notifications ---------- *)

  Theorem notifs_run_requests : forall ns t,
    unmarshal_notifs env fo ko sch o t ns = run_requests env fo ko sch o t (map req_of_notif ns).
  Proof.
    induction ns as [|n ns IH]; intros t; simpl; [reflexivity|].
    destruct (unmarshal_setrequest t (req_of_notif n)) as [t1 out]. destruct out; auto.
  Qed.

  Theorem run_requests_ok : forall rs t t',
    run_requests env fo ko sch o t rs = (t', SROk) <-> fold_res (reference_set_o env fo ko sch o) rs t = Ok t'.
  Proof.
    induction rs as [|r rs IH]; intros t t'; simpl.
    - split; intros H; inversion H; reflexivity.
    - destruct (unmarshal_setrequest t r) as [t1 out] eqn:E.
      destruct out.
      + apply setrequest_is_reference in E. rewrite E. simpl. apply IH.
      + split; [intros H; discriminate|]. intros H.
        destruct (reference_set_o env fo ko sch o t r) as [t2| |] eqn:F; try discriminate.
        apply setrequest_is_reference in F. rewrite E in F. discriminate.
      + split; [intros H; discriminate|]. intros H.
        destruct (reference_set_o env fo ko sch o t r) as [t2| |] eqn:F; try discriminate.
        apply setrequest_is_reference in F. rewrite E in F. discriminate.
      + split; [intros H; discriminate|]. intros H.
        destruct (reference_set_o env fo ko sch o t r) as [t2| |] eqn:F; try discriminate.
        apply setrequest_is_reference in F. rewrite E in F. discriminate.
  Qed.

  Lemma fold_res_app : forall X (f : tree -> X -> result tree) a b t,
    fold_res f (a ++ b) t = bind (fold_res f a t) (fun t1 => fold_res f b t1).
  Proof.
    intros X f a b. induction a as [|x a IH]; intros t; simpl; [reflexivity|].
    destruct (f t x); simpl; auto.
  Qed.

  Lemma ref_delete_empty : forall pfx t,
    ref_delete env fo ko sch o (gp_of pfx) t empty_gp = delete_node env fo ko (so_shadow o) sch t pfx.
  Proof. intros pfx t. unfold ref_delete. simpl. rewrite app_nil_r. reflexivity. Qed.

  (* the request of a notification: its deletes, then (atomic) the subtree at the prefix, then
     its updates *)
  Theorem notif_request_reference : forall n t,
    reference_set_o env fo ko sch o t (req_of_notif n) =
    bind (fold_res (ref_delete env fo ko sch o (gp_of (n_prefix n))) (map gp_of (n_deletes n)) t) (fun t0 =>
    bind (if n_atomic n then delete_node env fo ko (so_shadow o) sch t0 (n_prefix n) else Ok t0) (fun t1 =>
      fold_res (ref_update env fo ko sch o (gp_of (n_prefix n)))
               (map (fun u => (gp_of (fst u), snd u)) (n_updates n)) t1)).
  Proof.
    intros n t. unfold reference_set_o. simpl. rewrite fold_res_app.
    destruct (fold_res _ (map gp_of (n_deletes n)) t) as [t0| |]; simpl; try reflexivity.
    destruct (n_atomic n); simpl; [|reflexivity].
    rewrite ref_delete_empty. destruct (delete_node env fo ko (so_shadow o) sch t0 (n_prefix n)); reflexivity.
  Qed.

  Theorem atomic_notif_deletes_prefix_first : forall n t t',
    n_atomic n = true -> n_deletes n = [] ->
    (unmarshal_notifs env fo ko sch o t [n] = (t', SROk) <->
     exists t1, delete_node_st env fo ko (so_shadow o) sch t (n_prefix n) = (t1, Ok tt) /\
                fold_res (ref_update env fo ko sch o (gp_of (n_prefix n)))
                         (map (fun u => (gp_of (fst u), snd u)) (n_updates n)) t1 = Ok t').
  Proof.
    intros n t t' Ha Hd. rewrite notifs_run_requests. simpl map. rewrite run_requests_ok. simpl.
    rewrite notif_request_reference, Ha, Hd. simpl. unfold delete_node.
    destruct (delete_node_st env fo ko (so_shadow o) sch t (n_prefix n)) as [t1 r]. destruct r as [[]| |]; simpl.
    - destruct (fold_res _ _ t1) as [t2| |] eqn:F; simpl; split; intros H.
      + exists t1. inversion H. subst. auto.
      + destruct H as [t1' [H1 H2]]. inversion H1; subst. rewrite F in H2. exact H2.
      + discriminate.
      + destruct H as [t1' [H1 H2]]. inversion H1; subst. rewrite F in H2. discriminate.
      + discriminate.
      + destruct H as [t1' [H1 H2]]. inversion H1; subst. rewrite F in H2. discriminate.
    - split; [intros H; discriminate | intros [t1' [H1 _]]; discriminate].
    - split; [intros H; discriminate | intros [t1' [H1 _]]; discriminate].
  Qed.
End PartA.

(* ====================================================================================== *)
(* Part C — the declarative spec                                                          *)
(* ====================================================================================== *)

(* ---------- leaf maps as sets ---------- *)

Lemma lm_equiv_refl : forall a, lm_equiv a a.
Proof. intros a q v. tauto. Qed.
Lemma lm_equiv_sym : forall a b, lm_equiv a b -> lm_equiv b a.
Proof. intros a b H q v. symmetry. apply H. Qed.
Lemma lm_equiv_trans : forall a b c, lm_equiv a b -> lm_equiv b c -> lm_equiv a c.
Proof. intros a b c H1 H2 q v. rewrite (H1 q v). apply H2. Qed.

Lemma lm_equiv_in : forall (a b : lmap) e, lm_equiv a b -> In e a -> In e b.
Proof. intros a b [q v] H Hin. apply H. exact Hin. Qed.

Lemma filter_equiv : forall (f : dpath * lval -> bool) a b,
  lm_equiv a b -> lm_equiv (filter f a) (filter f b).
Proof.
  intros f a b H q v. rewrite !filter_In. rewrite (H q v). tauto.
Qed.

Lemma has_path_equiv : forall a b q, lm_equiv a b -> has_path a q = has_path b q.
Proof.
  intros a b q H. unfold has_path.
  destruct (existsb (fun e => same_path q (fst e)) a) eqn:Ea; symmetry.
  - apply existsb_exists in Ea. destruct Ea as [e [Hin He]].
    apply existsb_exists. exists e. split; [eapply lm_equiv_in; eauto | exact He].
  - destruct (existsb (fun e => same_path q (fst e)) b) eqn:Eb; [|reflexivity].
    apply existsb_exists in Eb. destruct Eb as [e [Hin He]].
    rewrite <- Ea. symmetry. apply existsb_exists. exists e.
    split; [eapply lm_equiv_in; [apply lm_equiv_sym|]; eauto | exact He].
Qed.

Lemma add_missing_equiv : forall ks a b, lm_equiv a b -> lm_equiv (add_missing ks a) (add_missing ks b).
Proof.
  intros ks a b H q v. unfold add_missing. rewrite !in_app_iff, !filter_In. rewrite (H q v).
  simpl. rewrite (has_path_equiv a b q H). tauto.
Qed.

Section SpecFacts.
  Variable sem : path_sem.

  Lemma spec_delete_equiv : forall a b p, lm_equiv a b -> lm_equiv (spec_delete sem a p) (spec_delete sem b p).
  Proof. intros a b p H. apply filter_equiv. exact H. Qed.

  Lemma spec_update_equiv : forall a b p x, lm_equiv a b -> lm_equiv (spec_update sem a p x) (spec_update sem b p x).
  Proof.
    intros a b p x H. unfold spec_update. destruct (ps_value sem p x) as [v|]; [|exact H].
    intros q w. rewrite !in_app_iff.
    rewrite (filter_equiv _ _ _ (add_missing_equiv (ps_keyleaves sem p) a b H) q w). tauto.
  Qed.

  Lemma spec_replace_equiv : forall a b p x, lm_equiv a b -> lm_equiv (spec_replace sem a p x) (spec_replace sem b p x).
  Proof. intros a b p x H. apply spec_update_equiv. apply spec_delete_equiv. exact H. Qed.

  Lemma fold_left_equiv : forall X (g : lmap -> X -> lmap),
    (forall a b x, lm_equiv a b -> lm_equiv (g a x) (g b x)) ->
    forall items a b, lm_equiv a b -> lm_equiv (fold_left g items a) (fold_left g items b).
  Proof.
    intros X g Hg items. induction items as [|x items IH]; intros a b H; simpl; [exact H|].
    apply IH. apply Hg. exact H.
  Qed.

  Lemma spec_set_equiv : forall a b r, lm_equiv a b -> lm_equiv (spec_set sem a r) (spec_set sem b r).
  Proof.
    intros a b r H. unfold spec_set.
    apply fold_left_equiv; [intros; apply spec_update_equiv; assumption|].
    apply fold_left_equiv; [intros; apply spec_replace_equiv; assumption|].
    apply fold_left_equiv; [intros; apply spec_delete_equiv; assumption|].
    exact H.
  Qed.

  (* what the spec says, pointwise *)
  Lemma spec_delete_in : forall m p q v,
    In (q, v) (spec_delete sem m p) <-> In (q, v) m /\ under (ps_alts sem p) q = false.
  Proof.
    intros m p q v. unfold spec_delete. rewrite filter_In. simpl.
    destruct (under (ps_alts sem p) q); simpl; intuition congruence.
  Qed.

  Lemma spec_delete_idem : forall m p, spec_delete sem (spec_delete sem m p) p = spec_delete sem m p.
  Proof.
    intros m p. unfold spec_delete. induction m as [|e m IH]; simpl; [reflexivity|].
    destruct (negb (under (ps_alts sem p) (fst e))) eqn:E; simpl; [rewrite E|]; rewrite IH; reflexivity.
  Qed.

  Lemma spec_update_in : forall m p x v q w, ps_value sem p x = Some v ->
    (In (q, w) (spec_update sem m p x) <->
     (In q (ps_alts sem p) /\ w = v) \/
     (under (ps_alts sem p) q = false /\
      (In (q, w) m \/ (In (q, w) (ps_keyleaves sem p) /\ has_path m q = false)))).
  Proof.
    intros m p x v q w Hv. unfold spec_update. rewrite Hv. rewrite in_app_iff, in_map_iff, filter_In.
    unfold add_missing. rewrite in_app_iff, filter_In. simpl.
    split.
    - intros [[a [E Ha]]|[H1 H2]].
      + inversion E; subst. left. auto.
      + right. split; [destruct (under (ps_alts sem p) q); simpl in H2; congruence|].
        destruct H1 as [H1|[H1 H3]]; [left; exact H1 | right; split; [exact H1|]].
        destruct (has_path m q); simpl in H3; congruence.
    - intros [[Ha E]|[H1 [H2|[H2 H3]]]].
      + left. exists q. subst. auto.
      + right. rewrite H1. auto.
      + right. rewrite H1, H3. auto.
  Qed.

  (* afterwards the target holds the payload, at every one of its paths *)
  Lemma spec_update_hit : forall m p x v a, ps_value sem p x = Some v -> In a (ps_alts sem p) ->
    In (a, v) (spec_update sem m p x).
  Proof. intros. rewrite spec_update_in by eassumption. left. auto. Qed.

  (* and holds nothing else there *)
  Lemma spec_update_only : forall m p x v a w, ps_value sem p x = Some v -> In a (ps_alts sem p) ->
    elems_prefix a a = true -> In (a, w) (spec_update sem m p x) -> w = v.
  Proof.
    intros m p x v a w Hv Ha Hr Hin. rewrite spec_update_in in Hin by eassumption.
    destruct Hin as [[_ E]|[Hu _]]; [exact E|].
    exfalso. assert (under (ps_alts sem p) a = true); [|congruence].
    apply existsb_exists. exists a. auto.
  Qed.
End SpecFacts.

(* with one path per node the delete is the textbook one *)
Lemma plain_spec_delete : forall value m p,
  spec_delete (plain_sem value) m p = filter (fun q => negb (is_prefix p (fst q))) m.
Proof.
  intros value m p. unfold spec_delete. apply filter_ext. intros e. simpl. rewrite orb_false_r. reflexivity.
Qed.

(* ---------- atomic notifications on the spec: below the prefix only what the updates name ---------- *)

Section AtomicSpec.
  Variable sem : path_sem.

  Lemma spec_update_origin : forall m p x q w, In (q, w) (spec_update sem m p x) ->
    In (q, w) m \/ In q (ps_alts sem p) \/ In (q, w) (ps_keyleaves sem p).
  Proof.
    intros m p x q w H. unfold spec_update in H. destruct (ps_value sem p x) as [v|]; [|auto].
    apply in_app_iff in H. destruct H as [H|H].
    - apply in_map_iff in H. destruct H as [a [E Ha]]. inversion E; subst. auto.
    - apply filter_In in H. destruct H as [H _]. unfold add_missing in H. apply in_app_iff in H.
      destruct H as [H|H]; [auto|]. apply filter_In in H. tauto.
  Qed.

  Lemma fold_updates_origin : forall pre (us : list (gp * tval)) m q w,
    In (q, w) (fold_left (fun m u => spec_update sem m (jelems pre (fst u)) (snd u)) us m) ->
    In (q, w) m \/
    exists u, In u us /\ (In q (ps_alts sem (jelems pre (fst u))) \/ In (q, w) (ps_keyleaves sem (jelems pre (fst u)))).
  Proof.
    intros pre us. induction us as [|u us IH]; intros m q w H; simpl in H; [auto|].
    apply IH in H. destruct H as [H|[u' [Hin H]]].
    - apply spec_update_origin in H. destruct H as [H|H]; [auto|].
      right. exists u. split; [left; reflexivity | exact H].
    - right. exists u'. split; [right; exact Hin | exact H].
  Qed.

  Theorem spec_atomic_below_prefix : forall n m q w,
    n_atomic n = true -> n_deletes n = [] ->
    In (q, w) (spec_set sem m (req_of_notif n)) -> under (ps_alts sem (n_prefix n)) q = true ->
    exists u, In u (n_updates n) /\
      (In q (ps_alts sem (n_prefix n ++ fst u)) \/ In (q, w) (ps_keyleaves sem (n_prefix n ++ fst u))).
  Proof.
    intros n m q w Ha Hd H Hu. unfold spec_set in H. simpl in H. rewrite Ha, Hd in H. simpl in H.
    apply fold_updates_origin in H. destruct H as [H|[u [Hin H]]].
    - apply spec_delete_in in H. destruct H as [_ H]. unfold jelems in H. simpl in H.
      rewrite app_nil_r in H. congruence.
    - apply in_map_iff in Hin. destruct Hin as [u0 [<- Hin]]. exists u0. split; [exact Hin|]. exact H.
  Qed.
End AtomicSpec.

(* ---------- the refinement ---------- *)

Section Refines.
  Variable env : enum_env.
  Variable fo : float_oracle.
  Variable ko : key_oracle.
  Variable sch : schema.
  Variable o : sr_opts.
  Variable sem : path_sem.
  Variable obs : tree -> result lmap.        (* the observation: Leaves.leaves in C13 *)
  Variable Inv : tree -> Prop.               (* what the per-operation lemmas need of the tree *)
  Variable dguard : dpath -> Prop.           (* delete targets they cover *)
  Variable sguard : dpath -> tval -> Prop.   (* update targets and payloads they cover *)

  (* the two per-operation lemmas (Tree/NodeProofs.v, Tree/NodeFrameProofs.v are to provide them) *)
  Hypothesis leaves_after_delete : leaves_after_delete_stmt env fo ko sch o sem obs Inv dguard.
  Hypothesis leaves_after_set_leaf : leaves_after_set_leaf_stmt env fo ko sch o sem obs Inv sguard.

  Local Notation req_guard := (req_guard dguard sguard).

  (* one loop of operations against one fold of the spec: induction over the operation list *)
  Lemma phase_refines : forall X (f : tree -> X -> result tree) (g : lmap -> X -> lmap) (G : X -> Prop),
    (forall t x t' m, Inv t -> G x -> f t x = Ok t' -> obs t = Ok m ->
       Inv t' /\ exists m', obs t' = Ok m' /\ lm_equiv m' (g m x)) ->
    (forall a b x, lm_equiv a b -> lm_equiv (g a x) (g b x)) ->
    forall items t t' m m0,
      Inv t -> (forall x, In x items -> G x) -> fold_res f items t = Ok t' ->
      obs t = Ok m -> lm_equiv m m0 ->
      Inv t' /\ exists m', obs t' = Ok m' /\ lm_equiv m' (fold_left g items m0).
  Proof.
    intros X f g G Hstep Hg items. induction items as [|x items IH]; intros t t' m m0 Hi HG Hf Ho Hm; simpl in *.
    - inversion Hf; subst. split; [exact Hi|]. exists m. auto.
    - destruct (f t x) as [t1| |] eqn:F; try discriminate. simpl in Hf.
      destruct (Hstep t x t1 m Hi (HG x (or_introl eq_refl)) F Ho) as [Hi1 [m1 [Ho1 Hm1]]].
      apply (IH t1 t' m1 (g m0 x)); auto.
      eapply lm_equiv_trans; [exact Hm1 | apply Hg; exact Hm].
  Qed.

  Lemma delete_refines : forall pre t p t' m,
    Inv t -> dguard (jelems pre p) -> ref_delete env fo ko sch o pre t p = Ok t' -> obs t = Ok m ->
    Inv t' /\ exists m', obs t' = Ok m' /\ lm_equiv m' (spec_delete sem m (jelems pre p)).
  Proof.
    intros pre t p t' m Hi Hg Hf Ho. apply ref_delete_inv in Hf. destruct Hf as [_ Hf].
    eapply leaves_after_delete; eauto.
  Qed.

  Lemma update_refines : forall pre t u t' m,
    Inv t -> sguard (jelems pre (fst u)) (snd u) -> ref_update env fo ko sch o pre t u = Ok t' -> obs t = Ok m ->
    Inv t' /\ exists m', obs t' = Ok m' /\ lm_equiv m' (spec_update sem m (jelems pre (fst u)) (snd u)).
  Proof.
    intros pre t u t' m Hi Hg Hf Ho. apply ref_update_inv in Hf. destruct Hf as [_ Hf].
    eapply leaves_after_set_leaf; eauto.
  Qed.

  Lemma replace_refines : forall pre t u t' m,
    Inv t -> dguard (jelems pre (fst u)) /\ sguard (jelems pre (fst u)) (snd u) ->
    ref_replace env fo ko sch o pre t u = Ok t' -> obs t = Ok m ->
    Inv t' /\ exists m', obs t' = Ok m' /\ lm_equiv m' (spec_replace sem m (jelems pre (fst u)) (snd u)).
  Proof.
    intros pre t u t' m Hi [Hd Hs] Hf Ho. apply ref_replace_inv in Hf. destruct Hf as [_ [t1 [F1 F2]]].
    destruct (leaves_after_delete _ _ _ _ Hi Hd F1 Ho) as [Hi1 [m1 [Ho1 Hm1]]].
    destruct (leaves_after_set_leaf _ _ _ _ _ Hi1 Hs F2 Ho1) as [Hi2 [m2 [Ho2 Hm2]]].
    split; [exact Hi2|]. exists m2. split; [exact Ho2|].
    eapply lm_equiv_trans; [exact Hm2|]. unfold spec_replace. apply spec_update_equiv. exact Hm1.
  Qed.

  (* one request *)
  Lemma reference_refines : forall t r t' m,
    Inv t -> req_guard r -> reference_set_o env fo ko sch o t r = Ok t' -> obs t = Ok m ->
    Inv t' /\ exists m', obs t' = Ok m' /\ lm_equiv m' (spec_set sem m r).
  Proof.
    intros t r t' m Hi [Gd [Gr Gu]] Hf Ho. unfold reference_set_o in Hf.
    destruct (fold_res (ref_delete env fo ko sch o (sr_prefix r)) (sr_deletes r) t) as [t1| |] eqn:D; try discriminate.
    simpl in Hf.
    destruct (fold_res (ref_replace env fo ko sch o (sr_prefix r)) (sr_replaces r) t1) as [t2| |] eqn:Rp; try discriminate.
    simpl in Hf.
    destruct (phase_refines _ (ref_delete env fo ko sch o (sr_prefix r))
                (fun m p => spec_delete sem m (jelems (sr_prefix r) p))
                (fun p => dguard (jelems (sr_prefix r) p))
                (delete_refines (sr_prefix r))
                (fun a b x H => spec_delete_equiv sem a b _ H)
                _ _ _ _ m Hi Gd D Ho (lm_equiv_refl m)) as [Hi1 [m1 [Ho1 Hm1]]].
    destruct (phase_refines _ (ref_replace env fo ko sch o (sr_prefix r))
                (fun m u => spec_replace sem m (jelems (sr_prefix r) (fst u)) (snd u))
                (fun u => dguard (jelems (sr_prefix r) (fst u)) /\ sguard (jelems (sr_prefix r) (fst u)) (snd u))
                (replace_refines (sr_prefix r))
                (fun a b x H => spec_replace_equiv sem a b _ _ H)
                _ _ _ _ _ Hi1 Gr Rp Ho1 Hm1) as [Hi2 [m2 [Ho2 Hm2]]].
    exact (phase_refines _ (ref_update env fo ko sch o (sr_prefix r))
                (fun m u => spec_update sem m (jelems (sr_prefix r) (fst u)) (snd u))
                (fun u => sguard (jelems (sr_prefix r) (fst u)) (snd u))
                (update_refines (sr_prefix r))
                (fun a b x H => spec_update_equiv sem a b _ _ H)
                _ _ _ _ _ Hi2 Gu Hf Ho2 Hm2).
  Qed.

  Theorem setrequest_refines_scalar : forall t r t' m,
    Inv t -> req_guard r -> obs t = Ok m ->
    unmarshal_setrequest env fo ko sch o t r = (t', SROk) ->
    Inv t' /\ exists m', obs t' = Ok m' /\ lm_equiv m' (spec_set sem m r).
  Proof.
    intros t r t' m Hi Hg Ho H. apply setrequest_is_reference in H. eapply reference_refines; eauto.
  Qed.

  (* a history of requests *)
  Theorem history_refines : forall rs t t' m,
    Inv t -> (forall r, In r rs -> req_guard r) -> obs t = Ok m ->
    run_requests env fo ko sch o t rs = (t', SROk) ->
    Inv t' /\ exists m', obs t' = Ok m' /\ lm_equiv m' (spec_history sem m rs).
  Proof.
    intros rs t t' m Hi Hg Ho H. apply run_requests_ok in H.
    exact (phase_refines _ (reference_set_o env fo ko sch o) (spec_set sem) req_guard
             (fun t r t' m Hi Hg Hf Ho => reference_refines t r t' m Hi Hg Hf Ho)
             (fun a b r H => spec_set_equiv sem a b r H)
             rs t t' m m Hi Hg H Ho (lm_equiv_refl m)).
  Qed.

  (* notifications: the requests of req_of_notif *)
  Theorem notifs_refine : forall ns t t' m,
    Inv t -> (forall n, In n ns -> req_guard (req_of_notif n)) -> obs t = Ok m ->
    unmarshal_notifs env fo ko sch o t ns = (t', SROk) ->
    Inv t' /\ exists m', obs t' = Ok m' /\ lm_equiv m' (spec_history sem m (map req_of_notif ns)).
  Proof.
    intros ns t t' m Hi Hg Ho H. rewrite notifs_run_requests in H.
    eapply history_refines; eauto.
    intros r Hin. apply in_map_iff in Hin. destruct Hin as [n [<- Hn]]. auto.
  Qed.

  (* an atomic notification: below its prefix only what its updates name remains *)
  Theorem atomic_notif_leaves : forall n t t' m l',
    n_atomic n = true -> n_deletes n = [] ->
    Inv t -> req_guard (req_of_notif n) -> obs t = Ok m ->
    unmarshal_notifs env fo ko sch o t [n] = (t', SROk) -> obs t' = Ok l' ->
    forall q w, In (q, w) l' -> under (ps_alts sem (n_prefix n)) q = true ->
      exists u, In u (n_updates n) /\
        (In q (ps_alts sem (n_prefix n ++ fst u)) \/ In (q, w) (ps_keyleaves sem (n_prefix n ++ fst u))).
  Proof.
    intros n t t' m l' Ha Hd Hi Hg Ho H Ho' q w Hin Hu.
    destruct (notifs_refine [n] t t' m Hi) as [_ [m' [Hm' He]]]; auto.
    { intros n0 [<-|[]]. exact Hg. }
    rewrite Ho' in Hm'. inversion Hm'; subst m'.
    apply He in Hin. simpl in Hin.
    eapply spec_atomic_below_prefix; eauto.
  Qed.
End Refines.
