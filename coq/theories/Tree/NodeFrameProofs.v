(* NodeFrameProofs.v — the structural view of ytypes/node.go (Tree/Node.v).
   1. the loops of get_rec / set_rec / del_rec as top-level functions (equations by reflexivity);
   2. structural addresses: `sub_at t sp` is the subtree of t at the structural path sp
      (StF = struct field by Go name, StK = map entry by key tuple); `addr S p` maps a gNMI path
      with complete, canonical list keys to its structural address, from the schema alone;
   3. the guards: `swfb` (schema: Go names distinct, the three key-leaf lookups of a list agree),
      `nwfb` / `nwf` (tree: fields in struct order, kinds match the schema, list entries carry key
      leaves equal to their map key, every key is read back from its own string, Go-map entries
      in canonical order);
   4. the FRAME theorem for set_rec (`set_rec_spec`): a successful set changes exactly the node at
      the address of the path, creates the missing containers and list entries on the way (the
      new entries hold their key leaves) and leaves every other subtree as it was; the guards are
      preserved. *)
From Ygot Require Import Tree.Tree Tree.Codec Tree.CodecProofs Tree.TreeOps Tree.Unmarshal Tree.KeyCodec Tree.Leaves Tree.Node Path.PathRel.
From Ygot Require Import Tree.RoundTrip Tree.RoundTripObjProofs Tree.RoundTripProofs Tree.MergeJson Tree.MergeJsonProofs.

(* ====================================================================================== *)
(* 1. The loops of Node.v as top-level functions                                          *)
(* ====================================================================================== *)

Section Loops.
  Variable env : enum_env.
  Variable fo : float_oracle.
  Variable ko : key_oracle.

  (* ---------- get ---------- *)
  Section GetLoops.
    Variable o : get_opts.
    Variable rec : schema -> option tree -> dpath -> dpath -> result (list gnode).   (* get_rec f *)
    Variable s : schema.
    Variable sfs : list (finfo * schema).
    Variable keys : list str.
    Variable e0 : pelem.
    Variable prest trav : dpath.

    Definition get_wild_all :=
      fix all (l : list (list scalar * tree)) : result (list gnode) :=
        match l with
        | [] => Ok []
        | (_, e) :: more =>
            bind (entry_key_strs env ko sfs keys (fields_of e)) (fun kk =>
            bind (rec s (Some e) prest (trav ++ [{| ename := ename e0; ekeys := kk |}])) (fun here =>
            bind (all more) (fun r => Ok (here ++ r))))
        end.

    Definition get_first (k pk : str) :=
      fix first (l : list (list scalar * tree)) : result (list gnode) :=
        match l with
        | [] => Ok []
        | (mk, e) :: more =>
            bind (single_key_str env ko sfs k mk (fields_of e)) (fun ks =>
              if str_eqb ks pk then rec s (Some e) prest (trav ++ [e0])
              else first more)
        end.

    Definition get_all (ek : list (str * str)) :=
      fix all (l : list (list scalar * tree)) : result (list gnode) :=
        match l with
        | [] => Ok []
        | (mk, e) :: more =>
            bind (keys_match env ko (g_partial o) (g_wild o) ek keys mk) (fun m =>
              if m then
                bind (entry_elem_keys env ko sfs keys mk (fields_of e)) (fun kk =>
                bind (rec s (Some e) prest (trav ++ [{| ename := ename e0; ekeys := kk |}])) (fun here =>
                bind (all more) (fun r => Ok (here ++ r))))
              else all more)
        end.

    Definition get_oall (ek : list (str * str)) :=
      fix all (l : list (list scalar * tree)) : result (list gnode) :=
        match l with
        | [] => Ok []
        | (mk, e) :: more =>
            bind (mapkey_strs env ko keys mk) (fun kk =>
            bind (keys_match env ko (g_partial o) (g_wild o) ek keys mk) (fun m =>
              if m then
                bind (rec s (Some e) prest (trav ++ [{| ename := ename e0; ekeys := kk |}])) (fun here =>
                bind (all more) (fun r => Ok (here ++ r)))
              else all more))
        end.
  End GetLoops.

  Definition get_list (o : get_opts) (f : nat) (s : schema) (keys : list str) (sfs : list (finfo * schema))
      (es : list (list scalar * tree)) (e0 : pelem) (prest trav : dpath) : result (list gnode) :=
    let ek := ekeys e0 in
    match keys with
    | [k] =>
        if (nil_b ek && g_partial o) || (g_wild o && is_star (get_key k ek)) then
          get_wild_all (get_rec env fo ko o f) s sfs keys e0 prest trav es
        else
          match al_find k ek with
          | None => if nil_b es then Ok [] else Err
          | Some pk => get_first (get_rec env fo ko o f) s sfs e0 prest trav k pk es
          end
    | _ => get_all o (get_rec env fo ko o f) s sfs keys e0 prest trav ek es
    end.

  Lemma get_rec_list o f ord keys mn mx sfs es e0 prest trav :
    get_rec env fo ko o (S f) (SList ord keys mn mx sfs) (Some (TList es)) (e0 :: prest) trav =
    if ord then
      bind (ordered_keys_parse env fo ko sfs keys (ekeys e0)) (fun _ =>
        get_oall o (get_rec env fo ko o f) (SList true keys mn mx sfs) keys e0 prest trav (ekeys e0) es)
    else get_list o f (SList false keys mn mx sfs) keys sfs es e0 prest trav.
  Proof. destruct ord; reflexivity. Qed.

  Definition get_struct (o : get_opts) (f : nat) (sfs : list (finfo * schema)) (fs : list (str * tree))
      (path trav : dpath) : result (list gnode) :=
    match find_field (g_shadow o) false path sfs with
    | FMPath fi ss p shadow_leaf =>
        let to := consumed ss p in
        let np := trav ++ firstn to path in
        if shadow_leaf then
          (if is_leafish ss then Ok [{| gn_path := np; gn_data := None |}] else Err)
        else get_rec env fo ko o f ss (field_get (f_go fi) fs) (skipn to path) np
    | _ => Err
    end.

  Lemma get_rec_cont o f sfs fs e0 prest trav :
    get_rec env fo ko o (S f) (SCont sfs) (Some (TCont fs)) (e0 :: prest) trav = get_struct o f sfs fs (e0 :: prest) trav.
  Proof. reflexivity. Qed.
  Lemma get_rec_entry o f ord keys mn mx sfs fs e0 prest trav :
    get_rec env fo ko o (S f) (SList ord keys mn mx sfs) (Some (TCont fs)) (e0 :: prest) trav = get_struct o f sfs fs (e0 :: prest) trav.
  Proof. destruct ord; reflexivity. Qed.

  (* ---------- set ---------- *)
  Section SetLoops.
    Variable o : set_opts.
    Variable tv : tval.
    Variable rec : schema -> option tree -> dpath -> option tree * result nat.   (* set_rec f *)
    Variable s : schema.
    Variable sfs : list (finfo * schema).
    Variable keys : list str.
    Variable ek : list (str * str).
    Variable prest : dpath.

    Definition set_insert_new (es : list (list scalar * tree)) : option tree * result nat :=
      if s_init o then
        match make_entry env fo ko sfs keys ek with
        | Ok (mk, nfs) =>
            if existsb nan_key mk then (Some (TList (tl_insert mk (TCont nfs) es)), Panic) else
            match tl_find mk es with
            | Some e_old =>
                let '(e', r) := rec s (Some e_old) prest in
                (Some (TList (match e' with Some e'' => tl_insert mk e'' es | None => es end)), r)
            | None =>
                let '(e', r) := rec s (Some (TCont nfs)) prest in
                (Some (TList (match e' with Some e'' => tl_insert mk e'' es | None => es end)), r)
            end
        | Err => (Some (TList es), Err)
        | Panic => (Some (TList es), Panic)
        end
      else (Some (TList es), Ok O).

    Definition set_first (cur : option tree) (es : list (list scalar * tree)) (k pk : str) :=
      fix first (l : list (list scalar * tree)) : option tree * result nat :=
        match l with
        | [] => set_insert_new es
        | (mk, e) :: more =>
            match single_key_str env ko sfs k mk (fields_of e) with
            | Ok ks =>
                if str_eqb ks pk then
                  let '(e', r) := rec s (Some e) prest in
                  (Some (TList (match e' with Some e'' => tl_insert mk e'' es | None => es end)), r)
                else first more
            | Err => (cur, Err)
            | Panic => (cur, Panic)
            end
        end.

    Definition set_all :=
      fix all (l : list (list scalar * tree)) (acc : list (list scalar * tree)) (n : nat) : option tree * result nat :=
        match l with
        | [] => if Nat.eqb n O then set_insert_new acc else (Some (TList acc), Ok n)
        | (mk, e) :: more =>
            match keys_match env ko false false ek keys mk with
            | Ok true =>
                let '(e', r) := rec s (Some e) prest in
                let acc' := match e' with Some e'' => tl_insert mk e'' acc | None => acc end in
                match r with
                | Ok m => all more acc' (n + m)%nat
                | _ => (Some (TList acc'), r)
                end
            | Ok false => all more acc n
            | Err => (Some (TList acc), Err)
            | Panic => (Some (TList acc), Panic)
            end
        end.

    Definition set_oall (nparsed : nat) :=
      fix all (l : list (list scalar * tree)) (acc : list (list scalar * tree)) (n : nat) : option tree * result nat :=
        match l with
        | [] =>
            if Nat.eqb n O && s_init o then
              if negb (Nat.eqb nparsed (length keys)) then (Some (TList acc), Err)
              else
                match make_ordered_entry env fo ko sfs keys ek with
                | Ok (mk, nfs) =>
                    match tl_find mk acc with
                    | Some _ => (Some (TList acc), Err)
                    | None =>
                        let '(e', r) := rec s (Some (TCont nfs)) prest in
                        (Some (TList (acc ++ [(mk, match e' with Some e'' => e'' | None => TCont nfs end)])), r)
                    end
                | Err => (Some (TList acc), Err)
                | Panic => (Some (TList acc), Panic)
                end
            else (Some (TList acc), Ok n)
        | (mk, e) :: more =>
            match bind (mapkey_strs env ko keys mk) (fun _ => keys_match env ko false false ek keys mk) with
            | Ok true =>
                let '(e', r) := rec s (Some e) prest in
                let acc' := match e' with Some e'' => ol_update mk e'' acc | None => acc end in
                match r with
                | Ok m => all more acc' (n + m)%nat
                | _ => (Some (TList acc'), r)
                end
            | Ok false => all more acc n
            | Err => (Some (TList acc), Err)
            | Panic => (Some (TList acc), Panic)
            end
        end.
  End SetLoops.

  Definition set_list (o : set_opts) (tv : tval) (f : nat) (s : schema) (keys : list str) (sfs : list (finfo * schema))
      (es : list (list scalar * tree)) (e0 : pelem) (prest : dpath) : option tree * result nat :=
    let ek := ekeys e0 in
    let rec := set_rec env fo ko o tv f in
    match keys with
    | [k] =>
        match al_find k ek with
        | None => if nil_b es then set_insert_new o rec s sfs keys ek prest es else (Some (TList es), Err)
        | Some pk => set_first o rec s sfs keys ek prest (Some (TList es)) es k pk es
        end
    | _ => set_all o rec s sfs keys ek prest es es O
    end.

  Lemma set_rec_list o tv f ord keys mn mx sfs es e0 prest :
    set_rec env fo ko o tv (S f) (SList ord keys mn mx sfs) (Some (TList es)) (e0 :: prest) =
    if ord then
      match ordered_keys_parse env fo ko sfs keys (ekeys e0) with
      | Ok nparsed => set_oall o (set_rec env fo ko o tv f) (SList true keys mn mx sfs) sfs keys (ekeys e0) prest nparsed es es O
      | Err => (Some (TList es), Err)
      | Panic => (Some (TList es), Panic)
      end
    else set_list o tv f (SList false keys mn mx sfs) keys sfs es e0 prest.
  Proof. destruct ord; reflexivity. Qed.

  Definition set_struct (o : set_opts) (tv : tval) (f : nat) (sfs : list (finfo * schema)) (fs : list (str * tree))
      (path : dpath) : option tree * result nat :=
    let cur := Some (TCont fs) in
    match find_field (s_shadow o) false path sfs with
    | FMPath fi ss p shadow_leaf =>
        let to := consumed ss p in
        if shadow_leaf then
          (cur, if is_leafish ss then Ok 1%nat else Err)
        else
          let c0 := field_get (f_go fi) fs in
          let c1 := if s_init o then init_field ss c0 else c0 in
          let rebuild (c : option tree) := Some (TCont (put_field (go_names sfs) (f_go fi) c fs)) in
          let '(c2, r2) :=
            if negb (tv_is_nil tv) && Nat.eqb (length path) to && is_leafish ss
            then set_leaf env fo ko o tv ss c1 else (c1, Ok tt) in
          match r2 with
          | Ok _ =>
              let '(c3, r3) := set_rec env fo ko o tv f ss c2 (skipn to path) in
              (rebuild c3, r3)
          | Err => (rebuild c2, Err)
          | Panic => (rebuild c2, Panic)
          end
    | FMOrdPartial _ => (cur, Err)
    | FMNone => (cur, if s_ignore_extra o then Ok O else Err)
    end.

  Lemma set_rec_cont o tv f sfs fs e0 prest :
    set_rec env fo ko o tv (S f) (SCont sfs) (Some (TCont fs)) (e0 :: prest) = set_struct o tv f sfs fs (e0 :: prest).
  Proof. reflexivity. Qed.
  Lemma set_rec_entry o tv f ord keys mn mx sfs fs e0 prest :
    set_rec env fo ko o tv (S f) (SList ord keys mn mx sfs) (Some (TCont fs)) (e0 :: prest) = set_struct o tv f sfs fs (e0 :: prest).
  Proof. destruct ord; reflexivity. Qed.

  (* ---------- delete ---------- *)
  Section DelLoops.
    Variable rec : schema -> option tree -> dpath -> option tree * result unit.   (* del_rec f *)
    Variable s : schema.
    Variable sfs : list (finfo * schema).
    Variable keys : list str.
    Variable ek : list (str * str).
    Variable prest : dpath.

    Definition del_first (cur : option tree) (es : list (list scalar * tree)) (k pk : str) :=
      fix first (l : list (list scalar * tree)) : option tree * result unit :=
        match l with
        | [] => (cur, Ok tt)
        | (mk, e) :: more =>
            match single_key_str env ko sfs k mk (fields_of e) with
            | Ok ks =>
                if str_eqb ks pk then
                  if nil_b prest then (Some (TList (tl_remove mk es)), Ok tt)
                  else
                    let '(e', r) := rec s (Some e) prest in
                    match r, e' with
                    | Ok _, Some e'' =>
                        (Some (TList (if Node.is_empty_cont e'' then tl_remove mk es else tl_insert mk e'' es)), r)
                    | _, Some e'' => (Some (TList (tl_insert mk e'' es)), r)
                    | _, None => (cur, r)
                    end
                else first more
            | Err => (cur, Err)
            | Panic => (cur, Panic)
            end
        end.

    Definition del_all :=
      fix all (l : list (list scalar * tree)) (acc : list (list scalar * tree)) : option tree * result unit :=
        match l with
        | [] => (Some (TList acc), Ok tt)
        | (mk, e) :: more =>
            match keys_match env ko false false ek keys mk with
            | Ok true =>
                match entry_elem_keys env ko sfs keys mk (fields_of e) with
                | Ok _ =>
                    if nil_b prest then (Some (TList (tl_remove mk acc)), Ok tt)
                    else
                      let '(e', r) := rec s (Some e) prest in
                      match r, e' with
                      | Ok _, Some e'' =>
                          all more (if Node.is_empty_cont e'' then tl_remove mk acc else tl_insert mk e'' acc)
                      | _, Some e'' => (Some (TList (tl_insert mk e'' acc)), r)
                      | _, None => (Some (TList acc), r)
                      end
                | Err => (Some (TList acc), Err)
                | Panic => (Some (TList acc), Panic)
                end
            | Ok false => all more acc
            | Err => (Some (TList acc), Err)
            | Panic => (Some (TList acc), Panic)
            end
        end.

    Definition del_oall :=
      fix all (l : list (list scalar * tree)) (acc : list (list scalar * tree)) : option tree * result unit :=
        match l with
        | [] => (Some (TList acc), Ok tt)
        | (mk, e) :: more =>
            match bind (mapkey_strs env ko keys mk) (fun _ => keys_match env ko false false ek keys mk) with
            | Ok true =>
                if nil_b prest then all more (tl_remove mk acc)
                else
                  let '(e', r) := rec s (Some e) prest in
                  match r, e' with
                  | Ok _, Some e'' =>
                      all more (if Node.is_empty_cont e'' then tl_remove mk acc else ol_update mk e'' acc)
                  | _, Some e'' => (Some (TList (ol_update mk e'' acc)), r)
                  | _, None => (Some (TList acc), r)
                  end
            | Ok false => all more acc
            | Err => (Some (TList acc), Err)
            | Panic => (Some (TList acc), Panic)
            end
        end.
  End DelLoops.

  Definition del_list (sh : bool) (f : nat) (s : schema) (keys : list str) (sfs : list (finfo * schema))
      (es : list (list scalar * tree)) (e0 : pelem) (prest : dpath) : option tree * result unit :=
    let ek := ekeys e0 in
    let cur := Some (TList es) in
    match keys with
    | [k] =>
        match al_find k ek with
        | None => if nil_b es then (cur, Ok tt) else (cur, Err)
        | Some pk => del_first (del_rec env fo ko sh f) s sfs prest cur es k pk es
        end
    | _ => del_all (del_rec env fo ko sh f) s sfs keys ek prest es es
    end.

  Lemma del_rec_list sh f ord keys mn mx sfs es e0 prest :
    del_rec env fo ko sh (S f) (SList ord keys mn mx sfs) (Some (TList es)) (e0 :: prest) =
    if ord then
      match ordered_keys_parse env fo ko sfs keys (ekeys e0) with
      | Ok _ => del_oall (del_rec env fo ko sh f) (SList true keys mn mx sfs) keys (ekeys e0) prest es es
      | Err => (Some (TList es), Err)
      | Panic => (Some (TList es), Panic)
      end
    else del_list sh f (SList false keys mn mx sfs) keys sfs es e0 prest.
  Proof. destruct ord; reflexivity. Qed.

  Definition del_struct (sh : bool) (f : nat) (sfs : list (finfo * schema)) (fs : list (str * tree))
      (path : dpath) : option tree * result unit :=
    let cur := Some (TCont fs) in
    match find_field sh true path sfs with
    | FMPath fi ss p shadow_leaf =>
        let to := consumed ss p in
        if shadow_leaf then (cur, if is_leafish ss then Ok tt else Err)
        else if Nat.eqb (length path) to then
          (Some (TCont (field_remove (f_go fi) fs)), Ok tt)
        else
          let '(c', r) := del_rec env fo ko sh f ss (field_get (f_go fi) fs) (skipn to path) in
          let c'' := match r with Ok _ => prune_child ss c' | _ => c' end in
          (Some (TCont (match c'' with
                        | Some x => field_set (go_names sfs) (f_go fi) x fs
                        | None => field_remove (f_go fi) fs end)), r)
    | FMOrdPartial fi => (Some (TCont (field_remove (f_go fi) fs)), Ok tt)
    | FMNone => (cur, Err)
    end.

  Lemma del_rec_cont sh f sfs fs e0 prest :
    del_rec env fo ko sh (S f) (SCont sfs) (Some (TCont fs)) (e0 :: prest) = del_struct sh f sfs fs (e0 :: prest).
  Proof. reflexivity. Qed.
  Lemma del_rec_entry sh f ord keys mn mx sfs fs e0 prest :
    del_rec env fo ko sh (S f) (SList ord keys mn mx sfs) (Some (TCont fs)) (e0 :: prest) = del_struct sh f sfs fs (e0 :: prest).
  Proof. destruct ord; reflexivity. Qed.
End Loops.

(* ====================================================================================== *)
(* 2. Structural addresses                                                                *)
(* ====================================================================================== *)

(* the subtree at a structural path (unkeyed lists cannot be traversed by the node functions) *)
Fixpoint sub_at (t : tree) (p : list step) {struct p} : option tree :=
  match p with
  | [] => Some t
  | StF n :: rest =>
      match t with
      | TCont fs => match field_get n fs with Some sub => sub_at sub rest | None => None end
      | _ => None
      end
  | StK k :: rest =>
      match t with
      | TList es => match tl_find k es with Some e => sub_at e rest | None => None end
      | _ => None
      end
  | StI _ :: _ => None
  end.
Definition osub_at (c : option tree) (p : list step) : option tree :=
  match c with Some t => sub_at t p | None => None end.

Definition sprefix (a b : list step) : Prop := exists c, b = a ++ c.

Section Addr.
  Variable env : enum_env.
  Variable fo : float_oracle.
  Variable ko : key_oracle.

  (* the key tuple named by the keys of a path element: every key of the list is present, is
     accepted by the decoder of the list kind (stringToKeyType for Go maps, StringToType for
     ordered maps) and is canonical: the decoded value prints as the same string *)
  Definition key_canon (v : scalar) (s : str) : bool :=
    match key_to_string env ko v with Ok s' => str_eqb s' s | _ => false end.
  Definition parse_key (ordered : bool) (t : ytype) (s : str) : result scalar :=
    if ordered then string_to_gotype env t s else string_to_key env fo ko t s.
  Fixpoint path_key (ordered : bool) (sfs : list (finfo * schema)) (keys : list str) (ek : list (str * str))
    : option (list scalar) :=
    match keys with
    | [] => Some []
    | k :: rest =>
        match al_find k ek, key_field sfs k with
        | Some s, Some (_, SLeaf t _) =>
            match parse_key ordered t s with
            | Ok v => if key_canon v s
                      then match path_key ordered sfs rest ek with Some r => Some (v :: r) | None => None end
                      else None
            | _ => None
            end
        | _, _ => None
        end
    end.

  (* would the node at this step be removed by DeleteNode when it becomes empty? *)
  Definition prunable (ss : schema) : bool :=
    match ss with SCont _ | SList false _ _ _ _ => true | _ => false end.

  (* is the struct field with this Go name a key leaf of the list whose entry schema is s? *)
  Definition is_key_field (s : schema) (g : str) : bool :=
    match s with
    | SList _ keys _ _ sfs =>
        existsb (fun k => match key_field sfs k with Some (fi, _) => str_eqb g (f_go fi) | None => false end) keys
    | _ => false
    end.

  (* the structural address of a gNMI path: (sp, fl, ss, kl) = the address, for every step whether
     DeleteNode prunes the node there when the deletion empties it, the schema of the node the
     path names, and whether that node is a key leaf of the list entry that contains it.  The
     descent is the one of del_rec (find_field with delete = true; for get and set the field
     match is the same, see find_field_del); inlist = the current node is a keyed list (the next
     element selects an entry).  Fuel as in Node.v. *)
  Fixpoint addr (fuel : nat) (inlist : bool) (s : schema) (p : dpath) {struct fuel}
    : option (list step * list bool * schema * bool) :=
    match fuel with
    | O => None
    | S f =>
        match p with
        | [] => if inlist then None else Some ([], [], s, false)
        | e0 :: prest =>
            if inlist then
              match s with
              | SList ord keys _ _ sfs =>
                  match path_key ord sfs keys (ekeys e0) with
                  | Some mk =>
                      match addr f false s prest with
                      | Some (sp, fl, ss, kl) => Some (StK mk :: sp, true :: fl, ss, kl)
                      | None => None
                      end
                  | None => None
                  end
              | _ => None
              end
            else
              match s with
              | SCont sfs | SList _ _ _ _ sfs =>
                  match find_field false true p sfs with
                  | FMPath fi ss alt false =>
                      match addr f (is_keyed_list ss) ss (skipn (consumed ss alt) p) with
                      | Some (sp, fl, ss', kl) =>
                          Some (StF (f_go fi) :: sp, prunable ss :: fl, ss',
                                match sp with [] => is_key_field s (f_go fi) | _ => kl end)
                      | None => None
                      end
                  | _ => None
                  end
              | _ => None
              end
        end
    end.

  Definition addr_of (s : schema) (p : dpath) : option (list step * list bool * schema * bool) :=
    addr (2 * length p + 2) false s p.
End Addr.

(* ====================================================================================== *)
(* 3. Guards                                                                              *)
(* ====================================================================================== *)

(* ---- schema ---- *)
Definition key_go (sfs : list (finfo * schema)) (k : str) : str :=
  match key_field sfs k with Some (fi, _) => f_go fi | None => [] end.
(* the three ways node.go / list.go / render.go find the key leaf of a list agree *)
Definition key_leaf_okb (sfs : list (finfo * schema)) (k : str) : bool :=
  match key_field sfs k, key_value_field sfs k, key_name_field sfs k with
  | Some (fi, SLeaf _ _), Some (fi2, _), Ok (fi3, _) =>
      str_eqb (f_go fi) (f_go fi2) && str_eqb (f_go fi) (f_go fi3)
  | _, _, _ => false
  end.
Definition list_keys_okb (keys : list str) (sfs : list (finfo * schema)) : bool :=
  negb (nil_b keys) && forallb (key_leaf_okb sfs) keys && nodupb (map (key_go sfs) keys).

Fixpoint swfb (s : schema) : bool :=
  match s with
  | SLeaf _ _ | SLeafList _ _ _ => true
  | SCont fs | SUnkeyed fs =>
      nodupb (go_names fs)
      && (fix go (l : list (finfo * schema)) : bool :=
            match l with [] => true | (_, ss) :: r => swfb ss && go r end) fs
  | SList _ keys _ _ fs =>
      nodupb (go_names fs) && list_keys_okb keys fs
      && (fix go (l : list (finfo * schema)) : bool :=
            match l with [] => true | (_, ss) :: r => swfb ss && go r end) fs
  end.

(* ---- trees ---- *)
Section TreeGuard.
  Variable env : enum_env.
  Variable fo : float_oracle.
  Variable ko : key_oracle.

  (* the map key of an entry: one value per key of the list, each read back from its own string
     (GnmiStatements.key_roundtrips) and equal to the key leaf of the entry *)
  Definition key_rt (t : ytype) (v : scalar) : bool :=
    match key_to_string env ko v with
    | Ok s => match string_to_key env fo ko t s with Ok v' => scalar_eqb v v' | _ => false end
    | _ => false
    end.
  Fixpoint keys_ok (sfs : list (finfo * schema)) (keys : list str) (mk : list scalar) (fs : list (str * tree)) : bool :=
    match keys, mk with
    | [], [] => true
    | k :: ks, v :: vs =>
        match key_field sfs k with
        | Some (fi, SLeaf t _) =>
            key_rt t v
            && match field_get (f_go fi) fs with Some (TLeaf v') => scalar_eqb v' v | _ => false end
            && keys_ok sfs ks vs fs
        | _ => false
        end
    | _, _ => false
    end.

  (* kind of a node against its schema; inlist as in addr *)
  Definition kind2 (s : schema) (t : tree) : bool :=
    match s, t with
    | SLeaf _ _, TLeaf _ | SLeafList _ _ _, TLeafList _ | SCont _, TCont _
    | SList _ _ _ _ _, TList _ | SUnkeyed _, TUnkeyed _ => true
    | _, _ => false
    end.

  Fixpoint nwfb (s : schema) (t : tree) {struct t} : bool :=
    match t with
    | TCont fs =>
        subseqb (map fst fs) (go_names (sfields s))
        && (fix go (l : list (str * tree)) : bool :=
              match l with
              | [] => true
              | (n, sub) :: r =>
                  match find (fun fs => str_eqb (f_go (fst fs)) n) (sfields s) with
                  | Some (_, ss) => kind2 ss sub && nwfb ss sub
                  | None => false
                  end && go r
              end) fs
    | TList es =>
        match s with
        | SList ord keys _ _ sfs =>
            keys_okb ord (map fst es)
            && (fix go (l : list (list scalar * tree)) : bool :=
                  match l with
                  | [] => true
                  | (mk, e) :: r =>
                      match e with TCont fs => keys_ok sfs keys mk fs | _ => false end
                      && nwfb s e && go r
                  end) es
        | _ => false
        end
    | _ => true
    end.

  (* the same as a proposition *)
  Fixpoint nwf (s : schema) (t : tree) {struct t} : Prop :=
    match t with
    | TCont fs =>
        subseq (map fst fs) (go_names (sfields s)) /\
        (fix go (l : list (str * tree)) : Prop :=
           match l with
           | [] => True
           | (n, sub) :: r =>
               (forall g sg, In (g, sg) (sfields s) -> f_go g = n -> kind2 sg sub = true /\ nwf sg sub) /\ go r
           end) fs
    | TList es =>
        match s with
        | SList ord keys _ _ sfs =>
            keys_okb ord (map fst es) = true /\
            (fix go (l : list (list scalar * tree)) : Prop :=
               match l with
               | [] => True
               | (mk, e) :: r =>
                   ((exists fs, e = TCont fs /\ keys_ok sfs keys mk fs = true) /\ nwf s e) /\ go r
               end) es
        | _ => False
        end
    | _ => True
    end.
End TreeGuard.

(* ====================================================================================== *)
(* 4. Lists of entries                                                                    *)
(* ====================================================================================== *)

Lemma keys_cmp_antisym : forall a b, keys_cmp a b = CompOpp (keys_cmp b a).
Proof.
  induction a as [|x a IH]; destruct b as [|y b]; simpl; auto.
  rewrite (str_cmp_antisym (scalar_sortkey x) (scalar_sortkey y)).
  destruct (str_cmp (scalar_sortkey y) (scalar_sortkey x)); simpl; auto.
Qed.

Lemma keys_cmp_lt_trans : forall a b c, keys_cmp a b = Lt -> keys_cmp b c = Lt -> keys_cmp a c = Lt.
Proof.
  induction a as [|x a IH]; destruct b as [|y b], c as [|z c]; simpl; try discriminate; auto.
  destruct (str_cmp (scalar_sortkey x) (scalar_sortkey y)) eqn:E1; try discriminate;
  destruct (str_cmp (scalar_sortkey y) (scalar_sortkey z)) eqn:E2; try discriminate; intros H1 H2.
  - apply str_cmp_eq in E1. apply str_cmp_eq in E2. rewrite E1, E2, str_cmp_refl. eauto.
  - apply str_cmp_eq in E1. rewrite E1, E2. reflexivity.
  - apply str_cmp_eq in E2. rewrite <- E2, E1. reflexivity.
  - now rewrite (str_cmp_lt_trans _ _ _ E1 E2).
Qed.

Lemma keys_cmp_lt_asym a b : keys_cmp a b = Lt -> keys_cmp b a <> Lt.
Proof. intros H H'. rewrite keys_cmp_antisym, H' in H. discriminate. Qed.

Lemma keys_eqb_sym a b : keys_eqb a b = keys_eqb b a.
Proof.
  destruct (keys_eqb a b) eqn:E.
  - apply keys_eqb_eq in E. subst. now rewrite keys_eqb_refl.
  - symmetry. apply keys_eqb_false. apply keys_eqb_false in E. congruence.
Qed.

(* keys_okb as a property of pairs *)
Definition kpair (o : bool) (k k' : list scalar) : Prop :=      (* k before k' *)
  k' <> k /\ (o = true \/ keys_cmp k' k <> Lt).
Lemma keys_okb_cons o k r :
  keys_okb o (k :: r) = true <-> (forall k', In k' r -> kpair o k k') /\ keys_okb o r = true.
Proof.
  simpl. rewrite andb_true_iff, forallb_forall. split; intros [H1 H2]; split; auto; intros k' Hin.
  - specialize (H1 k' Hin). apply andb_true_iff in H1 as [Ha Hb]. apply negb_true_iff, keys_eqb_false in Ha.
    split; auto. destruct o; auto. right. simpl in Hb. destruct (keys_cmp k' k); simpl in Hb; congruence.
  - destruct (H1 k' Hin) as [Ha Hb]. apply andb_true_iff. split.
    + apply negb_true_iff, keys_eqb_false. exact Ha.
    + destruct o; auto. simpl. destruct Hb as [|Hb]; [discriminate|]. destruct (keys_cmp k' k); auto; congruence.
Qed.

Lemma keys_okb_NoDup o ks : keys_okb o ks = true -> NoDup ks.
Proof.
  induction ks as [|k r IH]; [constructor|]. intros H. apply keys_okb_cons in H as [H1 H2].
  constructor; auto. intros Hin. destruct (H1 k Hin) as [Hne _]. congruence.
Qed.

Lemma tl_find_some_In k es e : tl_find k es = Some e -> In k (map fst es).
Proof. intros H. apply tl_find_In in H. apply (in_map fst _ _ H). Qed.

Lemma tl_find_not_In k es : ~ In k (map fst es) -> tl_find k es = None.
Proof.
  intros H. apply tl_find_none. intros k0 e0 Hin. apply keys_eqb_false. intros ->.
  apply H. apply (in_map fst _ _ Hin).
Qed.

Lemma tl_find_None_not_In k es : tl_find k es = None -> ~ In k (map fst es).
Proof.
  induction es as [|[k' e'] r IH]; simpl; auto. destruct (keys_eqb k k') eqn:E; [discriminate|].
  intros H [->|Hin]; [now rewrite keys_eqb_refl in E|]. now apply IH.
Qed.

Lemma In_tl_find o es k e : keys_okb o (map fst es) = true -> In (k, e) es -> tl_find k es = Some e.
Proof.
  induction es as [|[k' e'] r IH]; intros Hok []; simpl in *.
  - injection H as -> ->. now rewrite keys_eqb_refl.
  - apply keys_okb_cons in Hok as [H1 H2]. destruct (keys_eqb k k') eqn:E; [|eauto].
    apply keys_eqb_eq in E. subst k'. destruct (H1 k (in_map fst _ _ H)) as [Hne _]. congruence.
Qed.

(* --- tl_remove --- *)
Lemma tl_remove_In k x es : In x (tl_remove k es) -> In x es.
Proof.
  induction es as [|[k' e'] r IH]; simpl; auto. destruct (keys_eqb k k'); [now right|].
  intros [<-|H]; [now left | right; auto].
Qed.
Lemma tl_remove_keys_In k k0 es : In k0 (map fst (tl_remove k es)) -> In k0 (map fst es).
Proof.
  intros H. apply in_map_iff in H as ([k1 e1] & <- & H). apply tl_remove_In in H. apply (in_map fst _ _ H).
Qed.
Lemma tl_remove_okb o k es : keys_okb o (map fst es) = true -> keys_okb o (map fst (tl_remove k es)) = true.
Proof.
  induction es as [|[k' e'] r IH]; simpl; auto. intros H. change (keys_okb o (k' :: map fst r) = true) in H.
  apply keys_okb_cons in H as [H1 H2]. destruct (keys_eqb k k'); auto.
  change (keys_okb o (k' :: map fst (tl_remove k r)) = true). apply keys_okb_cons. split; auto.
  intros k0 Hin. apply H1. eapply tl_remove_keys_In; eauto.
Qed.
Lemma tl_find_remove_same o k es : keys_okb o (map fst es) = true -> tl_find k (tl_remove k es) = None.
Proof.
  induction es as [|[k' e'] r IH]; simpl; auto. intros H. change (keys_okb o (k' :: map fst r) = true) in H.
  apply keys_okb_cons in H as [H1 H2]. destruct (keys_eqb k k') eqn:E.
  - apply keys_eqb_eq in E. subst k'. apply tl_find_not_In. intros Hin. destruct (H1 k Hin). congruence.
  - simpl. rewrite E. auto.
Qed.
Lemma tl_find_remove_other k k0 es : k0 <> k -> tl_find k0 (tl_remove k es) = tl_find k0 es.
Proof.
  intros Hne. induction es as [|[k' e'] r IH]; simpl; auto. destruct (keys_eqb k k') eqn:E.
  - apply keys_eqb_eq in E. subst k'. apply keys_eqb_false in Hne. now rewrite Hne.
  - simpl. now rewrite IH.
Qed.
Lemma tl_remove_absent k es : tl_find k es = None -> tl_remove k es = es.
Proof.
  induction es as [|[k' e'] r IH]; simpl; auto. destruct (keys_eqb k k'); [discriminate|].
  intros H. now rewrite IH.
Qed.

(* --- tl_insert --- *)
Lemma tl_insert_keys_In k e k0 es : In k0 (map fst (tl_insert k e es)) -> k0 = k \/ In k0 (map fst es).
Proof.
  intros H. apply in_map_iff in H as ([k1 e1] & <- & H). apply tl_insert_In in H as [[= -> ->]|H]; auto.
  right. apply (in_map fst _ _ H).
Qed.
Lemma tl_insert_okb k e es : keys_okb false (map fst es) = true -> keys_okb false (map fst (tl_insert k e es)) = true.
Proof.
  induction es as [|[k' e'] r IH]; simpl; auto. intros H. change (keys_okb false (k' :: map fst r) = true) in H.
  pose proof H as H0. apply keys_okb_cons in H as [H1 H2]. destruct (keys_eqb k k') eqn:E.
  - apply keys_eqb_eq in E. subst k'. exact H0.
  - destruct (keys_cmp k k') eqn:C.
    + change (keys_okb false (k' :: map fst (tl_insert k e r)) = true). apply keys_okb_cons. split; auto.
      intros k0 Hin. apply tl_insert_keys_In in Hin as [->|Hin]; auto.
      split; [apply keys_eqb_false in E; congruence | right; congruence].
    + change (keys_okb false (k :: k' :: map fst r) = true). apply keys_okb_cons. split; auto.
      intros k0 [<-|Hin].
      * split; [apply keys_eqb_false in E; congruence | right; now apply keys_cmp_lt_asym].
      * destruct (H1 k0 Hin) as [Hne [|Hlt]]; [discriminate|]. split.
        -- intros ->. congruence.
        -- right. intros Hlt'. apply Hlt. eapply keys_cmp_lt_trans; eauto.
    + change (keys_okb false (k' :: map fst (tl_insert k e r)) = true). apply keys_okb_cons. split; auto.
      intros k0 Hin. apply tl_insert_keys_In in Hin as [->|Hin]; auto.
      split; [apply keys_eqb_false in E; congruence | right; congruence].
Qed.
Lemma tl_insert_present k e es : keys_okb false (map fst es) = true -> tl_find k es = Some e -> tl_insert k e es = es.
Proof.
  induction es as [|[k' e'] r IH]; simpl; [discriminate|]. intros H. change (keys_okb false (k' :: map fst r) = true) in H.
  apply keys_okb_cons in H as [H1 H2]. destruct (keys_eqb k k') eqn:E.
  - intros [= ->]. apply keys_eqb_eq in E. now subst.
  - intros Hf. destruct (H1 k (tl_find_some_In _ _ _ Hf)) as [_ [|Hlt]]; [discriminate|].
    destruct (keys_cmp k k'); try congruence; now rewrite IH.
Qed.

(* --- ol_update --- *)
Lemma ol_update_keys k e es : map fst (ol_update k e es) = map fst es.
Proof.
  induction es as [|[k' e'] r IH]; simpl; auto. destruct (keys_eqb k k') eqn:E; simpl; [|now rewrite IH].
  apply keys_eqb_eq in E. now subst.
Qed.
Lemma ol_update_In k e x es : In x (ol_update k e es) -> x = (k, e) \/ In x es.
Proof.
  induction es as [|[k' e'] r IH]; simpl; auto. destruct (keys_eqb k k').
  - intros [<-|H]; auto.
  - intros [<-|H]; auto. apply IH in H as [H|H]; auto.
Qed.
Lemma tl_find_update_same k e es : tl_find k es <> None -> tl_find k (ol_update k e es) = Some e.
Proof.
  induction es as [|[k' e'] r IH]; simpl; [congruence|]. destruct (keys_eqb k k') eqn:E; simpl.
  - now rewrite keys_eqb_refl.
  - rewrite E. auto.
Qed.
Lemma tl_find_update_other k k0 e es : k0 <> k -> tl_find k0 (ol_update k e es) = tl_find k0 es.
Proof.
  intros Hne. induction es as [|[k' e'] r IH]; simpl; auto. destruct (keys_eqb k k') eqn:E; simpl.
  - apply keys_eqb_eq in E. subst k'. apply keys_eqb_false in Hne. now rewrite Hne.
  - now rewrite IH.
Qed.
Lemma ol_update_present k e es : tl_find k es = Some e -> ol_update k e es = es.
Proof.
  induction es as [|[k' e'] r IH]; simpl; auto. destruct (keys_eqb k k') eqn:E.
  - intros [= ->]. apply keys_eqb_eq in E. now subst.
  - intros H. now rewrite IH.
Qed.
Lemma ol_update_absent k e es : tl_find k es = None -> ol_update k e es = es.
Proof.
  induction es as [|[k' e'] r IH]; simpl; auto. destruct (keys_eqb k k'); [discriminate|].
  intros H. now rewrite IH.
Qed.

(* --- append (ordered maps) --- *)
Lemma keys_okb_snoc ks k : keys_okb true ks = true -> ~ In k ks -> keys_okb true (ks ++ [k]) = true.
Proof.
  induction ks as [|k0 r IH]; intros H Hn; [reflexivity|].
  apply keys_okb_cons in H as [H1 H2]. simpl app. apply keys_okb_cons. split.
  - intros k' Hin. apply in_app_or in Hin as [Hin|[<-|[]]]; auto. split; auto.
    intros ->. apply Hn. now left.
  - apply IH; auto. intros Hin. apply Hn. now right.
Qed.
Lemma tl_find_app_new k k0 e es : tl_find k0 (es ++ [(k, e)]) = match tl_find k0 es with Some x => Some x | None => if keys_eqb k0 k then Some e else None end.
Proof. induction es as [|[k' e'] r IH]; simpl; auto. destruct (keys_eqb k0 k'); auto. Qed.
(* ====================================================================================== *)
(* 5. Fields of a struct                                                                  *)
(* ====================================================================================== *)

Lemma field_get_set_other order g v g' fs : g' <> g -> field_get g' (field_set order g v fs) = field_get g' fs.
Proof. intros H. rewrite !named_get, named_set_other; auto. Qed.
Lemma field_get_remove_other g g' fs : g' <> g -> field_get g' (field_remove g fs) = field_get g' fs.
Proof. intros H. rewrite !named_get, named_remove_other; auto. Qed.
Lemma field_remove_absent g fs : field_get g fs = None -> field_remove g fs = fs.
Proof.
  induction fs as [|[n t] r IH]; simpl; auto. destruct (str_eqb n g); [discriminate|]. intros H. now rewrite IH.
Qed.
Lemma field_get_some_In g fs t : field_get g fs = Some t -> In g (map fst fs).
Proof. intros H. apply field_get_In in H. apply (in_map fst _ _ H). Qed.
Lemma In_field_get g t fs : NoDup (map fst fs) -> In (g, t) fs -> field_get g fs = Some t.
Proof.
  induction fs as [|[n x] r IH]; intros Hd []; simpl in *; inversion Hd; subst.
  - injection H as -> ->. now rewrite cstr_eqb_refl.
  - destruct (str_eqb n g) eqn:E; auto. apply cstr_eqb_eq in E. subst n.
    exfalso. apply H2. apply (in_map fst _ _ H).
Qed.

(* setting a field to the value it has changes nothing (fields in struct order) *)
Lemma field_set_same g v : forall order fs,
  subseq (map fst fs) order -> NoDup order -> field_get g fs = Some v -> field_set order g v fs = fs.
Proof.
  induction order as [|o order IH]; intros fs Hs Hd Hg.
  - apply subseq_nil_r in Hs. destruct fs; [discriminate|discriminate].
  - simpl. destruct fs as [|[n t] r]; [discriminate|]. simpl in Hg, Hs.
    destruct (str_eqb o g) eqn:Eo.
    + apply cstr_eqb_eq in Eo. subst o. destruct (str_eqb n g) eqn:En.
      * apply cstr_eqb_eq in En. subst n. now injection Hg as ->.
      * exfalso. apply str_eqb_false_neq in En.
        destruct (subseq_cons_inv _ _ _ _ Hs Hd) as [[E _]|[_ Hs']]; [congruence|].
        inversion Hd; subst. apply H1. eapply subseq_In; [exact Hs'|]. right. eapply field_get_some_In; eauto.
    + inversion Hd; subst. destruct (subseq_cons_inv _ _ _ _ Hs Hd) as [[-> Hs']|[Hne Hs']].
      * rewrite cstr_eqb_refl. rewrite Eo in Hg. f_equal. apply IH; auto.
      * assert (E : str_eqb n o = false) by now apply str_eqb_false_neq. rewrite E. apply IH; auto.
Qed.


Lemma put_field_get_same order g c fs :
  subseq (map fst fs) order -> In g order -> NoDup order -> field_get g (put_field order g c fs) = c.
Proof.
  intros Hs Hi Hd. destruct c as [t|]; simpl.
  - now apply field_get_set_same.
  - apply field_get_remove_same. eapply subseq_NoDup; eauto.
Qed.
Lemma put_field_get_other order g c g' fs : g' <> g -> field_get g' (put_field order g c fs) = field_get g' fs.
Proof. intros H. destruct c; simpl; [now apply field_get_set_other | now apply field_get_remove_other]. Qed.
Lemma put_field_subseq order g c fs :
  subseq (map fst fs) order -> In g order -> NoDup order -> subseq (map fst (put_field order g c fs)) order.
Proof.
  intros Hs Hi Hd. destruct c; simpl; [now apply field_set_subseq|].
  eapply subseq_trans; [apply field_remove_subseq | exact Hs].
Qed.
Lemma put_field_In order g c x fs : In x (put_field order g c fs) -> (exists t, c = Some t /\ x = (g, t)) \/ In x fs.
Proof.
  destruct c as [t|]; simpl; intros H.
  - apply field_set_In in H as [->|H]; eauto.
  - right. eapply field_remove_In; eauto.
Qed.
Lemma put_field_same order g fs :
  subseq (map fst fs) order -> NoDup order -> put_field order g (field_get g fs) fs = fs.
Proof.
  intros Hs Hd. destruct (field_get g fs) eqn:E; simpl; [now apply field_set_same | now apply field_remove_absent].
Qed.

(* ====================================================================================== *)
(* 6. The guards as propositions                                                          *)
(* ====================================================================================== *)

Lemma swfb_fields s : swfb s = true ->
  NoDup (go_names (sfields s)) /\ forall fi ss, In (fi, ss) (sfields s) -> swfb ss = true.
Proof.
  assert (G : forall l, (fix go (l : list (finfo * schema)) : bool :=
                           match l with [] => true | (_, ss) :: r => swfb ss && go r end) l = true ->
                        forall fi ss, In (fi, ss) l -> swfb ss = true).
  { induction l as [|[f0 s0] r IH]; intros H fi ss []; apply andb_true_iff in H as [Ha Hb].
    - now injection H0 as -> ->.
    - eauto. }
  destruct s; simpl; intros H; try (split; [constructor | intros ? ? []]).
  - apply andb_true_iff in H as [Ha Hb]. split; [now apply nodupb_NoDup | now apply G].
  - apply andb_true_iff in H as [Ha Hb]. apply andb_true_iff in Ha as [Ha Hc].
    split; [now apply nodupb_NoDup | now apply G].
  - apply andb_true_iff in H as [Ha Hb]. split; [now apply nodupb_NoDup | now apply G].
Qed.
Lemma swfb_list_keys ord keys mn mx sfs : swfb (SList ord keys mn mx sfs) = true -> list_keys_okb keys sfs = true.
Proof. simpl. intros H. apply andb_true_iff in H as [Ha _]. now apply andb_true_iff in Ha as [_ Ha]. Qed.

Section Guards.
  Variable env : enum_env.
  Variable fo : float_oracle.
  Variable ko : key_oracle.
  Notation nwf := (nwf env fo ko).
  Notation nwfb := (nwfb env fo ko).
  Notation keys_ok := (keys_ok env fo ko).

  Definition nfields (sfs : list (finfo * schema)) (fs : list (str * tree)) : Prop :=
    subseq (map fst fs) (go_names sfs)
    /\ forall n sub, In (n, sub) fs -> forall g sg, In (g, sg) sfs -> f_go g = n -> kind2 sg sub = true /\ nwf sg sub.

  Lemma nwf_cont s fs : nwf s (TCont fs) <-> nfields (sfields s) fs.
  Proof.
    unfold nfields. cbn [NodeFrameProofs.nwf]. split; intros [H1 H2]; split; auto.
    - clear H1. induction fs as [|[n0 s0] r IH]; intros n sub []; destruct H2 as [Ha Hb].
      + injection H as -> ->. exact Ha.
      + apply IH; auto.
    - clear H1. induction fs as [|[n0 s0] r IH]; [exact I|]. split.
      + apply (H2 n0 s0). now left.
      + apply IH. intros n sub Hin. apply (H2 n sub). now right.
  Qed.

  Definition nentries (s : schema) (ord : bool) (keys : list str) (sfs : list (finfo * schema))
      (es : list (list scalar * tree)) : Prop :=
    keys_okb ord (map fst es) = true
    /\ forall mk e, In (mk, e) es -> (exists fs, e = TCont fs /\ keys_ok sfs keys mk fs = true) /\ nwf s e.

  Lemma nwf_list ord keys mn mx sfs es :
    nwf (SList ord keys mn mx sfs) (TList es) <-> nentries (SList ord keys mn mx sfs) ord keys sfs es.
  Proof.
    unfold nentries. cbn [NodeFrameProofs.nwf]. split; intros [H1 H2]; split; auto.
    - clear H1. induction es as [|[k0 e0] r IH]; intros mk e []; destruct H2 as [Ha Hb].
      + injection H as -> ->. exact Ha.
      + apply IH; auto.
    - clear H1. induction es as [|[k0 e0] r IH]; [exact I|]. split.
      + apply (H2 k0 e0). now left.
      + apply IH. intros mk e Hin. apply (H2 mk e). now right.
  Qed.

  Lemma nwf_list_inv s es : nwf s (TList es) ->
    exists ord keys mn mx sfs, s = SList ord keys mn mx sfs.
  Proof. destruct s; cbn [NodeFrameProofs.nwf]; try contradiction. eauto 10. Qed.

  Lemma nwfb_sound : forall t s, swfb s = true -> nwfb s t = true -> nwf s t.
  Proof.
    induction t using tree_ind2; intros s Hw Hb; try exact I.
    - apply nwf_cont. destruct (swfb_fields s Hw) as [Hnd Hsub].
      cbn [NodeFrameProofs.nwfb] in Hb. apply andb_true_iff in Hb as [Ho Hh]. split; [now apply subseqb_sound|].
      clear Ho. induction H as [|[n0 s0] r Hx HP IH]; intros n sub []; apply andb_true_iff in Hh as [Ha Hb].
      + injection H as -> ->. intros g sg Hg <-.
        rewrite (find_go_unique _ _ _ Hnd Hg) in Ha. simpl in Hx. apply andb_true_iff in Ha as [Hk Hn]. split; auto. apply Hx; eauto.
      + eauto.
    - destruct s; cbn [NodeFrameProofs.nwfb] in Hb; try discriminate. apply nwf_list.
      apply andb_true_iff in Hb as [Ho Hh]. split; auto. clear Ho.
      induction H as [|[k0 e0] r Hx HP IH]; intros mk e []; apply andb_true_iff in Hh as [Ha Hb].
      + injection H as -> ->. apply andb_true_iff in Ha as [Ha Hc]. simpl in Hx. split; auto.
        destruct e; try discriminate. eauto.
      + eauto.
  Qed.
End Guards.
(* ====================================================================================== *)
(* 7. List keys                                                                           *)
(* ====================================================================================== *)

Lemma key_name_field_In : forall sfs k fi ss, key_name_field sfs k = Ok (fi, ss) -> In (fi, ss) sfs.
Proof.
  induction sfs as [|[f0 s0] r IH]; simpl; intros k fi ss H; [discriminate|].
  destruct (rel_schema_path f0) as [|a [|b [|c l]]]; try discriminate.
  - destruct (str_eqb a k); [injection H as <- <-; now left | right; eauto].
  - destruct (str_eqb b k); [injection H as <- <-; now left | right; eauto].
Qed.

Lemma key_field_In sfs k fi ss : key_field sfs k = Some (fi, ss) -> In (fi, ss) sfs.
Proof. unfold key_field. intros H. now apply find_some in H as [H _]. Qed.
Lemma key_value_field_In sfs k fi ss : key_value_field sfs k = Some (fi, ss) -> In (fi, ss) sfs.
Proof. unfold key_value_field. intros H. now apply find_some in H as [H _]. Qed.

Lemma key_leaf_ok_inv sfs k : NoDup (go_names sfs) -> key_leaf_okb sfs k = true ->
  exists fi t d, key_field sfs k = Some (fi, SLeaf t d) /\ key_value_field sfs k = Some (fi, SLeaf t d)
                 /\ key_name_field sfs k = Ok (fi, SLeaf t d) /\ In (fi, SLeaf t d) sfs /\ key_go sfs k = f_go fi.
Proof.
  intros Hnd H. unfold key_leaf_okb in H. unfold key_go.
  destruct (key_field sfs k) as [[fi [t d| | | |]]|] eqn:E1; try discriminate.
  destruct (key_value_field sfs k) as [[fi2 s2]|] eqn:E2; try discriminate.
  destruct (key_name_field sfs k) as [[fi3 s3]| |] eqn:E3; try discriminate.
  apply andb_true_iff in H as [Ha Hb]. apply cstr_eqb_eq in Ha, Hb.
  pose proof (key_field_In _ _ _ _ E1) as I1. pose proof (key_value_field_In _ _ _ _ E2) as I2.
  pose proof (key_name_field_In _ _ _ _ E3) as I3.
  pose proof (go_name_unique sfs Hnd _ _ _ _ I1 I2 Ha) as [= <- <-].
  pose proof (go_name_unique sfs Hnd _ _ _ _ I1 I3 Hb) as [= <- <-].
  exists fi, t, d. auto.
Qed.

Lemma list_keys_ok_inv keys sfs : list_keys_okb keys sfs = true ->
  keys <> [] /\ (forall k, In k keys -> key_leaf_okb sfs k = true) /\ NoDup (map (key_go sfs) keys).
Proof.
  unfold list_keys_okb. intros H. apply andb_true_iff in H as [H H3]. apply andb_true_iff in H as [H1 H2].
  split; [destruct keys; [discriminate|congruence]|]. split; [now apply forallb_forall | now apply nodupb_NoDup].
Qed.

(* StringToType agrees with stringToKeyType where it succeeds *)
Lemma gotype_kind_agree fo k s v : gotype_of_kind k s = Ok v -> key_of_kind fo k s = Ok v.
Proof. destruct k; simpl; auto; discriminate. Qed.

Lemma gotype_key_agree env fo ko : forall t s v, string_to_gotype env t s = Ok v -> string_to_key env fo ko t s = Ok v.
Proof.
  induction t; intros s v H; unfold string_to_gotype in H; cbn [resolve_lref] in H; cbn [string_to_key];
    try (cbn [kind_of_type] in *; now apply gotype_kind_agree); auto.
  - (* union *)
    destruct (enum_types (YUnion ms)); [|discriminate].
    destruct (dedup_kinds (union_kinds (YUnion ms)) []) as [|k [|]]; try discriminate. now apply gotype_kind_agree.
Qed.

Section Keys.
  Variable env : enum_env.
  Variable fo : float_oracle.
  Variable ko : key_oracle.
  Notation keys_ok := (keys_ok env fo ko).
  Notation key_rt := (key_rt env fo ko).
  Notation path_key := (path_key env fo ko).
  Notation parse_key := (parse_key env fo ko).

  Lemma parse_key_agree ord t s v : parse_key ord t s = Ok v -> string_to_key env fo ko t s = Ok v.
  Proof. destruct ord; simpl; auto. apply gotype_key_agree. Qed.

  Lemma key_rt_str t v : key_rt t v = true -> exists s, key_to_string env ko v = Ok s /\ string_to_key env fo ko t s = Ok v.
  Proof.
    unfold NodeFrameProofs.key_rt. destruct (key_to_string env ko v) as [s| |]; try discriminate.
    destruct (string_to_key env fo ko t s) as [v'| |] eqn:E; try discriminate. intros H.
    apply scalar_eqb_eq in H. subst v'. eauto.
  Qed.

  (* a parsed canonical key satisfies key_rt *)
  Lemma parsed_key_rt ord t s v : parse_key ord t s = Ok v -> key_canon env ko v s = true -> key_rt t v = true.
  Proof.
    intros Hp Hc. unfold key_canon in Hc. unfold NodeFrameProofs.key_rt.
    destruct (key_to_string env ko v) as [s'| |]; try discriminate. apply cstr_eqb_eq in Hc. subst s'.
    rewrite (parse_key_agree _ _ _ _ Hp). apply scalar_eqb_refl.
  Qed.

  (* the central fact: an entry matches the keys of a path element iff its map key is the parsed tuple *)
  Lemma key_str_match ord t s pv v sv :
    parse_key ord t s = Ok pv -> key_canon env ko pv s = true ->
    key_rt t v = true -> key_to_string env ko v = Ok sv ->
    str_eqb s sv = scalar_eqb pv v.
  Proof.
    intros Hp Hc Hrt Hs. destruct (key_rt_str _ _ Hrt) as (s' & Hs' & Hk). rewrite Hs in Hs'. injection Hs' as <-.
    destruct (str_eqb s sv) eqn:E.
    - apply cstr_eqb_eq in E. subst sv. rewrite (parse_key_agree _ _ _ _ Hp) in Hk. injection Hk as ->.
      symmetry. apply scalar_eqb_refl.
    - destruct (scalar_eqb pv v) eqn:E2; auto. apply scalar_eqb_eq in E2. subst pv.
      unfold key_canon in Hc. rewrite Hs in Hc. rewrite str_eqb_false_neq in E. apply cstr_eqb_eq in Hc. congruence.
  Qed.

  Lemma keys_match_eq partial ord sfs ek : forall keys pk mk fs,
    path_key ord sfs keys ek = Some pk -> keys_ok sfs keys mk fs = true ->
    keys_match env ko partial false ek keys mk = Ok (keys_eqb pk mk).
  Proof.
    induction keys as [|k ks IH]; intros pk mk fs Hp Hk.
    - simpl in *. injection Hp as <-. destruct mk; [reflexivity|discriminate].
    - destruct mk as [|v vs]; [discriminate|]. cbn [NodeFrameProofs.path_key] in Hp. cbn [NodeFrameProofs.keys_ok] in Hk.
      cbn [keys_match].
      destruct (al_find k ek) as [s|]; [|discriminate].
      destruct (key_field sfs k) as [[fi [t d| | | |]]|]; try discriminate.
      destruct (parse_key ord t s) as [pv| |] eqn:Epv; try discriminate.
      destruct (key_canon env ko pv s) eqn:Ec; [|discriminate].
      destruct (path_key ord sfs ks ek) as [r|] eqn:Er; [|discriminate]. injection Hp as <-.
      apply andb_true_iff in Hk as [Hk Hk3]. apply andb_true_iff in Hk as [Hk1 Hk2].
      destruct (key_rt_str _ _ Hk1) as (sv & Hsv & _). rewrite Hsv. cbn [bind andb orb].
      rewrite (key_str_match _ _ _ _ _ _ Epv Ec Hk1 Hsv).
      unfold keys_eqb. cbn [list_eqb]. destruct (scalar_eqb pv v); [|reflexivity].
      cbn [andb]. eapply IH; eauto.
  Qed.

  Lemma mapkey_strs_ok sfs : forall keys mk fs, keys_ok sfs keys mk fs = true ->
    exists kk, mapkey_strs env ko keys mk = Ok kk.
  Proof.
    induction keys as [|k ks IH]; intros mk fs Hk; [simpl; eauto|].
    destruct mk as [|v vs]; [discriminate|]. cbn [NodeFrameProofs.keys_ok] in Hk.
    destruct (key_field sfs k) as [[fi [t d| | | |]]|]; try discriminate.
    apply andb_true_iff in Hk as [Hk Hk3]. apply andb_true_iff in Hk as [Hk1 Hk2].
    destruct (key_rt_str _ _ Hk1) as (sv & Hsv & _). destruct (IH _ _ Hk3) as (kk & Hkk).
    cbn [mapkey_strs]. rewrite Hsv, Hkk. simpl. eauto.
  Qed.

  Lemma entry_elem_keys_ok sfs keys mk fs : keys_ok sfs keys mk fs = true ->
    exists kk, entry_elem_keys env ko sfs keys mk fs = Ok kk.
  Proof.
    intros Hk. unfold entry_elem_keys. destruct (entry_key_strs env ko sfs keys fs); eauto using mapkey_strs_ok.
  Qed.

  Lemma keys_ok_length sfs : forall keys mk fs, keys_ok sfs keys mk fs = true -> length mk = length keys.
  Proof.
    induction keys as [|k ks IH]; intros [|v vs] fs Hk; try discriminate; auto.
    cbn [NodeFrameProofs.keys_ok] in Hk. destruct (key_field sfs k) as [[fi [t d| | | |]]|]; try discriminate.
    apply andb_true_iff in Hk as [_ Hk3]. simpl. f_equal. eauto.
  Qed.

  (* single-key lists compare the key leaf of the entry *)
  Lemma single_key_str_eq sfs k mk fs pk ord ek :
    NoDup (go_names sfs) -> key_leaf_okb sfs k = true ->
    keys_ok sfs [k] mk fs = true -> path_key ord sfs [k] ek = Some pk ->
    exists s sv, al_find k ek = Some s /\ single_key_str env ko sfs k mk fs = Ok sv /\ str_eqb sv s = keys_eqb pk mk.
  Proof.
    intros Hnd Hkl Hk Hp. destruct (key_leaf_ok_inv _ _ Hnd Hkl) as (fi & t & d & E1 & E2 & E3 & Hin & _).
    destruct mk as [|v [|]]; try discriminate; cbn [NodeFrameProofs.keys_ok] in Hk; rewrite E1 in Hk;
      [|apply andb_true_iff in Hk as [_ Hk]; discriminate].
    apply andb_true_iff in Hk as [Hk _]. apply andb_true_iff in Hk as [Hk1 Hk2].
    cbn [NodeFrameProofs.path_key] in Hp. rewrite E1 in Hp.
    destruct (al_find k ek) as [s|]; [|discriminate].
    destruct (parse_key ord t s) as [pv| |] eqn:Epv; try discriminate.
    destruct (key_canon env ko pv s) eqn:Ec; [|discriminate]. injection Hp as <-.
    destruct (key_rt_str _ _ Hk1) as (sv & Hsv & _).
    exists s, sv. split; auto. unfold single_key_str. rewrite E2.
    destruct (field_get (f_go fi) fs) as [[v'| | | |]|]; try discriminate.
    apply scalar_eqb_eq in Hk2. subst v'. split; auto.
    unfold keys_eqb. cbn [list_eqb]. rewrite andb_true_r.
    rewrite <- (key_str_match _ _ _ _ _ _ Epv Ec Hk1 Hsv).
    destruct (str_eqb sv s) eqn:E.
    - apply cstr_eqb_eq in E. subst. symmetry. apply cstr_eqb_refl.
    - symmetry. apply str_eqb_false_neq. apply str_eqb_false_neq in E. congruence.
  Qed.

  Lemma ordered_keys_parse_ok sfs ek : forall keys pk, path_key true sfs keys ek = Some pk ->
    ordered_keys_parse env fo ko sfs keys ek = Ok (length keys).
  Proof.
    induction keys as [|k ks IH]; intros pk Hp; [reflexivity|].
    cbn [NodeFrameProofs.path_key] in Hp. cbn [ordered_keys_parse].
    destruct (al_find k ek) as [s|]; [|discriminate].
    destruct (key_field sfs k) as [[fi [t d| | | |]]|]; try discriminate.
    unfold NodeFrameProofs.parse_key in Hp.
    destruct (string_to_gotype env t s) as [pv| |] eqn:Eg; try discriminate.
    rewrite (gotype_key_agree env fo ko _ _ _ Eg).
    destruct (key_canon env ko pv s); [|discriminate].
    destruct (path_key true sfs ks ek) as [r|] eqn:Er; [|discriminate].
    cbn [bind]. rewrite (IH _ eq_refl). reflexivity.
  Qed.

  Lemma path_key_length ord sfs ek : forall keys pk, path_key ord sfs keys ek = Some pk -> length pk = length keys.
  Proof.
    induction keys as [|k ks IH]; intros pk Hp; simpl in Hp; [injection Hp as <-; reflexivity|].
    destruct (al_find k ek) as [s|]; [|discriminate].
    destruct (key_field sfs k) as [[fi [t d| | | |]]|]; try discriminate.
    destruct (parse_key ord t s) as [pv| |]; try discriminate.
    destruct (key_canon env ko pv s); [|discriminate].
    destruct (path_key ord sfs ks ek) as [r|] eqn:Er; [|discriminate]. injection Hp as <-. simpl. f_equal. eauto.
  Qed.

  (* ---- new entries ---- *)

  Lemma keys_ok_set_other sfs order g x : forall ks vs fs,
    keys_ok sfs ks vs fs = true -> ~ In g (map (key_go sfs) ks) ->
    keys_ok sfs ks vs (field_set order g x fs) = true.
  Proof.
    induction ks as [|k ks IH]; intros [|v vs] fs Hk Hn; try discriminate; auto.
    cbn [NodeFrameProofs.keys_ok] in *. unfold key_go in Hn. simpl in Hn.
    destruct (key_field sfs k) as [[fi [t d| | | |]]|] eqn:E; try discriminate.
    apply andb_true_iff in Hk as [Hk Hk3]. apply andb_true_iff in Hk as [Hk1 Hk2].
    rewrite Hk1. rewrite field_get_set_other by (intros E'; apply Hn; now left). rewrite Hk2.
    simpl. apply IH; auto.
  Qed.

  (* what make_entry / make_ordered_entry build: the parsed key tuple and a struct holding
     exactly the key leaves *)
  Definition key_struct (sfs : list (finfo * schema)) (keys : list str) (pk : list scalar) (nfs : list (str * tree)) : Prop :=
    subseq (map fst nfs) (go_names sfs)
    /\ keys_ok sfs keys pk nfs = true
    /\ (forall n sub, In (n, sub) nfs -> In n (map (key_go sfs) keys) /\ exists v, sub = TLeaf v /\ In v pk).

  Lemma key_struct_step sfs k ks fi t d v pk nfs :
    NoDup (go_names sfs) -> In (fi, SLeaf t d) sfs -> key_field sfs k = Some (fi, SLeaf t d) ->
    NoDup (map (key_go sfs) (k :: ks)) -> key_rt t v = true ->
    key_struct sfs ks pk nfs ->
    key_struct sfs (k :: ks) (v :: pk) (field_set (go_names sfs) (f_go fi) (TLeaf v) nfs).
  Proof.
    intros Hnd Hin E1 Hkd Hrt (Hs & Hk & Hall).
    assert (Hgo : key_go sfs k = f_go fi) by (unfold key_go; now rewrite E1).
    assert (Hino : In (f_go fi) (go_names sfs)) by apply (in_map (fun fs => f_go (fst fs)) _ _ Hin).
    inversion Hkd; subst. split; [|split].
    - apply field_set_subseq; auto.
    - cbn [NodeFrameProofs.keys_ok]. rewrite E1, Hrt, field_get_set_same, scalar_eqb_refl; auto. simpl.
      apply keys_ok_set_other; auto. now rewrite <- Hgo.
    - intros n sub Hi. apply field_set_In in Hi as [[= -> ->]|Hi].
      + split; [left; auto | exists v; split; auto; now left].
      + destruct (Hall _ _ Hi) as (Ha & v' & -> & Hv). split; [now right | exists v'; split; auto; now right].
  Qed.

  Lemma make_entry_ok sfs ek : NoDup (go_names sfs) -> forall keys pk,
    (forall k, In k keys -> key_leaf_okb sfs k = true) -> NoDup (map (key_go sfs) keys) ->
    path_key false sfs keys ek = Some pk ->
    exists nfs, make_entry env fo ko sfs keys ek = Ok (pk, nfs) /\ key_struct sfs keys pk nfs.
  Proof.
    intros Hnd. induction keys as [|k ks IH]; intros pk Hkl Hkd Hp.
    - simpl in Hp. injection Hp as <-. exists []. split; [reflexivity|]. split; [apply ss_nil|split; [reflexivity | intros ? ? []]].
    - destruct (key_leaf_ok_inv _ _ Hnd (Hkl k (or_introl eq_refl))) as (fi & t & d & E1 & E2 & E3 & Hin & Hgo).
      cbn [NodeFrameProofs.path_key] in Hp. rewrite E1 in Hp. cbn [make_entry].
      destruct (al_find k ek) as [s|]; [|discriminate].
      destruct (parse_key false t s) as [pv| |] eqn:Epv; try discriminate.
      destruct (key_canon env ko pv s) eqn:Ec; [|discriminate].
      destruct (path_key false sfs ks ek) as [r|] eqn:Er; [|discriminate]. injection Hp as <-.
      inversion Hkd; subst.
      destruct (IH r (fun k0 H => Hkl k0 (or_intror H)) H2 eq_refl) as (nfs & Hm & Hks).
      rewrite E3. cbn [bind snd fst]. simpl in Epv. rewrite Epv. cbn [bind]. rewrite Hm. cbn [bind fst snd].
      eexists. split; [reflexivity|].
      exact (key_struct_step sfs k ks fi t d pv r nfs Hnd Hin E1 Hkd (parsed_key_rt false _ _ _ Epv Ec) Hks).
  Qed.

  Lemma make_ordered_entry_ok sfs ek : NoDup (go_names sfs) -> forall keys pk,
    (forall k, In k keys -> key_leaf_okb sfs k = true) -> NoDup (map (key_go sfs) keys) ->
    path_key true sfs keys ek = Some pk ->
    exists nfs, make_ordered_entry env fo ko sfs keys ek = Ok (pk, nfs) /\ key_struct sfs keys pk nfs.
  Proof.
    intros Hnd. induction keys as [|k ks IH]; intros pk Hkl Hkd Hp.
    - simpl in Hp. injection Hp as <-. exists []. split; [reflexivity|]. split; [apply ss_nil|split; [reflexivity | intros ? ? []]].
    - destruct (key_leaf_ok_inv _ _ Hnd (Hkl k (or_introl eq_refl))) as (fi & t & d & E1 & E2 & E3 & Hin & Hgo).
      cbn [NodeFrameProofs.path_key] in Hp. rewrite E1 in Hp. cbn [make_ordered_entry].
      destruct (al_find k ek) as [s|]; [|discriminate]. rewrite E1.
      destruct (parse_key true t s) as [pv| |] eqn:Epv; try discriminate.
      destruct (key_canon env ko pv s) eqn:Ec; [|discriminate].
      destruct (path_key true sfs ks ek) as [r|] eqn:Er; [|discriminate]. injection Hp as <-.
      inversion Hkd; subst.
      destruct (IH r (fun k0 H => Hkl k0 (or_intror H)) H2 eq_refl) as (nfs & Hm & Hks).
      simpl in Epv. rewrite (gotype_key_agree env fo ko _ _ _ Epv). cbn [bind]. rewrite Hm. cbn [bind fst snd].
      eexists. split; [reflexivity|].
      exact (key_struct_step sfs k ks fi t d pv r nfs Hnd Hin E1 Hkd (parsed_key_rt true _ _ _ Epv Ec) Hks).
  Qed.

  (* a key struct is a well-formed entry *)
  Lemma key_struct_nfields sfs keys pk nfs :
    NoDup (go_names sfs) -> (forall k, In k keys -> key_leaf_okb sfs k = true) ->
    key_struct sfs keys pk nfs -> nfields env fo ko sfs nfs.
  Proof.
    intros Hnd Hkl (Hs & Hk & Hall). split; auto. intros n sub Hi g sg Hg Hn.
    destruct (Hall _ _ Hi) as (Hkn & v & -> & _). apply in_map_iff in Hkn as (k & Hgo & Hk').
    destruct (key_leaf_ok_inv _ _ Hnd (Hkl k Hk')) as (fi & t & d & E1 & E2 & E3 & Hin & Hgo').
    assert (E : f_go g = f_go fi) by congruence.
    pose proof (go_name_unique sfs Hnd _ _ _ _ Hg Hin E) as [= -> ->]. split; [reflexivity | exact I].
  Qed.
End Keys.
(* ====================================================================================== *)
(* 8. Field matching and addresses                                                        *)
(* ====================================================================================== *)

(* a field match of the delete variant is the field match of get / set *)
Lemma try_paths_del path fi ss : forall ps sl ok m,
  try_paths true path fi ss ps sl ok = Some m -> (forall g, m <> FMOrdPartial g) ->
  try_paths false path fi ss ps sl ok = Some m.
Proof.
  induction ps as [|p rest IH]; intros sl ok m H Hm; simpl in *; [discriminate|].
  destruct (path_matches_prefix path p); auto. rewrite andb_false_r.
  destruct (ok && path_partially_matches path p && is_ordered_list ss && true); auto.
  injection H as <-. now destruct (Hm fi).
Qed.
Lemma try_paths_del_none path fi ss : forall ps sl ok,
  try_paths true path fi ss ps sl ok = None -> try_paths false path fi ss ps sl ok = None.
Proof.
  induction ps as [|p rest IH]; intros sl ok H; simpl in *; auto.
  destruct (path_matches_prefix path p); [discriminate|]. rewrite andb_false_r.
  destruct (ok && path_partially_matches path p && is_ordered_list ss && true); [discriminate|]. auto.
Qed.
Lemma try_paths_shape del path fi ss : forall ps sl ok m,
  try_paths del path fi ss ps sl ok = Some m ->
  (exists alt, m = FMPath fi ss alt sl /\ path_matches_prefix path alt = true) \/ m = FMOrdPartial fi.
Proof.
  induction ps as [|p rest IH]; intros sl ok m H; simpl in *; [discriminate|].
  destruct (path_matches_prefix path p) eqn:E; [injection H as <-; left; eauto|].
  destruct (ok && path_partially_matches path p && is_ordered_list ss && del); [injection H as <-; auto|eauto].
Qed.

Lemma find_field_del path : forall sfs fi ss alt b,
  find_field false true path sfs = FMPath fi ss alt b -> find_field false false path sfs = FMPath fi ss alt b.
Proof.
  induction sfs as [|[f0 s0] rest IH]; intros fi ss alt b H; simpl in *; [discriminate|].
  destruct (try_paths true path f0 s0 (f_paths f0) false true) as [m|] eqn:E1.
  - subst m. rewrite (try_paths_del _ _ _ _ _ _ _ E1); auto. discriminate.
  - rewrite (try_paths_del_none _ _ _ _ _ _ E1).
    destruct (try_paths true path f0 s0 (f_spaths f0) true false) as [m|] eqn:E2.
    + subst m. rewrite (try_paths_del _ _ _ _ _ _ _ E2); auto. discriminate.
    + rewrite (try_paths_del_none _ _ _ _ _ _ E2). auto.
Qed.

Lemma find_field_path del path : forall sfs fi ss alt b,
  find_field false del path sfs = FMPath fi ss alt b -> In (fi, ss) sfs /\ path_matches_prefix path alt = true.
Proof.
  induction sfs as [|[f0 s0] rest IH]; intros fi ss alt b H; simpl in *; [discriminate|].
  destruct (try_paths del path f0 s0 (f_paths f0) false true) as [m|] eqn:E1.
  - subst m. apply try_paths_shape in E1 as [(a & [= Q1 Q2 Q3 Q4] & Hp)|]; [subst; auto|discriminate].
  - destruct (try_paths del path f0 s0 (f_spaths f0) true false) as [m|] eqn:E2.
    + subst m. apply try_paths_shape in E2 as [(a & [= Q1 Q2 Q3 Q4] & Hp)|]; [subst; auto|discriminate].
    + apply IH in H as [H1 H2]. auto.
Qed.

Lemma matches_prefix_len path alt : path_matches_prefix path alt = true -> (length alt <= length path)%nat.
Proof.
  unfold path_matches_prefix. destruct (Nat.ltb (length path) (length alt)) eqn:E; [discriminate|].
  intros _. apply Nat.ltb_ge in E. exact E.
Qed.
Lemma consumed_le ss alt : (consumed ss alt <= length alt)%nat.
Proof. unfold consumed. destruct (is_keyed_list ss); lia. Qed.

Lemma skipn_nil_len {A} n (l : list A) : skipn n l = [] -> (length l <= n)%nat.
Proof. revert l. induction n; destruct l; simpl; intros H; try lia; try discriminate. apply IHn in H. lia. Qed.

(* ---- sub_at ---- *)
Lemma sub_at_app t a : forall b, sub_at t (a ++ b) = match sub_at t a with Some x => sub_at x b | None => None end.
Proof.
  revert t. induction a as [|[n|k|i] a IH]; intros t b; simpl; auto.
  - destruct t; auto. destruct (field_get n fs); auto.
  - destruct t; auto. destruct (tl_find k es); auto.
Qed.
Lemma osub_at_app c a b : osub_at c (a ++ b) = osub_at (osub_at c a) b.
Proof. destruct c; simpl; auto. rewrite sub_at_app. destruct (sub_at t a); auto. Qed.
Lemma osub_at_nil c : osub_at c [] = c.
Proof. now destruct c. Qed.
Lemma osub_at_none q : osub_at None q = None.
Proof. reflexivity. Qed.
Lemma osub_at_field fs g q : osub_at (Some (TCont fs)) (StF g :: q) = osub_at (field_get g fs) q.
Proof. simpl. destruct (field_get g fs); auto. Qed.
Lemma osub_at_entry es k q : osub_at (Some (TList es)) (StK k :: q) = osub_at (tl_find k es) q.
Proof. simpl. destruct (tl_find k es); auto. Qed.
Lemma osub_at_cont_other fs s q : (forall g, s <> StF g) -> osub_at (Some (TCont fs)) (s :: q) = None.
Proof. destruct s; simpl; auto. intros H. now destruct (H name). Qed.
Lemma osub_at_list_other es s q : (forall k, s <> StK k) -> osub_at (Some (TList es)) (s :: q) = None.
Proof. destruct s; simpl; auto. intros H. now destruct (H k). Qed.

Lemma sprefix_nil q : sprefix [] q.
Proof. now exists q. Qed.
Lemma sprefix_cons s a b : sprefix (s :: a) (s :: b) <-> sprefix a b.
Proof. split; intros [c H]; exists c; simpl in *; congruence. Qed.
Lemma sprefix_cons_inv s a s' b : sprefix (s :: a) (s' :: b) -> s = s' /\ sprefix a b.
Proof. intros [c H]. simpl in H. injection H as -> ->. split; auto. now exists c. Qed.
Lemma sprefix_refl a : sprefix a a.
Proof. exists []. now rewrite app_nil_r. Qed.

(* leaves have no children *)
Lemma leafish_no_child ss t s q : is_leafish ss = true -> kind2 ss t = true -> sub_at t (s :: q) = None.
Proof. destruct ss, t; simpl; try discriminate; destruct s; auto. Qed.

Lemma init_field_sub ss c q : q <> [] -> osub_at (init_field ss c) q = osub_at c q.
Proof.
  intros Hq. destruct c; auto. destruct ss; simpl; auto; destruct q as [|[n|k|i] q]; try congruence; auto.
Qed.
Lemma init_field_leaf ss c : is_leafish ss = true -> init_field ss c = c.
Proof. destruct c; auto. destruct ss; simpl; auto; discriminate. Qed.

Definition created_key (sp q : list step) (x : option tree) : Prop :=
  exists a mk rest g v, sp = a ++ StK mk :: rest /\ q = a ++ [StK mk; StF g] /\ x = Some (TLeaf v) /\ In v mk.
Lemma created_key_cons s sp q x : created_key sp q x -> created_key (s :: sp) (s :: q) x.
Proof.
  intros (a & mk & rest & g & v & -> & -> & -> & Hv). exists (s :: a), mk, rest, g, v. auto.
Qed.

(* ---- shapes ---- *)
Section Shape.
  Variable env : enum_env.
  Variable fo : float_oracle.
  Variable ko : key_oracle.
  Notation nwf := (nwf env fo ko).

  Definition shape (inl : bool) (s : schema) (t : tree) : Prop :=
    if inl then exists es, t = TList es
    else match s with
         | SCont _ | SList _ _ _ _ _ => exists fs, t = TCont fs
         | _ => kind2 s t = true
         end.
  Definition cur_ok (inl : bool) (s : schema) (c : option tree) : Prop :=
    match c with None => True | Some t => nwf s t /\ shape inl s t end.

  Lemma kind2_shape ss t : kind2 ss t = true -> shape (is_keyed_list ss) ss t.
  Proof. destruct ss, t; simpl; try discriminate; eauto. Qed.

  Lemma cur_ok_init ss c : cur_ok (is_keyed_list ss) ss c -> cur_ok (is_keyed_list ss) ss (init_field ss c).
  Proof.
    destruct c; auto. intros _. destruct ss; simpl; auto.
    - split; [|eauto]. split; [apply ss_nil | exact I].
    - split; [|eauto]. split; [reflexivity | exact I].
  Qed.

  Lemma cur_ok_field sfs fs fi ss :
    nfields env fo ko sfs fs -> In (fi, ss) sfs -> cur_ok (is_keyed_list ss) ss (field_get (f_go fi) fs).
  Proof.
    intros [Hs Hc] Hin. destruct (field_get (f_go fi) fs) as [sub|] eqn:E; [|exact I].
    apply field_get_In in E. destruct (Hc _ _ E _ _ Hin eq_refl) as [Hk Hn]. split; auto. now apply kind2_shape.
  Qed.
End Shape.
(* ====================================================================================== *)
(* 9. Inversion of addr                                                                   *)
(* ====================================================================================== *)

Definition struct_schema (s : schema) (sfs : list (finfo * schema)) : Prop :=
  s = SCont sfs \/ exists ord keys mn mx, s = SList ord keys mn mx sfs.

Lemma struct_schema_fields s sfs : struct_schema s sfs -> sfields s = sfs.
Proof. intros [->|(o & k & a & b & ->)]; reflexivity. Qed.

Section AddrInv.
  Variable env : enum_env.
  Variable fo : float_oracle.
  Variable ko : key_oracle.
  Notation addr := (addr env fo ko).
  Notation path_key := (path_key env fo ko).

  Lemma addr_nil f inl s sp fl ss kl : addr f inl s [] = Some (sp, fl, ss, kl) ->
    inl = false /\ sp = [] /\ fl = [] /\ ss = s /\ kl = false.
  Proof. destruct f; simpl; [discriminate|]. destruct inl; [discriminate|]. intros [= <- <- <- <-]. auto. Qed.

  Lemma addr_struct_inv f s e0 prest sp fl ss kl :
    addr (S f) false s (e0 :: prest) = Some (sp, fl, ss, kl) ->
    exists sfs fi ss1 alt sp' fl' kl',
      struct_schema s sfs /\
      find_field false true (e0 :: prest) sfs = FMPath fi ss1 alt false /\
      addr f (is_keyed_list ss1) ss1 (skipn (consumed ss1 alt) (e0 :: prest)) = Some (sp', fl', ss, kl') /\
      sp = StF (f_go fi) :: sp' /\ fl = prunable ss1 :: fl' /\
      kl = match sp' with [] => is_key_field s (f_go fi) | _ => kl' end.
  Proof.
    cbn [NodeFrameProofs.addr].
    assert (G : forall sfs, struct_schema s sfs ->
      match find_field false true (e0 :: prest) sfs with
      | FMPath fi ss0 alt false =>
          match addr f (is_keyed_list ss0) ss0 (skipn (consumed ss0 alt) (e0 :: prest)) with
          | Some (sp0, fl0, ss', kl0) =>
              Some (StF (f_go fi) :: sp0, prunable ss0 :: fl0, ss', match sp0 with [] => is_key_field s (f_go fi) | _ :: _ => kl0 end)
          | None => None
          end
      | _ => None
      end = Some (sp, fl, ss, kl) -> exists sfs fi ss1 alt sp' fl' kl',
      struct_schema s sfs /\
      find_field false true (e0 :: prest) sfs = FMPath fi ss1 alt false /\
      addr f (is_keyed_list ss1) ss1 (skipn (consumed ss1 alt) (e0 :: prest)) = Some (sp', fl', ss, kl') /\
      sp = StF (f_go fi) :: sp' /\ fl = prunable ss1 :: fl' /\
      kl = match sp' with [] => is_key_field s (f_go fi) | _ => kl' end).
    { intros sfs Hs H. destruct (find_field false true (e0 :: prest) sfs) as [fi ss1 alt [|]| |] eqn:E; try discriminate.
      destruct (addr f (is_keyed_list ss1) ss1 _) as [[[[sp' fl'] ss'] kl']|] eqn:E2; [|discriminate].
      injection H as <- <- <- <-. exists sfs, fi, ss1, alt, sp', fl', kl'. auto 10. }
    destruct s; try discriminate.
    - apply G. now left.
    - apply G. right. eauto.
  Qed.

  Lemma addr_list_inv f s e0 prest sp fl ss kl :
    addr (S f) true s (e0 :: prest) = Some (sp, fl, ss, kl) ->
    exists ord keys mn mx sfs mk sp' fl',
      s = SList ord keys mn mx sfs /\ path_key ord sfs keys (ekeys e0) = Some mk /\
      addr f false s prest = Some (sp', fl', ss, kl) /\ sp = StK mk :: sp' /\ fl = true :: fl'.
  Proof.
    cbn [NodeFrameProofs.addr]. destruct s as [| | |ord keys mn mx sfs|]; try discriminate.
    destruct (path_key ord sfs keys (ekeys e0)) as [mk|] eqn:E; [|discriminate].
    destruct (addr f false (SList ord keys mn mx sfs) prest) as [[[[sp' fl'] ss'] kl']|] eqn:E2; [|discriminate].
    intros [= <- <- <- <-]. eauto 15.
  Qed.

  Lemma addr_nonempty f inl s p sp fl ss kl : addr f inl s p = Some (sp, fl, ss, kl) -> p <> [] -> sp <> [].
  Proof.
    destruct f; [discriminate|]. destruct p as [|e0 prest]; [congruence|]. intros H _. destruct inl.
    - apply addr_list_inv in H as (? & ? & ? & ? & ? & ? & ? & ? & _ & _ & _ & -> & _). discriminate.
    - apply addr_struct_inv in H as (? & ? & ? & ? & ? & ? & ? & _ & _ & _ & -> & _). discriminate.
  Qed.

  (* a path that enters a key leaf ends there *)
  Lemma addr_key_field f s e0 prest g rest fl ss kl :
    swfb s = true -> addr (S f) false s (e0 :: prest) = Some (StF g :: rest, fl, ss, kl) -> kl = false ->
    is_key_field s g = false.
  Proof.
    intros Hw H Hkl. destruct (is_key_field s g) eqn:Ek; auto. exfalso.
    apply addr_struct_inv in H as (sfs & fi & ss1 & alt & sp' & fl' & kl' & Hs & Hf & Ha & [= -> ->] & _ & Hk).
    destruct s; try discriminate. destruct Hs as [|(o' & k' & a' & b' & [= -> -> -> -> ->])]; [discriminate|].
    destruct (swfb_fields _ Hw) as [Hnd _]. simpl in Hnd.
    destruct (list_keys_ok_inv _ _ (swfb_list_keys _ _ _ _ _ Hw)) as (_ & Hkl' & _).
    simpl in Ek. apply existsb_exists in Ek as (k & Hin & Ek).
    destruct (key_leaf_ok_inv _ _ Hnd (Hkl' k Hin)) as (fk & t & d & E1 & _ & _ & Hink & _).
    rewrite E1 in Ek. apply cstr_eqb_eq in Ek.
    destruct (find_field_path _ _ _ _ _ _ _ Hf) as [Hinf _].
    pose proof (go_name_unique sfs Hnd _ _ _ _ Hinf Hink Ek) as [= -> ->].
    destruct sp' as [|x sp'].
    - subst kl. simpl in Hkl. apply not_true_iff_false in Hkl. apply Hkl. apply existsb_exists. exists k. split; auto.
      rewrite E1. apply cstr_eqb_refl.
    - destruct (skipn (consumed (SLeaf t d) alt) (e0 :: prest)) as [|x0 r0].
      + apply addr_nil in Ha as (_ & [=] & _).
      + destruct f; [discriminate|]. simpl in Ha. discriminate.
  Qed.

  Lemma not_key_field ord keys mn mx sfs g k :
    is_key_field (SList ord keys mn mx sfs) g = false -> In k keys ->
    forall fi ks, key_field sfs k = Some (fi, ks) -> f_go fi <> g.
  Proof.
    simpl. intros H Hin fi ks E Hg. apply not_true_iff_false in H. apply H. apply existsb_exists.
    exists k. split; auto. rewrite E. subst g. apply cstr_eqb_refl.
  Qed.
End AddrInv.

(* key leaves of an entry depend on the key fields only *)
Lemma keys_ok_ext env fo ko sfs fs fs' : forall keys mk,
  (forall k fi ks, In k keys -> key_field sfs k = Some (fi, ks) -> field_get (f_go fi) fs' = field_get (f_go fi) fs) ->
  keys_ok env fo ko sfs keys mk fs = true -> keys_ok env fo ko sfs keys mk fs' = true.
Proof.
  induction keys as [|k ks IH]; intros [|v vs] He Hk; try discriminate; auto.
  cbn [NodeFrameProofs.keys_ok] in *. destruct (key_field sfs k) as [[fi [t d| | | |]]|] eqn:E; try discriminate.
  rewrite (He k fi _ (or_introl eq_refl) E).
  apply andb_true_iff in Hk as [Hk Hk3]. rewrite Hk. simpl. apply IH; auto.
  intros k0 fi0 ks0 Hin. apply He. now right.
Qed.

Lemma keys_ok_has_field env fo ko sfs fs : forall keys mk k fi ks,
  keys_ok env fo ko sfs keys mk fs = true -> In k keys -> key_field sfs k = Some (fi, ks) ->
  exists v, field_get (f_go fi) fs = Some (TLeaf v).
Proof.
  induction keys as [|k0 ks0 IH]; intros [|v vs] k fi ks Hk []; try discriminate;
    cbn [NodeFrameProofs.keys_ok] in Hk; destruct (key_field sfs k0) as [[fi0 [t d| | | |]]|] eqn:E; try discriminate;
    apply andb_true_iff in Hk as [Hk Hk3]; apply andb_true_iff in Hk as [Hk1 Hk2].
  - subst k0. intros E'. rewrite E in E'. injection E' as <- <-.
    destruct (field_get (f_go fi0) fs) as [[v'| | | |]|]; try discriminate. eauto.
  - eauto.
Qed.
(* ====================================================================================== *)
(* 10. The list loops of set_rec on well-formed entries                                   *)
(* ====================================================================================== *)

Section SetLoopSpecs.
  Variable env : enum_env.
  Variable fo : float_oracle.
  Variable ko : key_oracle.
  Variable o : set_opts.
  Variable rec : schema -> option tree -> dpath -> option tree * result nat.
  Variable s : schema.
  Variable sfs : list (finfo * schema).
  Variable keys : list str.
  Variable ek : list (str * str).
  Variable prest : dpath.
  Variable ord : bool.
  Variable pk : list scalar.
  Hypothesis Hnd : NoDup (go_names sfs).
  Hypothesis Hpk : path_key env fo ko ord sfs keys ek = Some pk.

  Definition entries_ok (l : list (list scalar * tree)) : Prop :=
    forall mk e, In (mk, e) l -> exists fs, e = TCont fs /\ keys_ok env fo ko sfs keys mk fs = true.

  Lemma entries_ok_cons mk e l : entries_ok ((mk, e) :: l) ->
    (exists fs, e = TCont fs /\ keys_ok env fo ko sfs keys mk fs = true) /\ entries_ok l.
  Proof. intros H. split; [apply H; now left | intros k x Hin; apply H; now right]. Qed.

  (* several keys *)
  Lemma set_all_nomatch : forall l acc n, entries_ok l -> tl_find pk l = None ->
    set_all env fo ko o rec s sfs keys ek prest l acc n =
    if Nat.eqb n O then set_insert_new env fo ko o rec s sfs keys ek prest acc else (Some (TList acc), Ok n).
  Proof.
    induction l as [|[mk e] more IH]; intros acc n Hok Hf; [reflexivity|].
    apply entries_ok_cons in Hok as [(fs & -> & Hk) Hok]. cbn [set_all].
    rewrite (keys_match_eq env fo ko false ord sfs ek keys pk mk fs Hpk Hk).
    cbn [tl_find] in Hf. destruct (keys_eqb pk mk); [discriminate|]. now apply IH.
  Qed.

  Lemma set_all_spec : forall l acc, entries_ok l -> NoDup (map fst l) ->
    set_all env fo ko o rec s sfs keys ek prest l acc O =
    match tl_find pk l with
    | None => set_insert_new env fo ko o rec s sfs keys ek prest acc
    | Some e =>
        let '(e', r) := rec s (Some e) prest in
        let acc' := match e' with Some e'' => tl_insert pk e'' acc | None => acc end in
        match r with
        | Ok m => if Nat.eqb m O then set_insert_new env fo ko o rec s sfs keys ek prest acc'
                  else (Some (TList acc'), Ok m)
        | _ => (Some (TList acc'), r)
        end
    end.
  Proof.
    induction l as [|[mk e] more IH]; intros acc Hok Hd; [reflexivity|].
    apply entries_ok_cons in Hok as [(fs & -> & Hk) Hok]. cbn [set_all tl_find].
    rewrite (keys_match_eq env fo ko false ord sfs ek keys pk mk fs Hpk Hk).
    simpl in Hd. inversion Hd; subst.
    destruct (keys_eqb pk mk) eqn:E; [|now apply IH].
    apply keys_eqb_eq in E. subst mk.
    destruct (rec s (Some (TCont fs)) prest) as [e' r]. destruct r as [m| |]; auto.
    rewrite set_all_nomatch; auto. apply tl_find_not_In. exact H1.
  Qed.

  (* ordered map *)
  Definition set_onew (acc : list (list scalar * tree)) : option tree * result nat :=
    match make_ordered_entry env fo ko sfs keys ek with
    | Ok (mk, nfs) =>
        match tl_find mk acc with
        | Some _ => (Some (TList acc), Err)
        | None =>
            let '(e', r) := rec s (Some (TCont nfs)) prest in
            (Some (TList (acc ++ [(mk, match e' with Some e'' => e'' | None => TCont nfs end)])), r)
        end
    | Err => (Some (TList acc), Err)
    | Panic => (Some (TList acc), Panic)
    end.

  Lemma set_oall_nomatch : forall l acc n, entries_ok l -> tl_find pk l = None ->
    set_oall env fo ko o rec s sfs keys ek prest (length keys) l acc n =
    if Nat.eqb n O && s_init o then set_onew acc else (Some (TList acc), Ok n).
  Proof.
    induction l as [|[mk e] more IH]; intros acc n Hok Hf.
    - cbn [set_oall]. rewrite Nat.eqb_refl. reflexivity.
    - apply entries_ok_cons in Hok as [(fs & -> & Hk) Hok]. cbn [set_oall].
      destruct (mapkey_strs_ok env fo ko sfs keys mk fs Hk) as (kk & ->). cbn [bind].
      rewrite (keys_match_eq env fo ko false ord sfs ek keys pk mk fs Hpk Hk).
      cbn [tl_find] in Hf. destruct (keys_eqb pk mk); [discriminate|]. now apply IH.
  Qed.

  Lemma set_oall_spec : forall l acc, entries_ok l -> NoDup (map fst l) ->
    set_oall env fo ko o rec s sfs keys ek prest (length keys) l acc O =
    match tl_find pk l with
    | None => if s_init o then set_onew acc else (Some (TList acc), Ok O)
    | Some e =>
        let '(e', r) := rec s (Some e) prest in
        let acc' := match e' with Some e'' => ol_update pk e'' acc | None => acc end in
        match r with
        | Ok m => if Nat.eqb m O && s_init o then set_onew acc' else (Some (TList acc'), Ok m)
        | _ => (Some (TList acc'), r)
        end
    end.
  Proof.
    induction l as [|[mk e] more IH]; intros acc Hok Hd.
    - cbn [set_oall tl_find]. rewrite !Nat.eqb_refl. reflexivity.
    - apply entries_ok_cons in Hok as [(fs & -> & Hk) Hok]. cbn [set_oall tl_find].
      destruct (mapkey_strs_ok env fo ko sfs keys mk fs Hk) as (kk & ->). cbn [bind].
      rewrite (keys_match_eq env fo ko false ord sfs ek keys pk mk fs Hpk Hk).
      simpl in Hd. inversion Hd; subst.
      destruct (keys_eqb pk mk) eqn:E; [|now apply IH].
      apply keys_eqb_eq in E. subst mk.
      destruct (rec s (Some (TCont fs)) prest) as [e' r]. destruct r as [m| |]; auto.
      rewrite set_oall_nomatch; auto. apply tl_find_not_In. exact H1.
  Qed.
End SetLoopSpecs.

(* single key *)
Lemma set_first_spec env fo ko o rec s sfs ek prest ord pk cur es k s0 :
  NoDup (go_names sfs) -> path_key env fo ko ord sfs [k] ek = Some pk ->
  key_leaf_okb sfs k = true -> al_find k ek = Some s0 ->
  forall l, entries_ok env fo ko sfs [k] l ->
  set_first env fo ko o rec s sfs [k] ek prest cur es k s0 l =
  match tl_find pk l with
  | Some e => let '(e', r) := rec s (Some e) prest in
              (Some (TList (match e' with Some e'' => tl_insert pk e'' es | None => es end)), r)
  | None => set_insert_new env fo ko o rec s sfs [k] ek prest es
  end.
Proof.
  intros Hnd Hpk Hkl Hs0. induction l as [|[mk e] more IH]; intros Hok; [reflexivity|].
  apply entries_ok_cons in Hok as [(fs & -> & Hk) Hok]. cbn [set_first tl_find fields_of].
  destruct (single_key_str_eq env fo ko sfs k mk fs pk ord ek Hnd Hkl Hk Hpk) as (s1 & sv & Hs1 & Hsv & Heq).
  rewrite Hs0 in Hs1. injection Hs1 as <-. rewrite Hsv, Heq.
  destruct (keys_eqb pk mk) eqn:E; [|now apply IH].
  apply keys_eqb_eq in E. subst mk. reflexivity.
Qed.

(* ====================================================================================== *)
(* 11. The leaf update                                                                    *)
(* ====================================================================================== *)

Lemma set_leaf_kind env fo ko o tv ss c t :
  is_leafish ss = true -> (forall x, c = Some x -> kind2 ss x = true) ->
  set_leaf env fo ko o tv ss c = (Some t, Ok tt) -> kind2 ss t = true.
Proof.
  intros Hl Hc. unfold set_leaf.
  assert (J : forall j, match unm_node env fo (Node.uo o) (jdepth j + 2) ss c j with
                        | Ok nt => (nt, Ok tt) | Err => (c, Err) | Panic => (c, Panic) end = (Some t, Ok tt) ->
                        kind2 ss t = true).
  { intros j. replace (jdepth j + 2)%nat with (S (S (jdepth j))) by lia. cbn [unm_node].
    destruct ss; try discriminate.
    - destruct j; try (destruct (dec_json env fo t0 _); cbn [bind]; intros [= <-]; reflexivity).
      intros [= ->]. auto.
    - destruct j; try discriminate; [intros [= ->]; auto|].
      destruct (dec_leaflist env fo t0 l) as [[|v vs]| |]; cbn [bind]; intros [= <-]. reflexivity. }
  destruct tv; try exact (J _); try discriminate; (destruct ss; try discriminate Hl); cbn; try discriminate;
    try (destruct (decode_tv env ko (s_tol_json o) t0 _); (discriminate || (intros [= <-]; reflexivity))).
  destruct (nil_b l); [discriminate|].
  destruct (decode_leaflist env ko (s_tol_json o) t0 l []) as [[|v vs] r]; simpl; intros [= <-]; try discriminate. reflexivity.
Qed.
(* ====================================================================================== *)
(* 12. The frame theorem for set_rec                                                      *)
(* ====================================================================================== *)

Lemma osub_at_field1 fs g : osub_at (Some (TCont fs)) [StF g] = field_get g fs.
Proof. simpl. now destruct (field_get g fs). Qed.

Section SetSpec.
  Variable env : enum_env.
  Variable fo : float_oracle.
  Variable ko : key_oracle.
  Variable o : set_opts.
  Variable tv : tval.
  Hypothesis Hsh : s_shadow o = false.
  Hypothesis Hnil : tv_is_nil tv = false.
  Notation nwf := (nwf env fo ko).
  Notation cur_ok := (cur_ok env fo ko).
  Notation addr := (addr env fo ko).
  Notation keys_ok := (keys_ok env fo ko).

  (* every subtree that does not contain the target is as before, or is a key leaf of an entry
     created on the way *)
  Definition frame (cur c' : option tree) (sp : list step) : Prop :=
    forall q, ~ sprefix q sp ->
      osub_at c' q = osub_at cur q \/ (osub_at cur q = None /\ created_key sp q (osub_at c' q)).

  Definition set_post (inl : bool) (s : schema) (cur : option tree) (sp : list step) (ss : schema) (c' : option tree) : Prop :=
    exists nl, set_leaf env fo ko o tv ss (osub_at cur sp) = (nl, Ok tt)
      /\ osub_at c' sp = nl /\ c' <> None /\ cur_ok inl s c' /\ frame cur c' sp.

  (* one list level *)
  Lemma list_post ord keys mn mx sfs es es' mk g rest ss fsp e'' :
    let s := SList ord keys mn mx sfs in
    swfb s = true -> nwf s (TList es) ->
    is_key_field s g = false ->
    keys_ok sfs keys mk fsp = true ->
    (tl_find mk es = Some (TCont fsp) \/ (tl_find mk es = None /\ key_struct env fo ko sfs keys mk fsp)) ->
    set_post false s (Some (TCont fsp)) (StF g :: rest) ss (Some e'') ->
    tl_find mk es' = Some e'' -> (forall k, k <> mk -> tl_find k es' = tl_find k es) ->
    keys_okb ord (map fst es') = true -> (forall x, In x es' -> x = (mk, e'') \/ In x es) ->
    set_post true s (Some (TList es)) (StK mk :: StF g :: rest) ss (Some (TList es')).
  Proof.
    intros s Hw Hn Hnk Hko Hcase (nl & Hsl & Hnl & _ & [Hn'' Hshape] & Hfr) Hf1 Hf2 Hokb Hin.
    destruct (swfb_fields _ Hw) as [Hnd _]. simpl in Hnd.
    destruct (list_keys_ok_inv _ _ (swfb_list_keys _ _ _ _ _ Hw)) as (_ & Hkl & _).
    apply nwf_list in Hn as [Hokb0 Hent].
    destruct Hshape as [fs'' ->].
    (* key fields of the entry are untouched *)
    assert (Hkeep : forall k fi ks, In k keys -> key_field sfs k = Some (fi, ks) ->
                      field_get (f_go fi) fs'' = field_get (f_go fi) fsp).
    { intros k fi ks Hk E. pose proof (not_key_field _ _ _ _ _ _ _ Hnk Hk _ _ E) as Hne.
      destruct (Hfr [StF (f_go fi)]) as [Heq|[Hnone _]].
      - intros Hp. apply sprefix_cons_inv in Hp as [[= Hp] _]. congruence.
      - now rewrite !osub_at_field1 in Heq.
      - rewrite osub_at_field1 in Hnone. destruct (keys_ok_has_field _ _ _ _ _ _ _ _ _ _ Hko Hk E). congruence. }
    (* the target was absent in a new entry *)
    assert (Hprev : osub_at (tl_find mk es) (StF g :: rest) = osub_at (Some (TCont fsp)) (StF g :: rest)).
    { destruct Hcase as [->|[-> (_ & _ & Hall)]]; auto. rewrite osub_at_field.
      destruct (field_get g fsp) as [x|] eqn:Eg; auto. exfalso.
      apply field_get_In in Eg. destruct (Hall _ _ Eg) as [Hg _]. apply in_map_iff in Hg as (k & Hgo & Hk).
      destruct (key_leaf_ok_inv _ _ Hnd (Hkl k Hk)) as (fi & t & d & E1 & _ & _ & _ & Hgo').
      apply (not_key_field _ _ _ _ _ _ _ Hnk Hk _ _ E1). congruence. }
    exists nl. split; [|split; [|split; [discriminate|split]]].
    - rewrite osub_at_entry, Hprev. exact Hsl.
    - rewrite osub_at_entry, Hf1. exact Hnl.
    - split; [|simpl; eauto]. apply nwf_list. split; auto.
      intros k e Hi. destruct (Hin _ Hi) as [[= -> ->]|Hi']; [|now apply Hent].
      split; auto. exists fs''. split; auto. eapply keys_ok_ext; [|exact Hko]. exact Hkeep.
    - intros q Hq. destruct q as [|[n|k|i] q'].
      + destruct Hq. apply sprefix_nil.
      + left. reflexivity.
      + rewrite !osub_at_entry. destruct (keys_eqb k mk) eqn:Ek.
        * apply keys_eqb_eq in Ek. subst k. rewrite Hf1.
          assert (Hq' : ~ sprefix q' (StF g :: rest)) by (intros Hp; apply Hq; now apply sprefix_cons).
          destruct Hcase as [->|[-> (_ & _ & Hall)]].
          -- destruct (Hfr q' Hq') as [Heq|[Hnone Hck]]; [left; exact Heq|right].
             split; auto. now apply created_key_cons.
          -- destruct (Hfr q' Hq') as [Heq|[Hnone Hck]].
             ++ rewrite Heq. destruct q' as [|[n| |] q'']; [destruct Hq'; apply sprefix_nil| |left; reflexivity|left; reflexivity].
                rewrite osub_at_field. destruct (field_get n fsp) as [sub|] eqn:En; [|left; reflexivity].
                apply field_get_In in En. destruct (Hall _ _ En) as (_ & v & -> & Hv).
                destruct q'' as [|x q'']; [|left; destruct x; reflexivity].
                right. split; auto. exists [], mk, (StF g :: rest), n, v. auto.
             ++ right. split; auto. now apply created_key_cons.
        * left. rewrite Hf2; auto. now apply keys_eqb_false.
      + left. reflexivity.
  Qed.

  Theorem set_rec_spec : forall f inl s cur p sp fl ss c' n,
    swfb s = true -> cur_ok inl s cur ->
    addr f inl s p = Some (sp, fl, ss, false) -> is_leafish ss = true -> p <> [] ->
    set_rec env fo ko o tv f s cur p = (c', Ok n) ->
    (n = O -> s_init o = false) /\ (n <> O -> set_post inl s cur sp ss c').
  Proof.
    induction f as [|f IH]; intros inl s cur p sp fl ss c' n Hw Hcur Ha Hleaf Hp Hset; [discriminate|].
    destruct p as [|e0 prest]; [congruence|]. clear Hp.
    destruct cur as [t|]; [|discriminate]. destruct Hcur as [Hn Hshape].
    destruct inl.
    - (* ---------------- a keyed list ---------------- *)
      apply addr_list_inv in Ha as (ord & keys & mn & mx & sfs & mk & sp' & fl' & -> & Hpk & Ha & -> & ->).
      destruct Hshape as [es ->].
      assert (Hprest : prest <> []).
      { intros ->. apply addr_nil in Ha as (_ & _ & _ & -> & _). discriminate. }
      destruct f as [|f0]; [discriminate|]. destruct prest as [|e1 prest']; [congruence|].
      pose proof Ha as Ha0.
      apply addr_struct_inv in Ha0 as (sfs0 & fi & ss1 & alt & sp1 & fl1 & kl1 & _ & _ & _ & -> & _ & _).
      pose proof (addr_key_field _ _ _ _ _ _ _ _ _ _ _ _ Hw Ha eq_refl) as Hnk.
      destruct (swfb_fields _ Hw) as [Hnd _]. simpl in Hnd.
      destruct (list_keys_ok_inv _ _ (swfb_list_keys _ _ _ _ _ Hw)) as (Hkne & Hkl & Hkd).
      pose proof Hn as Hn0. apply nwf_list in Hn0 as [Hokb Hent].
      assert (Heok : entries_ok env fo ko sfs keys es) by (intros k e Hi; now destruct (Hent _ _ Hi)).
      pose proof (keys_okb_NoDup _ _ Hokb) as Hdist.
      (* the recursive call on an entry *)
      assert (Hrec : forall fsp e' m,
                nwf (SList ord keys mn mx sfs) (TCont fsp) ->
                set_rec env fo ko o tv (S f0) (SList ord keys mn mx sfs) (Some (TCont fsp)) (e1 :: prest') = (e', Ok m) ->
                (m = O -> s_init o = false) /\
                (m <> O -> set_post false (SList ord keys mn mx sfs) (Some (TCont fsp)) (StF (f_go fi) :: sp1) ss e')).
      { intros fsp e' m Hnf Hr.
        assert (Hc : cur_ok false (SList ord keys mn mx sfs) (Some (TCont fsp))) by (split; [auto | simpl; eauto]).
        assert (Hne : e1 :: prest' <> []) by discriminate.
        exact (IH false (SList ord keys mn mx sfs) (Some (TCont fsp)) (e1 :: prest') _ fl' ss e' m Hw Hc Ha Hleaf Hne Hr). }
      (* an existing entry *)
      assert (Hexist : forall e es' e' m,
                tl_find mk es = Some e ->
                set_rec env fo ko o tv (S f0) (SList ord keys mn mx sfs) (Some e) (e1 :: prest') = (e', Ok m) -> m <> O ->
                (forall e'', e' = Some e'' ->
                   tl_find mk es' = Some e'' /\ (forall k, k <> mk -> tl_find k es' = tl_find k es) /\
                   keys_okb ord (map fst es') = true /\ (forall x, In x es' -> x = (mk, e'') \/ In x es)) ->
                set_post true (SList ord keys mn mx sfs) (Some (TList es)) (StK mk :: StF (f_go fi) :: sp1) ss (Some (TList es'))).
      { intros e es' e' m Hf Hr Hm Hes'. pose proof (tl_find_In _ _ _ Hf) as Hi.
        destruct (Hent _ _ Hi) as [(fsp & -> & Hko) Hne].
        destruct (Hrec _ _ _ Hne Hr) as [_ Hpost]. specialize (Hpost Hm).
        pose proof Hpost as (_ & _ & _ & Hsome & _). destruct e' as [e''|]; [|congruence].
        destruct (Hes' _ eq_refl) as (H1 & H2 & H3 & H4).
        exact (list_post ord keys mn mx sfs es es' mk (f_go fi) sp1 ss fsp e'' Hw Hn Hnk Hko (or_introl Hf) Hpost H1 H2 H3 H4). }
      (* a new entry *)
      assert (Hnew : forall nfs es' e' m,
                tl_find mk es = None -> key_struct env fo ko sfs keys mk nfs ->
                set_rec env fo ko o tv (S f0) (SList ord keys mn mx sfs) (Some (TCont nfs)) (e1 :: prest') = (e', Ok m) -> m <> O ->
                (forall e'', e' = Some e'' ->
                   tl_find mk es' = Some e'' /\ (forall k, k <> mk -> tl_find k es' = tl_find k es) /\
                   keys_okb ord (map fst es') = true /\ (forall x, In x es' -> x = (mk, e'') \/ In x es)) ->
                set_post true (SList ord keys mn mx sfs) (Some (TList es)) (StK mk :: StF (f_go fi) :: sp1) ss (Some (TList es'))).
      { intros nfs es' e' m Hf Hks Hr Hm Hes'.
        assert (Hne : nwf (SList ord keys mn mx sfs) (TCont nfs)) by (apply nwf_cont; eapply key_struct_nfields; eauto).
        destruct (Hrec _ _ _ Hne Hr) as [_ Hpost]. specialize (Hpost Hm).
        pose proof Hpost as (_ & _ & _ & Hsome & _). destruct e' as [e''|]; [|congruence].
        destruct (Hes' _ eq_refl) as (H1 & H2 & H3 & H4). destruct Hks as (Hk1 & Hk2 & Hk3).
        exact (list_post ord keys mn mx sfs es es' mk (f_go fi) sp1 ss nfs e'' Hw Hn Hnk Hk2
                 (or_intror (conj Hf (conj Hk1 (conj Hk2 Hk3)))) Hpost H1 H2 H3 H4). }
      rewrite set_rec_list in Hset. destruct ord.
      + (* ordered map *)
        rewrite (ordered_keys_parse_ok env fo ko sfs (ekeys e0) keys mk Hpk) in Hset.
        rewrite (set_oall_spec env fo ko o _ (SList true keys mn mx sfs) sfs keys (ekeys e0) (e1 :: prest') true mk Hpk es es Heok Hdist) in Hset.
        destruct (tl_find mk es) as [e|] eqn:Ef.
        * destruct (set_rec env fo ko o tv (S f0) (SList true keys mn mx sfs) (Some e) (e1 :: prest')) as [e' r] eqn:Er.
          destruct r as [m| |]; try discriminate.
          pose proof (tl_find_In _ _ _ Ef) as Hi. destruct (Hent _ _ Hi) as [(fsp & -> & Hko) Hne].
          destruct (Hrec _ _ _ Hne Er) as [Hz Hpos].
          destruct (Nat.eqb m O) eqn:Em.
          -- apply Nat.eqb_eq in Em. subst m. rewrite (Hz eq_refl) in Hset. simpl in Hset.
             injection Hset as <- <-. split; auto. congruence.
          -- simpl in Hset. injection Hset as <- <-. apply Nat.eqb_neq in Em. split; [congruence|]. intros _.
             eapply Hexist; eauto. intros e'' ->. repeat split.
             ++ apply tl_find_update_same. congruence.
             ++ intros k Hk. now apply tl_find_update_other.
             ++ now rewrite ol_update_keys.
             ++ intros x Hx. now apply ol_update_In in Hx.
        * destruct (s_init o) eqn:Ei; [|injection Hset as <- <-; split; auto; congruence].
          unfold set_onew in Hset.
          destruct (make_ordered_entry_ok env fo ko sfs (ekeys e0) Hnd keys mk Hkl Hkd Hpk) as (nfs & Hm & Hks).
          rewrite Hm, Ef in Hset.
          destruct (set_rec env fo ko o tv (S f0) (SList true keys mn mx sfs) (Some (TCont nfs)) (e1 :: prest')) as [e' r] eqn:Er.
          injection Hset as <- ->.
          assert (Hne : nwf (SList true keys mn mx sfs) (TCont nfs)) by (apply nwf_cont; eapply key_struct_nfields; eauto).
          destruct (Hrec _ _ _ Hne Er) as [Hz Hpos]. split; [intros ->; exact (Hz eq_refl)|]. intros Hm0.
          eapply Hnew; eauto. intros e'' ->. repeat split.
          -- rewrite tl_find_app_new, Ef, keys_eqb_refl. reflexivity.
          -- intros k Hk. rewrite tl_find_app_new. destruct (tl_find k es); auto.
             apply keys_eqb_false in Hk. now rewrite Hk.
          -- rewrite map_app. simpl. apply keys_okb_snoc; auto. now apply tl_find_None_not_In.
          -- intros x Hx. apply in_app_or in Hx as [Hx|[<-|[]]]; auto.
      + (* Go map *)
        unfold set_list in Hset.
        assert (Hins : forall acc, tl_find mk es = None -> acc = es ->
                  set_insert_new env fo ko o (set_rec env fo ko o tv (S f0)) (SList false keys mn mx sfs) sfs keys (ekeys e0) (e1 :: prest') acc = (c', Ok n) ->
                  (n = O -> s_init o = false) /\
                  (n <> O -> set_post true (SList false keys mn mx sfs) (Some (TList es)) (StK mk :: StF (f_go fi) :: sp1) ss c')).
        { intros acc Ef -> Hi. unfold set_insert_new in Hi.
          destruct (s_init o) eqn:Ei; [|injection Hi as <- <-; split; auto; congruence].
          destruct (make_entry_ok env fo ko sfs (ekeys e0) Hnd keys mk Hkl Hkd Hpk) as (nfs & Hm & Hks).
          rewrite Hm in Hi. destruct (existsb nan_key mk); [discriminate|]. rewrite Ef in Hi.
          destruct (set_rec env fo ko o tv (S f0) (SList false keys mn mx sfs) (Some (TCont nfs)) (e1 :: prest')) as [e' r] eqn:Er.
          injection Hi as <- ->.
          assert (Hne : nwf (SList false keys mn mx sfs) (TCont nfs)) by (apply nwf_cont; eapply key_struct_nfields; eauto).
          destruct (Hrec _ _ _ Hne Er) as [Hz Hpos]. split; [intros ->; exact (Hz eq_refl)|]. intros Hm0.
          pose proof (Hpos Hm0) as (_ & _ & _ & Hsome & _). destruct e' as [e''|]; [|congruence].
          eapply Hnew; eauto. intros e3 [= <-]. repeat split.
          - apply tl_find_insert_same.
          - intros k Hk. now apply tl_find_insert_other.
          - now apply tl_insert_okb.
          - intros x Hx. now apply tl_insert_In in Hx. }
        assert (Hupd : forall e e' m, tl_find mk es = Some e ->
                  set_rec env fo ko o tv (S f0) (SList false keys mn mx sfs) (Some e) (e1 :: prest') = (e', Ok m) -> m <> O ->
                  set_post true (SList false keys mn mx sfs) (Some (TList es)) (StK mk :: StF (f_go fi) :: sp1) ss
                    (Some (TList (match e' with Some e'' => tl_insert mk e'' es | None => es end)))).
        { intros e e' m Ef Er Hm. pose proof (tl_find_In _ _ _ Ef) as Hi. destruct (Hent _ _ Hi) as [(fsp & -> & Hko) Hne].
          destruct (Hrec _ _ _ Hne Er) as [_ Hpos].
          pose proof (Hpos Hm) as (_ & _ & _ & Hsome & _). destruct e' as [e''|]; [|congruence].
          eapply Hexist; eauto. intros e3 [= <-]. repeat split.
          - apply tl_find_insert_same.
          - intros k Hk. now apply tl_find_insert_other.
          - now apply tl_insert_okb.
          - intros x Hx. now apply tl_insert_In in Hx. }
        destruct keys as [|k [|k2 ks]]; [congruence| |].
        * (* one key *)
          assert (Hs0 : exists s0, al_find k (ekeys e0) = Some s0).
          { cbn [path_key] in Hpk. destruct (al_find k (ekeys e0)); [eauto|discriminate]. }
          destruct Hs0 as (s0 & Hs0). rewrite Hs0 in Hset.
          rewrite (set_first_spec env fo ko o _ (SList false [k] mn mx sfs) sfs (ekeys e0) (e1 :: prest') false mk _ es k s0 Hnd Hpk
                     (Hkl k (or_introl eq_refl)) Hs0 es Heok) in Hset.
          destruct (tl_find mk es) as [e|] eqn:Ef; [|exact (Hins es eq_refl eq_refl Hset)].
          destruct (set_rec env fo ko o tv (S f0) (SList false [k] mn mx sfs) (Some e) (e1 :: prest')) as [e' r] eqn:Er.
          injection Hset as <- ->.
          pose proof (tl_find_In _ _ _ Ef) as Hi. destruct (Hent _ _ Hi) as [(fsp & -> & Hko) Hne].
          destruct (Hrec _ _ _ Hne Er) as [Hz _]. split; auto. intros Hm. eapply Hupd; eauto.
        * (* several keys *)
          rewrite (set_all_spec env fo ko o _ (SList false (k :: k2 :: ks) mn mx sfs) sfs (k :: k2 :: ks) (ekeys e0) (e1 :: prest') false mk Hpk es es Heok Hdist) in Hset.
          destruct (tl_find mk es) as [e|] eqn:Ef; [|exact (Hins es eq_refl eq_refl Hset)].
          destruct (set_rec env fo ko o tv (S f0) (SList false (k :: k2 :: ks) mn mx sfs) (Some e) (e1 :: prest')) as [e' r] eqn:Er.
          destruct r as [m| |]; try discriminate.
          pose proof (tl_find_In _ _ _ Ef) as Hi. destruct (Hent _ _ Hi) as [(fsp & -> & Hko) Hne].
          destruct (Hrec _ _ _ Hne Er) as [Hz _].
          destruct (Nat.eqb m O) eqn:Em.
          -- apply Nat.eqb_eq in Em. subst m. unfold set_insert_new in Hset. rewrite (Hz eq_refl) in Hset.
             injection Hset as <- <-. split; auto. congruence.
          -- injection Hset as <- <-. apply Nat.eqb_neq in Em. split; [congruence|]. intros _. eapply Hupd; eauto.
    - (* ---------------- a struct ---------------- *)
      apply addr_struct_inv in Ha as (sfs & fi & ss1 & alt & sp' & fl' & kl' & Hs & Hf & Ha & -> & -> & Hkl).
      pose proof (struct_schema_fields _ _ Hs) as Hsf.
      assert (Hfs : exists fs, t = TCont fs).
      { destruct Hs as [->|(o1 & k1 & a1 & b1 & ->)]; exact Hshape. }
      destruct Hfs as [fs ->].
      assert (Hunf : set_rec env fo ko o tv (S f) s (Some (TCont fs)) (e0 :: prest) = set_struct env fo ko o tv f sfs fs (e0 :: prest)).
      { destruct Hs as [->|(o1 & k1 & a1 & b1 & ->)]; [apply set_rec_cont | apply set_rec_entry]. }
      rewrite Hunf in Hset. clear Hunf. unfold set_struct in Hset.
      rewrite Hsh, (find_field_del _ _ _ _ _ _ Hf) in Hset.
      destruct (find_field_path _ _ _ _ _ _ _ Hf) as [Hin Hmp].
      destruct (swfb_fields _ Hw) as [Hnd Hsub]. rewrite Hsf in Hnd, Hsub.
      apply nwf_cont in Hn. rewrite Hsf in Hn. pose proof Hn as [Hss Hch].
      assert (Hino : In (f_go fi) (go_names sfs)) by apply (in_map (fun fs => f_go (fst fs)) _ _ Hin).
      set (to := consumed ss1 alt) in *.
      assert (Hto : (to <= length (e0 :: prest))%nat).
      { pose proof (matches_prefix_len _ _ Hmp). pose proof (consumed_le ss1 alt). unfold to. lia. }
      set (c0 := field_get (f_go fi) fs) in *.
      set (c1 := if s_init o then init_field ss1 c0 else c0) in *.
      assert (Hc0 : cur_ok (is_keyed_list ss1) ss1 c0) by (eapply cur_ok_field; eauto).
      assert (Hc1 : cur_ok (is_keyed_list ss1) ss1 c1).
      { unfold c1. destruct (s_init o); auto. now apply cur_ok_init. }
      (* rebuilding the struct around the new child *)
      assert (Hreb : forall c3, (forall x, c3 = Some x -> kind2 ss1 x = true /\ nwf ss1 x) ->
                cur_ok false s (Some (TCont (put_field (go_names sfs) (f_go fi) c3 fs)))).
      { intros c3 Hc3. split.
        - apply nwf_cont. rewrite Hsf. split; [now apply put_field_subseq|].
          intros nm sub Hi g sg Hg Hgn. apply put_field_In in Hi as [(x & -> & [= -> ->])|Hi]; [|eauto].
          pose proof (go_name_unique sfs Hnd _ _ _ _ Hg Hin Hgn) as [= -> ->]. auto.
        - destruct Hs as [->|(o1 & k1 & a1 & b1 & ->)]; simpl; eauto. }
      assert (Hfrm : forall c3 sp1,
                (forall q, ~ sprefix q sp1 -> osub_at c3 q = osub_at c0 q \/ (osub_at c0 q = None /\ created_key sp1 q (osub_at c3 q))) ->
                frame (Some (TCont fs)) (Some (TCont (put_field (go_names sfs) (f_go fi) c3 fs))) (StF (f_go fi) :: sp1)).
      { intros c3 sp1 H q Hq. destruct q as [|[nm|k|i] q'].
        - destruct Hq. apply sprefix_nil.
        - rewrite !osub_at_field. destruct (str_eqb nm (f_go fi)) eqn:En.
          + apply cstr_eqb_eq in En. subst nm. rewrite put_field_get_same; auto. fold c0.
            destruct (H q') as [Heq|[Hnone Hck]]; [intros Hp; apply Hq; now apply sprefix_cons|auto|].
            right. split; auto. now apply created_key_cons.
          + left. rewrite put_field_get_other; auto. now apply str_eqb_false_neq.
        - left. reflexivity.
        - left. reflexivity. }
      destruct (negb (tv_is_nil tv) && Nat.eqb (length (e0 :: prest)) to && is_leafish ss1) eqn:Econd.
      + (* the leaf itself *)
        apply andb_true_iff in Econd as [Econd Hl1]. apply andb_true_iff in Econd as [_ Elen].
        apply Nat.eqb_eq in Elen.
        assert (Hskip : skipn to (e0 :: prest) = []) by (rewrite <- Elen; apply skipn_all).
        rewrite Hskip in Ha. apply addr_nil in Ha as (_ & -> & -> & -> & ->).
        assert (Ec1 : c1 = c0) by (unfold c1; destruct (s_init o); auto; now apply init_field_leaf).
        rewrite Ec1 in Hset.
        destruct (set_leaf env fo ko o tv ss1 c0) as [c2 r2] eqn:Esl. destruct r2 as [[]| |]; try discriminate.
        rewrite Hskip in Hset. destruct f as [|f1]; [discriminate|]. cbn [set_rec] in Hset. unfold set_terminal in Hset.
        rewrite Hl1, orb_true_r in Hset. injection Hset as <- <-. split; [discriminate|]. intros _.
        assert (Hk0 : forall x, c0 = Some x -> kind2 ss1 x = true).
        { intros x Hx. unfold c0 in Hx. apply field_get_In in Hx. now destruct (Hch _ _ Hx _ _ Hin eq_refl). }
        assert (Hk2 : forall x, c2 = Some x -> kind2 ss1 x = true /\ nwf ss1 x).
        { intros x ->. pose proof (set_leaf_kind _ _ _ _ _ _ _ _ Hl1 Hk0 Esl) as Hk. split; auto.
          destruct ss1, x; try discriminate; exact I. }
        exists c2. split; [|split; [|split; [discriminate|split]]].
        * rewrite osub_at_field1. exact Esl.
        * rewrite osub_at_field1. now apply put_field_get_same.
        * now apply Hreb.
        * apply Hfrm. intros q Hq. left. destruct q as [|x q]; [destruct Hq; apply sprefix_nil|].
          assert (G : forall c, (forall y, c = Some y -> kind2 ss1 y = true) -> osub_at c (x :: q) = None).
          { intros [y|] Hy; auto. simpl. eapply leafish_no_child; eauto. }
          rewrite !G; auto. intros y Hy. now destruct (Hk2 _ Hy).
      + (* on the way *)
        destruct (set_rec env fo ko o tv f ss1 c1 (skipn to (e0 :: prest))) as [c3 r3] eqn:Er.
        injection Hset as <- ->.
        assert (Hrest : skipn to (e0 :: prest) <> []).
        { intros Hskip. rewrite Hskip in Ha. apply addr_nil in Ha as (Hk & _ & _ & <- & _).
          apply skipn_nil_len in Hskip. assert (El : length (e0 :: prest) = to) by lia.
          rewrite Hnil, El, Nat.eqb_refl, Hleaf in Econd. discriminate. }
        assert (Hkl' : kl' = false).
        { destruct sp' as [|x sp'']; [|auto]. exfalso. exact (addr_nonempty _ _ _ _ _ _ _ _ _ _ _ Ha Hrest eq_refl). }
        subst kl'.
        destruct (IH _ _ _ _ _ _ _ _ _ (Hsub _ _ Hin) Hc1 Ha Hleaf Hrest Er) as [Hz Hpos]. split; auto.
        intros Hm. destruct (Hpos Hm) as (nl & Hsl & Hnl & Hsome & Hc3 & Hfr3).
        assert (Hsp' : sp' <> []) by (eapply addr_nonempty; eauto).
        assert (Hc10 : forall q, q <> [] -> osub_at c1 q = osub_at c0 q).
        { intros q Hq. unfold c1. destruct (s_init o); auto. now apply init_field_sub. }
        exists nl. split; [|split; [|split; [discriminate|split]]].
        * rewrite osub_at_field. fold c0. rewrite <- Hc10; auto.
        * rewrite osub_at_field, put_field_get_same; auto.
        * apply Hreb. intros x ->. destruct Hc3 as [Hn3 Hs3]. split; auto.
          clear - Hs3. destruct ss1, x; simpl in *; auto; try (destruct Hs3; discriminate); try discriminate.
        * apply Hfrm. intros q Hq. assert (Hqn : q <> []) by (intros ->; apply Hq, sprefix_nil).
          rewrite <- (Hc10 q Hqn). apply Hfr3. exact Hq.
  Qed.
End SetSpec.

(* SetNode *)
Section SetNode.
  Variable env : enum_env.
  Variable fo : float_oracle.
  Variable ko : key_oracle.

  Theorem set_node_frame o tv S t p sp fl ss t' :
    s_shadow o = false -> s_ignore_extra o = false -> tv_is_nil tv = false ->
    swfb S = true -> cur_ok env fo ko false S (Some t) ->
    addr_of env fo ko S p = Some (sp, fl, ss, false) -> is_leafish ss = true -> p <> [] ->
    set_node env fo ko o tv S t p = Ok t' ->
    exists nl, set_leaf env fo ko o tv ss (sub_at t sp) = (nl, Ok tt)
      /\ sub_at t' sp = nl /\ cur_ok env fo ko false S (Some t') /\ frame (Some t) (Some t') sp.
  Proof.
    intros Hsh Hig Hnil Hw Hcur Ha Hleaf Hp Hset.
    unfold set_node, set_node_st in Hset.
    destruct (set_rec env fo ko o tv (2 * length p + 2) S (Some t) p) as [c' r] eqn:Er.
    destruct r as [n| |]; try discriminate. rewrite Hig in Hset. simpl in Hset.
    destruct (Nat.eqb n O) eqn:En; [discriminate|]. simpl in Hset. injection Hset as <-.
    apply Nat.eqb_neq in En.
    destruct (set_rec_spec env fo ko o tv Hsh Hnil _ _ _ _ _ _ _ _ _ _ Hw Hcur Ha Hleaf Hp Er) as [_ Hpost].
    destruct (Hpost En) as (nl & Hsl & Hnl & Hsome & Hc' & Hfr).
    destruct c' as [x|]; [|congruence]. exists nl. auto.
  Qed.
End SetNode.
