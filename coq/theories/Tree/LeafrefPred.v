(* LeafrefPred.v — leafref validation with key predicates (definitions only).  Generalises
   Tree/Leafref.v, which is left untouched: path elements carry predicates
   [key = current()/<relative path>] and [key = "literal"].

   Transcribed Go: ytypes/leafref.go
     leafRefToGNMIPath ("step one"): every path element goes through extractKeyValue/isKeyValue
       (more than one "[" or "]" in an element: "malformed path element"); a predicate whose value
       is quoted becomes Key{k: literal}; otherwise the operand is evaluated with dataNodesAtPath
       from the leafref leaf (current()) and the key is
         0 nodes (whatever error dataNodesAtPath returned)  -> Key{k: ""}
         1 node                                             -> Key{k: fmt.Sprint(value)}
         more                                               -> error "expect single node to match value"
       Quirk kept: extractKeyValue applies util.StripModulePrefix to the WHOLE operand text; with
       one ":" in it everything up to the colon (including "current()/../") is cut off, with two or
       more the element names keep their prefixes: either way the operand path resolves to no
       node.  The side table records this as `prefixed`.
     dataNodesAtPath ("step two"): the upward walk of Leafref.v (go_up), then ytypes.GetNode with
       GetPartialKeyMatch, GetHandleWildcards, GetTolerateNil on the remaining elements, which now
       carry key maps; nil data is dropped, a zero enumeration is NOT nil (util.IsValueNil): an unset
       enumeration leaf is a node (LNUnsetEnum) that matchesNodes then skips as a default value.
       The per-node memo (PathQueryNodeMemo) only caches results of a tree that does not change
       during validation and is not modelled.
     ytypes/node.go retrieveNodeList with partialKeyMatch and handleWildcards, modelled by its
       result (as `sel` of Leafref.v models GetNode): a single-key map returns every entry when the
       element has no key or the key value is "*", fails when the element has keys but not the
       list's key (only noticed when the map has entries), and otherwise returns the FIRST entry
       whose key string (ygot.KeyValueAsString) equals the path key; a struct-keyed map compares
       only the keys the path names ("*" matches everything) and returns every matching entry.
       The key strings are those of the Go map key (in a well-formed tree the entry's key leaves
       hold the same values; Go's map order makes "first" arbitrary when two entries print alike).
       Ordered-by-user lists are treated like the others (StringToType on the path key is not
       modelled; the corpus has none with a predicate).
     fmt.Sprint of the operand value: coincides with KeyValueAsString (key_to_string) on strings,
       integers, booleans, defined enumeration values (String() = EnumLogString = the YANG name)
       and decimal64 (%v = %g); it differs on Binary ("[1 2]") and on an unset / undefined
       enumeration ("out-of-range <Go type> enum value: <n>").
     ValidateLeafRefData, leafrefErrOrLog, matchesNodes: as in Leafref.v.  Errors of step one and
       of dataNodesAtPath are returned directly (not through leafrefErrOrLog): they are reported
       whatever LeafrefOptions value is given, unless IgnoreMissingData makes the function return
       at once.

   Scope: as Leafref.v (uncompressed structs, no leafref inside an unkeyed list), operands are
   relative paths "../"^n a/b without predicates of their own. *)
From Ygot Require Import Tree.Tree Tree.Codec Tree.TreeOps Tree.KeyCodec Tree.Validate Tree.Defaults Tree.Leafref Scalar.Dec.

(* ---------- leafref paths with predicates (side table printed by vd_leafrefp.go) ---------- *)

Inductive lroperand :=
| OpLit (s : str)                                          (* [k = "literal"] *)
| OpPath (prefixed : bool) (up : nat) (down : list str).   (* [k = current()/../a/b]; prefixed: the operand text holds a ":" *)

Record lrelem := { le_name : str; le_preds : list (str * lroperand) }.
Record lrppath := { lp_abs : bool; lp_up : nat; lp_down : list lrelem }.
Definition lrptab := list (list str * lrppath).

Fixpoint ptab_find (gp : list str) (tab : lrptab) : option lrppath :=
  match tab with
  | [] => None
  | (p, l) :: r => if list_eqb str_eqb p gp then Some l else ptab_find gp r
  end.

(* a predicate-free path of Leafref.v as a path of this file *)
Definition nopred (n : str) : lrelem := {| le_name := n; le_preds := [] |}.
Definition embed_path (lp : lrpath) : lrppath :=
  {| lp_abs := lr_abs lp; lp_up := lr_up lp; lp_down := map nopred (lr_down lp) |}.
Definition embed_tab (tab : lrtab) : lrptab := map (fun pl => (fst pl, embed_path (snd pl))) tab.

(* error classes; a reported error is (Go field name of the leaf, class) *)
Inductive lpcls :=
| PDangling          (* "not equal to any target nodes" / "is empty set" *)
| PNoParent          (* "no parent for leafref path" *)
| PPanic
| PMalformed         (* "malformed path element": more than one predicate on an element *)
| POperandMulti      (* "expect single node to match value at path" *)
| PGetNode.          (* GetNode failed on the main path *)
Definition lperr := (str * lpcls)%type.
Definition embed_cls (e : lerr) : lpcls :=
  match e with ELrDangling => PDangling | ELrNoParent => PNoParent | ELrPanic => PPanic end.

(* a data node GetNode returned *)
Inductive lnode :=
| LNLeaf (v : scalar)
| LNList (vs : list scalar)          (* a leaf-list is one node *)
| LNUnsetEnum (ty : str).            (* an enumeration leaf holding 0 *)
Definition lnode_vals (n : lnode) : list scalar :=
  match n with LNLeaf v => [v] | LNList vs => vs | LNUnsetEnum _ => [] end.

(* gNMI PathElem: name and key map *)
Definition gelem := (str * list (str * str))%type.
Definition nokeys (n : str) : gelem := (n, []).

Definition star_b (s : str) : bool := str_eqb s [42].
Definition OUT_OF_RANGE : str := [111;117;116;45;111;102;45;114;97;110;103;101;32].    (* "out-of-range " *)
Definition ENUM_VALUE : str := [32;101;110;117;109;32;118;97;108;117;101;58;32].       (* " enum value: " *)
Definition enum_ty (t : ytype) : option str :=
  match resolve_lref t with YEnum ty | YIdref ty => Some ty | _ => None end.

Section Pred.
  Variable env : enum_env.
  Variable ko : key_oracle.

  (* ygot.KeyValueAsString *)
  Definition kstr (v : scalar) : option str :=
    match key_to_string env ko v with Ok s => Some s | _ => None end.

  (* fmt.Sprint *)
  Definition oor (ty : str) (n : Z) : str := OUT_OF_RANGE ++ ty ++ ENUM_VALUE ++ dec_of_Z n.
  Definition go_sprint (v : scalar) : str :=
    match v with
    | VBin bs => 91 :: join_with 32 (map dec_of_N bs) ++ [93]
    | VEnum ty n => match enum_by_num (enum_table env ty) n with Some e => ev_name e | None => oor ty n end
    | _ => match kstr v with Some s => s | None => [] end
    end.
  Definition node_sprint (n : lnode) : str :=
    match n with
    | LNLeaf v => go_sprint v
    | LNList vs => 91 :: join_with 32 (map go_sprint vs) ++ [93]
    | LNUnsetEnum ty => oor ty 0
    end.

  (* ---------- GetNode with partial key match on paths whose elements carry key maps ---------- *)

  (* the comparison loop over the fields of a struct key: keys the path does not name are skipped *)
  Fixpoint keys_match_p (ek : list (str * str)) (keys : list str) (mk : list scalar) : option bool :=
    match keys, mk with
    | k :: ks, v :: vs =>
        match al_find k ek with
        | None => keys_match_p ek ks vs
        | Some pk =>
            match kstr v with
            | Some s => if star_b pk || str_eqb s pk then keys_match_p ek ks vs else Some false
            | None => None
            end
        end
    | _, _ => Some true
    end.

  (* the nodes below every matching entry; None: an error *)
  Fixpoint ents_all (m : list scalar -> option bool) (f : list (str * tree) -> option (list lnode))
                    (es : list (list scalar * tree)) : option (list lnode) :=
    match es with
    | [] => Some []
    | ke :: r =>
        match m (fst ke) with
        | Some true =>
            match f (fields_of (snd ke)) with
            | Some a => match ents_all m f r with Some b => Some (a ++ b) | None => None end
            | None => None
            end
        | Some false => ents_all m f r
        | None => None
        end
    end.
  (* the nodes below the first matching entry ("return nodes, nil") *)
  Fixpoint ents_first (m : list scalar -> option bool) (f : list (str * tree) -> option (list lnode))
                      (es : list (list scalar * tree)) : option (list lnode) :=
    match es with
    | [] => Some []
    | ke :: r =>
        match m (fst ke) with
        | Some true => f (fields_of (snd ke))
        | Some false => ents_first m f r
        | None => None
        end
    end.

  Definition single_match (pk : str) (mk : list scalar) : option bool :=
    match mk with
    | v :: _ => match kstr v with Some s => Some (str_eqb s pk) | None => None end
    | [] => None
    end.

  (* retrieveNodeList *)
  Definition sel_list (keys : list str) (ek : list (str * str)) (f : list (str * tree) -> option (list lnode))
                      (es : list (list scalar * tree)) : option (list lnode) :=
    match keys with
    | [k] =>
        match ek with
        | [] => ents_all (fun _ => Some true) f es
        | _ :: _ =>
            match al_find k ek with
            | None => if nil_b es then Some [] else None      (* "schema key ... is not found in gNMI path" *)
            | Some pk => if star_b pk then ents_all (fun _ => Some true) f es
                         else ents_first (single_match pk) f es
            end
        end
    | _ => ents_all (keys_match_p ek keys) f es
    end.

  Fixpoint selp (downs : list gelem) (sfs : list (finfo * schema)) (fs : list (str * tree)) {struct downs}
    : option (list lnode) :=
    match downs with
    | [] => Some []
    | e :: rest =>
        match key_field sfs (fst e) with
        | None => Some []
        | Some (fi, ss) =>
            match ss, field_get (f_go fi) fs with
            | SLeaf _ _, Some (TLeaf v) => Some (if nil_b rest then [LNLeaf v] else [])
            | SLeaf t _, None =>
                Some (if nil_b rest then match enum_ty t with Some ty => [LNUnsetEnum ty] | None => [] end else [])
            | SLeafList _ _ _, Some (TLeafList vs) => Some (if nil_b rest then [LNList vs] else [])
            | SCont sfs', o => selp rest sfs' (cont_fields o)
            | SList _ keys _ _ sfs', Some (TList es) => sel_list keys (snd e) (selp rest sfs') es
            | SUnkeyed sfs', Some (TUnkeyed es) =>
                ents_all (fun _ => Some true) (selp rest sfs') (map (fun x => ([], x)) es)
            | _, _ => Some []
            end
        end
    end.

  Section Root.
    Variable lrfix : bool.
    Variable tab : lrptab.
    Variable sfs0 : list (finfo * schema).      (* the root struct *)
    Variable fs0 : list (str * tree).

    (* dataNodesAtPath: the struct the downward part starts from *)
    Definition go_ctx (loc : list sstep) (abs : bool) (up : nat) : option (list (finfo * schema) * list (str * tree)) :=
      if abs then Some (sfs0, fs0)
      else match up with
           | O => None
           | S k => match go_up k (rev loc) with
                    | None => None
                    | Some r => reach sfs0 fs0 (rev r)
                    end
           end.

    Inductive tres := TNoParent | TGetErr | TNodes (l : list lnode).
    Definition go_nodes (loc : list sstep) (abs : bool) (up : nat) (gp : list gelem) : tres :=
      match go_ctx loc abs up with
      | None => TNoParent
      | Some (sfs, fs) => match selp gp sfs fs with Some l => TNodes l | None => TGetErr end
      end.

    (* step one, one predicate: the key value; None: "expect single node" *)
    Definition operand_key (loc : list sstep) (op : lroperand) : option str :=
      match op with
      | OpLit s => Some s
      | OpPath true _ _ => Some []
      | OpPath false up down =>
          match go_nodes loc false up (map nokeys down) with
          | TNodes [n] => Some (node_sprint n)
          | TNodes (_ :: _ :: _) => None
          | _ => Some []
          end
      end.

    Inductive s1res := S1Ok (p : list gelem) | S1Err (c : lpcls).
    Fixpoint resolve (loc : list sstep) (els : list lrelem) : s1res :=
      match els with
      | [] => S1Ok []
      | e :: r =>
          match le_preds e with
          | [] => match resolve loc r with S1Ok p => S1Ok ((le_name e, []) :: p) | S1Err c => S1Err c end
          | [kp] =>
              match operand_key loc (snd kp) with
              | None => S1Err POperandMulti
              | Some j => match resolve loc r with
                          | S1Ok p => S1Ok ((le_name e, [(fst kp, j)]) :: p)
                          | S1Err c => S1Err c
                          end
              end
          | _ :: _ :: _ => S1Err PMalformed
          end
      end.

    Definition check_leaf_p (mode : lrmode) (loc : list sstep) (lp : lrppath) (v : scalar) : list lpcls :=
      match resolve loc (lp_down lp) with
      | S1Err c => [c]
      | S1Ok gp =>
          match go_nodes loc (lp_abs lp) (lp_up lp) gp with
          | TNoParent => [PNoParent]
          | TGetErr => [PGetNode]
          | TNodes ns =>
              let ts := flat_map lnode_vals ns in
              match ts, v with
              | _ :: _, VBin _ => [PPanic]
              | _, _ =>
                  if existsb (lr_eq v) ts then []
                  else if reports lrfix mode then [PDangling] else []
              end
          end
      end.

    Fixpoint walk_p (mode : lrmode) (gp : list str) (loc : list sstep) (t : tree) {struct t} : list lperr :=
      match t with
      | TCont fs =>
          flat_map (fun nt =>
            let name := fst nt in
            match snd nt with
            | TLeaf v => match ptab_find (gp ++ [name]) tab with
                         | Some lp => map (fun c => (name, c)) (check_leaf_p mode loc lp v)
                         | None => []
                         end
            | TLeafList _ => []
            | TCont _ => walk_p mode (gp ++ [name]) (loc ++ [StC name]) (snd nt)
            | TList es => flat_map (fun ke => walk_p mode (gp ++ [name]) (loc ++ [StL name (fst ke)]) (snd ke)) es
            | TUnkeyed es =>
                (fix go (i : nat) (l : list tree) : list lperr :=
                   match l with
                   | [] => []
                   | e :: r => walk_p mode (gp ++ [name]) (loc ++ [StU name i]) e ++ go (S i) r
                   end) O es
            end) fs
      | _ => []
      end.

    Definition validate_leafrefs_p (mode : lrmode) : list lperr :=
      match mode with
      | LrIgnore => []
      | _ => walk_p mode [] [] (TCont fs0)
      end.

    (* ---------- denotation (RFC 7950 9.9 and 9.9.2, XPath 1.0 3.4): the path is evaluated with
       the leaf as context node; a predicate [k = current()/p] keeps the entries whose key k has a
       string value equal to the string value of SOME node p selects from the leaf (none if p
       selects nothing); several predicates are a conjunction ---------- *)

    Definition ctx (loc : list sstep) (abs : bool) (up : nat) : option (list (finfo * schema) * list (str * tree)) :=
      if abs then Some (sfs0, fs0)
      else if Nat.eqb up 0 then None
      else if Nat.ltb (length loc) (up - 1) then None
      else reach sfs0 fs0 (firstn (length loc - (up - 1)) loc).

    (* the string values of the operand's nodes *)
    Definition den_operand (loc : list sstep) (op : lroperand) : list str :=
      match op with
      | OpLit s => [s]
      | OpPath _ up down =>
          match select sfs0 fs0 loc {| lr_abs := false; lr_up := up; lr_down := down |} with
          | Some vs => flat_map (fun v => match kstr v with Some s => [s] | None => [] end) vs
          | None => []
          end
      end.

    (* the string value of key k of an entry *)
    Fixpoint key_str_of (k : str) (keys : list str) (mk : list scalar) : option str :=
      match keys, mk with
      | k' :: ks, v :: vs => if str_eqb k' k then kstr v else key_str_of k ks vs
      | _, _ => None
      end.

    Definition den_match (loc : list sstep) (ps : list (str * lroperand)) (keys : list str) (mk : list scalar) : bool :=
      forallb (fun kp => match key_str_of (fst kp) keys mk with
                         | Some s => existsb (str_eqb s) (den_operand loc (snd kp))
                         | None => false
                         end) ps.

    Fixpoint seld (loc : list sstep) (downs : list lrelem) (sfs : list (finfo * schema)) (fs : list (str * tree))
             {struct downs} : list scalar :=
      match downs with
      | [] => []
      | e :: rest =>
          match key_field sfs (le_name e) with
          | None => []
          | Some (fi, ss) =>
              match ss, field_get (f_go fi) fs with
              | SLeaf _ _, Some (TLeaf v) => if nil_b rest then [v] else []
              | SLeafList _ _ _, Some (TLeafList vs) => if nil_b rest then vs else []
              | SCont sfs', o => seld loc rest sfs' (cont_fields o)
              | SList _ keys _ _ sfs', Some (TList es) =>
                  flat_map (fun ke => seld loc rest sfs' (fields_of (snd ke)))
                           (filter (fun ke => den_match loc (le_preds e) keys (fst ke)) es)
              | SUnkeyed sfs', Some (TUnkeyed es) => flat_map (fun x => seld loc rest sfs' (fields_of x)) es
              | _, _ => []
              end
          end
      end.

    Definition satisfied_p (loc : list sstep) (lp : lrppath) (v : scalar) : bool :=
      match ctx loc (lp_abs lp) (lp_up lp) with
      | Some (sfs, fs) => existsb (scalar_eqb v) (seld loc (lp_down lp) sfs fs)
      | None => false
      end.

    (* every set leafref leaf: data steps to its struct, Go field name, path, value *)
    Record lrleaf := { ll_loc : list sstep; ll_name : str; ll_path : lrppath; ll_val : scalar }.
    Fixpoint lrp_leaves (gp : list str) (loc : list sstep) (t : tree) {struct t} : list lrleaf :=
      match t with
      | TCont fs =>
          flat_map (fun nt =>
            let name := fst nt in
            match snd nt with
            | TLeaf v => match ptab_find (gp ++ [name]) tab with
                         | Some lp => [{| ll_loc := loc; ll_name := name; ll_path := lp; ll_val := v |}]
                         | None => []
                         end
            | TLeafList _ => []
            | TCont _ => lrp_leaves (gp ++ [name]) (loc ++ [StC name]) (snd nt)
            | TList es => flat_map (fun ke => lrp_leaves (gp ++ [name]) (loc ++ [StL name (fst ke)]) (snd ke)) es
            | TUnkeyed es =>
                (fix go (i : nat) (l : list tree) : list lrleaf :=
                   match l with
                   | [] => []
                   | e :: r => lrp_leaves (gp ++ [name]) (loc ++ [StU name i]) e ++ go (S i) r
                   end) O es
            end) fs
      | _ => []
      end.
    Definition all_lrp_leaves : list lrleaf := lrp_leaves [] [] (TCont fs0).

    (* ---------- guards of the exactness theorem ---------- *)

    (* step one of a predicate is regular: one key value was computed, it is not the wildcard,
       and it is the string of the operand's only value unless the operand selects no value *)
    Definition pred_regular (loc : list sstep) (kp : str * lroperand) : bool :=
      match operand_key loc (snd kp) with
      | None => false
      | Some j => negb (star_b j) &&
                  match den_operand loc (snd kp) with
                  | [] => true
                  | [s] => str_eqb s j
                  | _ => false
                  end
      end.
    Definition elem_regular (loc : list sstep) (e : lrelem) : bool :=
      match le_preds e with [] => true | [kp] => pred_regular loc kp | _ => false end.

    (* the key value step one substitutes *)
    Definition okey (loc : list sstep) (op : lroperand) : str :=
      match operand_key loc op with Some j => j | None => [] end.

    (* a list an element with a predicate on key k addresses: k is one of its (distinct) keys,
       every entry's key prints, when the operand selects no value no entry carries the substituted
       key, and the entries of a single-key list print differently *)
    Definition list_ok (loc : list sstep) (ps : list (str * lroperand)) (keys : list str)
                       (es : list (list scalar * tree)) : bool :=
      match ps with
      | [] => true
      | [kp] =>
          nodup_strs keys && existsb (fun k' => str_eqb k' (fst kp)) keys &&
          forallb (fun ke => match key_str_of (fst kp) keys (fst ke) with
                             | Some s => negb (nil_b (den_operand loc (snd kp))) || negb (str_eqb s (okey loc (snd kp)))
                             | None => false
                             end) es &&
          match keys with
          | [_] => nodup_strs (map (fun ke => match key_str_of (fst kp) keys (fst ke) with Some s => s | None => [] end) es)
          | _ => true
          end
      | _ => false
      end.

    Fixpoint descent_ok (loc : list sstep) (downs : list lrelem) (sfs : list (finfo * schema)) (fs : list (str * tree))
             {struct downs} : bool :=
      match downs with
      | [] => true
      | e :: rest =>
          match key_field sfs (le_name e) with
          | None => true
          | Some (fi, ss) =>
              match ss, field_get (f_go fi) fs with
              | SCont sfs', o => descent_ok loc rest sfs' (cont_fields o)
              | SList _ keys _ _ sfs', Some (TList es) =>
                  list_ok loc (le_preds e) keys es &&
                  forallb (fun ke => descent_ok loc rest sfs' (fields_of (snd ke))) es
              | SUnkeyed sfs', Some (TUnkeyed es) => forallb (fun x => descent_ok loc rest sfs' (fields_of x)) es
              | _, _ => true
              end
          end
      end.

    Definition leaf_regular (loc : list sstep) (lp : lrppath) : bool :=
      loc_keyed loc && forallb (elem_regular loc) (lp_down lp) &&
      match ctx loc (lp_abs lp) (lp_up lp) with
      | Some (sfs, fs) => descent_ok loc (lp_down lp) sfs fs
      | None => true
      end.
  End Root.
End Pred.
