(* NodeStepProofs.v — building blocks for reasoning about Node.set_rec (SetNode) on
   schema-conforming trees, used by C02/C16 (the general frame theorem for SetNode by structural
   addresses is Tree/NodeFrameProofs.v of the C10 task; this file is independent of it):
   1. paths against struct tags: which field find_field selects (find_field_hit);
   2. the algebra of field_set / field_get on the fields of a struct kept in schema order
      (restrict, field_set_restrict, field_set_twice, field_get_set_same / _other);
   3. one-step equations of set_rec: through a container field, a list field, into a leaf, a
      leaf-list; through a list entry that exists / that is created (lemmas set_rec_...);
   4. the local frame lemma: a SetNode step through field n leaves every other field of the
      struct untouched (set_rec_struct_frame). *)
From Ygot Require Import Tree.Tree Scalar.Dec Scalar.Base64 Tree.Codec Tree.CodecProofs.
From Ygot Require Import Tree.TreeOps Tree.Render Tree.Unmarshal Tree.RoundTrip Tree.RoundTripObjProofs Tree.RoundTripProofs.
From Ygot Require Import Tree.KeyCodec Tree.Leaves Tree.Node Path.PathRel Tree.KeyCodecProofs.

(* ====================================================================================== *)
(* 1. Paths and struct tags                                                                *)
(* ====================================================================================== *)

Definition pnames (p : dpath) : list str := map ename p.

Lemma pnames_app a b : pnames (a ++ b) = pnames a ++ pnames b.
Proof. apply map_app. Qed.

Lemma pnames_of_names l : pnames (path_of_names l) = l.
Proof. unfold pnames, path_of_names. rewrite map_map. simpl. apply map_id. Qed.

Lemma names_prefix_is_prefixb pre : forall path, names_prefix pre path = is_prefixb pre (pnames path).
Proof.
  induction pre as [|n pre IH]; intros [|e path]; simpl; auto. now rewrite IH.
Qed.

Definition names_nonemptyb (l : list str) : bool := forallb (fun n => negb (nil_b n)) l.

Lemma trim_trailing_nonempty l : names_nonemptyb l = true -> trim_trailing_empty l = l.
Proof.
  induction l as [|x r IH]; simpl; intros H; auto.
  apply andb_true_iff in H as [H1 H2]. rewrite (IH H2).
  destruct r; [|reflexivity]. destruct x; [discriminate | reflexivity].
Qed.

Lemma is_prefixb_length p : forall q, is_prefixb p q = true -> (length p <= length q)%nat.
Proof.
  induction p as [|x p IH]; intros [|y q]; simpl; intros H; try discriminate; try lia.
  apply andb_true_iff in H as [_ H]. apply IH in H. lia.
Qed.

(* PathMatchesPrefix for a tag alternative without empty names *)
Lemma path_matches_prefix_spec path pre :
  names_nonemptyb pre = true -> path_matches_prefix path pre = is_prefixb pre (pnames path).
Proof.
  intros H. unfold path_matches_prefix. rewrite (trim_trailing_nonempty pre H), names_prefix_is_prefixb.
  destruct (Nat.ltb (length path) (length pre)) eqn:E; [|reflexivity].
  apply Nat.ltb_lt in E. destruct (is_prefixb pre (pnames path)) eqn:P; [|reflexivity].
  apply is_prefixb_length in P. unfold pnames in P. rewrite map_length in P. lia.
Qed.

(* two prefixes of one list are comparable *)
Lemma is_prefixb_comparable a : forall b l,
  is_prefixb a l = true -> is_prefixb b l = true -> is_prefixb a b = true \/ is_prefixb b a = true.
Proof.
  induction a as [|x a IH]; intros b l Ha Hb; [left; reflexivity|].
  destruct b as [|y b]; [right; reflexivity|].
  destruct l as [|z l]; [discriminate|]. simpl in Ha, Hb.
  apply andb_true_iff in Ha as [Ha1 Ha2]. apply andb_true_iff in Hb as [Hb1 Hb2].
  apply cstr_eqb_eq in Ha1. apply cstr_eqb_eq in Hb1. subst. simpl.
  rewrite cstr_eqb_refl. simpl. eapply IH; eauto.
Qed.

Lemma incomp_not_both_prefix a b l :
  incomp a b -> is_prefixb a l = true -> is_prefixb b l = true -> False.
Proof.
  unfold incomp, incompb. intros H Ha Hb. apply andb_true_iff in H as [H1 H2].
  apply negb_true_iff in H1. apply negb_true_iff in H2.
  destruct (is_prefixb_comparable a b l Ha Hb); congruence.
Qed.

(* the gNMI-side schema guard on one struct: RoundTrip.struct_okb (fields distinct, their path
   alternatives pairwise incomparable) and no empty element name in a tag *)
Definition gn_struct_okb (sfs : list (finfo * schema)) : bool :=
  struct_okb sfs && forallb (fun fs => forallb names_nonemptyb (field_alts (fst fs))) sfs.

Lemma gn_struct_parts sfs : gn_struct_okb sfs = true ->
  struct_okb sfs = true /\
  forall fi ss a, In (fi, ss) sfs -> In a (field_alts fi) -> names_nonemptyb a = true.
Proof.
  unfold gn_struct_okb. intros H. apply andb_true_iff in H as [H1 H2]. split; auto.
  intros fi ss a Hin Ha. rewrite forallb_forall in H2. specialize (H2 _ Hin). simpl in H2.
  rewrite forallb_forall in H2. auto.
Qed.

Section FindField.
  Variable path : dpath.

  Lemma try_paths_miss fi ss sl ok : forall ps,
    (forall b, In b ps -> names_nonemptyb b = true /\ is_prefixb b (pnames path) = false) ->
    try_paths false path fi ss ps sl ok = None.
  Proof.
    induction ps as [|b r IH]; intros H; [reflexivity|]. simpl.
    destruct (H b (or_introl eq_refl)) as [Hn Hp].
    rewrite path_matches_prefix_spec, Hp by assumption.
    rewrite !andb_false_r. apply IH. intros b' Hb'. apply H. now right.
  Qed.

  Lemma try_paths_hit fi ss sl ok a : forall ps,
    pairwise ps -> (forall b, In b ps -> names_nonemptyb b = true) -> In a ps ->
    is_prefixb a (pnames path) = true ->
    try_paths false path fi ss ps sl ok = Some (FMPath fi ss a sl).
  Proof.
    induction ps as [|b r IH]; intros Hpw Hne Hin Hp; [destruct Hin|]. simpl.
    rewrite path_matches_prefix_spec by (apply Hne; now left).
    destruct Hin as [->|Hin]; [now rewrite Hp|].
    destruct Hpw as [H1 H2].
    destruct (is_prefixb b (pnames path)) eqn:Pb.
    - exfalso. eapply (incomp_not_both_prefix b a); eauto.
    - rewrite !andb_false_r. apply IH; auto. intros b' Hb'. apply Hne. now right.
  Qed.

  (* the path continues in field fi through its alternative a *)
  Lemma find_field_hit : forall sfs fi ss a,
    gn_struct_okb sfs = true -> In (fi, ss) sfs -> In a (f_paths fi) ->
    is_prefixb a (pnames path) = true ->
    find_field false false path sfs = FMPath fi ss a false.
  Proof.
    intros sfs fi ss a Hok. destruct (gn_struct_parts sfs Hok) as [Hs Hne].
    destruct (struct_facts sfs Hs) as (Hnd & Hfo & Hdis & _).
    clear Hok Hs. revert Hnd Hfo Hdis Hne.
    induction sfs as [|[fj sj] r IH]; intros Hnd Hfo Hdis Hne Hin Ha Hp; [destruct Hin|].
    cbn [find_field andb negb].
    destruct Hin as [E|Hin].
    - injection E as -> ->.
      destruct (field_okb_paths fi (Hfo fi ss (or_introl eq_refl))) as (P1 & _ & _).
      rewrite (try_paths_hit fi ss false true a (f_paths fi)); auto using prefix_freeb_pairwise.
      intros b Hb. apply (Hne fi ss b (or_introl eq_refl)). unfold field_alts. apply in_or_app. now left.
    - assert (Hmiss : forall b, In b (field_alts fj) -> names_nonemptyb b = true /\ is_prefixb b (pnames path) = false).
      { intros b Hb. split; [apply (Hne fj sj b (or_introl eq_refl) Hb)|].
        destruct (is_prefixb b (pnames path)) eqn:Pb; [|reflexivity]. exfalso.
        assert (Hinc : incomp b a).
        { eapply (disjoint_later ((fj, sj) :: r) [] (fj, sj) r Hdis eq_refl (fi, ss)); eauto.
          unfold alts_of, field_alts. simpl. apply in_or_app. now left. }
        eapply incomp_not_both_prefix; eauto. }
      rewrite try_paths_miss by (intros b Hb; apply Hmiss; unfold field_alts; apply in_or_app; now left).
      rewrite try_paths_miss by (intros b Hb; apply Hmiss; unfold field_alts; apply in_or_app; now right).
      apply IH; auto.
      + simpl in Hnd. now inversion Hnd.
      + intros f0 s0 H0. eapply Hfo. right. eauto.
      + simpl in Hdis. apply andb_true_iff in Hdis as [_ Hdis]. exact Hdis.
      + intros f0 s0 b H0. eapply Hne. right. eauto.
  Qed.
End FindField.

(* ====================================================================================== *)
(* 2. Fields of a struct in schema order                                                   *)
(* ====================================================================================== *)

Definition in_names (D : list str) (n : str) : bool := existsb (str_eqb n) D.
Definition restrict (D : list str) (fs : list (str * tree)) : list (str * tree) :=
  filter (fun nt => in_names D (fst nt)) fs.

Lemma in_names_In D n : in_names D n = true <-> In n D.
Proof.
  unfold in_names. rewrite existsb_exists. split.
  - intros (x & Hx & E). apply cstr_eqb_eq in E. now subst.
  - intros H. exists n. split; auto using cstr_eqb_refl.
Qed.

Lemma in_names_app D E n : in_names (D ++ E) n = in_names D n || in_names E n.
Proof. unfold in_names. apply existsb_app. Qed.

Lemma restrict_all D fs : (forall n, In n (map fst fs) -> In n D) -> restrict D fs = fs.
Proof.
  induction fs as [|[n t] r IH]; simpl; intros H; auto.
  assert (E : in_names D n = true) by (apply in_names_In; apply H; now left).
  rewrite E. f_equal. apply IH. intros m Hm. apply H. now right.
Qed.

Lemma restrict_nil fs : restrict [] fs = [].
Proof. induction fs as [|[n t] r IH]; simpl; auto. Qed.

Lemma restrict_ext D E fs : (forall n, In n (map fst fs) -> in_names D n = in_names E n) ->
  restrict D fs = restrict E fs.
Proof.
  induction fs as [|[n t] r IH]; simpl; intros H; auto.
  rewrite (H n (or_introl eq_refl)). rewrite IH; auto.
Qed.

Lemma field_get_restrict D n fs :
  field_get n (restrict D fs) = if in_names D n then field_get n fs else None.
Proof.
  induction fs as [|[m t] r IH]; simpl; [now destruct (in_names D n)|].
  destruct (in_names D m) eqn:Em; simpl.
  - destruct (str_eqb m n) eqn:E.
    + apply cstr_eqb_eq in E. subst. now rewrite Em.
    + exact IH.
  - destruct (str_eqb m n) eqn:E.
    + apply cstr_eqb_eq in E. subst. rewrite Em in *. exact IH.
    + exact IH.
Qed.

Lemma field_get_In n t fs : NoDup (map fst fs) -> In (n, t) fs -> field_get n fs = Some t.
Proof.
  induction fs as [|[m u] r IH]; simpl; intros Hd []; inversion Hd; subst.
  - injection H as -> ->. now rewrite cstr_eqb_refl.
  - destruct (str_eqb m n) eqn:E; auto.
    apply cstr_eqb_eq in E. subst. exfalso. apply H2. change n with (fst (n, t)). now apply in_map.
Qed.

Lemma field_get_Some_In n t fs : field_get n fs = Some t -> In (n, t) fs.
Proof.
  induction fs as [|[m u] r IH]; simpl; [discriminate|].
  destruct (str_eqb m n) eqn:E; auto. apply cstr_eqb_eq in E. intros [= ->]. subst. now left.
Qed.

(* fs lists fields in the order `order` (a NoDup list of names) *)
Definition ordered_in (order : list str) (fs : list (str * tree)) : Prop :=
  subseq (map fst fs) order.

Lemma subseq_filter_names (P : str * tree -> bool) fs order :
  subseq (map fst fs) order -> subseq (map fst (filter P fs)) order.
Proof.
  revert order. induction fs as [|x r IH]; intros order H; simpl; [constructor|].
  destruct (P x); simpl.
  - remember (map fst (x :: r)) as l eqn:El. revert El. induction H; intros El; try discriminate.
    + simpl in El. injection El as -> ->. constructor. apply IH. assumption.
    + constructor. auto.
  - apply IH. simpl in H. remember (fst x :: map fst r) as l eqn:El. revert El.
    induction H; intros El; try discriminate.
    + injection El as -> ->. now constructor.
    + constructor. auto.
Qed.

Lemma subseq_cons_inv {A} (x : A) a l : subseq (x :: a) l -> exists l1 l2, l = l1 ++ x :: l2 /\ subseq a l2.
Proof.
  remember (x :: a) as xa eqn:E. intros H. revert E. induction H; intros E; try discriminate.
  - injection E as -> ->. exists [], l. auto.
  - destruct (IHsubseq E) as (l1 & l2 & -> & Hs). exists (x0 :: l1), l2. auto.
Qed.

(* ---------- one step of field_set ---------- *)

Lemma field_set_nil order name v : field_set order name v [] = [(name, v)].
Proof. destruct order; simpl; [reflexivity|]. destruct (str_eqb s name); reflexivity. Qed.

Lemma field_set_here o order v t r : field_set (o :: order) o v ((o, t) :: r) = (o, v) :: r.
Proof. simpl. now rewrite !cstr_eqb_refl. Qed.

Lemma field_set_absent o order name v fs : ~ In o (map fst fs) ->
  field_set (o :: order) name v fs = if str_eqb o name then (name, v) :: fs else field_set order name v fs.
Proof.
  intros Hn. simpl. destruct (str_eqb o name) eqn:E.
  - destruct fs as [|[n t] r]; [reflexivity|].
    destruct (str_eqb n name) eqn:En; [|reflexivity].
    apply cstr_eqb_eq in E. apply cstr_eqb_eq in En. subst. exfalso. apply Hn. now left.
  - destruct fs as [|[n t] r]; [now rewrite field_set_nil|].
    destruct (str_eqb n o) eqn:En; [|reflexivity].
    apply cstr_eqb_eq in En. subst. exfalso. apply Hn. now left.
Qed.

Lemma field_set_skip o order name v t r : o <> name ->
  field_set (o :: order) name v ((o, t) :: r) = (o, t) :: field_set order name v r.
Proof.
  intros Hne. simpl. apply str_eqb_false_neq in Hne. now rewrite Hne, cstr_eqb_refl.
Qed.

Lemma restrict_names D fs n : In n (map fst (restrict D fs)) -> In n (map fst fs).
Proof.
  unfold restrict. intros H. apply in_map_iff in H as (x & <- & Hx). apply filter_In in Hx as [Hx _].
  now apply in_map.
Qed.

Lemma restrict_cons D n t r :
  restrict D ((n, t) :: r) = if in_names D n then (n, t) :: restrict D r else restrict D r.
Proof. reflexivity. Qed.

Lemma in_names_cons m D n : in_names (m :: D) n = str_eqb n m || in_names D n.
Proof. reflexivity. Qed.

(* setting field `name` (value v, present in the final field list fs) in the part of fs
   restricted to D gives the part of fs restricted to D + name *)
Lemma field_set_restrict : forall order fs D name v,
  NoDup order -> subseq (map fst fs) order -> In (name, v) fs ->
  field_set order name v (restrict D fs) = restrict (name :: D) fs.
Proof.
  induction order as [|o order IH]; intros fs D name v Hd Hs Hin.
  - apply subseq_nil_r in Hs. destruct fs; [destruct Hin | discriminate].
  - inversion Hd as [|? ? Ho Hd']; subst.
    assert (Hcases : (exists t r, fs = (o, t) :: r /\ subseq (map fst r) order) \/ subseq (map fst fs) order).
    { destruct fs as [|[n t] r]; [right; constructor|]. simpl in Hs. inversion Hs; subst; eauto. }
    destruct Hcases as [(t & r & -> & Hs')|Hs'].
    + assert (Hnr : ~ In o (map fst r)) by (intros Hx; apply Ho; eapply subseq_In; eauto).
      assert (Hnr' : forall E, ~ In o (map fst (restrict E r))) by (intros E Hx; apply Hnr; eapply restrict_names; eauto).
      rewrite !restrict_cons, in_names_cons.
      destruct (str_eqb o name) eqn:E.
      * apply cstr_eqb_eq in E. subst name.
        assert (v = t).
        { destruct Hin as [[= <-]|Hin]; auto. exfalso. apply Hnr. change o with (fst (o, v)). now apply in_map. }
        subst v. cbn [orb].
        assert (Er : restrict (o :: D) r = restrict D r).
        { apply restrict_ext. intros m Hm. rewrite in_names_cons.
          destruct (str_eqb m o) eqn:Em; auto. apply cstr_eqb_eq in Em. subst. contradiction. }
        rewrite Er. destruct (in_names D o).
        -- apply field_set_here.
        -- rewrite field_set_absent by apply Hnr'. now rewrite cstr_eqb_refl.
      * assert (Hne : o <> name) by now apply str_eqb_false_neq.
        assert (Hin' : In (name, v) r).
        { destruct Hin as [[= -> _]|Hin]; auto. congruence. }
        cbn [orb]. destruct (in_names D o).
        -- rewrite field_set_skip by assumption. f_equal. apply IH; auto.
        -- rewrite field_set_absent by apply Hnr'. rewrite E. apply IH; auto.
    + assert (Hno : ~ In o (map fst fs)) by (intros Hx; apply Ho; eapply subseq_In; eauto).
      assert (E : str_eqb o name = false).
      { apply str_eqb_false_neq. intros ->. apply Hno. change name with (fst (name, v)). now apply in_map. }
      rewrite field_set_absent by (intros Hx; apply Hno; eapply restrict_names; eauto).
      rewrite E. apply IH; auto.
Qed.

(* ---------- field_set on a sorted field list: idempotence, lookup, frame ---------- *)

Lemma field_set_names order n c : forall fs m,
  In m (map fst (field_set order n c fs)) -> m = n \/ In m (map fst fs).
Proof.
  induction order as [|o order IH]; intros fs m H.
  - simpl in H. rewrite map_app in H. apply in_app_or in H as [H|[H|[]]]; auto.
  - simpl in H. destruct (str_eqb o n) eqn:E.
    + destruct fs as [|[n0 t0] r]; [destruct H as [H|[]]; auto|].
      destruct (str_eqb n0 n) eqn:E0.
      * apply cstr_eqb_eq in E0. subst. simpl in H |- *. destruct H; auto.
      * simpl in H |- *. destruct H as [H|[H|H]]; auto.
    + destruct fs as [|[n0 t0] r]; [destruct H as [H|[]]; auto|].
      destruct (str_eqb n0 o) eqn:E0.
      * simpl in H |- *. destruct H as [H|H]; auto. apply IH in H as [H|H]; auto.
      * apply IH in H. exact H.
Qed.

(* a sorted field list either starts with the first name of the order or does not contain it *)
Lemma sorted_cases o order (fs : list (str * tree)) : NoDup (o :: order) -> subseq (map fst fs) (o :: order) ->
  (exists t r, fs = (o, t) :: r /\ subseq (map fst r) order /\ ~ In o (map fst r))
  \/ (subseq (map fst fs) order /\ ~ In o (map fst fs)).
Proof.
  intros Hd Hs. inversion Hd as [|? ? Ho Hd']; subst.
  destruct fs as [|[n t] r].
  - right. split; [constructor | intros []].
  - simpl in Hs. inversion Hs; subst.
    + left. exists t, r. repeat split; auto. intros Hx. apply Ho. eapply subseq_In; eauto.
    + right. split; auto. intros Hx. apply Ho. eapply subseq_In; eauto.
Qed.

Lemma field_set_sorted : forall order fs n c,
  NoDup order -> subseq (map fst fs) order -> In n order ->
  subseq (map fst (field_set order n c fs)) order.
Proof.
  induction order as [|o order IH]; intros fs n c Hd Hs Hn; [destruct Hn|].
  inversion Hd as [|? ? Ho Hd']; subst.
  destruct (sorted_cases o order fs Hd Hs) as [(t & r & -> & Hr & Hnr)|[Hs' Hno]].
  - destruct (str_eqb o n) eqn:E.
    + apply cstr_eqb_eq in E. subst n. rewrite field_set_here. simpl. now constructor.
    + assert (o <> n) by now apply str_eqb_false_neq.
      rewrite field_set_skip by assumption. simpl. constructor. apply IH; auto.
      destruct Hn; congruence.
  - rewrite field_set_absent by assumption. destruct (str_eqb o n) eqn:E.
    + apply cstr_eqb_eq in E. subst n. simpl. now constructor.
    + constructor. apply IH; auto. apply str_eqb_false_neq in E. destruct Hn; congruence.
Qed.

Lemma field_set_twice : forall order fs n c c',
  NoDup order -> subseq (map fst fs) order -> In n order ->
  field_set order n c' (field_set order n c fs) = field_set order n c' fs.
Proof.
  induction order as [|o order IH]; intros fs n c c' Hd Hs Hn; [destruct Hn|].
  inversion Hd as [|? ? Ho Hd']; subst.
  destruct (sorted_cases o order fs Hd Hs) as [(t & r & -> & Hr & Hnr)|[Hs' Hno]].
  - destruct (str_eqb o n) eqn:E.
    + apply cstr_eqb_eq in E. subst n. now rewrite !field_set_here.
    + assert (o <> n) by now apply str_eqb_false_neq.
      rewrite !field_set_skip by assumption. f_equal. apply IH; auto. destruct Hn; congruence.
  - rewrite (field_set_absent o order n c fs) by assumption.
    rewrite (field_set_absent o order n c' fs) by assumption.
    destruct (str_eqb o n) eqn:E.
    + apply cstr_eqb_eq in E. subst n. apply field_set_here.
    + assert (Hne : o <> n) by now apply str_eqb_false_neq.
      rewrite field_set_absent.
      * rewrite E. apply IH; auto. destruct Hn; congruence.
      * intros Hx. apply field_set_names in Hx as [Hx|Hx]; auto.
Qed.

Lemma field_get_set_same : forall order fs n c,
  NoDup order -> subseq (map fst fs) order -> In n order ->
  field_get n (field_set order n c fs) = Some c.
Proof.
  induction order as [|o order IH]; intros fs n c Hd Hs Hn; [destruct Hn|].
  inversion Hd as [|? ? Ho Hd']; subst.
  destruct (sorted_cases o order fs Hd Hs) as [(t & r & -> & Hr & Hnr)|[Hs' Hno]].
  - destruct (str_eqb o n) eqn:E.
    + apply cstr_eqb_eq in E. subst n. rewrite field_set_here. simpl. now rewrite cstr_eqb_refl.
    + assert (o <> n) by now apply str_eqb_false_neq.
      rewrite field_set_skip by assumption. simpl. rewrite E. apply IH; auto. destruct Hn; congruence.
  - rewrite field_set_absent by assumption. destruct (str_eqb o n) eqn:E.
    + simpl. now rewrite cstr_eqb_refl.
    + apply IH; auto. apply str_eqb_false_neq in E. destruct Hn; congruence.
Qed.

(* the local frame property of field_set: no other field is touched (no hypothesis needed) *)
Lemma field_get_set_other : forall order fs n c m, m <> n ->
  field_get m (field_set order n c fs) = field_get m fs.
Proof.
  induction order as [|o order IH]; intros fs n c m Hne.
  - simpl. induction fs as [|[n0 t0] r IHr]; simpl.
    + apply str_eqb_false_neq in Hne. destruct (str_eqb n m) eqn:E; auto.
      apply cstr_eqb_eq in E. subst. now rewrite cstr_eqb_refl in Hne.
    + destruct (str_eqb n0 m); auto.
  - assert (Enm : str_eqb n m = false) by (apply str_eqb_false_neq; congruence).
    simpl. destruct (str_eqb o n) eqn:E.
    + destruct fs as [|[n0 t0] r]; simpl; [now rewrite Enm|].
      destruct (str_eqb n0 n) eqn:E0; simpl; rewrite Enm; auto.
      apply cstr_eqb_eq in E0. subst n0. now rewrite Enm.
    + destruct fs as [|[n0 t0] r]; simpl; [now rewrite Enm|].
      destruct (str_eqb n0 o) eqn:E0; simpl.
      * destruct (str_eqb n0 m); auto.
      * rewrite IH by assumption. reflexivity.
Qed.

Lemma field_get_remove_other n m fs : m <> n -> field_get m (field_remove n fs) = field_get m fs.
Proof.
  intros Hne. induction fs as [|[n0 t0] r IH]; simpl; auto.
  destruct (str_eqb n0 n) eqn:E.
  - apply cstr_eqb_eq in E. subst n0.
    assert (E' : str_eqb n m = false) by (apply str_eqb_false_neq; congruence). now rewrite E'.
  - simpl. destruct (str_eqb n0 m); auto.
Qed.

(* ====================================================================================== *)
(* 3. One step of set_rec                                                                  *)
(* ====================================================================================== *)

(* s is the schema of a struct (a container, or a list seen from one of its entries) with fields sfs *)
Inductive struct_schema : schema -> list (finfo * schema) -> Prop :=
| ss_cont sfs : struct_schema (SCont sfs) sfs
| ss_entry o k a b sfs : struct_schema (SList o k a b sfs) sfs.

Lemma struct_schema_sfields s sfs : struct_schema s sfs -> sfields s = sfs.
Proof. now destruct 1. Qed.

Definition tv_scalarb (tv : tval) : bool :=
  match tv with TVJsonIetf _ | TVJson _ | TVNil => false | _ => true end.

Section Steps.
  Variable env : enum_env.
  Variable fo : float_oracle.
  Variable ko : key_oracle.
  Variable o : set_opts.
  Hypothesis Hsh : s_shadow o = false.
  Variable tv : tval.

  Notation SR := (set_rec env fo ko o tv).

  (* the struct step, exposed: which field, what happens to it *)
  Lemma set_rec_struct : forall f s sfs fs fi ss a e0 prest,
    struct_schema s sfs -> gn_struct_okb sfs = true -> In (fi, ss) sfs -> In a (f_paths fi) ->
    is_prefixb a (pnames (e0 :: prest)) = true ->
    SR (S f) s (Some (TCont fs)) (e0 :: prest) =
      let path := e0 :: prest in
      let to := consumed ss a in
      let c0 := field_get (f_go fi) fs in
      let c1 := if s_init o then init_field ss c0 else c0 in
      let rebuild (c : option tree) := Some (TCont (put_field (go_names sfs) (f_go fi) c fs)) in
      let '(c2, r2) :=
        if negb (tv_is_nil tv) && Nat.eqb (length path) to && is_leafish ss
        then set_leaf env fo ko o tv ss c1 else (c1, Ok tt) in
      match r2 with
      | Ok _ => let '(c3, r3) := SR f ss c2 (skipn to path) in (rebuild c3, r3)
      | Err => (rebuild c2, Err)
      | Panic => (rebuild c2, Panic)
      end.
  Proof.
    intros f s sfs fs fi ss a e0 prest Hs Hok Hin Ha Hp.
    destruct Hs as [sfs|o0 k a0 b sfs]; [|destruct o0]; cbn [set_rec];
      rewrite Hsh, (find_field_hit (e0 :: prest) sfs fi ss a Hok Hin Ha Hp); reflexivity.
  Qed.

  (* through a container or list field (the value is not for this node) *)
  Lemma set_rec_through : forall f s sfs fs fi ss a e0 prest,
    struct_schema s sfs -> gn_struct_okb sfs = true -> In (fi, ss) sfs -> In a (f_paths fi) ->
    is_prefixb a (pnames (e0 :: prest)) = true -> is_leafish ss = false ->
    SR (S f) s (Some (TCont fs)) (e0 :: prest) =
      let c1 := if s_init o then init_field ss (field_get (f_go fi) fs) else field_get (f_go fi) fs in
      let '(c3, r3) := SR f ss c1 (skipn (consumed ss a) (e0 :: prest)) in
      (Some (TCont (put_field (go_names sfs) (f_go fi) c3 fs)), r3).
  Proof.
    intros. rewrite (set_rec_struct f s sfs fs fi ss a e0 prest) by assumption.
    cbv zeta. rewrite H4, andb_false_r. reflexivity.
  Qed.

  (* the path ends at a leaf field: the decoded value is stored *)
  Lemma set_rec_leaf : forall f s sfs fs fi ty d a path v,
    struct_schema s sfs -> gn_struct_okb sfs = true -> In (fi, SLeaf ty d) sfs -> In a (f_paths fi) ->
    pnames path = a -> a <> [] -> tv_scalarb tv = true ->
    decode_tv env ko (s_tol_json o) ty tv = Ok v ->
    SR (S (S f)) s (Some (TCont fs)) path =
      (Some (TCont (field_set (go_names sfs) (f_go fi) (TLeaf v) fs)), Ok 1%nat).
  Proof.
    intros f s sfs fs fi ty d a path v Hs Hok Hin Ha Hp Hne Htv Hdec.
    destruct path as [|e0 prest]; [simpl in Hp; congruence|].
    rewrite (set_rec_struct (S f) s sfs fs fi (SLeaf ty d) a e0 prest Hs Hok Hin Ha)
      by (rewrite Hp; apply is_prefixb_refl).
    cbv zeta. unfold consumed. cbn [is_keyed_list is_leafish].
    assert (El : Nat.eqb (length (e0 :: prest)) (length a) = true).
    { apply Nat.eqb_eq. rewrite <- Hp. unfold pnames. now rewrite map_length. }
    rewrite El. assert (En : tv_is_nil tv = false) by (destruct tv; simpl in Htv |- *; congruence).
    rewrite En. cbn [negb andb].
    assert (Esl : forall c, set_leaf env fo ko o tv (SLeaf ty d) c = (Some (TLeaf v), Ok tt)).
    { intros c. unfold set_leaf. destruct tv; simpl in Htv; try discriminate; now rewrite Hdec. }
    rewrite Esl.
    assert (Esk : skipn (length a) (e0 :: prest) = []).
    { apply skipn_all2. apply Nat.eqb_eq in El. lia. }
    rewrite Esk. cbn [set_rec]. unfold set_terminal. cbn [is_leafish]. rewrite orb_true_r. reflexivity.
  Qed.

  (* the path ends at a leaf-list field: the whole list is replaced *)
  Lemma set_rec_leaflist : forall f s sfs fs fi ty mn mx a path l vs,
    struct_schema s sfs -> gn_struct_okb sfs = true -> In (fi, SLeafList ty mn mx) sfs -> In a (f_paths fi) ->
    pnames path = a -> a <> [] -> tv = TVLeafList l -> l <> [] ->
    decode_leaflist env ko (s_tol_json o) ty l [] = (vs, Ok tt) -> vs <> [] ->
    SR (S (S f)) s (Some (TCont fs)) path =
      (Some (TCont (field_set (go_names sfs) (f_go fi) (TLeafList vs) fs)), Ok 1%nat).
  Proof.
    intros f s sfs fs fi ty mn mx a path l vs Hs Hok Hin Ha Hp Hne Htv Hl Hdec Hvs.
    destruct path as [|e0 prest]; [simpl in Hp; congruence|].
    rewrite (set_rec_struct (S f) s sfs fs fi (SLeafList ty mn mx) a e0 prest Hs Hok Hin Ha)
      by (rewrite Hp; apply is_prefixb_refl).
    cbv zeta. unfold consumed. cbn [is_keyed_list is_leafish].
    assert (El : Nat.eqb (length (e0 :: prest)) (length a) = true).
    { apply Nat.eqb_eq. rewrite <- Hp. unfold pnames. now rewrite map_length. }
    rewrite El. rewrite Htv. cbn [tv_is_nil negb andb].
    unfold set_leaf. destruct l as [|x l']; [congruence|]. cbn [nil_b].
    rewrite Hdec. unfold some_leaflist. destruct vs as [|v0 vs']; [congruence|].
    assert (Esk : skipn (length a) (e0 :: prest) = []).
    { apply skipn_all2. apply Nat.eqb_eq in El. lia. }
    rewrite Esk. cbn [set_rec]. unfold set_terminal. cbn [is_leafish]. rewrite orb_true_r. reflexivity.
  Qed.

  (* 4. the local frame: a step through field fi leaves the other fields of the struct alone *)
  Lemma set_rec_struct_frame : forall f s sfs fs fi ss a e0 prest t' r,
    struct_schema s sfs -> gn_struct_okb sfs = true -> In (fi, ss) sfs -> In a (f_paths fi) ->
    is_prefixb a (pnames (e0 :: prest)) = true ->
    SR (S f) s (Some (TCont fs)) (e0 :: prest) = (t', r) ->
    exists fs', t' = Some (TCont fs') /\ forall m, m <> f_go fi -> field_get m fs' = field_get m fs.
  Proof.
    intros f s sfs fs fi ss a e0 prest t' r Hs Hok Hin Ha Hp.
    rewrite (set_rec_struct f s sfs fs fi ss a e0 prest) by assumption. cbv zeta.
    assert (G : forall c, forall m, m <> f_go fi ->
                field_get m (put_field (go_names sfs) (f_go fi) c fs) = field_get m fs).
    { intros [c|] m Hm; simpl; [apply field_get_set_other | apply field_get_remove_other]; auto. }
    destruct (if negb (tv_is_nil tv) && Nat.eqb (length (e0 :: prest)) (consumed ss a) && is_leafish ss
              then set_leaf env fo ko o tv ss (if s_init o then init_field ss (field_get (f_go fi) fs) else field_get (f_go fi) fs)
              else (if s_init o then init_field ss (field_get (f_go fi) fs) else field_get (f_go fi) fs, Ok tt)) as [c2 r2].
    destruct r2.
    - destruct (SR f ss c2 (skipn (consumed ss a) (e0 :: prest))) as [c3 r3]. intros [= <- <-]. eauto.
    - intros [= <- <-]. eauto.
    - intros [= <- <-]. eauto.
  Qed.
End Steps.

(* ---------- the list step (Go map), exposed ---------- *)

Section ListStep.
  Variable env : enum_env.
  Variable fo : float_oracle.
  Variable ko : key_oracle.
  Variable o : set_opts.
  Variable tv : tval.
  Notation SR := (set_rec env fo ko o tv).

  Variable f : nat.
  Variable s : schema.
  Variable sfs : list (finfo * schema).
  Variable keys : list str.
  Variable ek : list (str * str).
  Variable prest : dpath.

  Definition upd_entry (mk : list scalar) (e' : option tree) (es : list (list scalar * tree)) :=
    match e' with Some e'' => tl_insert mk e'' es | None => es end.

  (* insertAndGetKey, then the rest of the path inside the entry under the new key: the one the
     map holds already, else the new entry *)
  Definition insert_new_f (es : list (list scalar * tree)) : option tree * result nat :=
    if s_init o then
      match make_entry env fo ko sfs keys ek with
      | Ok (mk, nfs) =>
          if existsb nan_key mk then (Some (TList (tl_insert mk (TCont nfs) es)), Panic) else
          match tl_find mk es with
          | Some e_old =>
              let '(e', r) := SR f s (Some e_old) prest in
              (Some (TList (upd_entry mk e' es)), r)
          | None =>
              let '(e', r) := SR f s (Some (TCont nfs)) prest in
              (Some (TList (upd_entry mk e' es)), r)
          end
      | Err => (Some (TList es), Err)
      | Panic => (Some (TList es), Panic)
      end
    else (Some (TList es), Ok O).

  (* single key: the first entry whose key leaf prints as the path key *)
  Fixpoint first_f (k pk : str) (cur : option tree) (es l : list (list scalar * tree)) : option tree * result nat :=
    match l with
    | [] => insert_new_f es
    | (mk, e) :: more =>
        match single_key_str env ko sfs k mk (fields_of e) with
        | Ok ks =>
            if str_eqb ks pk then
              let '(e', r) := SR f s (Some e) prest in (Some (TList (upd_entry mk e' es)), r)
            else first_f k pk cur es more
        | Err => (cur, Err)
        | Panic => (cur, Panic)
        end
    end.

  (* several keys: every entry whose map key prints as the path keys *)
  Fixpoint all_f (l acc : list (list scalar * tree)) (n : nat) : option tree * result nat :=
    match l with
    | [] => if Nat.eqb n O then insert_new_f acc else (Some (TList acc), Ok n)
    | (mk, e) :: more =>
        match keys_match env ko false false ek keys mk with
        | Ok true =>
            let '(e', r) := SR f s (Some e) prest in
            let acc' := upd_entry mk e' acc in
            match r with
            | Ok m => all_f more acc' (n + m)%nat
            | _ => (Some (TList acc'), r)
            end
        | Ok false => all_f more acc n
        | Err => (Some (TList acc), Err)
        | Panic => (Some (TList acc), Panic)
        end
    end.
End ListStep.

Section ListEq.
  Variable env : enum_env.
  Variable fo : float_oracle.
  Variable ko : key_oracle.
  Variable o : set_opts.
  Variable tv : tval.
  Notation SR := (set_rec env fo ko o tv).

  Lemma set_rec_list_single : forall f k mn mx sfs es e0 prest,
    SR (S f) (SList false [k] mn mx sfs) (Some (TList es)) (e0 :: prest) =
      match al_find k (ekeys e0) with
      | None => if nil_b es then insert_new_f env fo ko o tv f (SList false [k] mn mx sfs) sfs [k] (ekeys e0) prest es
                else (Some (TList es), Err)
      | Some pk => first_f env fo ko o tv f (SList false [k] mn mx sfs) sfs [k] (ekeys e0) prest k pk (Some (TList es)) es es
      end.
  Proof.
    intros. cbn [set_rec]. destruct (al_find k (ekeys e0)) as [pk|]; [|reflexivity].
    match goal with |- ?F es = _ =>
      assert (G : forall l, F l = first_f env fo ko o tv f (SList false [k] mn mx sfs) sfs [k] (ekeys e0) prest k pk
                                    (Some (TList es)) es l) end.
    { induction l as [|[mk e] more IH]; [reflexivity|].
      cbn [first_f]. destruct (single_key_str env ko sfs k mk (fields_of e)); try reflexivity.
      destruct (str_eqb a pk); [reflexivity | apply IH]. }
    apply G.
  Qed.

  Lemma set_rec_list_multi : forall f k1 k2 ks mn mx sfs es e0 prest,
    SR (S f) (SList false (k1 :: k2 :: ks) mn mx sfs) (Some (TList es)) (e0 :: prest) =
      all_f env fo ko o tv f (SList false (k1 :: k2 :: ks) mn mx sfs) sfs (k1 :: k2 :: ks) (ekeys e0) prest es es O.
  Proof.
    intros. cbn [set_rec].
    match goal with |- ?F es es O = _ =>
      assert (G : forall l acc n, F l acc n = all_f env fo ko o tv f (SList false (k1 :: k2 :: ks) mn mx sfs) sfs
                                               (k1 :: k2 :: ks) (ekeys e0) prest l acc n) end.
    { induction l as [|[mk e] more IH]; intros acc n; [reflexivity|].
      cbn [all_f]. destruct (keys_match env ko false false (ekeys e0) (k1 :: k2 :: ks) mk) as [[|]| |];
        try reflexivity; try apply IH. }
    apply G.
  Qed.
End ListEq.

Section ListLoops.
  Variable env : enum_env.
  Variable fo : float_oracle.
  Variable ko : key_oracle.
  Variable o : set_opts.
  Variable tv : tval.
  Notation SR := (set_rec env fo ko o tv).
  Variable f : nat.
  Variable s : schema.
  Variable sfs : list (finfo * schema).
  Variable keys : list str.
  Variable ek : list (str * str).
  Variable prest : dpath.

  (* single key: entries before the addressed one print other keys *)
  Lemma first_f_hit k pk cur es : forall pre mk e post,
    (forall mk' e', In (mk', e') pre -> exists ks, single_key_str env ko sfs k mk' (fields_of e') = Ok ks /\ ks <> pk) ->
    single_key_str env ko sfs k mk (fields_of e) = Ok pk ->
    first_f env fo ko o tv f s sfs keys ek prest k pk cur es (pre ++ (mk, e) :: post) =
      let '(e', r) := SR f s (Some e) prest in (Some (TList (upd_entry mk e' es)), r).
  Proof.
    induction pre as [|[mk0 e0] pre IH]; intros mk e post Hpre Hk.
    - cbn [app first_f]. now rewrite Hk, cstr_eqb_refl.
    - cbn [app first_f]. destruct (Hpre mk0 e0 (or_introl eq_refl)) as (ks & -> & Hne).
      apply str_eqb_false_neq in Hne. rewrite Hne. apply IH; auto.
      intros mk' e' Hin. apply Hpre. now right.
  Qed.

  Lemma first_f_miss k pk cur es : forall l,
    (forall mk' e', In (mk', e') l -> exists ks, single_key_str env ko sfs k mk' (fields_of e') = Ok ks /\ ks <> pk) ->
    first_f env fo ko o tv f s sfs keys ek prest k pk cur es l =
      insert_new_f env fo ko o tv f s sfs keys ek prest es.
  Proof.
    induction l as [|[mk0 e0] l IH]; intros Hl; [reflexivity|].
    cbn [first_f]. destruct (Hl mk0 e0 (or_introl eq_refl)) as (ks & -> & Hne).
    apply str_eqb_false_neq in Hne. rewrite Hne. apply IH. intros mk' e' Hin. apply Hl. now right.
  Qed.

  (* several keys: exactly one entry matches *)
  Lemma all_f_miss : forall l acc n,
    (forall mk' e', In (mk', e') l -> keys_match env ko false false ek keys mk' = Ok false) ->
    all_f env fo ko o tv f s sfs keys ek prest l acc n =
      if Nat.eqb n O then insert_new_f env fo ko o tv f s sfs keys ek prest acc else (Some (TList acc), Ok n).
  Proof.
    induction l as [|[mk0 e0] l IH]; intros acc n Hl; [reflexivity|].
    cbn [all_f]. rewrite (Hl mk0 e0 (or_introl eq_refl)). apply IH. intros mk' e' Hin. apply (Hl mk' e'). now right.
  Qed.

  Lemma all_f_hit : forall pre mk e post acc,
    (forall mk' e', In (mk', e') pre -> keys_match env ko false false ek keys mk' = Ok false) ->
    (forall mk' e', In (mk', e') post -> keys_match env ko false false ek keys mk' = Ok false) ->
    keys_match env ko false false ek keys mk = Ok true ->
    all_f env fo ko o tv f s sfs keys ek prest (pre ++ (mk, e) :: post) acc O =
      let '(e', r) := SR f s (Some e) prest in
      match r with
      | Ok m => if Nat.eqb m O then insert_new_f env fo ko o tv f s sfs keys ek prest (upd_entry mk e' acc)
                else (Some (TList (upd_entry mk e' acc)), Ok m)
      | _ => (Some (TList (upd_entry mk e' acc)), r)
      end.
  Proof.
    induction pre as [|[mk0 e0] pre IH]; intros mk e post acc Hpre Hpost Hk.
    - cbn [app all_f]. rewrite Hk. destruct (SR f s (Some e) prest) as [e' r].
      destruct r; try reflexivity. rewrite all_f_miss by assumption. reflexivity.
    - cbn [app all_f]. rewrite (Hpre mk0 e0 (or_introl eq_refl)). apply IH; auto.
      intros mk' e' Hin. apply (Hpre mk' e'). now right.
  Qed.
End ListLoops.

(* ====================================================================================== *)
(* 5. One step of get_rec (GetNode with exact keys: no partial match, no wildcards)         *)
(* ====================================================================================== *)

Section GetSteps.
  Variable env : enum_env.
  Variable fo : float_oracle.
  Variable ko : key_oracle.
  Variable o : get_opts.
  Hypothesis Hsh : g_shadow o = false.
  Hypothesis Hpa : g_partial o = false.
  Hypothesis Hwi : g_wild o = false.

  Notation GR := (get_rec env fo ko o).

  Lemma get_rec_struct : forall f s sfs fs fi ss a e0 prest trav,
    struct_schema s sfs -> gn_struct_okb sfs = true -> In (fi, ss) sfs -> In a (f_paths fi) ->
    is_prefixb a (pnames (e0 :: prest)) = true ->
    GR (S f) s (Some (TCont fs)) (e0 :: prest) trav =
      GR f ss (field_get (f_go fi) fs) (skipn (consumed ss a) (e0 :: prest)) (trav ++ firstn (consumed ss a) (e0 :: prest)).
  Proof.
    intros f s sfs fs fi ss a e0 prest trav Hs Hok Hin Ha Hp.
    destruct Hs as [sfs|o0 k a0 b sfs]; [|destruct o0]; cbn [get_rec];
      rewrite Hsh, (find_field_hit (e0 :: prest) sfs fi ss a Hok Hin Ha Hp); reflexivity.
  Qed.

  Variable f : nat.
  Variable s : schema.
  Variable sfs : list (finfo * schema).
  Variable keys : list str.
  Variable e0 : pelem.
  Variable prest trav : dpath.

  Fixpoint first_g (k pk : str) (l : list (list scalar * tree)) : result (list gnode) :=
    match l with
    | [] => Ok []
    | (mk, e) :: more =>
        bind (single_key_str env ko sfs k mk (fields_of e)) (fun ks =>
          if str_eqb ks pk then GR f s (Some e) prest (trav ++ [e0]) else first_g k pk more)
    end.

  Fixpoint all_g (l : list (list scalar * tree)) : result (list gnode) :=
    match l with
    | [] => Ok []
    | (mk, e) :: more =>
        bind (keys_match env ko false false (ekeys e0) keys mk) (fun m =>
          if m then
            bind (entry_elem_keys env ko sfs keys mk (fields_of e)) (fun kk =>
            bind (GR f s (Some e) prest (trav ++ [{| ename := ename e0; ekeys := kk |}])) (fun here =>
            bind (all_g more) (fun r => Ok (here ++ r))))
          else all_g more)
    end.

  Lemma first_g_hit k pk : forall pre mk e post,
    (forall mk' e', In (mk', e') pre -> exists ks, single_key_str env ko sfs k mk' (fields_of e') = Ok ks /\ ks <> pk) ->
    single_key_str env ko sfs k mk (fields_of e) = Ok pk ->
    first_g k pk (pre ++ (mk, e) :: post) = GR f s (Some e) prest (trav ++ [e0]).
  Proof.
    induction pre as [|[mk0 e1] pre IH]; intros mk e post Hpre Hk.
    - cbn [app first_g]. rewrite Hk. cbn [bind]. now rewrite cstr_eqb_refl.
    - cbn [app first_g]. destruct (Hpre mk0 e1 (or_introl eq_refl)) as (ks & -> & Hne). cbn [bind].
      apply str_eqb_false_neq in Hne. rewrite Hne. apply IH; auto.
      intros mk' e' Hin. apply (Hpre mk' e'). now right.
  Qed.

  Lemma all_g_miss : forall l,
    (forall mk' e', In (mk', e') l -> keys_match env ko false false (ekeys e0) keys mk' = Ok false) ->
    all_g l = Ok [].
  Proof.
    induction l as [|[mk0 e1] l IH]; intros Hl; [reflexivity|].
    cbn [all_g]. rewrite (Hl mk0 e1 (or_introl eq_refl)). cbn [bind]. apply IH.
    intros mk' e' Hin. apply (Hl mk' e'). now right.
  Qed.

  Lemma all_g_hit : forall pre mk e post kk,
    (forall mk' e', In (mk', e') pre -> keys_match env ko false false (ekeys e0) keys mk' = Ok false) ->
    (forall mk' e', In (mk', e') post -> keys_match env ko false false (ekeys e0) keys mk' = Ok false) ->
    keys_match env ko false false (ekeys e0) keys mk = Ok true ->
    entry_elem_keys env ko sfs keys mk (fields_of e) = Ok kk ->
    all_g (pre ++ (mk, e) :: post) =
      bind (GR f s (Some e) prest (trav ++ [{| ename := ename e0; ekeys := kk |}])) (fun here => Ok (here ++ [])).
  Proof.
    induction pre as [|[mk0 e1] pre IH]; intros mk e post kk Hpre Hpost Hk Hkk.
    - cbn [app all_g]. rewrite Hk. cbn [bind]. rewrite Hkk. cbn [bind]. now rewrite (all_g_miss post Hpost).
    - cbn [app all_g]. rewrite (Hpre mk0 e1 (or_introl eq_refl)). cbn [bind]. apply IH; auto.
      intros mk' e' Hin. apply (Hpre mk' e'). now right.
  Qed.
End GetSteps.

Section GetListEq.
  Variable env : enum_env.
  Variable fo : float_oracle.
  Variable ko : key_oracle.
  Variable o : get_opts.
  Hypothesis Hpa : g_partial o = false.
  Hypothesis Hwi : g_wild o = false.
  Notation GR := (get_rec env fo ko o).

  Lemma get_rec_list_single : forall f k mn mx sfs es e0 prest trav pk,
    al_find k (ekeys e0) = Some pk ->
    GR (S f) (SList false [k] mn mx sfs) (Some (TList es)) (e0 :: prest) trav =
      first_g env fo ko o f (SList false [k] mn mx sfs) sfs e0 prest trav k pk es.
  Proof.
    intros f k mn mx sfs es e0 prest trav pk Hf. cbn [get_rec]. rewrite Hpa, Hwi, andb_false_r. cbn [orb]. rewrite Hf.
    induction es as [|[mk e] more IH]; [reflexivity|]. cbn [first_g].
    destruct (single_key_str env ko sfs k mk (fields_of e)); try reflexivity. cbn [bind].
    destruct (str_eqb a pk); [reflexivity | apply IH].
  Qed.

  Lemma get_rec_list_multi : forall f k1 k2 ks mn mx sfs es e0 prest trav,
    GR (S f) (SList false (k1 :: k2 :: ks) mn mx sfs) (Some (TList es)) (e0 :: prest) trav =
      all_g env fo ko o f (SList false (k1 :: k2 :: ks) mn mx sfs) sfs (k1 :: k2 :: ks) e0 prest trav es.
  Proof.
    intros. cbn [get_rec]. rewrite Hpa, Hwi.
    induction es as [|[mk e] more IH]; [reflexivity|]. cbn [all_g].
    destruct (keys_match env ko false false (ekeys e0) (k1 :: k2 :: ks) mk) as [[|]| |]; try reflexivity; cbn [bind];
      try apply IH.
  Qed.
End GetListEq.
