(* GnmiRtOrd.v — C02 with `ordered-by user` lists: the executable guard gn_treeb_ord extends
   GnmiRt.gn_treeb by ordered lists in the shape in which the atomic notification that
   TogNMINotifications emits for the list (prefix = the path of the node that CONTAINS the list;
   UnmarshalNotifications deletes that node first) cannot wipe anything else.
   Definitions only; the proofs are in GnmiRtOrdProofs.v. *)
From Ygot Require Import Tree.Tree Scalar.Dec Scalar.Base64 Tree.Codec Tree.CodecProofs.
From Ygot Require Import Tree.TreeOps Tree.Render Tree.Unmarshal Tree.RoundTrip.
From Ygot Require Import Tree.KeyCodec Tree.Leaves Tree.Notif Tree.Node Tree.SetReq Path.PathRel.
From Ygot Require Import Tree.KeyCodecProofs Tree.NodeStepProofs Tree.GnmiRt.

(* ---------- keys of an ordered list ---------- *)

(* The guard asks for keys that survive ytypes.StringToType (until fix 7d0d94c2 the conversion
   retrieveNodeOrderedList applied; now stringToKeyType, which agrees with it wherever it succeeds:
   the guard is stronger than needed) (KeyCodec.string_to_gotype: integers, string, boolean, enumeration /
   identityref and single-type unions of those; no decimal64, binary, multi-type union): the
   string printed for key value v of a key leaf of type t is read back as v *)
Definition okey_rtb (env : enum_env) (ko : key_oracle) (t : ytype) (v : scalar) : bool :=
  match key_to_string env ko v with
  | Ok s => match string_to_gotype env t s with Ok v' => scalar_eqb v v' | _ => false end
  | _ => false
  end.

(* ... for every key of the tuple; the key leaf is the one retrieveNodeOrderedList /
   AppendNew look at (TreeOps.key_field) *)
Fixpoint okeys_rtb (env : enum_env) (ko : key_oracle) (sfs : list (finfo * schema)) (keys : list str) (mk : list scalar) : bool :=
  match keys, mk with
  | [], [] => true
  | k :: ks, v :: vs =>
      match key_field sfs k with
      | Some (_, SLeaf t _) => okey_rtb env ko t v && okeys_rtb env ko sfs ks vs
      | _ => false
      end
  | _, _ => false
  end.

(* ---------- where an ordered list may stand ---------- *)

(* fi is an `ordered-by user` list field of a struct with schema fields sfs whose tree has nfields
   fields set; a0 is the first alternative of its path tag.  The atomic notification of the list
   is prefixed with (path of the struct) ++ removelast a0.
   - compressed code (OpenConfig `container xs { list x {...} }` with -compress_paths: a0 = xs/x):
     the prefix ends inside the tag; DeleteNode of it must be resolved by retrieveNodeContainer to
     "remove this ordered-map field" (FMOrdPartial) and to this very field;
   - uncompressed code (a0 = x): the prefix is the struct itself, which must be a container field
     of its parent (inner: not the root, not a list entry) and hold nothing but the list. *)
Definition ord_field_okb (inner : bool) (sfs : list (finfo * schema)) (fi : finfo) (nfields : nat) : bool :=
  match f_paths fi with
  | [] => false
  | a0 :: _ =>
      match removelast a0 with
      | [] => inner && Nat.eqb nfields 1
      | q => match find_field false true (path_of_names q) sfs with
             | FMOrdPartial fi' => str_eqb (f_go fi') (f_go fi)
             | _ => false
             end
      end
  end.

Section GnTreeOrd.
  Variable env : enum_env.
  Variable fo : float_oracle.
  Variable ko : key_oracle.

  (* one entry of an ordered list: as the entry of a Go map (GnmiRt.gn_node on the entry: typed
     leaves, non-empty, no ordered list inside, which the renderer rejects; key leaves equal to
     the key; keys printable and re-parseable), and the keys survive StringToType *)
  Definition gn_oentryb (s : schema) (sfs : list (finfo * schema)) (keys : list str) (ke : list scalar * tree) : bool :=
    match snd ke with
    | TCont fs => gn_node env fo ko s (snd ke) && key_matchb sfs keys fs (fst ke)
                  && keys_wfb env fo ko sfs keys (fst ke) && okeys_rtb env ko sfs keys (fst ke)
    | _ => false
    end.

  (* an ordered list: non-empty, entries as above under pairwise distinct keys (any order) *)
  Definition gn_olistb (s : schema) (t : tree) : bool :=
    match s, t with
    | SList true keys _ _ sfs, TList es =>
        negb (nil_b es) && forallb (gn_oentryb s sfs keys) es && keys_okb true (map fst es)
    | _, _ => false
    end.

  (* GnmiRt.gn_node with ordered-list fields accepted where ord_field_okb holds.
     inner = this node is the value of a container field of a struct. *)
  Fixpoint gn_node_ord (inner : bool) (s : schema) (t : tree) {struct t} : bool :=
    match t with
    | TLeaf v => match s with SLeaf ty _ => tv_rtb env ko ty v | _ => false end
    | TLeafList vs =>
        match s with
        | SLeafList ty _ _ => negb (nil_b vs) && forallb (tv_rtb env ko ty) vs
        | _ => false
        end
    | TCont fs =>
        negb (nil_b fs) && subseqb (map fst fs) (go_names (sfields s))
        && (fix fields (l : list (str * tree)) {struct l} : bool :=
              match l with
              | [] => true
              | (name, sub) :: rest =>
                  match find (fun fs => str_eqb (f_go (fst fs)) name) (sfields s) with
                  | None => false
                  | Some (fi, ss) =>
                      kind_matchb ss sub
                      && (if is_ordered_list ss
                          then ord_field_okb inner (sfields s) fi (length fs) && gn_olistb ss sub
                          else gn_node_ord (is_cont_schema ss) ss sub)
                      && fields rest
                  end
              end) fs
    | TList es =>
        match s with
        | SList false keys _ _ sfs =>
            negb (nil_b es)
            && (fix entries (l : list (list scalar * tree)) : bool :=
                  match l with
                  | [] => true
                  | (k, e) :: rest =>
                      match e with
                      | TCont fs => gn_node_ord false s e && key_matchb sfs keys fs k
                                    && keys_wfb env fo ko sfs keys k && negb (existsb nan_key k)
                      | _ => false
                      end && entries rest
                  end) es
            && keys_okb false (map fst es)
        | _ => false
        end
    | TUnkeyed _ => false
    end.

  (* the root: a container schema; the empty root is allowed *)
  Definition gn_treeb_ord (s : schema) (t : tree) : bool :=
    gn_schemab s && is_cont_schema s &&
    match t with
    | TCont [] => true
    | TCont _ => gn_node_ord false s t
    | _ => false
    end.
End GnTreeOrd.
