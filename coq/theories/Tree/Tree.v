(* Tree.v — the value universe of the tree layer: YANG leaf types as ygot sees them, the
   description of a generated GoStruct type (schema), GoStruct values (tree), JSON and gNMI
   TypedValue ASTs.  The Go side prints these terms (harness/ydrive/tree.go); this file has
   no algorithms beyond lookups. *)
From Ygot Require Export Base.Base Path.PathString.

Inductive ikind := I8 | I16 | I32 | I64 | U8 | U16 | U32 | U64.

(* A leaf value as held by a generated GoStruct.  Unions are transparent: a union field holds
   the value of the member that was chosen (simple unions: UnionInt8(3) / wrapper unions:
   &X_Union_Int8{3} are both VInt I8 3).  decimal64 is a Go float64, identified by its
   IEEE-754 bit pattern; its text form comes from the float oracle (see Codec.v). *)
Inductive scalar :=
| VInt (k : ikind) (z : Z)
| VStr (s : str)
| VBool (b : bool)
| VDec (bits : N)
| VBin (bs : list N)
| VEmpty
| VEnum (ty : str) (n : Z).      (* Go enum type name, numeric value (0 = UNSET) *)

Record enumval := { ev_num : Z; ev_name : str; ev_mod : str }.
Definition enum_env := list (str * list enumval).   (* Go enum type name -> ΛEnum table *)

Inductive ytype :=
| YInt (k : ikind) (rs : list (Z * Z))           (* range parts, [] = unrestricted *)
| YDec (frac : N)
| YStr (lens : list (N * N)) (npat : nat)        (* length parts; number of patterns *)
| YBin (lens : list (N * N))
| YBool
| YEmpty
| YEnum (ty : str)
| YIdref (ty : str)
| YUnion (ms : list ytype)
| YLeafref (t : ytype).                          (* resolved target type *)

(* One field of a generated struct, as its struct tags describe it. *)
Record finfo := {
  f_go : str;                       (* Go field name *)
  f_paths : list (list str);        (* `path` tag: '|'-separated alternatives, '/'-separated elements *)
  f_mods : list (list str);         (* `module` tag, same shape *)
  f_spaths : list (list str);       (* `shadow-path` tag ([] if absent) *)
  f_smods : list (list str);        (* `shadow-module` tag *)
  f_presence : bool;                (* yangPresence:"true" *)
  f_cfg : bool;                     (* schema entry is config true *)
  f_case : list str                 (* enclosing choice/case names, outermost first ([] = not in a choice) *)
}.

Inductive schema :=
| SLeaf (t : ytype) (dflt : list str)                       (* default statement(s), [] if none *)
| SLeafList (t : ytype) (mn mx : N)                          (* mx = 0: unbounded *)
| SCont (fs : list (finfo * schema))
| SList (ordered : bool) (keys : list str) (mn mx : N) (fs : list (finfo * schema))
| SUnkeyed (fs : list (finfo * schema)).

(* A GoStruct value. TCont lists only the fields that are set (non-nil pointer / map / slice /
   interface, enum <> 0, YANGEmpty true), keyed by Go field name, in struct-field order. *)
Inductive tree :=
| TLeaf (v : scalar)
| TLeafList (vs : list scalar)             (* [] = non-nil empty slice *)
| TCont (fs : list (str * tree))
| TList (es : list (list scalar * tree))   (* keyed list: map key tuple -> entry (a TCont);
                                              Go map: sorted by the harness; ordered map: insertion order *)
| TUnkeyed (es : list tree).

(* JSON as decoded by encoding/json into interface{}: numbers are float64; the harness only
   produces numbers m * 10^e that float64 represents exactly or decides identically. *)
Inductive json :=
| JNull
| JBool (b : bool)
| JNum (m : Z) (e : Z)                      (* m * 10^e, normalised: m mod 10 <> 0 or m = 0, e = 0 *)
| JStr (s : str)
| JArr (l : list json)
| JObj (m : list (str * json)).             (* members sorted by name (encoding/json sorts map keys) *)

(* gNMI TypedValue (the arms ygot produces or accepts) *)
Inductive tval :=
| TVString (s : str) | TVInt (z : Z) | TVUint (z : Z) | TVBool (b : bool)
| TVBytes (bs : list N) | TVDouble (bits : N) | TVFloat (bits : N) | TVDecimal (digits : Z) (prec : N)
| TVLeafList (l : list tval) | TVJsonIetf (j : json) | TVJson (j : json) | TVAscii (s : str) | TVNil.

(* The float oracle: what Go's strconv does, supplied by the harness as tables and quantified
   over in theorems (hypotheses named where used). *)
Record float_oracle := {
  ffmt : N -> str;                 (* text ygot renders for the float with these bits *)
  fparse : str -> option N         (* strconv.ParseFloat(s, 64), None on error *)
}.

(* ---------- small lookups ---------- *)

Definition ikind_eqb (a b : ikind) : bool :=
  match a, b with
  | I8, I8 | I16, I16 | I32, I32 | I64, I64 | U8, U8 | U16, U16 | U32, U32 | U64, U64 => true
  | _, _ => false
  end.

Definition ikind_min (k : ikind) : Z :=
  match k with
  | I8 => -128 | I16 => -32768 | I32 => -2147483648 | I64 => -9223372036854775808
  | _ => 0
  end%Z.
Definition ikind_max (k : ikind) : Z :=
  match k with
  | I8 => 127 | I16 => 32767 | I32 => 2147483647 | I64 => 9223372036854775807
  | U8 => 255 | U16 => 65535 | U32 => 4294967295 | U64 => 18446744073709551615
  end%Z.
Definition ikind_is64 (k : ikind) : bool := match k with I64 | U64 => true | _ => false end.
Definition ikind_signed (k : ikind) : bool := match k with I8 | I16 | I32 | I64 => true | _ => false end.

Fixpoint list_eqb {A} (eqb : A -> A -> bool) (a b : list A) : bool :=
  match a, b with
  | [], [] => true
  | x :: a', y :: b' => eqb x y && list_eqb eqb a' b'
  | _, _ => false
  end.

Definition scalar_eqb (a b : scalar) : bool :=
  match a, b with
  | VInt k z, VInt k' z' => ikind_eqb k k' && (z =? z')%Z
  | VStr s, VStr s' => str_eqb s s'
  | VBool x, VBool y => Bool.eqb x y
  | VDec x, VDec y => (x =? y)
  | VBin x, VBin y => list_eqb N.eqb x y
  | VEmpty, VEmpty => true
  | VEnum t n, VEnum t' n' => str_eqb t t' && (n =? n')%Z
  | _, _ => false
  end.

Fixpoint assoc {V} (k : str) (l : list (str * V)) : option V :=
  match l with
  | [] => None
  | (k', v) :: t => if str_eqb k k' then Some v else assoc k t
  end.

Definition enum_table (env : enum_env) (ty : str) : list enumval :=
  match assoc ty env with Some t => t | None => [] end.
Fixpoint enum_by_num (t : list enumval) (n : Z) : option enumval :=
  match t with [] => None | e :: r => if (ev_num e =? n)%Z then Some e else enum_by_num r n end.
Fixpoint enum_by_name (t : list enumval) (s : str) : option enumval :=
  match t with [] => None | e :: r => if str_eqb (ev_name e) s then Some e else enum_by_name r s end.

(* last element of a path ([] for the fake root's fields) *)
Definition last_str (p : list str) : str := last p [].
Definition first_path (f : finfo) : list str := hd [] (f_paths f).
