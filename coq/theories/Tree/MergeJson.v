(* MergeJson.v — definitions for property C31 (Unmarshal merges into existing data as
   documented): which JSON members a struct knows, removal of unknown members, the declarative
   merge-by-key specification of list unmarshalling, the leaves of a tree and the part of a
   tree that a JSON document does not touch.  Definitions only; proofs in MergeJsonProofs.v. *)
From Ygot Require Import Tree.Tree Tree.Codec Tree.TreeOps Tree.Unmarshal Tree.RoundTrip.

(* ---------- known and unknown members ---------- *)

(* the member name n can start a path or shadow-path alternative of a field of the struct
   (names are compared with their module prefix stripped, as getJSONTreeValForPath and
   checkDataTreeAgainstPaths do); an empty alternative stands for the whole object *)
Definition starts_pathb (n : str) (p : list str) : bool :=
  match p with
  | [] => true
  | k :: _ => str_eqb (strip_mod k) (strip_mod n) || str_eqb k (strip_mod n)
  end.
Definition known_memberb (sfs : list (finfo * schema)) (n : str) : bool :=
  existsb (fun fs => existsb (starts_pathb n) (f_paths (fst fs) ++ f_spaths (fst fs))) sfs.

(* all members with this name removed *)
Definition remove_member (n : str) (jm : list (str * json)) : list (str * json) :=
  filter (fun kv => negb (str_eqb (fst kv) n)) jm.

(* the unknown top-level members removed *)
Definition strip_unknown_top (sfs : list (finfo * schema)) (jm : list (str * json)) : list (str * json) :=
  filter (fun kv => known_memberb sfs (fst kv)) jm.

(* ---------- unknown members at any depth ---------- *)

(* the schema of the field that has r as a path or shadow-path alternative *)
Definition field_at (sfs : list (finfo * schema)) (r : list str) : option schema :=
  match find (fun fs => existsb (list_eqb str_eqb r) (f_paths (fst fs) ++ f_spaths (fst fs))) sfs with
  | Some (_, ss) => Some ss
  | None => None
  end.

(* r is a proper prefix of an alternative: an intermediate object of compressed code *)
Definition is_extb (sfs : list (finfo * schema)) (r : list str) : bool :=
  existsb (fun fs => existsb (fun p => is_prefixb r p && negb (list_eqb str_eqb r p))
                             (f_paths (fst fs) ++ f_spaths (fst fs))) sfs.

(* MNode s: the value of a node with schema s; MStruct sfs r: an object inside the struct sfs,
   reached by the (stripped) member names r *)
Inductive smode :=
| MNode (s : schema)
| MStruct (sfs : list (finfo * schema)) (r : list str).

(* remove every member that no path of the enclosing struct leads through, recursively *)
Fixpoint strip (m : smode) (j : json) {struct j} : json :=
  match j with
  | JObj jm =>
      match (match m with
             | MNode (SCont sfs) => Some (sfs, [])
             | MStruct sfs r => Some (sfs, r)
             | _ => None
             end) with
      | Some (sfs, r) =>
          JObj ((fix go (l : list (str * json)) : list (str * json) :=
                   match l with
                   | [] => []
                   | (n, v) :: t =>
                       match field_at sfs (r ++ [strip_mod n]) with
                       | Some ss => (n, strip (MNode ss) v) :: go t
                       | None =>
                           if is_extb sfs (r ++ [strip_mod n]) then
                             match v with
                             | JObj _ => (n, strip (MStruct sfs (r ++ [strip_mod n])) v) :: go t
                             | _ => go t
                             end
                           else go t
                       end
                   end) jm)
      | None => j
      end
  | JArr l =>
      match (match m with
             | MNode (SList _ _ _ _ sfs) | MNode (SUnkeyed sfs) => Some sfs
             | _ => None
             end) with
      | Some sfs =>
          JArr ((fix go (l : list json) : list json :=
                   match l with [] => [] | x :: t => strip (MStruct sfs []) x :: go t end) l)
      | None => j
      end
  | _ => j
  end.

Definition strip_unknown (s : schema) (j : json) : json := strip (MNode s) j.

(* a field read from more than one alternative is a leaf (generated code: list keys) *)
Definition single_altb (f : finfo) : bool :=
  Nat.leb (length (f_paths f)) 1 && Nat.leb (length (f_spaths f)) 1.
Fixpoint multi_alt_leafb (s : schema) : bool :=
  match s with
  | SLeaf _ _ | SLeafList _ _ _ => true
  | SCont fs | SList _ _ _ _ fs | SUnkeyed fs =>
      (fix go (l : list (finfo * schema)) : bool :=
         match l with
         | [] => true
         | (f, ss) :: r =>
             (single_altb f || match ss with SLeaf _ _ | SLeafList _ _ _ => true | _ => false end)
             && multi_alt_leafb ss && go r
         end) fs
  end.

(* ---------- fields of a struct value ---------- *)

(* the entries of a field list stored under a Go field name *)
Definition named (name : str) (fs : list (str * tree)) : list (str * tree) :=
  filter (fun e => str_eqb (fst e) name) fs.

(* a is a subsequence of l (greedy test; exact when l has no duplicates) *)
Fixpoint subseqb (a l : list str) : bool :=
  match a, l with
  | [], _ => true
  | _ :: _, [] => false
  | x :: a', y :: l' => if str_eqb x y then subseqb a' l' else subseqb a l'
  end.

(* the set fields of a struct value are listed in struct order, each at most once *)
Definition fields_orderedb (sfs : list (finfo * schema)) (fs : list (str * tree)) : bool :=
  subseqb (map fst fs) (go_names sfs).

(* ---------- keyed lists: merge by key ---------- *)

(* The documented behaviour of unmarshalling a JSON array into a Go-map list, element by
   element: the element is decoded on its own to find its key; it is then unmarshalled INTO the
   entry stored under that key (into an empty entry if there is none) and the result is stored
   under the key.  unm_entry cur jm: unmarshal the JSON object jm into the struct fields cur. *)
Section ListMerge.
  Variable unm_entry : list (str * tree) -> list (str * json) -> result (list (str * tree)).
  Variable key_of : list (str * tree) -> result (list scalar).

  Definition entry_fields (o : option tree) : list (str * tree) :=
    match o with Some old => fields_of old | None => [] end.

  Inductive list_merge : list (list scalar * tree) -> list json -> list (list scalar * tree) -> Prop :=
  | lm_nil es : list_merge es [] es
  | lm_cons es jm rest nfs k mfs res :
      unm_entry [] jm = Ok nfs -> key_of nfs = Ok k ->
      unm_entry (entry_fields (tl_find k es)) jm = Ok mfs ->
      list_merge (tl_insert k (TCont mfs) es) rest res ->
      list_merge es (JObj jm :: rest) res.

  (* the key tuple k is the key of some element of the array *)
  Definition key_mentioned (l : list json) (k : list scalar) : Prop :=
    exists jm nfs, In (JObj jm) l /\ unm_entry [] jm = Ok nfs /\ key_of nfs = Ok k.

  (* unkeyed lists: one new entry per element, appended *)
  Definition appended (l : list json) (new : list tree) : Prop :=
    Forall2 (fun j e => exists jm nfs, j = JObj jm /\ unm_entry [] jm = Ok nfs /\ e = TCont nfs) l new.
End ListMerge.

(* ---------- leaves of a tree, addressed structurally ---------- *)

Inductive step :=
| StF (name : str)            (* field of a struct, by Go name *)
| StK (k : list scalar)       (* entry of a keyed list, by key tuple *)
| StI (i : nat).              (* entry of an unkeyed list, by position *)

Inductive lvalue :=
| LvLeaf (v : scalar)
| LvList (vs : list scalar)   (* a leaf-list is one value *)
| LvEmpty.                    (* an empty (presence) container *)

(* the value at a path: struct fields are looked up by name, map entries by key *)
Fixpoint leaf_at (t : tree) (p : list step) {struct p} : option lvalue :=
  match p with
  | [] =>
      match t with
      | TLeaf v => Some (LvLeaf v)
      | TLeafList vs => Some (LvList vs)
      | TCont [] => Some LvEmpty
      | _ => None
      end
  | StF n :: rest =>
      match t with
      | TCont fs => match field_get n fs with Some sub => leaf_at sub rest | None => None end
      | _ => None
      end
  | StK k :: rest =>
      match t with
      | TList es => match tl_find k es with Some e => leaf_at e rest | None => None end
      | _ => None
      end
  | StI i :: rest =>
      match t with
      | TUnkeyed es => match nth_error es i with Some e => leaf_at e rest | None => None end
      | _ => None
      end
  end.

(* all (path, value) pairs of a tree, in document order *)
Fixpoint tleaves (t : tree) : list (list step * lvalue) :=
  match t with
  | TLeaf v => [([], LvLeaf v)]
  | TLeafList vs => [([], LvList vs)]
  | TCont fs =>
      match fs with
      | [] => [([], LvEmpty)]
      | _ => (fix go (l : list (str * tree)) : list (list step * lvalue) :=
                match l with
                | [] => []
                | (n, sub) :: r => map (fun pl => (StF n :: fst pl, snd pl)) (tleaves sub) ++ go r
                end) fs
      end
  | TList es =>
      (fix go (l : list (list scalar * tree)) : list (list step * lvalue) :=
         match l with
         | [] => []
         | (k, e) :: r => map (fun pl => (StK k :: fst pl, snd pl)) (tleaves e) ++ go r
         end) es
  | TUnkeyed es =>
      (fix go (l : list tree) (i : nat) : list (list step * lvalue) :=
         match l with
         | [] => []
         | e :: r => map (fun pl => (StI i :: fst pl, snd pl)) (tleaves e) ++ go r (S i)
         end) es O
  end.

(* ---------- struct values whose fields are in struct order, hereditarily ---------- *)

Fixpoint otreeb (s : schema) (t : tree) {struct t} : bool :=
  match t with
  | TCont fs =>
      fields_orderedb (sfields s) fs
      && (fix go (l : list (str * tree)) : bool :=
            match l with
            | [] => true
            | (n, sub) :: r =>
                match find (fun fs => str_eqb (f_go (fst fs)) n) (sfields s) with
                | Some (_, ss) => otreeb ss sub
                | None => true
                end && go r
            end) fs
  | TList es =>
      (fix go (l : list (list scalar * tree)) : bool :=
         match l with [] => true | (_, e) :: r => otreeb s e && go r end) es
  | TUnkeyed es =>
      (fix go (l : list tree) : bool :=
         match l with [] => true | e :: r => otreeb s e && go r end) es
  | _ => true
  end.

(* ---------- the part of a tree that a JSON document does not touch ---------- *)

Section Untouched.
  (* unm_entry f sfs cur jm: unmarshal the object jm into the fields cur of a struct sfs *)
  Variable unm_entry : nat -> list (finfo * schema) -> list (str * tree) -> list (str * json) -> result (list (str * tree)).
  Variable paths_of : finfo -> list (list str).     (* path or shadow-path alternatives in use *)

  (* untouched fuel s j p: unmarshalling j (schema s, fuel as in unm_node) cannot change the
     value at path p of the tree it is unmarshalled into *)
  Inductive untouched : nat -> schema -> json -> list step -> Prop :=
  | ut_null fuel s p : untouched fuel s JNull p
  | ut_cont f sfs jm p : untouched_fields f sfs jm p -> untouched (S f) (SCont sfs) (JObj jm) p
  | ut_key f keys mn mx sfs l k p :
      (* every element with this key leaves the path below the entry alone (none: the entry is
         not mentioned at all) *)
      (forall jm nfs, In (JObj jm) l -> unm_entry f sfs [] jm = Ok nfs -> entry_key sfs keys nfs = Ok k ->
                      untouched_fields f sfs jm p) ->
      untouched (S f) (SList false keys mn mx sfs) (JArr l) (StK k :: p)
  | ut_ordered f keys mn mx sfs l k p :
      (* ordered-by-user lists only ever get new entries appended *)
      untouched (S f) (SList true keys mn mx sfs) (JArr l) (StK k :: p)
  | ut_idx f sfs l i p : untouched (S f) (SUnkeyed sfs) (JArr l) (StI i :: p)
  with untouched_fields : nat -> list (finfo * schema) -> list (str * json) -> list step -> Prop :=
  | utf_absent f sfs jm n p :
      (forall g sg, In (g, sg) sfs -> f_go g = n -> jget_field (JObj jm) (paths_of g) None = Ok None) ->
      untouched_fields f sfs jm (StF n :: p)
  | utf_descend f sfs jm g sg jv p :
      In (g, sg) sfs -> jget_field (JObj jm) (paths_of g) None = Ok (Some jv) ->
      untouched f sg jv p ->
      untouched_fields f sfs jm (StF (f_go g) :: p).
End Untouched.
