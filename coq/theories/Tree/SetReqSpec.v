(* SetReqSpec.v — the reference semantics UnmarshalSetRequest (Tree/SetReq.v) is compared with in
   C13.  Definitions only; the proofs are in Tree/SetReqProofs.v.

   Part A (operational): a SetRequest as ONE list of pending operations (deletes, replaces,
   updates, in message order) run by a single loop; the same as pure left folds of
   delete_node_st / set_node_st over the joined paths; a list of requests run in sequence.

   Part B (declarative): gNMI Set on a path-to-value map `lmap` (what Leaves.leaves returns):
   delete = drop every path below the target, update = override the leaf (plus the key leaves of
   the list entries the path creates), replace = delete then update, a request = all deletes,
   then all replaces, then all updates.  The spec is parameterised by a `path_sem`: what a data
   path denotes in the schema (ygot specifics: a field of compressed code has several paths,
   `config/name|name`; a TypedValue is decoded to the Go value of the leaf's type).  For a schema
   where every field has one path, `ps_alts p = [p]` and spec_delete is literally
   `filter (fun q => negb (is_prefix p (fst q)))`. *)
From Ygot Require Import Tree.Tree Tree.Codec Tree.TreeOps Tree.Unmarshal Tree.KeyCodec Tree.Leaves
  Tree.Notif Tree.Node Tree.SetReq Tree.GnmiStatements Path.PathRel.

(* ====================================================================================== *)
(* Part A — operational reference                                                         *)
(* ====================================================================================== *)

(* one operation of a SetRequest, path not yet joined to the prefix *)
Inductive pop := PDel (p : gp) | PRep (u : gp * tval) | PUpd (u : gp * tval).

(* the gNMI order: every delete, then every replace, then every update, each in message order *)
Definition pending (r : sreq) : list pop :=
  map PDel (sr_deletes r) ++ map PRep (sr_replaces r) ++ map PUpd (sr_updates r).

(* the elements of JoinPaths(prefix, path) when it succeeds *)
Definition jelems (pre p : gp) : dpath := elems pre ++ elems p.
Definition jupd (pre : gp) (u : gp * tval) : dpath * tval := (jelems pre (fst u), snd u).

Section Reference.
  Variable env : enum_env.
  Variable fo : float_oracle.
  Variable ko : key_oracle.
  Variable sch : schema.
  Variable o : sr_opts.

  Definition step_op (pre : gp) (t : tree) (op : pop) : tree * step_out :=
    match op with
    | PDel p => delete_step env fo ko sch o pre t p
    | PRep u => replace_step env fo ko sch o pre t u
    | PUpd u => update_step env fo ko sch o pre t u
    end.

  (* one loop over all operations.  ce: a node error was collected (BestEffortUnmarshal) *)
  Fixpoint run_ops (pre : gp) (t : tree) (ops : list pop) (ce : bool) : tree * sr_out :=
    match ops with
    | [] => (t, if so_best_effort o && ce then SRCompliance else SROk)
    | op :: rest =>
        let '(t', so) := step_op pre t op in
        match so with
        | StOk => run_ops pre t' rest ce
        | StErr => if so_best_effort o then run_ops pre t' rest true else (t', SRErr)
        | StJoinErr => (t', SRErr)
        | StPanic => (t', SRPanic)
        end
    end.

  (* the same loop, giving up at the first operation that is not OK *)
  Fixpoint run_strict (pre : gp) (t : tree) (ops : list pop) : option tree :=
    match ops with
    | [] => Some t
    | op :: rest =>
        let '(t', so) := step_op pre t op in
        match so with
        | StOk => run_strict pre t' rest
        | _ => None
        end
    end.

  (* every operation attempted, outcomes ignored *)
  Definition attempt_all (pre : gp) (t : tree) (ops : list pop) : tree :=
    fold_left (fun t op => fst (step_op pre t op)) ops t.

  (* the operations on joined paths, as state transformers (the tree after the call) *)
  Definition del_f (t : tree) (p : dpath) : tree := fst (delete_node_st env fo ko (so_shadow o) sch t p).
  Definition upd_f (t : tree) (u : dpath * tval) : tree :=
    fst (set_node_st env fo ko (sn_opts o) (snd u) sch t (fst u)).
  Definition rep_f (t : tree) (u : dpath * tval) : tree := upd_f (del_f t (fst u)) u.

  (* the left fold of the gNMI phases *)
  Definition fold_set (t : tree) (r : sreq) : tree :=
    let pre := sr_prefix r in
    fold_left upd_f (map (jupd pre) (sr_updates r))
      (fold_left rep_f (map (jupd pre) (sr_replaces r))
        (fold_left del_f (map (jelems pre) (sr_deletes r)) t)).

  (* the same with outcomes: GnmiStatements.reference_set for arbitrary options *)
  Definition ref_delete (pre : gp) (t : tree) (p : gp) : result tree :=
    bind (join_paths pre p) (fun jp => delete_node env fo ko (so_shadow o) sch t (elems jp)).
  Definition ref_update (pre : gp) (t : tree) (u : gp * tval) : result tree :=
    bind (join_paths pre (fst u)) (fun jp => set_node env fo ko (sn_opts o) (snd u) sch t (elems jp)).
  Definition ref_replace (pre : gp) (t : tree) (u : gp * tval) : result tree :=
    bind (join_paths pre (fst u)) (fun jp =>
    bind (delete_node env fo ko (so_shadow o) sch t (elems jp)) (fun t1 =>
          set_node env fo ko (sn_opts o) (snd u) sch t1 (elems jp))).
  Definition reference_set_o (t : tree) (r : sreq) : result tree :=
    bind (fold_res (ref_delete (sr_prefix r)) (sr_deletes r) t) (fun t1 =>
    bind (fold_res (ref_replace (sr_prefix r)) (sr_replaces r) t1) (fun t2 =>
          fold_res (ref_update (sr_prefix r)) (sr_updates r) t2)).

  (* a history: requests applied one after the other, stopping at the first that is not OK *)
  Fixpoint run_requests (t : tree) (rs : list sreq) : tree * sr_out :=
    match rs with
    | [] => (t, SROk)
    | r :: rest =>
        let '(t', out) := unmarshal_setrequest env fo ko sch o t r in
        match out with
        | SROk => run_requests t' rest
        | _ => (t', out)
        end
    end.
End Reference.

(* every path of the request joins with the prefix *)
Definition joins_ok (r : sreq) : Prop :=
  (forall p, In p (sr_deletes r) -> exists jp, join_paths (sr_prefix r) p = Ok jp) /\
  (forall u, In u (sr_replaces r ++ sr_updates r) -> exists jp, join_paths (sr_prefix r) (fst u) = Ok jp).

(* ====================================================================================== *)
(* Part B — declarative reference on leaf maps                                            *)
(* ====================================================================================== *)

Definition lmap := list (dpath * lval).
Definition is_prefix (p q : dpath) : bool := elems_prefix p q.

(* what a data path means in the schema *)
Record path_sem := {
  ps_alts : dpath -> list dpath;            (* all paths of the node p addresses ([p] when every field has one path) *)
  ps_keyleaves : dpath -> lmap;             (* the key leaves of the list entries on the way to p *)
  ps_value : dpath -> tval -> option lval   (* the payload as a value of the leaf's type *)
}.

Definition under (alts : list dpath) (q : dpath) : bool := existsb (fun a => is_prefix a q) alts.
Definition same_path (a b : dpath) : bool := Nat.eqb (length a) (length b) && elems_prefix a b.
Definition has_path (m : lmap) (q : dpath) : bool := existsb (fun e => same_path q (fst e)) m.
(* key leaves come into being with their entry: those already there are kept *)
Definition add_missing (ks m : lmap) : lmap := m ++ filter (fun kv => negb (has_path m (fst kv))) ks.

Section Spec.
  Variable sem : path_sem.

  Definition spec_delete (m : lmap) (p : dpath) : lmap :=
    filter (fun e => negb (under (ps_alts sem p) (fst e))) m.

  (* scalar payload on a leaf / leaf-list path *)
  Definition spec_update (m : lmap) (p : dpath) (x : tval) : lmap :=
    match ps_value sem p x with
    | Some v =>
        map (fun a => (a, v)) (ps_alts sem p) ++
        filter (fun e => negb (under (ps_alts sem p) (fst e))) (add_missing (ps_keyleaves sem p) m)
    | None => m
    end.

  Definition spec_replace (m : lmap) (p : dpath) (x : tval) : lmap := spec_update (spec_delete m p) p x.

  Definition spec_set (m : lmap) (r : sreq) : lmap :=
    let pre := sr_prefix r in
    fold_left (fun m u => spec_update m (jelems pre (fst u)) (snd u)) (sr_updates r)
      (fold_left (fun m u => spec_replace m (jelems pre (fst u)) (snd u)) (sr_replaces r)
        (fold_left (fun m p => spec_delete m (jelems pre p)) (sr_deletes r) m)).

  Definition spec_history (m : lmap) (rs : list sreq) : lmap := fold_left spec_set rs m.
End Spec.

(* the textbook instance: one path per node, no implied key leaves *)
Definition plain_sem (value : dpath -> tval -> option lval) : path_sem :=
  {| ps_alts := fun p => [p]; ps_keyleaves := fun _ => []; ps_value := value |}.

(* leaf maps as sets of (path, value) pairs; Go collects the leaves in a map *)
Definition lm_equiv (a b : lmap) : Prop := forall q v, In (q, v) a <-> In (q, v) b.

(* ---------- the two per-operation statements the refinement is derived from ---------- *)
(* obs: the observation (Leaves.leaves); Inv: what is required of the tree and preserved;
   dguard / sguard: the targets covered.  "After a successful DeleteNode / SetNode the leaves are
   those of the spec." *)
Definition leaves_after_delete_stmt (env : enum_env) (fo : float_oracle) (ko : key_oracle) (sch : schema) (o : sr_opts)
  (sem : path_sem) (obs : tree -> result lmap) (Inv : tree -> Prop) (dguard : dpath -> Prop) : Prop :=
  forall t p t' m,
    Inv t -> dguard p ->
    delete_node_st env fo ko (so_shadow o) sch t p = (t', Ok tt) -> obs t = Ok m ->
    Inv t' /\ exists m', obs t' = Ok m' /\ lm_equiv m' (spec_delete sem m p).
Definition leaves_after_set_leaf_stmt (env : enum_env) (fo : float_oracle) (ko : key_oracle) (sch : schema) (o : sr_opts)
  (sem : path_sem) (obs : tree -> result lmap) (Inv : tree -> Prop) (sguard : dpath -> tval -> Prop) : Prop :=
  forall t p x t' m,
    Inv t -> sguard p x ->
    set_node_st env fo ko (sn_opts o) x sch t p = (t', Ok tt) -> obs t = Ok m ->
    Inv t' /\ exists m', obs t' = Ok m' /\ lm_equiv m' (spec_update sem m p x).

(* the requests covered: guards on the joined paths *)
Definition req_guard (dguard : dpath -> Prop) (sguard : dpath -> tval -> Prop) (r : sreq) : Prop :=
  (forall p, In p (sr_deletes r) -> dguard (jelems (sr_prefix r) p)) /\
  (forall u, In u (sr_replaces r) ->
     dguard (jelems (sr_prefix r) (fst u)) /\ sguard (jelems (sr_prefix r) (fst u)) (snd u)) /\
  (forall u, In u (sr_updates r) -> sguard (jelems (sr_prefix r) (fst u)) (snd u)).

(* ---------- the path semantics of a ygot schema ---------- *)

Fixpoint keys_sortedb (l : list (str * str)) : bool :=
  match l with
  | [] => true
  | (k, _) :: t => match t with
                   | [] => true
                   | (k', _) :: _ => str_ltb k k' && keys_sortedb t
                   end
  end.

Section SchemaSem.
  Variable env : enum_env.
  Variable fo : float_oracle.
  Variable ko : key_oracle.
  Variable sch : schema.

  Definition sch_alts (p : dpath) : list dpath :=
    match node_at sch p with Some ni => ni_alts ni | None => [p] end.

  Definition sch_value (p : dpath) (x : tval) : option lval :=
    match node_at sch p with
    | Some ni =>
        match ni_schema ni, x with
        | _, TVNil | _, TVJsonIetf _ | _, TVJson _ => None
        | SLeaf ty _, _ => match decode_tv env ko false ty x with Ok v => Some (LV v) | _ => None end
        | SLeafList ty _ _, TVLeafList l =>
            match mapM (decode_tv env ko false ty) l with
            | Ok (v :: vs) => Some (LVs (v :: vs))
            | _ => None
            end
        | _, _ => None
        end
    | None => None
    end.

  (* the key leaves of the entry `epath` (its last element carries the key strings ek): one per
     key and path alternative, holding the value stringToKeyType makes of the string.  None: a key
     is missing, there are other keys, a string is not the one KeyValueAsString prints for its
     value (such a path never matches an existing entry), the keys are not in name order *)
  Fixpoint entry_keyleaves (esfs : list (finfo * schema)) (keys : list str) (ek : list (str * str)) (epath : dpath)
    : option lmap :=
    match keys with
    | [] => Some []
    | k :: rest =>
        match al_find k ek, key_name_field esfs k with
        | Some s, Ok (fi, SLeaf t _) =>
            match string_to_key env fo ko t s with
            | Ok v =>
                match key_to_string env ko v with
                | Ok s' =>
                    if str_eqb s s' && negb (nan_key v) then
                      match entry_keyleaves esfs rest ek epath with
                      | Some r => Some (map (fun a => (a, LV v)) (lib_paths false fi epath) ++ r)
                      | None => None
                      end
                    else None
                | _ => None
                end
            | _ => None
            end
        | _, _ => None
        end
    end.

  (* walks p through the schema; None: p leaves the schema, crosses an ordered list (whose leaves
     `leaves` does not list) or an unkeyed list, or names a list entry in a non-canonical way *)
  Fixpoint sch_walk (fuel : nat) (s : schema) (p done : dpath) : option lmap :=
    match fuel with
    | O => None
    | S f =>
        match p with
        | [] => Some []
        | _ =>
            match find_field false false p (sfields s) with
            | FMPath fi ss alt false =>
                let n := length alt in
                let done' := done ++ firstn n p in
                let ek := ekeys (last (firstn n p) (mk_elem [])) in
                let inner := forallb (fun e => nil_b (ekeys e)) (removelast (firstn n p)) in
                let here :=
                  match ss with
                  | SList false keys _ _ esfs =>
                      if nil_b ek then (if Nat.eqb (length p) n then Some [] else None)
                      else if keys_sortedb ek && Nat.eqb (length ek) (length keys)
                      then entry_keyleaves esfs keys ek done' else None
                  | SList true _ _ _ _ | SUnkeyed _ => None
                  | _ => if nil_b ek then Some [] else None
                  end in
                if negb inner then None else
                match here with
                | Some l =>
                    if Nat.eqb (length p) n then Some l
                    else match sch_walk f ss (skipn n p) done' with
                         | Some r => Some (l ++ r)
                         | None => None
                         end
                | None => None
                end
            | _ => None
            end
        end
    end.

  Definition sch_keyleaves (p : dpath) : lmap :=
    match sch_walk (2 * length p + 2) sch p [] with Some l => l | None => [] end.

  Definition schema_sem : path_sem :=
    {| ps_alts := sch_alts; ps_keyleaves := sch_keyleaves; ps_value := sch_value |}.

  (* the paths the refinement is stated for *)
  Definition path_walks (p : dpath) : bool :=
    match sch_walk (2 * length p + 2) sch p [] with Some _ => true | None => false end.
  (* a delete target: any node that is not a key leaf (deleting a key leaf leaves an entry that
     can no longer be rendered: GnmiStatements.c16_refuted_key_leaf_delete) *)
  Definition delete_guardb (p : dpath) : bool :=
    match node_at sch p with
    | Some ni => negb (ni_key_leaf ni) && path_walks p
    | None => false
    end.
  (* an update target: a leaf or leaf-list that is not a key leaf, with a payload of its type *)
  Definition update_guardb (p : dpath) (x : tval) : bool :=
    match node_at sch p with
    | Some ni =>
        is_leafish (ni_schema ni) && negb (ni_key_leaf ni) && path_walks p &&
        match sch_value p x with Some _ => true | None => false end
    | None => false
    end.
End SchemaSem.
