(* Leafref.v — leafref validation at tree level (definitions only).

   Transcribed Go: ytypes/leafref.go ValidateLeafRefData (the iterator run by util.ForEachField
   on every field), leafrefErrOrLog, leafRefToGNMIPath (step one: predicates are replaced by the
   values they point to; the corpus leafrefs have no predicates, so step one is the identity and
   only that case is modelled), dataNodesAtPath (step two: walk up the NodeInfo chain for every
   leading "..", with the rule that the NodeInfo of a map is skipped without consuming a "..",
   then ytypes.GetNode downwards with GetPartialKeyMatch: every entry of a list on the way),
   matchesNodes.

   Scope: uncompressed structs (every path tag is one YANG name); XPath subset of the corpus:
   relative paths "../"^n name/.../name and absolute paths /name/.../name, no predicates, no
   leafref inside an unkeyed list (walkFieldInternal gives the slice its own NodeInfo, which
   dataNodesAtPath does not skip: outside the model).  ytypes.GetNode is modelled by its result
   on such paths (`sel`), not transcribed.  Leafref leaf-lists are not checked by the Go code
   ("!util.IsLeafRef(schema) || schema.IsLeafList()": return nil) and are not checked here.

   The leafref paths are not part of Tree.v's schema: they come in a side table printed by the
   harness (vd_leafref.go): Go field names from the root struct to the leafref leaf -> path. *)
From Ygot Require Import Tree.Tree Tree.TreeOps Tree.Validate Tree.Defaults.

Record lrpath := { lr_abs : bool; lr_up : nat; lr_down : list str }.
Definition lrtab := list (list str * lrpath).

Fixpoint tab_find (gp : list str) (tab : lrtab) : option lrpath :=
  match tab with
  | [] => None
  | (p, l) :: r => if list_eqb str_eqb p gp then Some l else tab_find gp r
  end.

(* how Validate is called *)
Inductive lrmode :=
| LrNil          (* no LeafrefOptions *)
| LrNonNil       (* &LeafrefOptions{IgnoreMissingData: false} *)
| LrIgnore.      (* &LeafrefOptions{IgnoreMissingData: true} *)

Inductive lerr := ELrDangling | ELrNoParent | ELrPanic.

(* the values of the nodes a downward path selects from a struct: ytypes.GetNode with
   GetPartialKeyMatch / GetHandleWildcards / GetTolerateNil, nil data dropped *)
Fixpoint sel (downs : list str) (sfs : list (finfo * schema)) (fs : list (str * tree)) {struct downs} : list scalar :=
  match downs with
  | [] => []
  | n :: rest =>
      match key_field sfs n with
      | None => []
      | Some (fi, ss) =>
          match ss, field_get (f_go fi) fs with
          | SLeaf _ _, Some (TLeaf v) => if nil_b rest then [v] else []
          | SLeafList _ _ _, Some (TLeafList vs) => if nil_b rest then vs else []
          | SCont sfs', o => sel rest sfs' (cont_fields o)
          | SList _ _ _ _ sfs', Some (TList es) => flat_map (fun ke => sel rest sfs' (fields_of (snd ke))) es
          | SUnkeyed sfs', Some (TUnkeyed es) => flat_map (fun e => sel rest sfs' (fields_of e)) es
          | _, _ => []
          end
      end
  end.

(* matchesNodes: DeepEqualDerefPtrs against every selected value; a Binary target is a slice and
   is compared element by element as if it were a leaf-list: it never matches *)
Definition lr_eq (v w : scalar) : bool := match w with VBin _ => false | _ => scalar_eqb v w end.

(* dataNodesAtPath, the upward walk.  rloc: the steps from the root to the struct that encloses
   the leaf, innermost first.  The first ".." leads from the leaf to that struct; every further
   one to the parent struct: a container's parent directly, a map entry's parent through the
   map's NodeInfo, which is skipped without consuming a "..". *)
Fixpoint go_up (k : nat) (rloc : list sstep) : option (list sstep) :=
  match k with
  | O => Some rloc
  | S k' =>
      match rloc with
      | [] => None                              (* "no parent for leafref path" *)
      | StC _ :: r => go_up k' r
      | StL _ _ :: r => go_up k' r              (* map NodeInfo skipped, then one ".." consumed *)
      | StU _ _ :: _ => None                    (* slice NodeInfo not skipped: outside the model *)
      end
  end.

(* lrfix: the proposed repair of leafrefErrOrLog is present (errors are only swallowed when
   IgnoreMissingData is set, not whenever some LeafrefOptions value is given); probed by the harness *)
Section Leafref.
  Variable lrfix : bool.
  Variable tab : lrtab.
  Variable sfs0 : list (finfo * schema).      (* the root struct *)
  Variable fs0 : list (str * tree).

  (* step two for one leafref leaf whose enclosing struct is at loc *)
  Definition go_targets (loc : list sstep) (lp : lrpath) : option (list scalar) :=
    if lr_abs lp then Some (sel (lr_down lp) sfs0 fs0)
    else match lr_up lp with
         | O => None
         | S k =>
             match go_up k (rev loc) with
             | None => None
             | Some r => match reach sfs0 fs0 (rev r) with
                         | Some (sfs, fs) => Some (sel (lr_down lp) sfs fs)
                         | None => None
                         end
             end
         end.

  (* leafrefErrOrLog: as the code stands, any non-nil options value swallows the error *)
  Definition reports (mode : lrmode) : bool :=
    match mode with LrNil => true | LrNonNil => lrfix | LrIgnore => false end.

  Definition check_leaf (mode : lrmode) (loc : list sstep) (lp : lrpath) (v : scalar) : list lerr :=
    match go_targets loc lp with
    | None => [ELrNoParent]
    | Some ts =>
        match ts, v with
        | _ :: _, VBin _ => [ELrPanic]     (* a Binary source is a slice: matchesNodes calls ni.FieldValue.Elem() on it *)
        | _, _ =>
            if existsb (lr_eq v) ts then []
            else if reports mode then [ELrDangling] else []
        end
    end.

  (* ForEachField: every set leaf field of the struct t, which is reached from the root through the
     Go field names gp and the data steps loc *)
  Fixpoint walk (mode : lrmode) (gp : list str) (loc : list sstep) (t : tree) {struct t} : list lerr :=
    match t with
    | TCont fs =>
        flat_map (fun nt =>
          let name := fst nt in
          match snd nt with
          | TLeaf v => match tab_find (gp ++ [name]) tab with
                       | Some lp => check_leaf mode loc lp v
                       | None => []
                       end
          | TLeafList _ => []
          | TCont _ => walk mode (gp ++ [name]) (loc ++ [StC name]) (snd nt)
          | TList es => flat_map (fun ke => walk mode (gp ++ [name]) (loc ++ [StL name (fst ke)]) (snd ke)) es
          | TUnkeyed es =>
              (fix go (i : nat) (l : list tree) : list lerr :=
                 match l with
                 | [] => []
                 | e :: r => walk mode (gp ++ [name]) (loc ++ [StU name i]) e ++ go (S i) r
                 end) O es
          end) fs
    | _ => []
    end.

  (* ValidateLeafRefData from the fake root *)
  Definition validate_leafrefs (mode : lrmode) : list lerr :=
    match mode with
    | LrIgnore => []
    | _ => walk mode [] [] (TCont fs0)
    end.

  (* ---------- denotation (RFC 7950 9.9: the leafref value must be one of the values of the nodes
     the path selects, evaluated against the current data, the leaf being the context node) ---------- *)

  Definition select (loc : list sstep) (lp : lrpath) : option (list scalar) :=
    if lr_abs lp then Some (sel (lr_down lp) sfs0 fs0)
    else if Nat.eqb (lr_up lp) 0 then None
    else if Nat.ltb (length loc) (lr_up lp - 1) then None      (* above the root *)
    else match reach sfs0 fs0 (firstn (length loc - (lr_up lp - 1)) loc) with
         | Some (sfs, fs) => Some (sel (lr_down lp) sfs fs)
         | None => None
         end.

  Definition satisfied (loc : list sstep) (lp : lrpath) (v : scalar) : bool :=
    match select loc lp with
    | Some ts => existsb (scalar_eqb v) ts
    | None => false
    end.

  (* every set leafref leaf of the tree: (data steps to its struct, leafref path, value) *)
  Fixpoint lr_leaves (gp : list str) (loc : list sstep) (t : tree) {struct t} : list (list sstep * lrpath * scalar) :=
    match t with
    | TCont fs =>
        flat_map (fun nt =>
          let name := fst nt in
          match snd nt with
          | TLeaf v => match tab_find (gp ++ [name]) tab with Some lp => [(loc, lp, v)] | None => [] end
          | TLeafList _ => []
          | TCont _ => lr_leaves (gp ++ [name]) (loc ++ [StC name]) (snd nt)
          | TList es => flat_map (fun ke => lr_leaves (gp ++ [name]) (loc ++ [StL name (fst ke)]) (snd ke)) es
          | TUnkeyed es =>
              (fix go (i : nat) (l : list tree) : list (list sstep * lrpath * scalar) :=
                 match l with
                 | [] => []
                 | e :: r => lr_leaves (gp ++ [name]) (loc ++ [StU name i]) e ++ go (S i) r
                 end) O es
          end) fs
    | _ => []
    end.
  Definition all_lr_leaves : list (list sstep * lrpath * scalar) := lr_leaves [] [] (TCont fs0).
End Leafref.

(* guards of c30_iff: no leafref leaf sits inside an unkeyed list; no leafref value is binary *)
Definition loc_keyed (loc : list sstep) : bool :=
  forallb (fun st => match st with StU _ _ => false | _ => true end) loc.
Definition not_bin (v : scalar) : bool := match v with VBin _ => false | _ => true end.
