(* Render.v — RFC 7951 rendering of a GoStruct (ygot/render.go: structJSON, prependmodsJSON,
   rewriteModName, jsonValue, mapJSON, mapValuePairsToJSON, jsonSlice, leaflistToSlice). *)
From Ygot Require Import Tree.Tree Tree.Codec.

Record jcfg := {
  c_append_mod : bool;          (* AppendModuleName *)
  c_prepend_iref : bool;        (* PrependModuleNameIdentityref *)
  c_shadow : bool;              (* PreferShadowPath *)
  c_rewrite : list (str * str)  (* RewriteModuleNames *)
}.

Definition rewrite_mod (cfg : jcfg) (m : str) : str :=
  match assoc m (c_rewrite cfg) with
  | Some r => if nil_b r then m else r
  | None => m
  end.

Definition pmi (cfg : jcfg) : bool := c_append_mod cfg || c_prepend_iref cfg.

(* JSON objects as sorted association lists (encoding/json sorts map keys) *)
Definition jobj := list (str * json).

(* JSet: the entries of a keyed list held in a Go map. ygot sorts them by the %v text of the
   map key; the model keeps them in tree order and the checker compares them as a set. *)
Definition JSET_TAG : str := [0].
Definition jset (l : list json) : json := JArr (JStr JSET_TAG :: l).

(* parent[k1][k2]...[kn] = v with intermediate objects created on demand; a non-object met on
   the way is the unchecked assertion parent[k].(map[string]any) -> Panic *)
Fixpoint jput (path : list str) (v : json) (o : jobj) : result jobj :=
  match path with
  | [] => Ok o
  | [k] => Ok (al_insert k v o)
  | k :: rest =>
      match al_find k o with
      | None => bind (jput rest v []) (fun sub => Ok (al_insert k (JObj sub) o))
      | Some (JObj sub) => bind (jput rest v sub) (fun sub' => Ok (al_insert k (JObj sub') o))
      | Some _ => Panic
      end
  end.

(* which path / module alternatives a field uses *)
Definition use_paths (cfg : jcfg) (f : finfo) : list (list str) :=
  if c_shadow cfg && negb (nil_b (f_spaths f)) then f_spaths f else f_paths f.
Definition use_mods (cfg : jcfg) (f : finfo) : list (list str) :=
  if c_shadow cfg && negb (nil_b (f_smods f)) then f_smods f else f_mods f.

(* prependmodsJSON for one module path: "" where the module equals the previous one *)
Fixpoint prepend_one (cfg : jcfg) (prev : str) (mods : list str) : list str * str :=
  match mods with
  | [] => ([], prev)
  | m :: t =>
      let m' := rewrite_mod cfg m in
      if str_eqb m' prev then let '(r, last) := prepend_one cfg prev t in ([] :: r, last)
      else let '(r, last) := prepend_one cfg m' t in (m' :: r, last)
  end.

(* all alternatives; Err when the child modules of the alternatives differ *)
Fixpoint prepend_all (cfg : jcfg) (parent : str) (alts : list (list str)) (ch : str) : result (list (list str) * str) :=
  match alts with
  | [] => Ok ([], ch)
  | a :: t =>
      let '(pm, last) := prepend_one cfg parent a in
      if negb (nil_b ch) && negb (str_eqb last ch) then Err
      else bind (prepend_all cfg parent t last) (fun r => Ok (pm :: fst r, snd r))
  end.

Definition qualify (m k : str) : str := if nil_b m then k else m ++ COLON :: k.
Fixpoint qualify_path (ms : list str) (p : list str) : list str :=
  match ms, p with
  | m :: ms', k :: p' => qualify m k :: qualify_path ms' p'
  | _, _ => p
  end.

Definition is_empty_obj (j : json) : bool := match j with JObj [] => true | _ => false end.

Section Render.
  Variable env : enum_env.
  Variable fo : float_oracle.
  Variable cfg : jcfg.

  Fixpoint render_scalars (vs : list scalar) : result (list json) :=
    match vs with
    | [] => Ok []
    | v :: t => bind (enc_scalar env fo (pmi cfg) v) (fun j => bind (render_scalars t) (fun r => Ok (j :: r)))
    end.

  (* fuel-free structural recursion over the tree; the schema gives tags only *)
  Fixpoint render_node (s : schema) (t : tree) (parent_mod : str) {struct t} : result json :=
    match t with
    | TLeaf v => enc_scalar env fo (pmi cfg) v
    | TLeafList vs => bind (render_scalars vs) (fun l => Ok (JArr l))
    | TCont fs =>
        let sfs := match s with SCont x | SList _ _ _ _ x | SUnkeyed x => x | _ => [] end in
        bind ((fix fields (l : list (str * tree)) (acc : jobj) {struct l} : result jobj :=
          match l with
          | [] => Ok acc
          | (name, sub) :: rest =>
              match find (fun fs => str_eqb (f_go (fst fs)) name) sfs with
              | None => Err
              | Some (fi, ss) =>
                  let paths := use_paths cfg fi in
                  let pm := if c_append_mod cfg
                            then (if nil_b (use_mods cfg fi) then Ok ([], []) else prepend_all cfg parent_mod (use_mods cfg fi) [])
                            else Ok ([], []) in
                  match pm with
                  | Err => Err | Panic => Panic
                  | Ok (mods, chmod) =>
                      bind (render_node ss sub chmod) (fun v =>
                        if is_empty_obj v && negb (f_presence fi) then fields rest acc
                        else
                          if negb (nil_b mods) && negb (Nat.eqb (length mods) (length paths)) then Err
                          else
                          bind ((fix alts (ps : list (list str)) (ms : list (list str)) (acc : jobj) {struct ps} : result jobj :=
                                  match ps with
                                  | [] => Ok acc
                                  | p :: ps' =>
                                      let m := hd [] ms in
                                      bind (jput (if nil_b mods then p else qualify_path m p) v acc)
                                           (fun acc' => alts ps' (tl ms) acc')
                                  end) paths mods acc)
                               (fun acc' => fields rest acc'))
                  end
              end
          end) fs []) (fun o => Ok (JObj o))
    | TList es =>
        let ordered := match s with SList o _ _ _ _ => o | _ => true end in
        bind ((fix entries (l : list (list scalar * tree)) : result (list json) :=
                 match l with
                 | [] => Ok []
                 | (_, e) :: rest => bind (render_node s e parent_mod) (fun j => bind (entries rest) (fun r => Ok (j :: r)))
                 end) es)
             (fun l => Ok (if ordered then JArr l else jset l))
    | TUnkeyed es =>
        bind ((fix entries (l : list tree) : result (list json) :=
                 match l with
                 | [] => Ok []
                 | e :: rest => bind (render_node s e parent_mod) (fun j => bind (entries rest) (fun r => Ok (j :: r)))
                 end) es)
             (fun l => Ok (JArr l))
    end.

  (* ConstructIETFJSON / Marshal7951 of the root struct: parentMod "" *)
  Definition render (s : schema) (t : tree) : result json := render_node s t [].
End Render.
