(* TreeOps.v — helpers over trees shared by the tree-layer models: the canonical order of
   Go-map list entries (the harness sorts map entries the same way when it prints a tree),
   field lookup and update. *)
From Ygot Require Import Tree.Tree Scalar.Dec.

(* mirrors harness/ydrive/tree.go:sortKey *)
Definition scalar_sortkey (v : scalar) : str :=
  (* a kind tag first, so that values of different kinds (union keys) never tie *)
  match v with
  | VInt _ z => 105 :: dec_of_Z z
  | VStr s => 115 :: s
  | VBool b => 98 :: (if b then [116;114;117;101] else [102;97;108;115;101])
  | VDec bits => 100 :: dec_of_N bits
  | VBin bs => 120 :: bs
  | VEmpty => [110]
  | VEnum ty n => 101 :: ty ++ 58 :: dec_of_Z n
  end.

Fixpoint keys_cmp (a b : list scalar) : comparison :=
  match a, b with
  | [], [] => Eq
  | [], _ => Lt
  | _, [] => Gt
  | x :: a', y :: b' =>
      match str_cmp (scalar_sortkey x) (scalar_sortkey y) with
      | Eq => keys_cmp a' b'
      | c => c
      end
  end.

Definition keys_eqb (a b : list scalar) : bool := list_eqb scalar_eqb a b.

(* entries of a Go map: kept sorted by keys_cmp; an existing key is replaced *)
Fixpoint tl_insert (k : list scalar) (e : tree) (es : list (list scalar * tree)) : list (list scalar * tree) :=
  match es with
  | [] => [(k, e)]
  | (k', e') :: t =>
      if keys_eqb k k' then (k, e) :: t
      else match keys_cmp k k' with
           | Lt => (k, e) :: es
           | _ => (k', e') :: tl_insert k e t
           end
  end.
Fixpoint tl_find (k : list scalar) (es : list (list scalar * tree)) : option tree :=
  match es with
  | [] => None
  | (k', e) :: t => if keys_eqb k k' then Some e else tl_find k t
  end.
Fixpoint tl_remove (k : list scalar) (es : list (list scalar * tree)) : list (list scalar * tree) :=
  match es with
  | [] => []
  | (k', e) :: t => if keys_eqb k k' then t else (k', e) :: tl_remove k t
  end.

(* fields of a TCont, kept in struct-field order: set/replace preserving the schema's order *)
Definition fields_of (t : tree) : list (str * tree) := match t with TCont fs => fs | _ => [] end.
Definition sfields (s : schema) : list (finfo * schema) :=
  match s with SCont x | SList _ _ _ _ x | SUnkeyed x => x | _ => [] end.

Fixpoint field_get (name : str) (fs : list (str * tree)) : option tree :=
  match fs with
  | [] => None
  | (n, t) :: r => if str_eqb n name then Some t else field_get name r
  end.
Fixpoint field_remove (name : str) (fs : list (str * tree)) : list (str * tree) :=
  match fs with
  | [] => []
  | (n, t) :: r => if str_eqb n name then r else (n, t) :: field_remove name r
  end.
(* insert (name, v) keeping the order of `order` (the Go field names of the struct) *)
Fixpoint field_set (order : list str) (name : str) (v : tree) (fs : list (str * tree)) : list (str * tree) :=
  match order with
  | [] => fs ++ [(name, v)]
  | o :: order' =>
      if str_eqb o name then
        match fs with
        | (n, t) :: r => if str_eqb n name then (name, v) :: r else (name, v) :: fs
        | [] => [(name, v)]
        end
      else
        match fs with
        | (n, t) :: r => if str_eqb n o then (n, t) :: field_set order' name v r else field_set order' name v fs
        | [] => [(name, v)]
        end
  end.
Definition go_names (sfs : list (finfo * schema)) : list str := map (fun fs => f_go (fst fs)) sfs.

(* the schema field whose (first) path ends in the given YANG name: key leaf lookup *)
Definition key_field (sfs : list (finfo * schema)) (k : str) : option (finfo * schema) :=
  find (fun fs => existsb (fun p => match p with [x] => str_eqb x k | _ => false end) (f_paths (fst fs))) sfs.
