(* GnmiRtProofs.v — C02: what TogNMINotifications emits are the leaves of the tree
   (notifs_are_leaves), and UnmarshalNotifications rebuilds the tree from them (roundtrip),
   for every schema / tree accepted by the guards of GnmiRt.v, by induction over trees.
   C16 (b): the paths of the emitted leaves address those leaves again. *)
From Ygot Require Import Tree.Tree Scalar.Dec Scalar.Base64 Tree.Codec Tree.CodecProofs.
From Ygot Require Import Tree.TreeOps Tree.Render Tree.Unmarshal Tree.RoundTrip Tree.RoundTripObjProofs Tree.RoundTripProofs.
From Ygot Require Import Tree.KeyCodec Tree.Leaves Tree.Notif Tree.Node Tree.SetReq Path.PathRel.
From Ygot Require Import Tree.KeyCodecProofs Tree.NodeStepProofs Tree.GnmiRt.

(* ====================================================================================== *)
(* 1. Scalars through TypedValue                                                           *)
(* ====================================================================================== *)

Lemma encode_tv_scalar env v tv : encode_tv env v = Ok tv -> tv_scalarb tv = true.
Proof.
  destruct v; simpl; try (intros [= <-]; reflexivity).
  - intros [= <-]. now destruct (ikind_signed k).
  - destruct (enum_by_num (enum_table env ty) n); [intros [= <-]; reflexivity | discriminate].
Qed.

Lemma tv_rtb_spec env ko ty v : tv_rtb env ko ty v = true ->
  exists tv, encode_tv env v = Ok tv /\ decode_tv env ko false ty tv = Ok v.
Proof.
  unfold tv_rtb. destruct (encode_tv env v) as [tv| |]; try discriminate.
  destruct (decode_tv env ko false ty tv) as [v'| |] eqn:E; try discriminate.
  intros H. apply scalar_eqb_eq in H. subst v'. eauto.
Qed.

(* the total encoder used to state the node-level lemmas *)
Definition enc_s (env : enum_env) (v : scalar) : tval :=
  match encode_tv env v with Ok tv => tv | _ => TVNil end.
Definition enc_l (env : enum_env) (v : lval) : tval :=
  match v with LV x => enc_s env x | LVs xs => TVLeafList (map (enc_s env) xs) end.

Lemma enc_s_rt env ko ty v : tv_rtb env ko ty v = true ->
  encode_tv env v = Ok (enc_s env v) /\ decode_tv env ko false ty (enc_s env v) = Ok v /\
  tv_scalarb (enc_s env v) = true.
Proof.
  intros H. destruct (tv_rtb_spec env ko ty v H) as (tv & E & D). unfold enc_s. rewrite E.
  repeat split; auto. eapply encode_tv_scalar; eauto.
Qed.

Lemma mapM_enc env ko ty : forall vs, forallb (tv_rtb env ko ty) vs = true ->
  mapM (encode_tv env) vs = Ok (map (enc_s env) vs).
Proof.
  induction vs as [|v vs IH]; simpl; intros H; [reflexivity|].
  apply andb_true_iff in H as [H1 H2]. destruct (enc_s_rt env ko ty v H1) as (E & _ & _).
  rewrite E. cbn [bind]. now rewrite (IH H2).
Qed.

Lemma decode_leaflist_rt env ko ty : forall vs acc, forallb (tv_rtb env ko ty) vs = true ->
  decode_leaflist env ko false ty (map (enc_s env) vs) acc = (acc ++ vs, Ok tt).
Proof.
  induction vs as [|v vs IH]; simpl; intros acc H; [now rewrite app_nil_r|].
  apply andb_true_iff in H as [H1 H2]. destruct (enc_s_rt env ko ty v H1) as (_ & D & _).
  rewrite D. rewrite IH by assumption. now rewrite <- app_assoc.
Qed.

(* ====================================================================================== *)
(* 2. Sequences of SetNode steps at one node                                               *)
(* ====================================================================================== *)

Definition upd := (dpath * tval)%type.

Section Run.
  Variable env : enum_env.
  Variable fo : float_oracle.
  Variable ko : key_oracle.

  Notation SR tv := (set_rec env fo ko rt_opts tv).

  (* one update applied at node (s, c) succeeds with one match, for every sufficient fuel *)
  Definition step_ok (need : dpath -> nat) (s : schema) (c : tree) (u : upd) (c' : tree) : Prop :=
    forall fuel, (need (fst u) <= fuel)%nat -> SR (snd u) fuel s (Some c) (fst u) = (Some c', Ok 1%nat).

  (* Inv: a property every state reached after a step has (used to keep the key leaves of a
     list entry in sight while the entry is filled) *)
  Inductive Run (Inv : tree -> Prop) (need : dpath -> nat) (s : schema) : tree -> list upd -> tree -> Prop :=
  | run_nil c : Run Inv need s c [] c
  | run_cons c u c' us c'' :
      step_ok need s c u c' -> Inv c' -> Run Inv need s c' us c'' -> Run Inv need s c (u :: us) c''.

  Lemma Run_app Inv need s : forall a c c' b c'',
    Run Inv need s c a c' -> Run Inv need s c' b c'' -> Run Inv need s c (a ++ b) c''.
  Proof.
    induction a as [|u a IH]; intros c c' b c'' Ha Hb.
    - inversion Ha; subst. exact Hb.
    - inversion Ha; subst. simpl. econstructor; eauto.
  Qed.

  Lemma Run_weaken (Inv Inv' : tree -> Prop) need s : (forall c, Inv c -> Inv' c) ->
    forall c us c', Run Inv need s c us c' -> Run Inv' need s c us c'.
  Proof. intros H c us c' HR. induction HR; econstructor; eauto. Qed.

  (* fuel a struct node / a list node needs for a relative path *)
  Definition need_struct (p : dpath) : nat := 2 * length p + 1.
  Definition need_list (p : dpath) : nat := 2 * length p.

  (* ---------- lifting the steps of a child to its parent struct ---------- *)

  (* the parent's field list S focuses on child value c of field n: the next step finds c there,
     and writing the field back gives the same as writing it into S0 *)
  Definition Focus (order : list str) (n : str) (ss : schema) (S0 S : list (str * tree)) (c : tree) : Prop :=
    init_field ss (field_get n S) = Some c /\
    forall c', field_set order n c' S = field_set order n c' S0.

  Lemma Focus_next order n ss S0 S c c' :
    NoDup order -> subseq (map fst S0) order -> In n order ->
    Focus order n ss S0 S c -> Focus order n ss S0 (field_set order n c' S) c'.
  Proof.
    intros Hd Hs Hn [_ F2]. split.
    - rewrite F2, field_get_set_same by assumption. reflexivity.
    - intros c2. rewrite F2. now apply field_set_twice.
  Qed.

  (* pre: the path elements the parent consumes; every child path cp is addressed from the
     parent as pre ++ cp *)
  Lemma lift_run : forall (Inv_c Inv_p : tree -> Prop) need_c s sfs fi ss a pre S0,
    struct_schema s sfs -> gn_struct_okb sfs = true -> In (fi, ss) sfs -> In a (f_paths fi) ->
    is_leafish ss = false -> consumed ss a = length pre ->
    (forall cp, (need_c cp <= 2 * (length pre + length cp))%nat) ->
    NoDup (go_names sfs) -> subseq (map fst S0) (go_names sfs) -> In (f_go fi) (go_names sfs) ->
    (forall c1, Inv_p (TCont (field_set (go_names sfs) (f_go fi) c1 S0))) ->
    forall us c c', Run Inv_c need_c ss c us c' ->
      (forall u, In u us -> is_prefixb a (pnames (pre ++ fst u)) = true /\ pre ++ fst u <> []) ->
      forall S, Focus (go_names sfs) (f_go fi) ss S0 S c ->
      Run Inv_p need_struct s (TCont S) (map (fun u => (pre ++ fst u, snd u)) us)
          (TCont (match us with [] => S | _ => field_set (go_names sfs) (f_go fi) c' S0 end)).
  Proof.
    intros Inv_c Inv_p need_c s sfs fi ss a pre S0 Hs Hok Hin Ha Hlf Hto Hneed Hd Hsub Hn Hinv us c c' HR.
    induction HR as [c|c u c1 us c2 Hstep _ HR IH]; intros Hus S HF; [constructor|].
    simpl. destruct HF as [F1 F2].
    assert (Hu := Hus u (or_introl eq_refl)). destruct Hu as [Hp Hne].
    eapply (run_cons Inv_p need_struct s (TCont S) (pre ++ fst u, snd u) (TCont (field_set (go_names sfs) (f_go fi) c1 S))).
    - intros fuel Hfuel. cbn [fst snd] in *. unfold need_struct in Hfuel.
      destruct fuel as [|f]; [lia|].
      destruct (pre ++ fst u) as [|e0 prest] eqn:Epath; [congruence|].
      rewrite (set_rec_through env fo ko rt_opts eq_refl (snd u) f s sfs S fi ss a e0 prest Hs Hok Hin Ha Hp Hlf).
      cbv zeta. cbn [s_init rt_opts]. rewrite F1, Hto, <- Epath, skipn_app, skipn_all, Nat.sub_diag. cbn [skipn app].
      rewrite (Hstep f).
      + reflexivity.
      + specialize (Hneed (fst u)). rewrite <- Epath, app_length in Hfuel. lia.
    - rewrite F2. apply Hinv.
    - assert (HF' : Focus (go_names sfs) (f_go fi) ss S0 (field_set (go_names sfs) (f_go fi) c1 S) c1).
      { apply (Focus_next _ _ _ _ S c); auto. split; auto. }
      specialize (IH (fun u0 H0 => Hus u0 (or_intror H0)) _ HF').
      destruct us as [|u2 us'].
      + inversion HR; subst. rewrite F2. constructor.
      + exact IH.
  Qed.
End Run.

(* ====================================================================================== *)
(* 3. find_leaves, exposed                                                                 *)
(* ====================================================================================== *)

Section FL.
  Variable env : enum_env.
  Variable ko : key_oracle.

  Notation FLv := (find_leaves env ko false).

  Fixpoint fl_entries (at_ : bool) (ss : schema) (esfs : list (finfo * schema)) (keys : list str) (p0 : dpath)
    (l : list (list scalar * tree)) : result (list litem) :=
    match l with
    | [] => Ok []
    | (_, e) :: more =>
        bind (entry_key_strs env ko esfs keys (fields_of e)) (fun kstrs =>
        bind (set_last_keys p0 kstrs) (fun child =>
        bind (FLv at_ ss e child) (fun here =>
        bind (fl_entries at_ ss esfs keys p0 more) (fun r => Ok (here ++ r)))))
    end.

  Definition fl_field (atomic : bool) (sfs : list (finfo * schema)) (parent : dpath) (nt : str * tree) : result (list litem) :=
    let '(name, sub) := nt in
    match find (fun fs => str_eqb (f_go (fst fs)) name) sfs with
    | None => Err
    | Some (fi, ss) =>
        let ps := lib_paths false fi parent in
        let p0 := hd [] ps in
        match sub with
        | TLeaf v => if leaf_walk_ok env ss v then Ok (map (fun p => LLeaf p (LV v)) ps) else Err
        | TLeafList [] => Ok []
        | TLeafList vs => Ok (map (fun p => LLeaf p (LVs vs)) ps)
        | TCont _ => FLv atomic ss sub p0
        | TUnkeyed _ => Err
        | TList es =>
            match ss with
            | SList ordered keys _ _ esfs =>
                if ordered then
                  if atomic then Err
                  else bind (fl_entries true ss esfs keys p0 es) (fun items =>
                         match flat_map plain_of items with
                         | [] => Ok []
                         | lv => match p0 with [] => Err | _ => Ok [LAtomic (removelast p0) lv] end
                         end)
                else fl_entries atomic ss esfs keys p0 es
            | _ => Err
            end
        end
    end.

  Fixpoint fl_fields (atomic : bool) (sfs : list (finfo * schema)) (parent : dpath) (l : list (str * tree)) : result (list litem) :=
    match l with
    | [] => Ok []
    | nt :: rest => bind (fl_field atomic sfs parent nt) (fun here =>
                    bind (fl_fields atomic sfs parent rest) (fun r => Ok (here ++ r)))
    end.

  Lemma find_leaves_cont_eq atomic s fs parent :
    FLv atomic s (TCont fs) parent = fl_fields atomic (sfields s) parent fs.
  Proof.
    cbn [find_leaves]. induction fs as [|[name sub] rest IH]; [reflexivity|].
    cbn [fl_fields fl_field]. rewrite <- IH.
    destruct (find (fun fs0 => str_eqb (f_go (fst fs0)) name) (sfields s)) as [[fi ss]|]; [|reflexivity].
    cbv zeta. f_equal.
    destruct sub as [v|vs|cfs|es|ues]; try reflexivity.
    destruct ss as [| | |ordered keys mn mx esfs|]; try reflexivity.
    assert (G : forall at_ l,
      (fix entries (at_0 : bool) (l0 : list (list scalar * tree)) {struct l0} : result (list litem) :=
         match l0 with
         | [] => Ok []
         | (_, e) :: more =>
             bind (entry_key_strs env ko esfs keys (fields_of e)) (fun kstrs =>
             bind (set_last_keys (hd [] (lib_paths false fi parent)) kstrs) (fun child =>
             bind (FLv at_0 (SList ordered keys mn mx esfs) e child) (fun here =>
             bind (entries at_0 more) (fun r => Ok (here ++ r)))))
         end) at_ l = fl_entries at_ (SList ordered keys mn mx esfs) esfs keys (hd [] (lib_paths false fi parent)) l).
    { intros at_ l. induction l as [|[k e] more IHl]; [reflexivity|]. cbn [fl_entries]. now rewrite <- IHl. }
    destruct ordered; [destruct atomic|]; try reflexivity; now rewrite G.
  Qed.
End FL.

(* ====================================================================================== *)
(* 4. Guards, taken apart                                                                  *)
(* ====================================================================================== *)

Lemma gn_schemab_fields s : gn_schemab s = true ->
  gn_struct_okb (sfields s) = true /\ forall fi ss, In (fi, ss) (sfields s) -> gn_schemab ss = true.
Proof.
  assert (G : forall fs,
    (fix go (l : list (finfo * schema)) : bool :=
       match l with [] => true | (_, ss) :: r => gn_schemab ss && go r end) fs = true ->
    forall fi ss, In (fi, ss) fs -> gn_schemab ss = true).
  { induction fs as [|[f0 s0] r IH]; intros H fi ss []; apply andb_true_iff in H as [H1 H2].
    - now injection H0 as -> ->.
    - eauto. }
  destruct s; cbn [gn_schemab sfields]; intros H.
  - split; [reflexivity | intros ? ? []].
  - split; [reflexivity | intros ? ? []].
  - apply andb_true_iff in H as [H1 H2]. split; eauto.
  - apply andb_true_iff in H as [H H2]. apply andb_true_iff in H as [H _]. apply andb_true_iff in H as [H _].
    apply andb_true_iff in H as [H _]. apply andb_true_iff in H as [H _]. split; eauto.
  - apply andb_true_iff in H as [H1 H2]. split; eauto.
Qed.

Lemma gn_schemab_list o keys mn mx sfs : gn_schemab (SList o keys mn mx sfs) = true ->
  keys <> [] /\ NoDup keys /\ (forall k, In k keys -> key_agreeb sfs k = true) /\ NoDup (map (key_go sfs) keys).
Proof.
  cbn [gn_schemab]. intros H. apply andb_true_iff in H as [H _]. apply andb_true_iff in H as [H H4].
  apply andb_true_iff in H as [H H3]. apply andb_true_iff in H as [H H2]. apply andb_true_iff in H as [_ H1].
  repeat split.
  - destruct keys; [discriminate | discriminate].
  - now apply nodupb_NoDup.
  - intros k Hk. rewrite forallb_forall in H3. auto.
  - now apply nodupb_NoDup.
Qed.

Lemma subseqb_subseq : forall a l, subseqb a l = true -> subseq a l.
Proof.
  intros a l. revert a. induction l as [|y l IH]; intros [|x a] H; try (now constructor); try discriminate.
  simpl in H. destruct (str_eqb x y) eqn:E.
  - apply cstr_eqb_eq in E. subst. constructor. auto.
  - constructor. auto.
Qed.

Lemma find_go_name (sfs : list (finfo * schema)) name fi ss :
  find (fun fs => str_eqb (f_go (fst fs)) name) sfs = Some (fi, ss) -> In (fi, ss) sfs /\ f_go fi = name.
Proof.
  intros H. apply find_some in H as [H1 H2]. simpl in H2. apply cstr_eqb_eq in H2. auto.
Qed.

Lemma go_names_In (sfs : list (finfo * schema)) fi ss : In (fi, ss) sfs -> In (f_go fi) (go_names sfs).
Proof. intros H. unfold go_names. change (f_go fi) with ((fun fs : finfo * schema => f_go (fst fs)) (fi, ss)). now apply in_map. Qed.

(* two fields of a struct with the same Go name are the same field *)
Lemma go_name_unique : forall (sfs : list (finfo * schema)) f1 s1 f2 s2,
  NoDup (go_names sfs) -> In (f1, s1) sfs -> In (f2, s2) sfs -> f_go f1 = f_go f2 -> (f1, s1) = (f2, s2).
Proof.
  induction sfs as [|[f0 s0] r IH]; intros f1 s1 f2 s2 Hd H1 H2 E; [destruct H1|].
  simpl in Hd. inversion Hd as [|? ? Hn Hd']; subst.
  destruct H1 as [H1|H1], H2 as [H2|H2].
  - congruence.
  - injection H1 as -> ->. exfalso. apply Hn. rewrite E. eapply go_names_In; eauto.
  - injection H2 as -> ->. exfalso. apply Hn. rewrite <- E. eapply go_names_In; eauto.
  - eauto.
Qed.

Section GnFields.
  Variable env : enum_env.
  Variable fo : float_oracle.
  Variable ko : key_oracle.

  Definition gn_fields (s : schema) :=
    fix fields (l : list (str * tree)) {struct l} : bool :=
      match l with
      | [] => true
      | (name, sub) :: rest =>
          match find (fun fs => str_eqb (f_go (fst fs)) name) (sfields s) with
          | None => false
          | Some (_, ss) => kind_matchb ss sub && gn_node env fo ko ss sub && fields rest
          end
      end.

  Lemma gn_node_cont_eq s fs :
    gn_node env fo ko s (TCont fs) =
      negb (nil_b fs) && subseqb (map fst fs) (go_names (sfields s)) && gn_fields s fs.
  Proof. reflexivity. Qed.

  Lemma gn_fields_In s : forall l name sub, gn_fields s l = true -> In (name, sub) l ->
    exists fi ss, find (fun fs => str_eqb (f_go (fst fs)) name) (sfields s) = Some (fi, ss)
                  /\ kind_matchb ss sub = true /\ gn_node env fo ko ss sub = true.
  Proof.
    induction l as [|[n0 t0] r IH]; intros name sub H []; simpl in H;
      destruct (find (fun fs => str_eqb (f_go (fst fs)) n0) (sfields s)) as [[fi ss]|] eqn:Ef; try discriminate;
      apply andb_true_iff in H as [H H3]; apply andb_true_iff in H as [H1 H2].
    - injection H0 as -> ->. eauto.
    - eauto.
  Qed.

  Definition gn_entries (s : schema) (sfs : list (finfo * schema)) (keys : list str) :=
    fix entries (l : list (list scalar * tree)) : bool :=
      match l with
      | [] => true
      | (k, e) :: rest =>
          match e with
          | TCont fs => gn_node env fo ko s e && key_matchb sfs keys fs k
                        && keys_wfb env fo ko sfs keys k && negb (existsb nan_key k)
          | _ => false
          end && entries rest
      end.

  Lemma gn_node_list_eq keys mn mx sfs es :
    gn_node env fo ko (SList false keys mn mx sfs) (TList es) =
      negb (nil_b es) && gn_entries (SList false keys mn mx sfs) sfs keys es && keys_okb false (map fst es).
  Proof. reflexivity. Qed.

  Lemma gn_entries_In s sfs keys : forall l k e, gn_entries s sfs keys l = true -> In (k, e) l ->
    exists fs, e = TCont fs /\ gn_node env fo ko s e = true /\ key_matchb sfs keys fs k = true
               /\ keys_wfb env fo ko sfs keys k = true /\ existsb nan_key k = false.
  Proof.
    induction l as [|[k0 e0] r IH]; intros k e H []; simpl in H; apply andb_true_iff in H as [H H'].
    - injection H0 as -> ->. destruct e as [| |fs| |]; try discriminate.
      apply andb_true_iff in H as [H H4]. apply andb_true_iff in H as [H H3]. apply andb_true_iff in H as [H1 H2].
      exists fs. repeat split; auto. now apply negb_true_iff.
    - eauto.
  Qed.
End GnFields.

(* ====================================================================================== *)
(* 5. Keys of list entries                                                                 *)
(* ====================================================================================== *)

Lemma key_name_field_In : forall (sfs : list (finfo * schema)) k fi ss, key_name_field sfs k = Ok (fi, ss) -> In (fi, ss) sfs.
Proof.
  induction sfs as [|[f0 s0] r IH]; intros k fi ss H; simpl in H; [discriminate|].
  destruct (rel_schema_path f0) as [|a [|b [|c l]]]; try discriminate.
  - destruct (str_eqb a k); [injection H as <- <-; now left | right; eauto].
  - destruct (str_eqb b k); [injection H as <- <-; now left | right; eauto].
Qed.

(* the three lookups of key k return one and the same leaf field *)
Lemma key_agree_spec sfs k : NoDup (go_names sfs) -> key_agreeb sfs k = true ->
  exists fi ty d, key_field sfs k = Some (fi, SLeaf ty d) /\ key_value_field sfs k = Some (fi, SLeaf ty d)
                  /\ key_name_field sfs k = Ok (fi, SLeaf ty d) /\ In (fi, SLeaf ty d) sfs.
Proof.
  intros Hd. unfold key_agreeb.
  destruct (key_field sfs k) as [[f1 s1]|] eqn:E1; [|discriminate].
  destruct s1 as [ty d| | | |]; try discriminate.
  destruct (key_value_field sfs k) as [[f2 s2]|] eqn:E2; [|discriminate].
  destruct (key_name_field sfs k) as [[f3 s3]| |] eqn:E3; try discriminate.
  intros H. apply andb_true_iff in H as [H2 H3]. apply cstr_eqb_eq in H2. apply cstr_eqb_eq in H3.
  assert (I1 : In (f1, SLeaf ty d) sfs) by (unfold key_field in E1; now apply find_some in E1 as [? _]).
  assert (I2 : In (f2, s2) sfs) by (unfold key_value_field in E2; now apply find_some in E2 as [? _]).
  assert (I3 : In (f3, s3) sfs) by (eapply key_name_field_In; eauto).
  pose proof (go_name_unique sfs f1 (SLeaf ty d) f2 s2 Hd I1 I2 H2) as Q2.
  pose proof (go_name_unique sfs f1 (SLeaf ty d) f3 s3 Hd I1 I3 H3) as Q3.
  injection Q2 as <- <-. injection Q3 as <- <-. exists f1, ty, d. auto.
Qed.

Section Keys.
  Variable env : enum_env.
  Variable fo : float_oracle.
  Variable ko : key_oracle.
  Hypothesis Henv : wf_envb env = true.

  Lemma has_kind_not_enum k ty n : has_kind k (VEnum ty n) = false.
  Proof. now destruct k. Qed.

  (* an UNSET enum is never an accepted key value *)
  Lemma key_wfb_unset t : forall ty, key_wfb env fo ko t (VEnum ty 0) = false.
  Proof.
    induction t; intros ty0; cbn [key_wfb kind_of_type]; auto;
      try (unfold key_kind_okb; now rewrite ?has_kind_not_enum).
    - now rewrite andb_false_r.
    - now rewrite andb_false_r.
    - destruct (enum_types (YUnion ms)); [destruct (dedup_kinds (union_kinds (YUnion ms)) []) as [|k [|k2 l]]|]; auto.
      unfold key_kind_okb. destruct k; now rewrite ?has_kind_not_enum.
  Qed.

  (* the key leaves of an entry whose key tuple is accepted *)
  Definition key_leaves (sfs : list (finfo * schema)) (keys : list str) (mk : list scalar) (fs : list (str * tree)) : Prop :=
    Forall2 (fun k v => field_get (key_go sfs k) fs = Some (TLeaf v)) keys mk.

  Lemma entry_key_leaves sfs : forall keys mk fs,
    NoDup (go_names sfs) -> (forall k, In k keys -> key_agreeb sfs k = true) ->
    entry_key sfs keys fs = Ok mk -> keys_wfb env fo ko sfs keys mk = true ->
    key_leaves sfs keys mk fs.
  Proof.
    induction keys as [|k ks IH]; intros mk fs Hd Ha He Hw.
    - simpl in He. injection He as <-. constructor.
    - destruct (key_agree_spec sfs k Hd (Ha k (or_introl eq_refl))) as (fi & ty & d & E1 & _ & E3 & _).
      cbn [entry_key] in He. rewrite E1 in He.
      assert (G : exists v vs, mk = v :: vs /\ entry_key sfs ks fs = Ok vs /\
                  (field_get (f_go fi) fs = Some (TLeaf v) \/ exists ety, v = VEnum ety 0)).
      { assert (Fb : match enum_key_type ty with
                     | Some ety => bind (entry_key sfs ks fs) (fun r => Ok (VEnum ety 0 :: r))
                     | None => Err end = Ok mk ->
                     exists v vs, mk = v :: vs /\ entry_key sfs ks fs = Ok vs /\
                       (field_get (f_go fi) fs = Some (TLeaf v) \/ exists ety, v = VEnum ety 0)).
        { destruct (enum_key_type ty) as [ety|]; [|discriminate].
          destruct (entry_key sfs ks fs) as [vs| |]; try discriminate. cbn [bind].
          intros [= <-]. exists (VEnum ety 0), vs. eauto. }
        destruct (field_get (f_go fi) fs) as [[v| | | |]|]; auto.
        destruct (entry_key sfs ks fs) as [vs| |]; try discriminate. cbn [bind] in He.
        injection He as <-. exists v, vs. auto. }
      destruct G as (v & vs & -> & He' & Hv).
      cbn [keys_wfb] in Hw. rewrite E3 in Hw. apply andb_true_iff in Hw as [Hw1 Hw2].
      constructor.
      + unfold key_go. rewrite E1. destruct Hv as [Hv|[ety ->]]; auto.
        now rewrite key_wfb_unset in Hw1.
      + apply IH; auto. intros k0 Hk0. apply Ha. now right.
  Qed.

  Lemma key_leaves_strs sfs : forall keys mk fs,
    NoDup (go_names sfs) -> (forall k, In k keys -> key_agreeb sfs k = true) ->
    key_leaves sfs keys mk fs ->
    entry_key_strs env ko sfs keys fs = mapkey_strs env ko keys mk.
  Proof.
    induction keys as [|k ks IH]; intros mk fs Hd Ha Hk; inversion Hk; subst; [reflexivity|].
    destruct (key_agree_spec sfs k Hd (Ha k (or_introl eq_refl))) as (fi & ty & d & E1 & _).
    cbn [entry_key_strs mapkey_strs]. unfold key_go in H1. rewrite E1 in *. rewrite H1.
    rewrite (IH l' fs Hd) by (auto; intros k0 Hk0; apply Ha; now right). reflexivity.
  Qed.

  Lemma keys_wfb_length sfs : forall keys mk, keys_wfb env fo ko sfs keys mk = true -> length mk = length keys.
  Proof.
    induction keys as [|k ks IH]; intros [|v vs] H; try discriminate; [reflexivity|].
    cbn [keys_wfb] in H. destruct (key_name_field sfs k) as [[fi [t d| | | |]]| |]; try discriminate.
    apply andb_true_iff in H as [_ H]. simpl. f_equal. auto.
  Qed.

  Lemma keys_wfb_strs sfs : forall keys mk, keys_wfb env fo ko sfs keys mk = true ->
    exists kk, mapkey_strs env ko keys mk = Ok kk.
  Proof.
    induction keys as [|k ks IH]; intros [|v vs] H; try discriminate; [simpl; eauto|].
    cbn [keys_wfb] in H. destruct (key_name_field sfs k) as [[fi [t d| | | |]]| |]; try discriminate.
    apply andb_true_iff in H as [H1 H2]. destruct (IH vs H2) as [r Er].
    destruct (key_to_string_total env fo ko t v H1) as [s Es].
    cbn [mapkey_strs]. rewrite Es, Er. cbn [bind]. eauto.
  Qed.

  (* al_find on the key strings *)
  Lemma mapkey_strs_In : forall keys mk kk, NoDup keys -> length mk = length keys ->
    mapkey_strs env ko keys mk = Ok kk ->
    Forall2 (fun k v => exists s, key_to_string env ko v = Ok s /\ al_find k kk = Some s) keys mk.
  Proof.
    induction keys as [|k ks IH]; intros mk kk Hd Hl H.
    - destruct mk; [constructor | discriminate].
    - destruct mk as [|v vs]; [discriminate|]. injection Hl as Hl. cbn [mapkey_strs] in H.
      destruct (key_to_string env ko v) as [s| |] eqn:Es; try discriminate. cbn [bind] in H.
      destruct (mapkey_strs env ko ks vs) as [r| |] eqn:Er; try discriminate. cbn [bind] in H.
      injection H as <-. inversion Hd; subst. constructor.
      + exists s. split; auto. apply al_find_insert_same.
      + specialize (IH vs r H2 Hl Er). clear -IH H1.
        induction IH as [|k0 v0 ks0 vs0 (s0 & E0 & F0) _ IH']; constructor.
        * exists s0. split; auto. rewrite al_find_insert_other; auto. intros ->. apply H1. now left.
        * apply IH'. intros Hin. apply H1. now right.
  Qed.

  (* the comparison of getKeyFields with the path keys decides equality of key tuples *)
  Lemma keys_match_same sfs : forall keys mk kk,
    Forall2 (fun k v => exists s, key_to_string env ko v = Ok s /\ al_find k kk = Some s) keys mk ->
    keys_wfb env fo ko sfs keys mk = true ->
    keys_match env ko false false kk keys mk = Ok true.
  Proof.
    induction keys as [|k ks IH]; intros mk kk HF Hw; inversion HF; subst; [reflexivity|].
    destruct H1 as (s & Es & Fs). cbn [keys_match]. rewrite Fs, Es. cbn [bind andb orb].
    rewrite cstr_eqb_refl. cbn [keys_wfb] in Hw.
    destruct (key_name_field sfs k) as [[fi [t d| | | |]]| |]; try discriminate.
    apply andb_true_iff in Hw as [_ Hw]. eapply IH; eauto.
  Qed.

  Lemma keys_match_other sfs : forall keys mk mk' kk,
    Forall2 (fun k v => exists s, key_to_string env ko v = Ok s /\ al_find k kk = Some s) keys mk ->
    keys_wfb env fo ko sfs keys mk = true -> keys_wfb env fo ko sfs keys mk' = true ->
    mk' <> mk ->
    keys_match env ko false false kk keys mk' = Ok false.
  Proof.
    induction keys as [|k ks IH]; intros mk mk' kk HF Hw Hw' Hne; inversion HF; subst.
    - destruct mk'; [congruence | discriminate].
    - destruct mk' as [|v' vs']; [discriminate|].
      destruct H1 as (s & Es & Fs). cbn [keys_wfb] in Hw, Hw'.
      destruct (key_name_field sfs k) as [[fi [t d| | | |]]| |]; try discriminate.
      apply andb_true_iff in Hw as [Hv Hw]. apply andb_true_iff in Hw' as [Hv' Hw'].
      destruct (key_to_string_total env fo ko t v' Hv') as [s' Es'].
      cbn [keys_match]. rewrite Fs, Es'. cbn [bind andb orb].
      destruct (str_eqb s s') eqn:E.
      + apply cstr_eqb_eq in E. subst s'.
        assert (v' = y) by (eapply key_to_string_inj; eauto). subst v'.
        eapply IH; eauto. congruence.
      + reflexivity.
  Qed.
End Keys.

(* ====================================================================================== *)
(* 6. The updates of one field at its struct                                               *)
(* ====================================================================================== *)

Section FieldRuns.
  Variable env : enum_env.
  Variable fo : float_oracle.
  Variable ko : key_oracle.

  Lemma alt_nonempty sfs fi ss a : gn_struct_okb sfs = true -> In (fi, ss) sfs -> In a (f_paths fi) -> a <> [].
  Proof.
    intros Hok Hin Ha. destruct (gn_struct_parts sfs Hok) as [Hs _].
    destruct (struct_facts sfs Hs) as (_ & Hfo & _).
    apply (field_alts_ok fi a (Hfo fi ss Hin)). unfold field_alts. apply in_or_app. now left.
  Qed.

  Lemma paths_nonempty sfs fi ss : gn_struct_okb sfs = true -> In (fi, ss) sfs -> f_paths fi <> [].
  Proof.
    intros Hok Hin. destruct (gn_struct_parts sfs Hok) as [Hs _].
    destruct (struct_facts sfs Hs) as (_ & Hfo & _).
    now destruct (field_okb_parts fi (Hfo fi ss Hin)).
  Qed.

  (* a leaf: one update per path alternative, all store the same value *)
  Lemma run_leaf_alts (Inv : tree -> Prop) s sfs fi ty d v :
    struct_schema s sfs -> gn_struct_okb sfs = true -> In (fi, SLeaf ty d) sfs -> tv_rtb env ko ty v = true ->
    NoDup (go_names sfs) ->
    forall alts S, (forall a, In a alts -> In a (f_paths fi)) ->
      subseq (map fst S) (go_names sfs) ->
      Inv (TCont (field_set (go_names sfs) (f_go fi) (TLeaf v) S)) ->
      Run env fo ko Inv need_struct s (TCont S) (map (fun a => (path_of_names a, enc_s env v)) alts)
          (TCont (match alts with [] => S | _ => field_set (go_names sfs) (f_go fi) (TLeaf v) S end)).
  Proof.
    intros Hs Hok Hin Hv Hd. destruct (enc_s_rt env ko ty v Hv) as (_ & Hdec & Hsc).
    assert (Hn : In (f_go fi) (go_names sfs)) by (eapply go_names_In; eauto).
    induction alts as [|a alts IH]; intros S Hal Hsub HI; [constructor|].
    cbn [map].
    eapply (run_cons env fo ko Inv need_struct s (TCont S) _ (TCont (field_set (go_names sfs) (f_go fi) (TLeaf v) S))).
    - intros fuel Hfuel. cbn [fst snd] in *. unfold need_struct in Hfuel.
      assert (Hane : a <> []) by (eapply alt_nonempty; eauto; apply Hal; now left).
      assert (Hlen : (1 <= length (path_of_names a))%nat).
      { unfold path_of_names. rewrite map_length. destruct a; [congruence | simpl; lia]. }
      destruct fuel as [|[|f]]; try lia.
      apply (set_rec_leaf env fo ko rt_opts eq_refl (enc_s env v) f s sfs S fi ty d a); auto.
      + apply Hal. now left.
      + apply pnames_of_names.
    - exact HI.
    - specialize (IH (field_set (go_names sfs) (f_go fi) (TLeaf v) S)).
      rewrite field_set_twice in IH by assumption.
      destruct alts as [|a2 alts'].
      + constructor.
      + apply IH; auto.
        * intros a0 H0. apply Hal. now right.
        * now apply field_set_sorted.
  Qed.

  Lemma run_leaflist_alts (Inv : tree -> Prop) s sfs fi ty mn mx vs :
    struct_schema s sfs -> gn_struct_okb sfs = true -> In (fi, SLeafList ty mn mx) sfs ->
    vs <> [] -> forallb (tv_rtb env ko ty) vs = true ->
    NoDup (go_names sfs) ->
    forall alts S, (forall a, In a alts -> In a (f_paths fi)) ->
      subseq (map fst S) (go_names sfs) ->
      Inv (TCont (field_set (go_names sfs) (f_go fi) (TLeafList vs) S)) ->
      Run env fo ko Inv need_struct s (TCont S) (map (fun a => (path_of_names a, enc_l env (LVs vs))) alts)
          (TCont (match alts with [] => S | _ => field_set (go_names sfs) (f_go fi) (TLeafList vs) S end)).
  Proof.
    intros Hs Hok Hin Hne Hv Hd.
    assert (Hn : In (f_go fi) (go_names sfs)) by (eapply go_names_In; eauto).
    induction alts as [|a alts IH]; intros S Hal Hsub HI; [constructor|].
    cbn [map].
    eapply (run_cons env fo ko Inv need_struct s (TCont S) _ (TCont (field_set (go_names sfs) (f_go fi) (TLeafList vs) S))).
    - intros fuel Hfuel. cbn [fst snd] in *. unfold need_struct in Hfuel.
      assert (Hane : a <> []) by (eapply alt_nonempty; eauto; apply Hal; now left).
      assert (Hlen : (1 <= length (path_of_names a))%nat).
      { unfold path_of_names. rewrite map_length. destruct a; [congruence | simpl; lia]. }
      destruct fuel as [|[|f]]; try lia.
      apply (set_rec_leaflist env fo ko rt_opts eq_refl (enc_l env (LVs vs)) f s sfs S fi ty mn mx a _ (map (enc_s env) vs) vs); auto.
      + apply Hal. now left.
      + apply pnames_of_names.
      + destruct vs; [congruence | discriminate].
      + cbn [s_tol_json rt_opts]. apply (decode_leaflist_rt env ko ty vs [] Hv).
    - exact HI.
    - specialize (IH (field_set (go_names sfs) (f_go fi) (TLeafList vs) S)).
      rewrite field_set_twice in IH by assumption.
      destruct alts as [|a2 alts'].
      + constructor.
      + apply IH; auto.
        * intros a0 H0. apply Hal. now right.
        * now apply field_set_sorted.
  Qed.
End FieldRuns.

(* ====================================================================================== *)
(* 7. The updates of one list entry at its list                                            *)
(* ====================================================================================== *)

Lemma keys_eqb_refl k : keys_eqb k k = true.
Proof. unfold keys_eqb. induction k as [|a k IH]; simpl; auto. now rewrite scalar_eqb_refl, IH. Qed.

Lemma tl_insert_last mk x y : forall done,
  (forall k0 e0, In (k0, e0) done -> keys_eqb mk k0 = false /\ keys_cmp mk k0 <> Lt) ->
  tl_insert mk x (done ++ [(mk, y)]) = done ++ [(mk, x)].
Proof.
  induction done as [|[k' e'] r IH]; intros H; simpl.
  - now rewrite keys_eqb_refl.
  - destruct (H k' e' (or_introl eq_refl)) as [H1 H2]. rewrite H1.
    rewrite IH by (intros k0 e0 Hin; eapply H; right; eauto).
    destruct (keys_cmp mk k'); auto. contradiction.
Qed.

Section EntryLift.
  Variable env : enum_env.
  Variable fo : float_oracle.
  Variable ko : key_oracle.
  Hypothesis Henv : wf_envb env = true.

  Variable keys : list str.
  Variable mn mx : N.
  Variable esfs : list (finfo * schema).
  Let ss := SList false keys mn mx esfs.
  Hypothesis Hsch : gn_schemab ss = true.

  Notation SR tv := (set_rec env fo ko rt_opts tv).

  Lemma esfs_facts : gn_struct_okb esfs = true /\ NoDup (go_names esfs) /\ keys <> [] /\ NoDup keys /\
    (forall k, In k keys -> key_agreeb esfs k = true) /\ NoDup (map (key_go esfs) keys).
  Proof.
    destruct (gn_schemab_fields ss Hsch) as [Hok _]. cbn [sfields ss] in Hok.
    destruct (gn_schemab_list false keys mn mx esfs Hsch) as (H1 & H2 & H3 & H4).
    destruct (gn_struct_parts esfs Hok) as [Hs _]. destruct (struct_facts esfs Hs) as (Hd & _).
    repeat split; auto.
  Qed.

  (* getKeyValue on an entry that holds its key leaf *)
  Lemma single_key_str_leaf k mk fs v :
    In k keys -> field_get (key_go esfs k) fs = Some (TLeaf v) ->
    single_key_str env ko esfs k mk fs = key_to_string env ko v.
  Proof.
    intros Hk Hg. destruct esfs_facts as (_ & Hd & _ & _ & Ha & _).
    destruct (key_agree_spec esfs k Hd (Ha k Hk)) as (fi & ty & d & E1 & E2 & _).
    unfold single_key_str. rewrite E2. unfold key_go in Hg. rewrite E1 in Hg. now rewrite Hg.
  Qed.

  (* what is known of the entries already in the list when the entry with key mk is filled *)
  Definition others_ok (mk : list scalar) (done : list (list scalar * tree)) : Prop :=
    forall mk' e', In (mk', e') done ->
      keys_wfb env fo ko esfs keys mk' = true /\ mk' <> mk /\ key_leaves esfs keys mk' (fields_of e') /\
      keys_eqb mk mk' = false /\ keys_cmp mk mk' <> Lt.

  Variable nm : str.
  Variable mk : list scalar.
  Variable kk : list (str * str).
  Hypothesis Hmk : keys_wfb env fo ko esfs keys mk = true.
  Hypothesis Hnan : existsb nan_key mk = false.
  Hypothesis Hkk : mapkey_strs env ko keys mk = Ok kk.

  Let el : pelem := {| ename := nm; ekeys := kk |}.

  Lemma kk_find : Forall2 (fun k v => exists s, key_to_string env ko v = Ok s /\ al_find k kk = Some s) keys mk.
  Proof.
    destruct esfs_facts as (_ & _ & _ & Hdk & _).
    apply mapkey_strs_In; auto. eapply keys_wfb_length; eauto.
  Qed.

  (* single key: the entries of the list print other keys *)
  Lemma others_single k v pk done : keys = [k] -> mk = [v] -> key_to_string env ko v = Ok pk ->
    others_ok mk done ->
    forall mk' e', In (mk', e') done ->
      exists ks, single_key_str env ko esfs k mk' (fields_of e') = Ok ks /\ ks <> pk.
  Proof.
    intros Ek Em Es Ho mk' e' Hin. destruct (Ho mk' e' Hin) as (Hw & Hne & Hl & _).
    rewrite Ek in Hl, Hw, Hmk. inversion Hl as [|? v' ? ? Hg Hl']; subst. inversion Hl'; subst.
    rewrite (single_key_str_leaf k [v'] (fields_of e') v') by (auto; rewrite Ek; now left).
    cbn [keys_wfb] in Hw, Hmk.
    destruct (key_name_field esfs k) as [[fi [t d| | | |]]| |]; try discriminate.
    apply andb_true_iff in Hw as [Hw _]. apply andb_true_iff in Hmk as [Hv _].
    destruct (key_to_string_total env fo ko t v' Hw) as [s' Es']. exists s'. split; auto.
    intros ->. apply Hne. f_equal. eapply key_to_string_inj; eauto.
  Qed.

  (* the first update of an entry creates it *)
  Lemma list_step_new : forall done q tv e1,
    others_ok mk done ->
    (forall fuel, (need_struct q <= fuel)%nat ->
       SR tv fuel ss (Some (TCont (key_fields esfs keys mk))) q = (Some e1, Ok 1%nat)) ->
    forall fuel, (need_list (el :: q) <= fuel)%nat ->
      SR tv fuel ss (Some (TList done)) (el :: q) = (Some (TList (done ++ [(mk, e1)])), Ok 1%nat).
  Proof.
    intros done q tv e1 Ho Hstep fuel Hfuel.
    destruct esfs_facts as (Hok & Hd & Hkne & Hdk & Ha & Hdg).
    unfold need_list in Hfuel. cbn [length] in Hfuel. destruct fuel as [|f]; [lia|].
    assert (Hins : insert_new_f env fo ko rt_opts tv f ss esfs keys kk q done =
                   (Some (TList (done ++ [(mk, e1)])), Ok 1%nat)).
    { unfold insert_new_f. cbn [s_init rt_opts].
      rewrite (key_tuple_codec env fo ko esfs keys mk kk Henv Hdk Hmk Hkk). rewrite Hnan.
      assert (Hnf : tl_find mk done = None).
      { clear -Ho. induction done as [|[k0 e0] d IHd]; [reflexivity|]. cbn [tl_find].
        destruct (Ho k0 e0 (or_introl eq_refl)) as (_ & _ & _ & -> & _).
        apply IHd. intros mk' e' Hin. apply (Ho mk' e'). now right. }
      rewrite Hnf.
      rewrite Hstep by (unfold need_struct; lia). unfold upd_entry.
      rewrite tl_insert_append; auto. intros k0 e0 Hin. destruct (Ho k0 e0 Hin) as (_ & _ & _ & H1 & H2). auto. }
    pose proof kk_find as HF.
    assert (Hshape : (exists k, keys = [k]) \/ exists k1 k2 ks, keys = k1 :: k2 :: ks).
    { clear -Hkne. destruct keys as [|? [|? ?]]; eauto. congruence. }
    destruct Hshape as [[k Ek]|(k & k2 & ks & Ek)].
    - (* single key *)
      rewrite Ek in HF. inversion HF as [|k0 v ks0 vs (pk & Es & Fs) HF' E1 E2].
      inversion HF' as [E3 E4|]. rewrite <- E4 in E2. symmetry in E2.
      unfold ss. rewrite Ek at 1. rewrite set_rec_list_single. cbn [ekeys el]. rewrite Fs.
      rewrite <- Ek. fold ss.
      rewrite first_f_miss; [rewrite <- E2; exact Hins | eapply others_single; eauto].
    - unfold ss. rewrite Ek at 1. rewrite set_rec_list_multi. cbn [ekeys el].
      rewrite <- Ek. fold ss.
      rewrite all_f_miss; auto.
      intros mk' e' Hin. destruct (Ho mk' e' Hin) as (Hw & Hne & _).
      eapply keys_match_other; eauto.
  Qed.

  (* every later update finds the entry (its key leaves are still there) and rewrites it *)
  Lemma list_step_hit : forall done q tv ecur e2,
    others_ok mk done -> key_leaves esfs keys mk (fields_of ecur) ->
    (forall fuel, (need_struct q <= fuel)%nat -> SR tv fuel ss (Some ecur) q = (Some e2, Ok 1%nat)) ->
    forall fuel, (need_list (el :: q) <= fuel)%nat ->
      SR tv fuel ss (Some (TList (done ++ [(mk, ecur)]))) (el :: q) = (Some (TList (done ++ [(mk, e2)])), Ok 1%nat).
  Proof.
    intros done q tv ecur e2 Ho Hl Hstep fuel Hfuel.
    destruct esfs_facts as (Hok & Hd & Hkne & Hdk & Ha & Hdg).
    unfold need_list in Hfuel. cbn [length] in Hfuel. destruct fuel as [|f]; [lia|].
    assert (Hup : upd_entry mk (Some e2) (done ++ [(mk, ecur)]) = done ++ [(mk, e2)]).
    { unfold upd_entry. apply tl_insert_last. intros k0 e0 Hin.
      destruct (Ho k0 e0 Hin) as (_ & _ & _ & H1 & H2). auto. }
    pose proof kk_find as HF.
    assert (Hshape : (exists k, keys = [k]) \/ exists k1 k2 ks, keys = k1 :: k2 :: ks).
    { clear -Hkne. destruct keys as [|? [|? ?]]; eauto. congruence. }
    destruct Hshape as [[k Ek]|(k & k2 & ks & Ek)].
    - rewrite Ek in HF. inversion HF as [|k0 v ks0 vs (pk & Es & Fs) HF' E1 E2].
      inversion HF' as [E3 E4|]. rewrite <- E4 in E2. symmetry in E2.
      unfold ss. rewrite Ek at 1. rewrite set_rec_list_single. cbn [ekeys el]. rewrite Fs.
      rewrite <- Ek. fold ss. rewrite <- E2.
      rewrite (first_f_hit env fo ko rt_opts tv f ss esfs keys kk q k pk _ _ done mk ecur []).
      + rewrite Hstep by (unfold need_struct; lia). now rewrite Hup.
      + eapply others_single; eauto.
      + rewrite Ek, E2 in Hl. inversion Hl as [|? ? ? ? Hg _].
        rewrite (single_key_str_leaf k mk (fields_of ecur) v); auto. rewrite Ek. now left.
    - unfold ss. rewrite Ek at 1. rewrite set_rec_list_multi. cbn [ekeys el].
      rewrite <- Ek. fold ss.
      rewrite (all_f_hit env fo ko rt_opts tv f ss esfs keys kk q done mk ecur []).
      + rewrite Hstep by (unfold need_struct; lia). cbn [Nat.eqb]. now rewrite Hup.
      + intros mk' e' Hin. destruct (Ho mk' e' Hin) as (Hw & Hne & _). eapply keys_match_other; eauto.
      + intros mk' e' [].
      + eapply keys_match_same; eauto.
  Qed.

  (* all updates of the entry *)
  Lemma lift_entry : forall done us e',
    others_ok mk done ->
    Run env fo ko (fun c => key_leaves esfs keys mk (fields_of c)) need_struct ss
        (TCont (key_fields esfs keys mk)) us e' -> us <> [] ->
    Run env fo ko (fun _ => True) need_list ss (TList done)
        (map (fun u => (el :: fst u, snd u)) us) (TList (done ++ [(mk, e')])).
  Proof.
    intros done us e' Ho HR Hne. inversion HR as [|c u e1 us1 c'' Hstep HI HR1]; subst; [congruence|].
    cbn [map]. eapply run_cons with (c' := TList (done ++ [(mk, e1)])).
    - intros fuel Hfuel. cbn [fst snd] in *. apply list_step_new; auto.
    - exact I.
    - clear HR Hstep Hne. revert HI. induction HR1 as [c|c u2 c2 us2 c3 Hs2 HI2 HR2 IH]; intros HI.
      + constructor.
      + cbn [map]. eapply run_cons with (c' := TList (done ++ [(mk, c2)])).
        * intros fuel Hfuel. cbn [fst snd] in *. apply list_step_hit; auto.
        * exact I.
        * apply IH. exact HI2.
  Qed.
End EntryLift.

(* ====================================================================================== *)
(* 8. The updates of a tree, relative to a node                                            *)
(* ====================================================================================== *)

Lemma skipn_app_exact {A} (a b : list A) : skipn (length a) (a ++ b) = b.
Proof. rewrite skipn_app, skipn_all, Nat.sub_diag. reflexivity. Qed.

Lemma set_last_keys_cons x l ks : l <> [] ->
  set_last_keys (x :: l) ks = bind (set_last_keys l ks) (fun r => Ok (x :: r)).
Proof. destruct l; [congruence | reflexivity]. Qed.

Lemma set_last_keys_snoc front e ks : set_last_keys (front ++ [e]) ks = Ok (front ++ [{| ename := ename e; ekeys := ks |}]).
Proof.
  induction front as [|x front IH]; [reflexivity|].
  cbn [app]. rewrite set_last_keys_cons by (destruct front; discriminate). now rewrite IH.
Qed.

Lemma removelast_length {A} (l : list A) : length (removelast l) = Nat.pred (length l).
Proof.
  induction l as [|x l IH]; [reflexivity|]. destruct l as [|y l]; [reflexivity|].
  change (removelast (x :: y :: l)) with (x :: removelast (y :: l)). simpl length in *. now rewrite IH.
Qed.

Lemma removelast_last_names (a : list str) : a <> [] -> path_of_names a = path_of_names (removelast a) ++ [mk_elem (last a [])].
Proof.
  intros H. rewrite (app_removelast_last [] H) at 1. unfold path_of_names. now rewrite map_app.
Qed.

(* every key of the entry's key list lies in its own Go field, and that field is a leaf holding the key *)
Lemma key_fields_restrict (sfs : list (finfo * schema)) (fs : list (str * tree)) : forall keys mk,
  NoDup (go_names sfs) -> subseq (map fst fs) (go_names sfs) ->
  (forall k, In k keys -> key_agreeb sfs k = true) ->
  key_leaves sfs keys mk fs ->
  key_fields sfs keys mk = restrict (map (key_go sfs) keys) fs.
Proof.
  induction keys as [|k ks IH]; intros mk Hd Hs Ha Hl; inversion Hl; subst.
  - simpl. now rewrite restrict_nil.
  - destruct (key_agree_spec sfs k Hd (Ha k (or_introl eq_refl))) as (fi & ty & d & E1 & _ & E3 & _).
    cbn [key_fields map]. rewrite E3.
    rewrite (IH l' Hd Hs) by (auto; intros k0 Hk0; apply Ha; now right).
    assert (Eg : key_go sfs k = f_go fi) by (unfold key_go; now rewrite E1).
    rewrite Eg in *. apply field_set_restrict; auto.
    now apply field_get_Some_In.
Qed.

Section Main.
  Variable env : enum_env.
  Variable fo : float_oracle.
  Variable ko : key_oracle.
  Hypothesis Henv : wf_envb env = true.

  Definition ups (par : dpath) (items : list litem) : list upd :=
    map (fun pv => (skipn (length par) (fst pv), enc_l env (snd pv))) (flat_map plain_of items).

  Lemma ups_app par a b : ups par (a ++ b) = ups par a ++ ups par b.
  Proof. unfold ups. now rewrite flat_map_app, map_app. Qed.

  Definition under (par : dpath) (it : litem) : Prop :=
    match it with LLeaf p _ => exists q, p = par ++ q /\ q <> [] | LAtomic _ _ => False end.

  Lemma under_weaken par pre it : under (par ++ pre) it -> under par it.
  Proof.
    destruct it; simpl; auto. intros (q & -> & Hq). exists (pre ++ q). split; [now rewrite app_assoc|].
    destruct pre; simpl; auto. discriminate.
  Qed.

  (* updates seen from the parent: the consumed elements are put back in front *)
  Lemma ups_shift par pre : forall items, Forall (under (par ++ pre)) items ->
    ups par items = map (fun u => (pre ++ fst u, snd u)) (ups (par ++ pre) items).
  Proof.
    unfold ups. induction items as [|it items IH]; intros H; [reflexivity|].
    inversion H; subst. cbn [flat_map]. rewrite !map_app. f_equal; [|now apply IH].
    destruct it as [p v|]; [|contradiction]. destruct H2 as (q & -> & _). cbn [plain_of map fst snd].
    rewrite skipn_app_exact. rewrite <- app_assoc, skipn_app_exact. reflexivity.
  Qed.

  Lemma ups_nonempty par items : items <> [] -> Forall (under par) items -> ups par items <> [].
  Proof.
    destruct items as [|it items]; [congruence|]. intros _ H. inversion H; subst.
    destruct it; [|contradiction]. discriminate.
  Qed.

  Lemma ups_leaf par lv (alts : list (list str)) :
    ups par (map (fun p => LLeaf p lv) (map (fun alt => par ++ path_of_names alt) alts)) =
    map (fun a => (path_of_names a, enc_l env lv)) alts.
  Proof.
    unfold ups. induction alts as [|a alts IH]; [reflexivity|].
    cbn [map flat_map plain_of app fst snd]. rewrite skipn_app_exact. f_equal. exact IH.
  Qed.

  Definition keeps (K : list str) (fs : list (str * tree)) (c : tree) : Prop :=
    forall m, In m K -> field_get m (fields_of c) = field_get m fs.

  Lemma keeps_restrict K E fs : incl K E -> keeps K fs (TCont (restrict E fs)).
  Proof.
    intros Hi m Hm. cbn [fields_of]. rewrite field_get_restrict.
    assert (in_names E m = true) by (apply in_names_In; auto). now rewrite H.
  Qed.

  Definition Pcont (t : tree) : Prop :=
    forall fs, t = TCont fs -> forall s sfs par items K,
      struct_schema s sfs -> gn_schemab s = true -> gn_node env fo ko s (TCont fs) = true ->
      find_leaves env ko false false s (TCont fs) par = Ok items ->
      (forall n, In n K -> exists v, In (n, TLeaf v) fs) ->
      Run env fo ko (keeps K fs) need_struct s (TCont (restrict K fs)) (ups par items) (TCont fs)
      /\ items <> [] /\ Forall (under par) items.

  Definition P (t : tree) : Prop :=
    Pcont t /\ forall es, t = TList es -> forall k e, In (k, e) es -> Pcont e.
End Main.

(* ====================================================================================== *)
(* 9. Rebuilding a tree from its leaves: the induction                                     *)
(* ====================================================================================== *)

Section Rebuild.
  Variable env : enum_env.
  Variable fo : float_oracle.
  Variable ko : key_oracle.
  Hypothesis Henv : wf_envb env = true.

  Lemma key_leaves_In sfs : forall keys mk fs, key_leaves sfs keys mk fs ->
    forall n, In n (map (key_go sfs) keys) -> exists v, In (n, TLeaf v) fs.
  Proof.
    intros keys mk fs H. induction H as [|k v ks vs Hg _ IH]; intros n []; [|auto].
    subst n. exists v. now apply field_get_Some_In.
  Qed.

  Lemma keeps_key_leaves sfs fs c : forall keys mk, key_leaves sfs keys mk fs ->
    keeps (map (key_go sfs) keys) fs c -> key_leaves sfs keys mk (fields_of c).
  Proof.
    intros keys mk H. induction H as [|k v ks vs Hg _ IH]; intros Hk; constructor.
    - rewrite (Hk (key_go sfs k)) by now left. exact Hg.
    - apply IH. intros m Hm. apply Hk. now right.
  Qed.

  (* ---------- the entries of a list, at the list node ---------- *)
  Lemma entries_fold : forall keys mn mx esfs front nm es,
    gn_schemab (SList false keys mn mx esfs) = true ->
    gn_entries env fo ko (SList false keys mn mx esfs) esfs keys es = true ->
    keys_okb false (map fst es) = true ->
    (forall k e, In (k, e) es -> Pcont env fo ko e) ->
    forall l done, es = done ++ l -> forall items,
      fl_entries env ko false (SList false keys mn mx esfs) esfs keys (front ++ [mk_elem nm]) l = Ok items ->
      Run env fo ko (fun _ => True) need_list (SList false keys mn mx esfs) (TList done) (ups env front items) (TList (done ++ l))
      /\ (l <> [] -> items <> []) /\ Forall (under front) items
      /\ (forall u, In u (ups env front items) -> exists el q, fst u = el :: q /\ ename el = nm).
  Proof.
    intros keys mn mx esfs front nm es Hsch Hge Hko HP.
    set (ss := SList false keys mn mx esfs) in *.
    destruct (esfs_facts keys mn mx esfs Hsch) as (Hok & Hd & Hkne & Hdk & Ha & Hdg).
    induction l as [|[mk e] more IH]; intros done Hes items Hfl.
    - cbn [fl_entries] in Hfl. injection Hfl as <-. rewrite app_nil_r.
      repeat split; try constructor; try congruence. intros u [].
    - cbn [fl_entries] in Hfl.
      assert (Hin : In (mk, e) es) by (rewrite Hes; apply in_or_app; right; now left).
      destruct (gn_entries_In env fo ko ss esfs keys es mk e Hge Hin) as (efs & -> & Hgn & Hkm & Hkw & Hnan).
      cbn [fields_of] in Hfl.
      assert (Hek : entry_key esfs keys efs = Ok mk).
      { unfold key_matchb in Hkm. destruct (entry_key esfs keys efs) as [k'| |]; try discriminate.
        apply keys_eqb_eq in Hkm. now subst. }
      pose proof (entry_key_leaves env fo ko esfs keys mk efs Hd Ha Hek Hkw) as Hkl.
      destruct (keys_wfb_strs env fo ko esfs keys mk Hkw) as [kk Hkk].
      rewrite (key_leaves_strs env ko esfs keys mk efs Hd Ha Hkl), Hkk in Hfl. cbn [bind] in Hfl.
      rewrite set_last_keys_snoc in Hfl. cbn [bind ename mk_elem] in Hfl.
      set (el := {| ename := nm; ekeys := kk |}) in *.
      destruct (find_leaves env ko false false ss (TCont efs) (front ++ [el])) as [here| |] eqn:Eh; try discriminate.
      cbn [bind] in Hfl.
      destruct (fl_entries env ko false ss esfs keys (front ++ [mk_elem nm]) more) as [r| |] eqn:Er; try discriminate.
      cbn [bind] in Hfl. injection Hfl as <-.
      (* the entry itself *)
      rewrite gn_node_cont_eq in Hgn. apply andb_true_iff in Hgn as [Hgn Hgf]. apply andb_true_iff in Hgn as [_ Hsub].
      apply subseqb_subseq in Hsub. cbn [sfields ss] in Hsub.
      assert (Hgn' : gn_node env fo ko ss (TCont efs) = true).
      { destruct (gn_entries_In env fo ko ss esfs keys es mk (TCont efs) Hge Hin) as (? & _ & G & _). exact G. }
      destruct (HP mk (TCont efs) Hin efs eq_refl ss esfs (front ++ [el]) here (map (key_go esfs) keys)
                  (ss_entry false keys mn mx esfs) Hsch Hgn' Eh (key_leaves_In esfs keys mk efs Hkl))
        as (HR & Hne & Hun).
      rewrite <- (key_fields_restrict esfs efs keys mk Hd Hsub Ha Hkl) in HR.
      apply (Run_weaken env fo ko _ (fun c => key_leaves esfs keys mk (fields_of c))) in HR;
        [|intros c Hc; eapply keeps_key_leaves; eauto].
      assert (Hothers : others_ok env fo ko keys esfs mk done).
      { intros mk' e' Hin'.
        assert (Hin2 : In (mk', e') es) by (rewrite Hes; apply in_or_app; now left).
        destruct (gn_entries_In env fo ko ss esfs keys es mk' e' Hge Hin2) as (efs' & -> & _ & Hkm' & Hkw' & _).
        assert (Hek' : entry_key esfs keys efs' = Ok mk').
        { unfold key_matchb in Hkm'. destruct (entry_key esfs keys efs') as [k'| |]; try discriminate.
          apply keys_eqb_eq in Hkm'. now subst. }
        rewrite Hes, map_app in Hko. cbn [map fst] in Hko.
        destruct (keys_okb_app false (map fst done) mk (map fst more) Hko mk') as [Q1 Q2].
        { change mk' with (fst (mk', TCont efs')). now apply in_map. }
        repeat split; auto.
        - intros ->. now rewrite keys_eqb_refl in Q1.
        - apply (entry_key_leaves env fo ko esfs keys mk' efs' Hd Ha Hek' Hkw').
        - destruct Q2; [discriminate | assumption]. }
      pose proof (lift_entry env fo ko Henv keys mn mx esfs Hsch nm mk kk Hkw Hnan Hkk done
                    (ups env (front ++ [el]) here) (TCont efs) Hothers HR (ups_nonempty env _ _ Hne Hun)) as HL.
      fold el in HL.
      assert (Hshift : ups env front here = map (fun u => (el :: fst u, snd u)) (ups env (front ++ [el]) here)).
      { apply (ups_shift env front [el] here Hun). }
      destruct (IH (done ++ [(mk, TCont efs)]) ltac:(rewrite Hes, <- app_assoc; reflexivity) r eq_refl)
        as (HR2 & _ & Hun2 & Hel2).
      rewrite ups_app, Hshift. repeat split.
      + eapply Run_app; [exact HL|]. rewrite <- app_assoc in HR2. exact HR2.
      + intros _. destruct here; [congruence | discriminate].
      + apply Forall_app. split; auto. eapply Forall_impl; [|exact Hun]. intros it. apply under_weaken.
      + intros u Hu. apply in_app_or in Hu as [Hu|Hu]; auto.
        apply in_map_iff in Hu as (u0 & <- & _). cbn [fst]. exists el, (fst u0). auto.
  Qed.

  (* ---------- one field, at its struct ---------- *)
  Lemma field_run : forall s sfs par fs K E name sub here,
    struct_schema s sfs -> gn_schemab s = true ->
    subseq (map fst fs) (go_names sfs) ->
    gn_fields env fo ko s fs = true -> In (name, sub) fs ->
    P env fo ko sub ->
    incl K E -> ((forall v, sub <> TLeaf v) -> ~ In name E) ->
    fl_field env ko false sfs par (name, sub) = Ok here ->
    Run env fo ko (keeps K fs) need_struct s (TCont (restrict E fs)) (ups env par here) (TCont (restrict (name :: E) fs))
    /\ here <> [] /\ Forall (under par) here.
  Proof.
    intros s sfs par fs K E name sub here Hs Hsch Hsub Hgf Hin HP HKE HnE Hfl.
    pose proof (struct_schema_sfields s sfs Hs) as Esf.
    destruct (gn_schemab_fields s Hsch) as [Hok Hch]. rewrite Esf in Hok, Hch.
    destruct (gn_struct_parts sfs Hok) as [Hso _]. destruct (struct_facts sfs Hso) as (Hd & _).
    destruct (gn_fields_In env fo ko s fs name sub Hgf Hin) as (fi & ss & Ef & Hkm & Hgn).
    rewrite Esf in Ef. destruct (find_go_name sfs name fi ss Ef) as [Hfi Hgo].
    assert (Hn : In (f_go fi) (go_names sfs)) by (eapply go_names_In; eauto).
    unfold fl_field in Hfl. rewrite Ef in Hfl. cbv zeta in Hfl.
    assert (Elib : lib_paths false fi par = map (fun alt => par ++ path_of_names alt) (f_paths fi)) by reflexivity.
    pose proof (paths_nonempty sfs fi ss Hok Hfi) as Hpne.
    assert (Hinv : forall t0, In (name, t0) fs -> keeps K fs (TCont (field_set (go_names sfs) name t0 (restrict E fs)))).
    { intros t0 Ht0. rewrite (field_set_restrict (go_names sfs) fs E name t0 Hd Hsub Ht0).
      apply keeps_restrict. intros m Hm. right. auto. }
    assert (Hunder_alts : forall lv, Forall (under par) (map (fun p => LLeaf p lv) (map (fun alt => par ++ path_of_names alt) (f_paths fi)))).
    { intros lv. apply Forall_forall. intros it Hit. apply in_map_iff in Hit as (p & <- & Hp).
      apply in_map_iff in Hp as (alt & <- & Halt). exists (path_of_names alt). split; auto.
      pose proof (alt_nonempty sfs fi ss alt Hok Hfi Halt). destruct alt; [congruence | discriminate]. }
    destruct sub as [v|vs|cfs|es|ues].
    - (* leaf *)
      destruct ss as [ty d| | | |]; try discriminate. cbn [gn_node] in Hgn.
      destruct (leaf_walk_ok env (SLeaf ty d) v); [|discriminate]. injection Hfl as <-.
      rewrite Elib, (ups_leaf env par (LV v)). cbn [enc_l]. repeat split; auto.
      + pose proof (run_leaf_alts env fo ko (keeps K fs) s sfs fi ty d v Hs Hok Hfi Hgn Hd (f_paths fi) (restrict E fs)
                      (fun a H => H) (subseq_filter_names _ fs _ Hsub)) as HR.
        rewrite Hgo in HR. specialize (HR (Hinv _ Hin)).
        rewrite (field_set_restrict (go_names sfs) fs E name (TLeaf v) Hd Hsub Hin) in HR.
        destruct (f_paths fi); [congruence | exact HR].
      + destruct (f_paths fi); [congruence | discriminate].
    - (* leaf-list *)
      destruct ss as [|ty mn mx| | |]; try discriminate. cbn [gn_node] in Hgn.
      apply andb_true_iff in Hgn as [Hne Hall]. destruct vs as [|v0 vs']; [discriminate|].
      injection Hfl as <-.
      rewrite Elib, (ups_leaf env par (LVs (v0 :: vs'))). repeat split; auto.
      + pose proof (run_leaflist_alts env fo ko (keeps K fs) s sfs fi ty mn mx (v0 :: vs') Hs Hok Hfi
                      ltac:(discriminate) Hall Hd (f_paths fi) (restrict E fs)
                      (fun a H => H) (subseq_filter_names _ fs _ Hsub)) as HR.
        rewrite Hgo in HR. specialize (HR (Hinv _ Hin)).
        rewrite (field_set_restrict (go_names sfs) fs E name _ Hd Hsub Hin) in HR.
        destruct (f_paths fi); [congruence | exact HR].
      + destruct (f_paths fi); [congruence | discriminate].
    - (* container *)
      destruct ss as [| |csfs| |]; try discriminate.
      destruct (f_paths fi) as [|a0 alts] eqn:Epaths; [congruence|].
      rewrite Elib in Hfl. cbn [map hd] in Hfl.
      assert (Ha0 : In a0 (f_paths fi)) by (rewrite Epaths; now left).
      pose proof (alt_nonempty sfs fi _ a0 Hok Hfi Ha0) as Ha0ne.
      destruct HP as [HPc _].
      destruct (HPc cfs eq_refl (SCont csfs) csfs (par ++ path_of_names a0) here [] (ss_cont csfs)
                  (Hch fi _ Hfi) Hgn Hfl ltac:(intros n []))
        as (HR & Hne & Hun).
      rewrite restrict_nil in HR.
      assert (HnotE : ~ In name E) by (apply HnE; intros v; discriminate).
      assert (Hget : field_get name (restrict E fs) = None).
      { rewrite field_get_restrict. destruct (in_names E name) eqn:Ei; auto.
        apply in_names_In in Ei. contradiction. }
      pose proof (lift_run env fo ko (keeps [] cfs) (keeps K fs) need_struct s sfs fi (SCont csfs) a0 (path_of_names a0)
                    (restrict E fs) Hs Hok Hfi Ha0 eq_refl) as HL.
      specialize (HL ltac:(unfold consumed, path_of_names; cbn [is_keyed_list]; now rewrite map_length)).
      specialize (HL ltac:(intros cp; unfold need_struct, path_of_names; rewrite map_length;
                           destruct a0; [congruence | simpl; lia])).
      specialize (HL Hd (subseq_filter_names _ fs _ Hsub) Hn).
      rewrite Hgo in HL.
      specialize (HL ltac:(intros c1 m Hm; cbn [fields_of];
                           rewrite field_get_set_other by (intros ->; apply HnotE; auto);
                           apply (keeps_restrict K E fs HKE m Hm))).
      specialize (HL (ups env (par ++ path_of_names a0) here) (TCont []) (TCont cfs) HR).
      specialize (HL ltac:(intros u _; split;
                           [rewrite pnames_app, pnames_of_names; apply is_prefixb_app
                           | destruct a0; [congruence | discriminate]])).
      specialize (HL (restrict E fs) ltac:(split; [rewrite Hget; reflexivity | reflexivity])).
      rewrite (ups_shift env par (path_of_names a0) here Hun).
      repeat split; auto.
      + pose proof (ups_nonempty env _ _ Hne Hun) as Hune.
        destruct (ups env (par ++ path_of_names a0) here) as [|u0 us0]; [congruence|].
        rewrite (field_set_restrict (go_names sfs) fs E name (TCont cfs) Hd Hsub Hin) in HL. exact HL.
      + eapply Forall_impl; [|exact Hun]. intros it. apply under_weaken.
    - (* keyed list *)
      destruct ss as [| | |ordered keys mn mx esfs|]; try discriminate.
      destruct ordered; [cbn [gn_node] in Hgn; discriminate|].
      destruct (f_paths fi) as [|a0 alts] eqn:Epaths; [congruence|].
      rewrite Elib in Hfl. cbn [map hd] in Hfl.
      assert (Ha0 : In a0 (f_paths fi)) by (rewrite Epaths; now left).
      pose proof (alt_nonempty sfs fi _ a0 Hok Hfi Ha0) as Ha0ne.
      rewrite (removelast_last_names a0 Ha0ne), app_assoc in Hfl.
      set (front := par ++ path_of_names (removelast a0)) in *.
      set (nm := last a0 []) in *.
      rewrite gn_node_list_eq in Hgn. apply andb_true_iff in Hgn as [Hgn Hko]. apply andb_true_iff in Hgn as [Hnil Hge].
      destruct HP as [_ HPl].
      destruct (entries_fold keys mn mx esfs front nm es (Hch fi _ Hfi) Hge Hko (HPl es eq_refl) es [] eq_refl here Hfl)
        as (HR & Hne & Hun & Hel).
      assert (Hne' : here <> []) by (apply Hne; destruct es; [discriminate | discriminate]).
      assert (HnotE : ~ In name E) by (apply HnE; intros v; discriminate).
      assert (Hget : field_get name (restrict E fs) = None).
      { rewrite field_get_restrict. destruct (in_names E name) eqn:Ei; auto.
        apply in_names_In in Ei. contradiction. }
      pose proof (lift_run env fo ko (fun _ => True) (keeps K fs) need_list s sfs fi (SList false keys mn mx esfs) a0
                    (path_of_names (removelast a0)) (restrict E fs) Hs Hok Hfi Ha0 eq_refl) as HL.
      specialize (HL ltac:(unfold consumed, path_of_names; cbn [is_keyed_list]; rewrite map_length, removelast_length; reflexivity)).
      specialize (HL ltac:(intros cp; unfold need_list; lia)).
      specialize (HL Hd (subseq_filter_names _ fs _ Hsub) Hn).
      rewrite Hgo in HL.
      specialize (HL ltac:(intros c1 m Hm; cbn [fields_of];
                           rewrite field_get_set_other by (intros ->; apply HnotE; auto);
                           apply (keeps_restrict K E fs HKE m Hm))).
      specialize (HL (ups env front here) (TList []) (TList es) HR).
      assert (Hus : forall u, In u (ups env front here) ->
                is_prefixb a0 (pnames (path_of_names (removelast a0) ++ fst u)) = true /\
                path_of_names (removelast a0) ++ fst u <> []).
      { intros u Hu. destruct (Hel u Hu) as (el & q & -> & Hname). split.
        - assert (Eq : pnames (path_of_names (removelast a0) ++ el :: q) = a0 ++ pnames q).
          { rewrite pnames_app, pnames_of_names. change (pnames (el :: q)) with ([ename el] ++ pnames q).
            rewrite Hname, app_assoc. f_equal. symmetry. apply app_removelast_last. exact Ha0ne. }
          rewrite Eq. apply is_prefixb_app.
        - destruct (path_of_names (removelast a0)); discriminate. }
      specialize (HL Hus (restrict E fs) ltac:(split; [rewrite Hget; reflexivity | reflexivity])).
      unfold front in Hun. rewrite (ups_shift env par (path_of_names (removelast a0)) here Hun).
      fold front. repeat split; auto.
      + pose proof (ups_nonempty env _ _ Hne' Hun) as Hune. fold front in Hune.
        destruct (ups env front here) as [|u0 us0]; [congruence|].
        rewrite (field_set_restrict (go_names sfs) fs E name (TList es) Hd Hsub Hin) in HL. exact HL.
      + eapply Forall_impl; [|exact Hun]. intros it. apply under_weaken.
    - discriminate.
  Qed.

  (* ---------- all fields of a struct ---------- *)
  Lemma fields_fold : forall s sfs par fs K,
    struct_schema s sfs -> gn_schemab s = true ->
    subseq (map fst fs) (go_names sfs) -> NoDup (map fst fs) ->
    gn_fields env fo ko s fs = true ->
    (forall name sub, In (name, sub) fs -> P env fo ko sub) ->
    (forall n, In n K -> exists v, In (n, TLeaf v) fs) ->
    forall l done, fs = done ++ l -> forall items,
      fl_fields env ko false sfs par l = Ok items ->
      Run env fo ko (keeps K fs) need_struct s (TCont (restrict (K ++ map fst done) fs)) (ups env par items)
          (TCont (restrict (K ++ map fst done ++ map fst l) fs))
      /\ (l <> [] -> items <> []) /\ Forall (under par) items.
  Proof.
    intros s sfs par fs K Hs Hsch Hsub Hnd Hgf HP HK.
    induction l as [|[name sub] rest IH]; intros done Hfs items Hfl.
    - cbn [fl_fields] in Hfl. injection Hfl as <-. cbn [map]. rewrite app_nil_r.
      repeat split; try constructor; congruence.
    - cbn [fl_fields] in Hfl.
      destruct (fl_field env ko false sfs par (name, sub)) as [here| |] eqn:Eh; try discriminate. cbn [bind] in Hfl.
      destruct (fl_fields env ko false sfs par rest) as [r| |] eqn:Er; try discriminate. cbn [bind] in Hfl.
      injection Hfl as <-.
      assert (Hin : In (name, sub) fs) by (rewrite Hfs; apply in_or_app; right; now left).
      assert (HnE : (forall v, sub <> TLeaf v) -> ~ In name (K ++ map fst done)).
      { intros Hnl Hx. apply in_app_or in Hx as [Hx|Hx].
        - destruct (HK name Hx) as [v Hv].
          assert (sub = TLeaf v).
          { pose proof (field_get_In name sub fs Hnd Hin) as G1.
            pose proof (field_get_In name (TLeaf v) fs Hnd Hv) as G2. congruence. }
          now apply (Hnl v).
        - rewrite Hfs, map_app in Hnd. cbn [map fst] in Hnd.
          apply (NoDup_app_disj (map fst done) (name :: map fst rest) name Hnd Hx). now left. }
      destruct (field_run s sfs par fs K (K ++ map fst done) name sub here Hs Hsch Hsub Hgf Hin (HP name sub Hin)
                  ltac:(intros m Hm; apply in_or_app; now left) HnE Eh) as (HR1 & Hne1 & Hun1).
      destruct (IH (done ++ [(name, sub)]) ltac:(rewrite Hfs, <- app_assoc; reflexivity) r eq_refl) as (HR2 & _ & Hun2).
      rewrite ups_app. repeat split.
      + eapply Run_app; [exact HR1|].
        assert (E1 : restrict (name :: K ++ map fst done) fs = restrict (K ++ map fst (done ++ [(name, sub)])) fs).
        { apply restrict_ext. intros m _. apply Bool.eq_true_iff_eq. rewrite !in_names_In.
          rewrite map_app. cbn [map fst In]. rewrite !in_app_iff. cbn [In]. tauto. }
        assert (E2 : restrict (K ++ map fst (done ++ [(name, sub)]) ++ map fst rest) fs =
                     restrict (K ++ map fst done ++ map fst ((name, sub) :: rest)) fs).
        { rewrite map_app. cbn [map fst]. now rewrite <- app_assoc. }
        rewrite E1, <- E2. exact HR2.
      + intros _. destruct here; [congruence | discriminate].
      + apply Forall_app. auto.
  Qed.

  (* ---------- the theorem ---------- *)
  Theorem rebuild_all : forall t, P env fo ko t.
  Proof.
    induction t as [v|vs|fs IH|es IH|es IH] using tree_ind2.
    - split; [intros fs E; discriminate | intros es E; discriminate].
    - split; [intros fs E; discriminate | intros es E; discriminate].
    - split; [|intros es E; discriminate].
      intros fs0 E. injection E as <-. intros s sfs par items K Hs Hsch Hgn Hfl HK.
      rewrite find_leaves_cont_eq, (struct_schema_sfields s sfs Hs) in Hfl.
      rewrite gn_node_cont_eq in Hgn. apply andb_true_iff in Hgn as [Hgn Hgf]. apply andb_true_iff in Hgn as [Hne Hsub].
      apply subseqb_subseq in Hsub. rewrite (struct_schema_sfields s sfs Hs) in Hsub.
      destruct (gn_schemab_fields s Hsch) as [Hok _]. rewrite (struct_schema_sfields s sfs Hs) in Hok.
      destruct (gn_struct_parts sfs Hok) as [Hso _]. destruct (struct_facts sfs Hso) as (Hd & _).
      assert (Hnd : NoDup (map fst fs)) by (eapply subseq_NoDup; eauto).
      assert (HPs : forall name sub, In (name, sub) fs -> P env fo ko sub).
      { intros name sub Hin. rewrite Forall_forall in IH. apply (IH (name, sub) Hin). }
      destruct (fields_fold s sfs par fs K Hs Hsch Hsub Hnd Hgf HPs HK fs [] eq_refl items Hfl) as (HR & Hne' & Hun).
      change (map fst (@nil (str * tree))) with (@nil str) in HR. cbn [app] in HR. rewrite app_nil_r in HR.
      rewrite (restrict_all (K ++ map fst fs) fs) in HR by (intros n Hn; apply in_or_app; now right).
      repeat split; auto. apply Hne'. destruct fs; [discriminate | discriminate].
    - split; [intros fs E; discriminate|].
      intros es0 E k e Hin. injection E as <-. rewrite Forall_forall in IH. apply (IH (k, e) Hin).
    - split; [intros fs E; discriminate | intros es0 E; discriminate].
  Qed.
End Rebuild.

(* ====================================================================================== *)
(* 10. C02: TogNMINotifications and UnmarshalNotifications                                 *)
(* ====================================================================================== *)

Lemma elems_equal_refl e : nodup_keysb (ekeys e) = true -> elems_equal e e = true.
Proof.
  intros Hn. unfold elems_equal. rewrite cstr_eqb_refl, Nat.eqb_refl. cbn [andb].
  apply forallb_forall. intros [k v] Hin.
  assert (G : forall l, nodup_keysb l = true -> In (k, v) l -> al_find k l = Some v).
  { induction l as [|[k0 v0] r IH]; intros Hd []; simpl in Hd; apply andb_true_iff in Hd as [Hd1 Hd2].
    - injection H as -> ->. simpl. now rewrite cstr_eqb_refl.
    - simpl. destruct (str_eqb k k0) eqn:E; auto.
      apply cstr_eqb_eq in E. subst k0. exfalso. apply negb_true_iff in Hd1. unfold has_key in Hd1.
      rewrite (IH Hd2 H) in Hd1. discriminate. }
  cbn [fst snd]. rewrite (G _ Hn Hin). apply cstr_eqb_refl.
Qed.

Lemma strip_prefix_app pfx : prefix_okb pfx = true -> forall q, strip_prefix pfx (pfx ++ q) = Ok q.
Proof.
  induction pfx as [|e pfx IH]; intros H q; [destruct q; reflexivity|].
  cbn [prefix_okb forallb] in H. apply andb_true_iff in H as [H1 H2].
  cbn [app strip_prefix]. rewrite elems_equal_refl by assumption. now apply IH.
Qed.

Lemma mapM_enc_inv env : forall xs l, mapM (encode_tv env) xs = Ok l -> l = map (enc_s env) xs.
Proof.
  induction xs as [|x xs IH]; intros l H; simpl in H; [now injection H as <-|].
  destruct (encode_tv env x) as [tv| |] eqn:E; try discriminate. cbn [bind] in H.
  destruct (mapM (encode_tv env) xs) as [r| |]; try discriminate. cbn [bind] in H. injection H as <-.
  cbn [map]. unfold enc_s at 1. rewrite E. f_equal. now apply IH.
Qed.

Lemma encode_lval_enc env v tv : encode_lval env v = Ok tv -> tv = enc_l env v.
Proof.
  destruct v as [x|xs]; simpl.
  - intros H. unfold enc_s. now rewrite H.
  - destruct (mapM (encode_tv env) xs) as [l| |] eqn:E; try discriminate. cbn [bind]. intros [= <-].
    f_equal. now apply mapM_enc_inv.
Qed.

Section C02.
  Variable env : enum_env.
  Variable fo : float_oracle.
  Variable ko : key_oracle.
  Hypothesis Henv : wf_envb env = true.

  (* the updates addToNotification builds are the relative updates of section 8 *)
  Lemma mk_updates_ups pfx : prefix_okb pfx = true -> forall items us,
    Forall (under pfx) items ->
    mapM (mk_update env pfx) (flat_map plain_of items) = Ok us -> us = ups env pfx items.
  Proof.
    intros Hp. unfold ups. induction items as [|it items IH]; intros us Hun H.
    - simpl in H. now injection H as <-.
    - inversion Hun; subst. destruct it as [p v|]; [|contradiction]. destruct H2 as (q & -> & _).
      cbn [flat_map plain_of app mapM] in H. unfold mk_update at 1 in H. cbn [fst snd] in H.
      rewrite strip_prefix_app in H by assumption. cbn [bind] in H.
      destruct (encode_lval env v) as [tv| |] eqn:Ev; try discriminate. cbn [bind] in H.
      destruct (mapM (mk_update env pfx) (flat_map plain_of items)) as [r| |] eqn:Er; try discriminate.
      cbn [bind] in H. injection H as <-.
      cbn [flat_map plain_of app map fst snd]. rewrite skipn_app_exact.
      rewrite (encode_lval_enc env v tv Ev). f_equal. now apply IH.
  Qed.

  Lemma no_atomic pfx : forall items, Forall (under pfx) items -> flat_map atomic_of items = [].
  Proof.
    induction items as [|it items IH]; intros H; [reflexivity|]. inversion H; subst.
    destruct it; [|contradiction]. simpl. auto.
  Qed.

  (* the leaves of a guarded tree, rooted at any prefix: what the notification carries *)
  Theorem notifs_are_leaves : forall S t pfx ns,
    gn_treeb env fo ko S t = true -> prefix_okb pfx = true ->
    to_notifs env ko pfx S t = Ok ns ->
    exists l, leaves env ko false S t pfx = Ok l /\
      ns = [{| n_prefix := pfx; n_atomic := false;
               n_updates := map (fun pv => (skipn (length pfx) (fst pv), enc_l env (snd pv))) l;
               n_deletes := [] |}] /\
      forall p v, In (p, v) l -> exists q, p = pfx ++ q /\ q <> [].
  Proof.
    intros S t pfx ns Hg Hp Hn. unfold gn_treeb in Hg.
    apply andb_true_iff in Hg as [Hg Ht]. apply andb_true_iff in Hg as [Hsch Hc].
    destruct S as [| |sfs| |]; try discriminate.
    destruct t as [| |fs| |]; try discriminate.
    unfold to_notifs in Hn. unfold leaves.
    destruct (find_leaves env ko false false (SCont sfs) (TCont fs) pfx) as [items| |] eqn:Ef; try discriminate.
    cbn [bind] in Hn |- *.
    assert (Hun : Forall (under pfx) items).
    { destruct fs as [|f0 fs'].
      - cbn [find_leaves] in Ef. injection Ef as <-. constructor.
      - destruct (rebuild_all env fo ko Henv (TCont (f0 :: fs'))) as [HPc _].
        destruct (HPc _ eq_refl (SCont sfs) sfs pfx items [] (ss_cont sfs) Hsch Ht Ef ltac:(intros n [])) as (_ & _ & G).
        exact G. }
    destruct (mapM (mk_update env pfx) (flat_map plain_of items)) as [us| |] eqn:Eu; try discriminate.
    cbn [bind] in Hn. rewrite (no_atomic pfx items Hun) in Hn. cbn [mapM bind] in Hn.
    pose proof (mk_updates_ups pfx Hp items us Hun Eu) as ->.
    exists (flat_map plain_of items). repeat split.
    - unfold ups in Hn.
      match type of Hn with match ?X with _ => _ end = _ => destruct X end; now injection Hn as <-.
    - intros p v Hin. apply in_flat_map in Hin as (it & Hit & Hpv).
      rewrite Forall_forall in Hun. specialize (Hun it Hit). destruct it; [|contradiction].
      destruct Hpv as [[= <- <-]|[]]. exact Hun.
  Qed.

  (* applying the updates of a Run as the updates of a SetRequest *)
  Lemma run_updates (Inv : tree -> Prop) S : forall c us c', Run env fo ko Inv need_struct S c us c' ->
    forall ce, run_phase rt_sropts (update_step env fo ko S rt_sropts empty_gp) (map (fun u => (gp_of (fst u), snd u)) us) c ce
               = (c', ce, None).
  Proof.
    intros c us c' HR. induction HR as [c|c u c1 us c2 Hstep _ HR IH]; intros ce; [reflexivity|].
    cbn [map run_phase]. unfold update_step at 1. cbn [fst snd join_paths empty_gp gp_of origin target elems nil_b negb andb app].
    unfold set_node_st. change (sn_opts rt_sropts) with rt_opts.
    rewrite (Hstep (2 * length (fst u) + 2)%nat) by (unfold need_struct; lia).
    cbn [Nat.eqb andb of_res]. apply IH.
  Qed.

  (* C02: the round trip, for any PathElem prefix *)
  Theorem roundtrip : forall S t pfx ns,
    gn_treeb env fo ko S t = true -> prefix_okb pfx = true ->
    to_notifs env ko pfx S t = Ok ns ->
    unmarshal_notifs env fo ko S rt_sropts (TCont []) (map (strip_notif pfx) ns) = (t, SROk).
  Proof.
    intros S t pfx ns Hg Hp Hn.
    destruct (notifs_are_leaves S t pfx ns Hg Hp Hn) as (l & Hl & -> & _).
    unfold gn_treeb in Hg. apply andb_true_iff in Hg as [Hg Ht]. apply andb_true_iff in Hg as [Hsch Hc].
    destruct S as [| |sfs| |]; try discriminate.
    destruct t as [| |fs| |]; try discriminate.
    unfold leaves in Hl.
    destruct (find_leaves env ko false false (SCont sfs) (TCont fs) pfx) as [items| |] eqn:Ef; try discriminate.
    cbn [bind] in Hl. injection Hl as <-.
    cbn [map unmarshal_notifs]. unfold strip_notif, req_of_notif, unmarshal_setrequest.
    cbn [n_prefix n_atomic n_updates n_deletes sr_prefix sr_deletes sr_replaces sr_updates].
    rewrite skipn_all. cbn [map app run_phase].
    change (gp_of []) with empty_gp.
    assert (HR : Run env fo ko (keeps [] fs) need_struct (SCont sfs) (TCont []) (ups env pfx items) (TCont fs)).
    { destruct fs as [|f0 fs'].
      - cbn [find_leaves] in Ef. injection Ef as <-. constructor.
      - destruct (rebuild_all env fo ko Henv (TCont (f0 :: fs'))) as [HPc _].
        destruct (HPc _ eq_refl (SCont sfs) sfs pfx items [] (ss_cont sfs) Hsch Ht Ef ltac:(intros n [])) as (G & _ & _).
        rewrite restrict_nil in G. exact G. }
    unfold ups in HR. rewrite map_map. cbn [fst snd].
    pose proof (run_updates _ _ _ _ _ HR false) as Hrun. rewrite map_map in Hrun. cbn [fst snd] in Hrun.
    rewrite Hrun. reflexivity.
  Qed.
End C02.

(* ====================================================================================== *)
(* 11. Nothing is rejected: TogNMINotifications is total on guarded trees                  *)
(* ====================================================================================== *)

Section Total.
  Variable env : enum_env.
  Variable fo : float_oracle.
  Variable ko : key_oracle.
  Hypothesis Henv : wf_envb env = true.

  Definition encodable (it : litem) : Prop :=
    match it with LLeaf _ v => exists tv, encode_lval env v = Ok tv | LAtomic _ _ => True end.

  Lemma tv_rtb_walk ty d v : tv_rtb env ko ty v = true -> leaf_walk_ok env (SLeaf ty d) v = true.
  Proof.
    intros H. destruct (tv_rtb_spec env ko ty v H) as (tv & E & _). unfold leaf_walk_ok.
    destruct v; auto. simpl in E. destruct (is_enum_type ty); auto.
    destruct (enum_by_num (enum_table env ty0) n); [reflexivity | discriminate].
  Qed.

  Definition Tcont (t : tree) : Prop :=
    forall fs, t = TCont fs -> forall s sfs par,
      struct_schema s sfs -> gn_schemab s = true -> gn_node env fo ko s (TCont fs) = true ->
      exists items, find_leaves env ko false false s (TCont fs) par = Ok items /\ Forall encodable items.
  Definition T (t : tree) : Prop :=
    Tcont t /\ forall es, t = TList es -> forall k e, In (k, e) es -> Tcont e.

  Lemma entries_total : forall keys mn mx esfs p0 es,
    gn_schemab (SList false keys mn mx esfs) = true -> p0 <> [] ->
    (forall k e, In (k, e) es -> Tcont e) ->
    forall l, (forall x, In x l -> In x es) ->
    gn_entries env fo ko (SList false keys mn mx esfs) esfs keys l = true ->
    exists items, fl_entries env ko false (SList false keys mn mx esfs) esfs keys p0 l = Ok items /\ Forall encodable items.
  Proof.
    intros keys mn mx esfs p0 es Hsch Hp0 HT.
    destruct (esfs_facts keys mn mx esfs Hsch) as (Hok & Hd & Hkne & Hdk & Ha & Hdg).
    induction l as [|[mk e] more IH]; intros Hl Hge; [exists []; split; [reflexivity | constructor]|].
    assert (Hin : In (mk, e) ((mk, e) :: more)) by now left.
    destruct (gn_entries_In env fo ko _ esfs keys _ mk e Hge Hin) as (efs & -> & Hgn & Hkm & Hkw & Hnan).
    assert (Hek : entry_key esfs keys efs = Ok mk).
    { unfold key_matchb in Hkm. destruct (entry_key esfs keys efs) as [k'| |]; try discriminate.
      apply keys_eqb_eq in Hkm. now subst. }
    pose proof (entry_key_leaves env fo ko esfs keys mk efs Hd Ha Hek Hkw) as Hkl.
    destruct (keys_wfb_strs env fo ko esfs keys mk Hkw) as [kk Hkk].
    cbn [fl_entries fields_of]. rewrite (key_leaves_strs env ko esfs keys mk efs Hd Ha Hkl), Hkk. cbn [bind].
    rewrite (app_removelast_last (mk_elem []) Hp0), set_last_keys_snoc. cbn [bind].
    destruct (HT mk (TCont efs) (Hl _ Hin) efs eq_refl (SList false keys mn mx esfs) esfs
                (removelast p0 ++ [{| ename := ename (last p0 (mk_elem [])); ekeys := kk |}])
                (ss_entry false keys mn mx esfs) Hsch Hgn) as (here & Eh & Hen).
    rewrite Eh. cbn [bind].
    rewrite <- (app_removelast_last (mk_elem []) Hp0).
    simpl in Hge. apply andb_true_iff in Hge as [_ Hge'].
    destruct (IH (fun x Hx => Hl x (or_intror Hx)) Hge') as (r & Er & Hr).
    rewrite Er. cbn [bind]. eexists. split; [reflexivity|]. apply Forall_app. auto.
  Qed.

  Theorem leaves_total : forall t, T t.
  Proof.
    induction t as [v|vs|fs IH|es IH|es IH] using tree_ind2.
    - split; [intros fs E; discriminate | intros es E; discriminate].
    - split; [intros fs E; discriminate | intros es E; discriminate].
    - split; [|intros es E; discriminate].
      intros fs0 E. injection E as <-. intros s sfs par Hs Hsch Hgn.
      pose proof (struct_schema_sfields s sfs Hs) as Esf.
      rewrite find_leaves_cont_eq, Esf.
      rewrite gn_node_cont_eq in Hgn. apply andb_true_iff in Hgn as [_ Hgf].
      destruct (gn_schemab_fields s Hsch) as [Hok Hch]. rewrite Esf in Hok, Hch.
      assert (G : forall l, (forall x, In x l -> In x fs) -> gn_fields env fo ko s l = true ->
                  exists items, fl_fields env ko false sfs par l = Ok items /\ Forall encodable items).
      { induction l as [|[name sub] rest IHl]; intros Hl Hg; [exists []; split; [reflexivity | constructor]|].
        assert (Hin : In (name, sub) ((name, sub) :: rest)) by now left.
        destruct (gn_fields_In env fo ko s _ name sub Hg Hin) as (fi & ss & Ef & Hkm & Hgn).
        rewrite Esf in Ef. destruct (find_go_name sfs name fi ss Ef) as [Hfi Hgo].
        assert (HTs : T sub) by (rewrite Forall_forall in IH; apply (IH (name, sub) (Hl _ Hin))).
        simpl in Hg. rewrite Esf, Ef in Hg. apply andb_true_iff in Hg as [_ Hg'].
        destruct (IHl (fun x Hx => Hl x (or_intror Hx)) Hg') as (r & Er & Hr).
        assert (Hhere : exists here, fl_field env ko false sfs par (name, sub) = Ok here /\ Forall encodable here).
        { unfold fl_field. rewrite Ef. cbv zeta.
          pose proof (paths_nonempty sfs fi ss Hok Hfi) as Hpne.
          destruct sub as [v|vs|cfs|es|ues].
          - destruct ss as [ty d| | | |]; try discriminate. cbn [gn_node] in Hgn.
            rewrite (tv_rtb_walk ty d v Hgn). eexists. split; [reflexivity|].
            apply Forall_forall. intros it Hit. apply in_map_iff in Hit as (p & <- & _).
            destruct (enc_s_rt env ko ty v Hgn) as (E & _). simpl. eauto.
          - destruct ss as [|ty mn mx| | |]; try discriminate. cbn [gn_node] in Hgn.
            apply andb_true_iff in Hgn as [Hne Hall]. destruct vs as [|v0 vs']; [discriminate|].
            eexists. split; [reflexivity|].
            apply Forall_forall. intros it Hit. apply in_map_iff in Hit as (p & <- & _).
            cbn [encodable encode_lval]. rewrite (mapM_enc env ko ty (v0 :: vs') Hall). cbn [bind]. eauto.
          - destruct ss as [| |csfs| |]; try discriminate. destruct HTs as [HTc _].
            apply (HTc cfs eq_refl (SCont csfs) csfs _ (ss_cont csfs) (Hch fi _ Hfi) Hgn).
          - destruct ss as [| | |ordered keys mn mx esfs|]; try discriminate.
            destruct ordered; [cbn [gn_node] in Hgn; discriminate|].
            rewrite gn_node_list_eq in Hgn. apply andb_true_iff in Hgn as [Hgn _]. apply andb_true_iff in Hgn as [_ Hge].
            destruct HTs as [_ HTl].
            apply (entries_total keys mn mx esfs _ es (Hch fi _ Hfi)); auto.
            + unfold lib_paths. cbn [tag_paths andb]. destruct (f_paths fi) as [|a0 alts] eqn:Ep; [congruence|].
              cbn [map hd]. pose proof (alt_nonempty sfs fi _ a0 Hok Hfi ltac:(rewrite Ep; now left)).
              destruct a0; [congruence|]. destruct par; discriminate.
            + apply (HTl es eq_refl).
          - discriminate. }
        destruct Hhere as (here & Eh & Hh). cbn [fl_fields]. rewrite Eh, Er. cbn [bind].
        eexists. split; [reflexivity|]. apply Forall_app. auto. }
      apply G; auto.
    - split; [intros fs E; discriminate|].
      intros es0 E k e Hin. injection E as <-. rewrite Forall_forall in IH. apply (IH (k, e) Hin).
    - split; [intros fs E; discriminate | intros es0 E; discriminate].
  Qed.

  (* C02: nothing is rejected *)
  Theorem render_total : forall S t pfx,
    gn_treeb env fo ko S t = true -> prefix_okb pfx = true -> exists ns, to_notifs env ko pfx S t = Ok ns.
  Proof.
    intros S t pfx Hg Hp. unfold gn_treeb in Hg.
    apply andb_true_iff in Hg as [Hg Ht]. apply andb_true_iff in Hg as [Hsch Hc].
    destruct S as [| |sfs| |]; try discriminate.
    destruct t as [| |fs| |]; try discriminate.
    assert (G : exists items, find_leaves env ko false false (SCont sfs) (TCont fs) pfx = Ok items /\
                  Forall encodable items /\ Forall (under pfx) items).
    { destruct fs as [|f0 fs'].
      - exists []. repeat split; constructor.
      - destruct (leaves_total (TCont (f0 :: fs'))) as [HTc _].
        destruct (HTc _ eq_refl (SCont sfs) sfs pfx (ss_cont sfs) Hsch Ht) as (items & Ef & Hen).
        exists items. repeat split; auto.
        destruct (rebuild_all env fo ko Henv (TCont (f0 :: fs'))) as [HPc _].
        now destruct (HPc _ eq_refl (SCont sfs) sfs pfx items [] (ss_cont sfs) Hsch Ht Ef ltac:(intros n [])) as (_ & _ & G). }
    destruct G as (items & Ef & Hen & Hun).
    unfold to_notifs. rewrite Ef. cbn [bind]. rewrite (no_atomic pfx items Hun). cbn [mapM bind].
    assert (Hus : exists us, mapM (mk_update env pfx) (flat_map plain_of items) = Ok us).
    { clear Ef. induction items as [|it items IH]; [exists []; reflexivity|].
      inversion Hen; subst. inversion Hun; subst. destruct it as [p v|]; [|contradiction].
      destruct H1 as [tv Ev]. destruct H3 as (q & -> & _).
      destruct (IH H2 H4) as [us Eus]. cbn [flat_map plain_of app mapM].
      unfold mk_update at 1. cbn [fst snd]. rewrite strip_prefix_app by assumption. cbn [bind].
      rewrite Ev. cbn [bind]. rewrite Eus. cbn [bind]. eauto. }
    destruct Hus as [us ->]. cbn [bind]. destruct us; eauto.
  Qed.
End Total.

(* ====================================================================================== *)
(* 12. The scalar guard tv_rtb on the non-union types                                      *)
(* ====================================================================================== *)

(* v is a value of the Go type generated for a leaf of (non-union) type t *)
Fixpoint leaf_typedb (env : enum_env) (t : ytype) (v : scalar) {struct t} : bool :=
  match t with
  | YLeafref t' => leaf_typedb env t' v
  | YEnum ty | YIdref ty =>
      match v with
      | VEnum ty' n => str_eqb ty' ty && negb (n =? 0)%Z && is_some (enum_by_num (enum_table env ty) n)
      | _ => false
      end
  | YUnion _ => false
  | _ => match kind_of_type t with Some k => has_kind k v | None => false end
  end.

Lemma dec_tv_kind_enc env ko k v : has_kind k v = true ->
  exists tv, encode_tv env v = Ok tv /\ dec_tv_kind ko k tv = Ok v.
Proof.
  destruct k as [ik| | | | |]; intros H.
  - apply has_kind_int in H as (z & -> & Hlo & Hhi). simpl.
    assert (Hr : int_in_range ik z = true).
    { unfold int_in_range. apply andb_true_iff. split; apply Z.leb_le; lia. }
    destruct (ikind_signed ik) eqn:Es.
    + exists (TVInt z). split; [reflexivity|]. cbn [dec_tv_kind]. now rewrite ?Es, Hr.
    + exists (TVUint z). split; [reflexivity|]. cbn [dec_tv_kind]. now rewrite ?Es, Hr.
  - destruct v; try discriminate. simpl. eauto.
  - destruct v; try discriminate. simpl. eauto.
  - destruct v; try discriminate. simpl. eauto.
  - destruct v; try discriminate. simpl. eauto.
  - destruct v; try discriminate. simpl. eauto.
Qed.

Lemma tol_rewrite_false k tv : tol_rewrite false k tv = tv.
Proof. destruct k, tv; reflexivity. Qed.

(* every integer width, string, boolean, decimal64, binary, empty, enumeration, identityref and
   leafrefs to them: the TypedValue ygot emits is decoded as the same value *)
Theorem tv_codec_simple : forall env ko t v,
  wf_envb env = true -> leaf_typedb env t v = true -> tv_rtb env ko t v = true.
Proof.
  intros env ko t v He. induction t as [k rs|frac|lens npat|lens| | |ty|ty|ms|t' IH]; intros H;
    try (cbn [leaf_typedb kind_of_type] in H;
         match type of H with has_kind ?K _ = true =>
           destruct (dec_tv_kind_enc env ko K v H) as (tv & E & D) end;
         unfold tv_rtb; rewrite E; cbn [decode_tv kind_of_type];
         rewrite tol_rewrite_false, D; apply scalar_eqb_refl).
  - (* enumeration *)
    cbn [leaf_typedb] in H. destruct v; try discriminate.
    apply andb_true_iff in H as [H H3]. apply andb_true_iff in H as [H1 H2].
    apply cstr_eqb_eq in H1. subst ty0.
    destruct (enum_by_num (enum_table env ty) n) as [e|] eqn:En; [|discriminate].
    unfold tv_rtb. cbn [encode_tv]. rewrite En. cbn [decode_tv].
    rewrite (enum_cast_by_num _ n e En (wf_env_tbl env ty He)).
    apply enum_by_num_In in En as [_ ->]. apply scalar_eqb_refl.
  - cbn [leaf_typedb] in H. destruct v; try discriminate.
    apply andb_true_iff in H as [H H3]. apply andb_true_iff in H as [H1 H2].
    apply cstr_eqb_eq in H1. subst ty0.
    destruct (enum_by_num (enum_table env ty) n) as [e|] eqn:En; [|discriminate].
    unfold tv_rtb. cbn [encode_tv]. rewrite En. cbn [decode_tv].
    rewrite (enum_cast_by_num _ n e En (wf_env_tbl env ty He)).
    apply enum_by_num_In in En as [_ ->]. apply scalar_eqb_refl.
  - discriminate.
  - cbn [leaf_typedb] in H. specialize (IH H). unfold tv_rtb in *. cbn [decode_tv]. exact IH.
Qed.

(* ====================================================================================== *)
(* 13. C16 (c): entries created by SetNode carry the keys of the path                      *)
(* ====================================================================================== *)

Section Created.
  Variable env : enum_env.
  Variable fo : float_oracle.
  Variable ko : key_oracle.

  Lemma make_entry_sorted sfs : forall keys ek mk nfs,
    NoDup (go_names sfs) -> make_entry env fo ko sfs keys ek = Ok (mk, nfs) ->
    subseq (map fst nfs) (go_names sfs).
  Proof.
    induction keys as [|k ks IH]; intros ek mk nfs Hd H.
    - simpl in H. injection H as <- <-. constructor.
    - cbn [make_entry] in H. destruct (al_find k ek) as [s|]; [|discriminate].
      destruct (key_name_field sfs k) as [[fi ss]| |] eqn:Ek; try discriminate. cbn [bind snd fst] in H.
      destruct ss as [t d| | | |]; try discriminate.
      destruct (string_to_key env fo ko t s) as [v| |]; try discriminate. cbn [bind] in H.
      destruct (make_entry env fo ko sfs ks ek) as [[mk' nfs']| |] eqn:Er; try discriminate. cbn [bind fst snd] in H.
      injection H as <- <-. apply field_set_sorted; auto.
      + eapply IH; eauto.
      + eapply go_names_In. eapply key_name_field_In; eauto.
  Qed.

  (* entry_key reads the key leaves back *)
  Lemma key_leaves_entry_key sfs : forall keys mk fs,
    NoDup (go_names sfs) -> (forall k, In k keys -> key_agreeb sfs k = true) ->
    key_leaves sfs keys mk fs -> entry_key sfs keys fs = Ok mk.
  Proof.
    induction keys as [|k0 kl IHk]; intros m fs Hd Ha Hkl; inversion Hkl; subst; [reflexivity|].
    destruct (key_agree_spec sfs k0 Hd (Ha k0 (or_introl eq_refl))) as (f0 & t0 & d0 & F1 & _).
    cbn [entry_key]. rewrite F1. unfold key_go in H1. rewrite F1 in H1. rewrite H1.
    rewrite (IHk l' fs Hd (fun k1 H0 => Ha k1 (or_intror H0)) H3). reflexivity.
  Qed.

  (* insertAndGetKey: the new entry holds exactly the key leaves, each equal to the key parsed
     from the path (and so to the map key the entry is stored under) *)
  Theorem make_entry_consistent : forall sfs keys ek mk nfs,
    NoDup (go_names sfs) -> (forall k, In k keys -> key_agreeb sfs k = true) ->
    NoDup (map (key_go sfs) keys) ->
    make_entry env fo ko sfs keys ek = Ok (mk, nfs) ->
    key_leaves sfs keys mk nfs /\ entry_key sfs keys nfs = Ok mk /\
    Forall2 (fun k v => exists s ty d fi, al_find k ek = Some s /\ key_name_field sfs k = Ok (fi, SLeaf ty d)
                                          /\ string_to_key env fo ko ty s = Ok v) keys mk.
  Proof.
    intros sfs. induction keys as [|k ks IH]; intros ek mk nfs Hd Ha Hdg H.
    - simpl in H. injection H as <- <-. repeat split; constructor.
    - destruct (key_agree_spec sfs k Hd (Ha k (or_introl eq_refl))) as (fi & ty & d & E1 & _ & E3 & Hfi).
      cbn [make_entry] in H. destruct (al_find k ek) as [s|] eqn:Es; [|discriminate].
      rewrite E3 in H. cbn [bind snd fst] in H.
      destruct (string_to_key env fo ko ty s) as [v| |] eqn:Ev; try discriminate. cbn [bind] in H.
      destruct (make_entry env fo ko sfs ks ek) as [[mk' nfs']| |] eqn:Er; try discriminate. cbn [bind fst snd] in H.
      injection H as <- <-.
      cbn [map] in Hdg. inversion Hdg as [|? ? Hnk Hdg']; subst.
      destruct (IH ek mk' nfs' Hd (fun k0 H0 => Ha k0 (or_intror H0)) Hdg' Er) as (Hkl & Hek & Hf2).
      pose proof (make_entry_sorted sfs ks ek mk' nfs' Hd Er) as Hsorted.
      assert (Hn : In (f_go fi) (go_names sfs)) by (eapply go_names_In; eauto).
      assert (Eg : key_go sfs k = f_go fi) by (unfold key_go; now rewrite E1).
      assert (Hkl' : key_leaves sfs (k :: ks) (v :: mk') (field_set (go_names sfs) (f_go fi) (TLeaf v) nfs')).
      { constructor.
        - rewrite Eg. apply field_get_set_same; auto.
        - clear -Hkl Hnk Eg. induction Hkl as [|k0 v0 ks0 vs0 Hg _ IHk]; constructor.
          + rewrite field_get_set_other; auto. intros E. apply Hnk. rewrite Eg, <- E. now left.
          + apply IHk. intros Hx. apply Hnk. now right. }
      repeat split; auto.
      + apply key_leaves_entry_key; auto.
      + constructor; auto. exists s, ty, d, fi. auto.
  Qed.
End Created.

(* ====================================================================================== *)
(* 14. Without a prefix                                                                    *)
(* ====================================================================================== *)

Lemma strip_notif_nil ns : map (strip_notif []) ns = ns.
Proof. induction ns as [|[p a u d] ns IH]; [reflexivity|]. cbn [map]. now rewrite IH. Qed.

Theorem roundtrip_noprefix : forall env fo ko, wf_envb env = true -> forall S t ns,
  gn_treeb env fo ko S t = true -> to_notifs env ko [] S t = Ok ns ->
  unmarshal_notifs env fo ko S rt_sropts (TCont []) ns = (t, SROk).
Proof.
  intros env fo ko He S t ns Hg Hn.
  pose proof (roundtrip env fo ko He S t [] ns Hg eq_refl Hn) as H. now rewrite strip_notif_nil in H.
Qed.

(* ====================================================================================== *)
(* 15. The shape of to_notifs on every tree (no guard, ordered lists included)             *)
(* ====================================================================================== *)

Lemma mapM_Forall2 {A B} (f : A -> result B) : forall l r, mapM f l = Ok r -> Forall2 (fun a b => f a = Ok b) l r.
Proof.
  induction l as [|a l IH]; intros r H; cbn [mapM] in H.
  - injection H as <-. constructor.
  - destruct (f a) as [b| |] eqn:Ea; try discriminate. cbn [bind] in H.
    destruct (mapM f l) as [r'| |]; try discriminate. cbn [bind] in H. injection H as <-.
    constructor; auto.
Qed.

(* Whatever the tree: the non-atomic notification carries exactly the plain leaves (each update
   is mk_update of one leaf: path with the prefix stripped, value encoded), in order; there is
   one atomic notification per ordered list, prefixed with the path of the node that contains
   the list and carrying the list's leaves in list order; the plain notification is dropped only
   when it is empty and an atomic one exists. *)
Theorem notifs_shape : forall env ko pfx S t ns,
  to_notifs env ko pfx S t = Ok ns ->
  exists l gs us ats,
    leaves env ko false S t pfx = Ok l /\
    ordered_groups env ko false S t pfx = Ok gs /\
    Forall2 (fun pv u => mk_update env pfx pv = Ok u) l us /\
    Forall2 (fun g a => exists q, strip_prefix pfx (fst g) = Ok q /\ atomic_notif env (fst g) (snd g) = Ok a) gs ats /\
    let n := {| n_prefix := pfx; n_atomic := false; n_updates := us; n_deletes := [] |} in
    ns = match us, ats with [], _ :: _ => ats | _, _ => n :: ats end.
Proof.
  intros env ko pfx S t ns H. unfold to_notifs in H. unfold leaves, ordered_groups.
  destruct (find_leaves env ko false false S t pfx) as [items| |]; try discriminate. cbn [bind] in H |- *.
  destruct (mapM (mk_update env pfx) (flat_map plain_of items)) as [us| |] eqn:Eu; try discriminate. cbn [bind] in H.
  match type of H with bind ?X _ = _ => destruct X as [ats| |] eqn:Ea; try discriminate end. cbn [bind] in H.
  exists (flat_map plain_of items), (flat_map atomic_of items), us, ats.
  repeat split; auto.
  - now apply mapM_Forall2.
  - apply mapM_Forall2 in Ea. clear H. induction Ea as [|g a gs' as' Hga _ IH]; constructor; auto.
    destruct (strip_prefix pfx (fst g)) as [q| |]; cbn [bind] in Hga; try discriminate. exists q. auto.
  - destruct us, ats; injection H as <-; reflexivity.
Qed.
Print Assumptions notifs_shape.
