(* NodeTotalProofs.v — which inputs make the model of ytypes/node.go return Panic.
   GetNode and DeleteNode never do (get_node_no_panic, delete_node_no_panic: no hypothesis at all).
   SetNode with a TypedValue other than json_ietf_val panics only through the NaN arm of
   insertAndGetKey: when no key string of the path parses (strconv.ParseFloat) to a NaN it does not
   panic (set_node_no_panic); c10_refuted_nan_panics in Properties/C10.v is the witness for the
   NaN case. *)
From Ygot Require Import Scalar.Dec Scalar.Base64 Tree.Tree Tree.Codec Tree.CodecProofs Tree.TreeOps Tree.Unmarshal Tree.KeyCodec Tree.Leaves Tree.Node Path.PathRel.
From Ygot Require Import Tree.RoundTrip Tree.RoundTripObjProofs Tree.RoundTripProofs Tree.MergeJson Tree.MergeJsonProofs.
From Ygot Require Import Tree.NodeFrameProofs.

Definition np {A} (r : result A) : Prop := r <> Panic.

Lemma np_ok {A} (a : A) : np (Ok a). Proof. discriminate. Qed.
Lemma np_err {A} : np (@Err A). Proof. discriminate. Qed.
Lemma np_bind {A B} (r : result A) (g : A -> result B) : np r -> (forall a, r = Ok a -> np (g a)) -> np (bind r g).
Proof. destruct r; simpl; intros H1 H2; [now apply H2 | discriminate | now destruct H1]. Qed.
#[local] Hint Resolve np_ok np_err : np.
Ltac npd := auto with np; try (exfalso; match goal with H : np Panic |- _ => now apply H end).

(* ---------- keys ---------- *)
Section KeysNP.
  Variable env : enum_env.
  Variable fo : float_oracle.
  Variable ko : key_oracle.

  Lemma key_to_string_np v : np (key_to_string env ko v).
  Proof.
    destruct v; simpl; auto with np. destruct (n =? 0)%Z; auto with np.
    destruct (enum_by_num (enum_table env ty) n); auto with np.
  Qed.

  Lemma key_of_kind_np fo' k s : np (key_of_kind fo' k s).
  Proof.
    destruct k; simpl; auto with np.
    - destruct (if ikind_signed k then _ else _); auto with np.
    - destruct (fparse fo' s); auto with np.
    - destruct (b64dec s); auto with np.
    - destruct (str_eqb s TRUE_S); auto with np. destruct (str_eqb s FALSE_S); auto with np.
  Qed.
  Lemma union_val_np v : np (union_val ko v).
  Proof. destruct v; simpl; auto with np. destruct (union_bytes ko); auto with np. Qed.
  Lemma key_first_kind_np s : forall ks, np (key_first_kind fo ko ks s).
  Proof.
    induction ks as [|k ks IH]; simpl; auto with np.
    destruct (key_of_kind fo k s); auto. apply union_val_np.
  Qed.
  Lemma string_to_key_np : forall t s, np (string_to_key env fo ko t s).
  Proof.
    induction t; intros s; cbn [string_to_key kind_of_type]; auto with np; try apply key_of_kind_np;
      try (destruct (enum_cast (enum_table env ty) s); auto with np).
    destruct (enum_types (YUnion ms)); [destruct (dedup_kinds (union_kinds (YUnion ms)) []) as [|k [|]]|];
      try apply key_of_kind_np; try apply key_first_kind_np;
      destruct (cast_one_enum env _ s); auto with np; apply key_first_kind_np.
  Qed.
  Lemma gotype_of_kind_np k s : np (gotype_of_kind k s).
  Proof. destruct k; cbn [gotype_of_kind]; auto with np; apply key_of_kind_np. Qed.
  Lemma string_to_gotype_np t s : np (string_to_gotype env t s).
  Proof.
    unfold string_to_gotype. destruct (resolve_lref t); cbn [kind_of_type]; auto with np; try apply gotype_of_kind_np;
      try (destruct (enum_cast (enum_table env ty) s); auto with np).
    destruct (enum_types (YUnion ms)); auto with np.
    destruct (dedup_kinds (union_kinds (YUnion ms)) []) as [|k [|]]; auto with np. apply gotype_of_kind_np.
  Qed.

  Lemma single_key_str_np sfs k mk fs : np (single_key_str env ko sfs k mk fs).
  Proof.
    unfold single_key_str.
    assert (Hm : np (match mk with [v] => key_to_string env ko v | _ => Err end)).
    { destruct mk as [|v [|]]; auto with np. apply key_to_string_np. }
    destruct (key_value_field sfs k) as [[fi ks]|]; auto.
    destruct (field_get (f_go fi) fs) as [[v| | | |]|]; auto; try apply key_to_string_np.
    destruct ks; auto. destruct (is_enum_type t || is_bin_type t); auto with np.
    destruct (is_iface_union t); auto with np.
  Qed.

  Lemma mapkey_strs_np : forall keys mk, np (mapkey_strs env ko keys mk).
  Proof.
    induction keys as [|k ks IH]; intros [|v vs]; simpl; auto with np.
    apply np_bind; [apply key_to_string_np|]. intros s _. apply np_bind; auto with np.
  Qed.

  Lemma keys_match_np partial wild ek : forall keys mk, np (keys_match env ko partial wild ek keys mk).
  Proof.
    induction keys as [|k ks IH]; intros [|v vs]; simpl; auto with np.
    destruct (al_find k ek) as [pk|].
    - apply np_bind; [apply key_to_string_np|]. intros s _.
      destruct (wild && is_star pk || str_eqb pk s); auto with np.
    - destruct partial; auto with np.
  Qed.

  Lemma entry_key_strs_np sfs fs : forall keys, np (entry_key_strs env ko sfs keys fs).
  Proof.
    induction keys as [|k ks IH]; simpl; auto with np.
    destruct (key_field sfs k) as [[fi ks0]|]; auto with np.
    apply np_bind.
    - destruct (field_get (f_go fi) fs) as [[v| | | |]|]; auto with np; try apply key_to_string_np.
      destruct ks0; auto with np. destruct (is_enum_type t); auto with np.
    - intros s _. apply np_bind; auto with np.
  Qed.

  Lemma entry_elem_keys_np sfs keys mk fs : np (entry_elem_keys env ko sfs keys mk fs).
  Proof. unfold entry_elem_keys. destruct (entry_key_strs env ko sfs keys fs); auto with np; apply mapkey_strs_np. Qed.

  Lemma ordered_keys_parse_np sfs ek : forall keys, np (ordered_keys_parse env fo ko sfs keys ek).
  Proof.
    induction keys as [|k ks IH]; simpl; auto with np.
    destruct (al_find k ek) as [s|]; auto.
    destruct (key_field sfs k) as [[fi [t d| | | |]]|]; auto with np.
    apply np_bind; [apply string_to_key_np|]. intros v _. apply np_bind; auto with np.
  Qed.

  Lemma make_ordered_entry_np sfs ek : forall keys, np (make_ordered_entry env fo ko sfs keys ek).
  Proof.
    induction keys as [|k ks IH]; simpl; auto with np.
    destruct (al_find k ek) as [s|]; auto with np.
    destruct (key_field sfs k) as [[fi [t d| | | |]]|]; auto with np.
    apply np_bind; [apply string_to_key_np|]. intros v _. apply np_bind; auto with np.
  Qed.

  Lemma key_name_field_np : forall sfs k, np (key_name_field sfs k).
  Proof.
    induction sfs as [|[fi ss] r IH]; intros k; simpl; auto with np.
    destruct (rel_schema_path fi) as [|a [|b [|c l]]]; auto with np.
    - destruct (str_eqb a k); auto with np.
    - destruct (str_eqb b k); auto with np.
  Qed.

  Lemma make_entry_np sfs ek : forall keys, np (make_entry env fo ko sfs keys ek).
  Proof.
    induction keys as [|k ks IH]; simpl; auto with np.
    destruct (al_find k ek) as [s|]; auto with np.
    apply np_bind; [apply key_name_field_np|]. intros [fi ss] _. simpl. destruct ss; auto with np.
    apply np_bind; [apply string_to_key_np|]. intros v _. apply np_bind; auto with np.
  Qed.
End KeysNP.

(* ====================================================================================== *)
(* GetNode                                                                                *)
(* ====================================================================================== *)
Section GetNP.
  Variable env : enum_env.
  Variable fo : float_oracle.
  Variable ko : key_oracle.
  Variable o : get_opts.

  Lemma get_rec_np : forall f s cur p trav, np (get_rec env fo ko o f s cur p trav).
  Proof.
    induction f as [|f IH]; intros s cur p trav; [apply np_err|].
    destruct p as [|e0 prest]; [apply np_ok|].
    destruct cur as [t|].
    2:{ cbn [get_rec]. destruct s as [ty d| | | |]; [destruct (nonptr_leaf ty); auto with np|..];
          destruct (g_tolerate_nil o); auto with np. }
    assert (Hstruct : forall sfs fs, np (get_struct env fo ko o f sfs fs (e0 :: prest) trav)).
    { intros sfs fs. unfold get_struct. destruct (find_field (g_shadow o) false (e0 :: prest) sfs) as [fi ss alt [|]| |]; auto with np.
      destruct (is_leafish ss); auto with np. }
    destruct s as [ty d|ty mn mx|sfs|ord keys mn mx sfs|sfs], t as [v|vs|fs|es|us]; try apply np_err;
      try (destruct ord; apply np_err).
    - rewrite get_rec_cont. apply Hstruct.
    - rewrite get_rec_entry. apply Hstruct.
    - rewrite get_rec_list. destruct ord.
      + apply np_bind; [apply ordered_keys_parse_np|]. intros n _.
        induction es as [|[mk e] more IHl]; [apply np_ok|]. cbn [get_oall].
        apply np_bind; [apply mapkey_strs_np|]. intros kk _.
        apply np_bind; [apply keys_match_np|]. intros [|] _; auto.
        apply np_bind; [apply IH|]. intros here _. apply np_bind; auto with np.
      + unfold get_list. destruct keys as [|k [|k2 ks]].
        * induction es as [|[mk e] more IHl]; [apply np_ok|]. cbn [get_all].
          apply np_bind; [apply keys_match_np|]. intros [|] _; auto.
          apply np_bind; [apply entry_elem_keys_np|]. intros kk _.
          apply np_bind; [apply IH|]. intros here _. apply np_bind; auto with np.
        * destruct (nil_b (ekeys e0) && g_partial o || g_wild o && is_star (get_key k (ekeys e0))).
          -- induction es as [|[mk e] more IHl]; [apply np_ok|]. cbn [get_wild_all].
             apply np_bind; [apply entry_key_strs_np|]. intros kk _.
             apply np_bind; [apply IH|]. intros here _. apply np_bind; auto with np.
          -- destruct (al_find k (ekeys e0)) as [pk|]; [|destruct (nil_b es); auto with np].
             induction es as [|[mk e] more IHl]; [apply np_ok|]. cbn [get_first].
             apply np_bind; [apply single_key_str_np|]. intros ks _. destruct (str_eqb ks pk); auto.
        * induction es as [|[mk e] more IHl]; [apply np_ok|]. cbn [get_all].
          apply np_bind; [apply keys_match_np|]. intros [|] _; auto.
          apply np_bind; [apply entry_elem_keys_np|]. intros kk _.
          apply np_bind; [apply IH|]. intros here _. apply np_bind; auto with np.
  Qed.

  Theorem get_node_no_panic s t p : get_node env fo ko o s t p <> Panic.
  Proof. apply get_rec_np. Qed.
End GetNP.

(* ====================================================================================== *)
(* DeleteNode                                                                             *)
(* ====================================================================================== *)
Section DelNP.
  Variable env : enum_env.
  Variable fo : float_oracle.
  Variable ko : key_oracle.
  Variable sh : bool.

  Section DelLoopsNP.
    Variable rec : schema -> option tree -> dpath -> option tree * result unit.
    Hypothesis Hrec : forall s c p, np (snd (rec s c p)).

    Lemma del_oall_np s keys ek prest : forall l acc, np (snd (del_oall env ko rec s keys ek prest l acc)).
    Proof.
      induction l as [|[mk e] more IHl]; intros acc; [apply np_ok|]. cbn [del_oall].
      pose proof (mapkey_strs_np env ko keys mk) as Hm. destruct (mapkey_strs env ko keys mk); cbn [bind snd]; npd.
      pose proof (keys_match_np env ko false false ek keys mk) as Hk.
      destruct (keys_match env ko false false ek keys mk) as [[|]| |]; cbn [snd]; npd.
      destruct (nil_b prest); auto.
      pose proof (Hrec s (Some e) prest) as Hr. destruct (rec s (Some e) prest) as [e' r].
      destruct r as [[]| |], e' as [e''|]; cbn [snd] in *; npd.
    Qed.

    Lemma del_all_np s sfs keys ek prest : forall l acc, np (snd (del_all env ko rec s sfs keys ek prest l acc)).
    Proof.
      induction l as [|[mk e] more IHl]; intros acc; [apply np_ok|]. cbn [del_all].
      pose proof (keys_match_np env ko false false ek keys mk) as Hk.
      destruct (keys_match env ko false false ek keys mk) as [[|]| |]; cbn [snd]; npd.
      pose proof (entry_elem_keys_np env ko sfs keys mk (fields_of e)) as He.
      destruct (entry_elem_keys env ko sfs keys mk (fields_of e)); cbn [snd]; npd.
      destruct (nil_b prest); cbn [snd]; npd.
      pose proof (Hrec s (Some e) prest) as Hr. destruct (rec s (Some e) prest) as [e' r].
      destruct r as [[]| |], e' as [e''|]; cbn [snd] in *; npd.
    Qed.

    Lemma del_first_np s sfs prest cur es k pk : forall l, np (snd (del_first env ko rec s sfs prest cur es k pk l)).
    Proof.
      induction l as [|[mk e] more IHl]; [apply np_ok|]. cbn [del_first].
      pose proof (single_key_str_np env ko sfs k mk (fields_of e)) as Hs.
      destruct (single_key_str env ko sfs k mk (fields_of e)) as [ks| |]; cbn [snd]; npd.
      destruct (str_eqb ks pk); auto. destruct (nil_b prest); cbn [snd]; npd.
      pose proof (Hrec s (Some e) prest) as Hr. destruct (rec s (Some e) prest) as [e' r].
      destruct r as [[]| |], e' as [e''|]; cbn [snd] in *; npd.
    Qed.
  End DelLoopsNP.

  Lemma del_rec_np : forall f s cur p, np (snd (del_rec env fo ko sh f s cur p)).
  Proof.
    induction f as [|f IH]; intros s cur p; [apply np_err|].
    destruct p as [|e0 prest].
    { cbn [del_rec]. destruct cur as [[| | | |]|]; cbn [snd]; npd. }
    destruct cur as [t|].
    2:{ cbn [del_rec]. destruct s as [ty d| | | |]; cbn [snd]; npd. destruct (nonptr_leaf ty); cbn [snd]; npd. }
    assert (Hstruct : forall sfs fs, np (snd (del_struct env fo ko sh f sfs fs (e0 :: prest)))).
    { intros sfs fs. unfold del_struct. cbv zeta.
      destruct (find_field sh true (e0 :: prest) sfs) as [fi ss alt [|]| |]; cbn [snd]; npd.
      - destruct (is_leafish ss); npd.
      - destruct (Nat.eqb (length (e0 :: prest)) (consumed ss alt)); cbn [snd]; npd.
        pose proof (IH ss (field_get (f_go fi) fs) (skipn (consumed ss alt) (e0 :: prest))) as Hr.
        destruct (del_rec env fo ko sh f ss (field_get (f_go fi) fs) (skipn (consumed ss alt) (e0 :: prest))) as [c' r].
        cbn [snd] in *. exact Hr. }
    destruct s as [ty d|ty mn mx|sfs|ord keys mn mx sfs|sfs], t as [v|vs|fs|es|us]; try apply np_err;
      try (destruct ord; apply np_err).
    - rewrite del_rec_cont. apply Hstruct.
    - rewrite del_rec_entry. apply Hstruct.
    - rewrite del_rec_list. destruct ord.
      + pose proof (ordered_keys_parse_np env fo ko sfs (ekeys e0) keys) as Hp.
        destruct (ordered_keys_parse env fo ko sfs keys (ekeys e0)); cbn [snd]; npd.
        apply del_oall_np. exact IH.
      + unfold del_list. cbv zeta. destruct keys as [|k [|k2 ks]]; try (apply del_all_np; exact IH).
        destruct (al_find k (ekeys e0)) as [pk|]; [apply del_first_np; exact IH|].
        destruct (nil_b es); cbn [snd]; npd.
  Qed.

  Theorem delete_node_no_panic s t p t' : delete_node_st env fo ko sh s t p <> (t', Panic).
  Proof.
    unfold delete_node_st. pose proof (del_rec_np (2 * length p + 2) s (Some t) p) as H.
    destruct (del_rec env fo ko sh (2 * length p + 2) s (Some t) p) as [c r]. cbn [snd] in H. intros [= _ ->]. now apply H.
  Qed.
End DelNP.

(* ====================================================================================== *)
(* SetNode                                                                                *)
(* ====================================================================================== *)
Section SetNP.
  Variable env : enum_env.
  Variable fo : float_oracle.
  Variable ko : key_oracle.
  Variable o : set_opts.
  Variable tv : tval.
  Hypothesis Hj : forall j, tv <> TVJsonIetf j.

  (* no key string of the path is read as a NaN by strconv.ParseFloat *)
  Definition no_nan_keys (ek : list (str * str)) : Prop :=
    forall kv, In kv ek -> match fparse fo (snd kv) with Some b => nan_bits b = false | None => True end.
  Definition no_nan_path (p : dpath) : Prop := forall e, In e p -> no_nan_keys (ekeys e).

  Lemma dec_tv_kind_np k x : np (dec_tv_kind ko k x).
  Proof.
    destruct k, x; simpl; auto with np.
    - destruct (ikind_signed k && int_in_range k z); auto with np.
    - destruct (negb (ikind_signed k) && int_in_range k z); auto with np.
    - destruct (dec_f64 ko digits prec); auto with np.
    - destruct b; auto with np.
  Qed.
  Lemma dec_tv_first_np tol x : forall ks, np (dec_tv_first ko tol ks x).
  Proof.
    induction ks as [|k ks IH]; simpl; auto with np.
    destruct (dec_tv_kind ko k (tol_rewrite tol k x)); auto. apply union_val_np.
  Qed.
  Lemma union_fallback_np tol ets ks x :
    np (match (match x with TVString s => cast_one_enum env ets s | _ => None end) with
        | Some v => Ok v | None => dec_tv_first ko tol ks x end).
  Proof.
    destruct x; try apply dec_tv_first_np. destruct (cast_one_enum env ets s); auto with np. apply dec_tv_first_np.
  Qed.
  Lemma decode_tv_np tol : forall t x, np (decode_tv env ko tol t x).
  Proof.
    induction t; intros x; cbn [decode_tv kind_of_type]; auto with np; try apply dec_tv_kind_np;
      try (destruct x; auto with np; destruct (enum_cast (enum_table env ty) s); auto with np).
    destruct (enum_types (YUnion ms)); [destruct (dedup_kinds (union_kinds (YUnion ms)) []) as [|k [|]]|];
      try apply dec_tv_kind_np; apply union_fallback_np.
  Qed.
  Lemma decode_leaflist_np tol t : forall l acc, np (snd (decode_leaflist env ko tol t l acc)).
  Proof.
    induction l as [|x l IH]; intros acc; simpl; auto with np.
    pose proof (decode_tv_np tol t x) as H. destruct (decode_tv env ko tol t x); cbn [snd]; npd.
  Qed.

  Lemma set_leaf_np ss c : np (snd (set_leaf env fo ko o tv ss c)).
  Proof.
    unfold set_leaf. destruct tv eqn:Etv; try (now destruct (Hj j)); cbn [snd]; auto with np.
    all: destruct ss as [ty d|ty mn mx| | |]; cbn [snd]; auto with np.
    all: try (match goal with |- context [decode_tv ?a ?b ?c ?d ?e] =>
                pose proof (decode_tv_np c d e) as H; destruct (decode_tv a b c d e); cbn [snd]; npd end).
    destruct (nil_b l); cbn [snd]; auto with np.
    pose proof (decode_leaflist_np (s_tol_json o) ty l []) as H.
    destruct (decode_leaflist env ko (s_tol_json o) ty l []) as [vs r]. exact H.
  Qed.

  Lemma set_terminal_np s c : np (snd (set_terminal env fo o tv s c)).
  Proof.
    unfold set_terminal. destruct (tv_is_nil tv || is_leafish s); cbn [snd]; auto with np.
    destruct tv; try (now destruct (Hj j)); cbn [snd]; auto with np.
  Qed.

  (* a decimal64 key value comes from ParseFloat *)
  Lemma key_of_kind_dec k s b : key_of_kind fo k s = Ok (VDec b) -> fparse fo s = Some b.
  Proof.
    destruct k; simpl; try discriminate.
    - destruct (if ikind_signed k then _ else _); discriminate.
    - destruct (fparse fo s); [intros [= ->]; reflexivity | discriminate].
    - destruct (b64dec s); discriminate.
    - destruct (str_eqb s TRUE_S); [discriminate|]. destruct (str_eqb s FALSE_S); discriminate.
  Qed.
  Lemma key_first_kind_dec s b : forall ks, key_first_kind fo ko ks s = Ok (VDec b) -> fparse fo s = Some b.
  Proof.
    induction ks as [|k ks IH]; simpl; [discriminate|].
    destruct (key_of_kind fo k s) as [v| |] eqn:E; auto.
    destruct v; simpl; try discriminate; try (destruct (union_bytes ko); discriminate).
    intros [= ->]. eapply key_of_kind_dec; eauto.
  Qed.
  Lemma cast_one_enum_enum s : forall tys v, cast_one_enum env tys s = Some v -> exists ty n, v = VEnum ty n.
  Proof.
    induction tys as [|ty tys IH]; simpl; [discriminate|]. intros v.
    destruct (enum_cast (enum_table env ty) s); [intros [= <-]; eauto | auto].
  Qed.
  Lemma string_to_key_dec : forall t s b, string_to_key env fo ko t s = Ok (VDec b) -> fparse fo s = Some b.
  Proof.
    induction t; intros s b; cbn [string_to_key kind_of_type]; try discriminate; auto; try apply key_of_kind_dec;
      try (destruct (enum_cast (enum_table env ty) s); discriminate).
    destruct (enum_types (YUnion ms)); [destruct (dedup_kinds (union_kinds (YUnion ms)) []) as [|k [|]]|];
      try apply key_of_kind_dec; try apply key_first_kind_dec;
      (destruct (cast_one_enum env _ s) as [v|] eqn:E; [|apply key_first_kind_dec];
       apply cast_one_enum_enum in E as (ty & n & ->); discriminate).
  Qed.

  Lemma make_entry_no_nan sfs ek : no_nan_keys ek -> forall keys mk nfs,
    make_entry env fo ko sfs keys ek = Ok (mk, nfs) -> existsb nan_key mk = false.
  Proof.
    intros Hn. induction keys as [|k ks IH]; intros mk nfs H; simpl in H.
    - injection H as <- <-. reflexivity.
    - destruct (al_find k ek) as [s|] eqn:Ea; [|discriminate].
      destruct (key_name_field sfs k) as [[fi ss]| |]; try discriminate. cbn [bind snd fst] in H.
      destruct ss; try discriminate.
      destruct (string_to_key env fo ko t s) as [v| |] eqn:Es; try discriminate. cbn [bind] in H.
      destruct (make_entry env fo ko sfs ks ek) as [[mk' nfs']| |] eqn:Em; try discriminate. cbn [bind fst snd] in H.
      injection H as <- <-. simpl. rewrite (IH _ _ eq_refl), orb_false_r.
      destruct v; auto. simpl. apply string_to_key_dec in Es.
      pose proof (Hn _ (al_find_In _ _ _ Ea)) as Hk. simpl in Hk. now rewrite Es in Hk.
  Qed.

  Section SetLoopsNP.
    Variable rec : schema -> option tree -> dpath -> option tree * result nat.
    Variable prest : dpath.
    Hypothesis Hrec : forall s c, np (snd (rec s c prest)).
    Variable ek : list (str * str).
    Hypothesis Hek : no_nan_keys ek.

    Lemma set_insert_new_np s sfs keys es : np (snd (set_insert_new env fo ko o rec s sfs keys ek prest es)).
    Proof.
      unfold set_insert_new. destruct (s_init o); cbn [snd]; auto with np.
      pose proof (make_entry_np env fo ko sfs ek keys) as Hm.
      destruct (make_entry env fo ko sfs keys ek) as [[mk nfs]| |] eqn:E; cbn [snd]; npd.
      rewrite (make_entry_no_nan _ _ Hek _ _ _ E).
      destruct (tl_find mk es) as [e_old|].
      - pose proof (Hrec s (Some e_old)) as Hr. destruct (rec s (Some e_old) prest) as [e' r]. exact Hr.
      - pose proof (Hrec s (Some (TCont nfs))) as Hr. destruct (rec s (Some (TCont nfs)) prest) as [e' r]. exact Hr.
    Qed.

    Lemma set_first_np s sfs keys cur es k pk : forall l, np (snd (set_first env fo ko o rec s sfs keys ek prest cur es k pk l)).
    Proof.
      induction l as [|[mk e] more IHl]; [apply set_insert_new_np|]. cbn [set_first].
      pose proof (single_key_str_np env ko sfs k mk (fields_of e)) as Hs.
      destruct (single_key_str env ko sfs k mk (fields_of e)) as [ks| |]; cbn [snd]; npd.
      destruct (str_eqb ks pk); auto.
      pose proof (Hrec s (Some e)) as Hr. destruct (rec s (Some e) prest) as [e' r]. exact Hr.
    Qed.

    Lemma set_all_np s sfs keys : forall l acc n, np (snd (set_all env fo ko o rec s sfs keys ek prest l acc n)).
    Proof.
      induction l as [|[mk e] more IHl]; intros acc n; cbn [set_all].
      - destruct (Nat.eqb n O); [apply set_insert_new_np | cbn [snd]; auto with np].
      - pose proof (keys_match_np env ko false false ek keys mk) as Hk.
        destruct (keys_match env ko false false ek keys mk) as [[|]| |]; cbn [snd]; npd.
        pose proof (Hrec s (Some e)) as Hr. destruct (rec s (Some e) prest) as [e' r].
        destruct r; cbn [snd] in *; npd.
    Qed.

    Lemma set_oall_np s sfs keys nparsed : forall l acc n, np (snd (set_oall env fo ko o rec s sfs keys ek prest nparsed l acc n)).
    Proof.
      induction l as [|[mk e] more IHl]; intros acc n; cbn [set_oall].
      - destruct (Nat.eqb n O && s_init o); cbn [snd]; auto with np.
        destruct (negb (Nat.eqb nparsed (length keys))); cbn [snd]; auto with np.
        pose proof (make_ordered_entry_np env fo ko sfs ek keys) as Hm.
        destruct (make_ordered_entry env fo ko sfs keys ek) as [[mk nfs]| |]; cbn [snd]; npd.
        destruct (tl_find mk acc); cbn [snd]; auto with np.
        pose proof (Hrec s (Some (TCont nfs))) as Hr. destruct (rec s (Some (TCont nfs)) prest) as [e' r]. exact Hr.
      - pose proof (mapkey_strs_np env ko keys mk) as Hm. destruct (mapkey_strs env ko keys mk); cbn [bind snd]; npd.
        pose proof (keys_match_np env ko false false ek keys mk) as Hk.
        destruct (keys_match env ko false false ek keys mk) as [[|]| |]; cbn [snd]; npd.
        pose proof (Hrec s (Some e)) as Hr. destruct (rec s (Some e) prest) as [e' r].
        destruct r; cbn [snd] in *; npd.
    Qed.
  End SetLoopsNP.

  Lemma In_skipn {A} n (l : list A) x : In x (skipn n l) -> In x l.
  Proof. revert l. induction n; destruct l; simpl; auto. Qed.

  Lemma set_rec_np : forall f s cur p, no_nan_path p -> np (snd (set_rec env fo ko o tv f s cur p)).
  Proof.
    induction f as [|f IH]; intros s cur p Hp; [apply np_err|].
    destruct p as [|e0 prest]; [apply set_terminal_np|].
    destruct cur as [t|]; [|apply np_err].
    assert (Hrest : no_nan_path prest) by (intros e Hi; apply Hp; now right).
    assert (He0 : no_nan_keys (ekeys e0)) by (apply Hp; now left).
    assert (Hstruct : forall sfs fs, np (snd (set_struct env fo ko o tv f sfs fs (e0 :: prest)))).
    { intros sfs fs. unfold set_struct. cbv zeta.
      destruct (find_field (s_shadow o) false (e0 :: prest) sfs) as [fi ss alt [|]| |]; cbn [snd]; auto with np.
      - destruct (is_leafish ss); auto with np.
      - set (c1 := if s_init o then init_field ss (field_get (f_go fi) fs) else field_get (f_go fi) fs).
        assert (Hsk : no_nan_path (skipn (consumed ss alt) (e0 :: prest))) by (intros e Hi; apply Hp; eapply In_skipn; eauto).
        destruct (negb (tv_is_nil tv) && Nat.eqb (length (e0 :: prest)) (consumed ss alt) && is_leafish ss).
        + pose proof (set_leaf_np ss c1) as Hl. destruct (set_leaf env fo ko o tv ss c1) as [c2 r2].
          destruct r2; cbn [snd] in *; npd.
          pose proof (IH ss c2 _ Hsk) as Hr. destruct (set_rec env fo ko o tv f ss c2 _) as [c3 r3]. exact Hr.
        + pose proof (IH ss c1 _ Hsk) as Hr. destruct (set_rec env fo ko o tv f ss c1 _) as [c3 r3]. exact Hr.
      - destruct (s_ignore_extra o); auto with np. }
    destruct s as [ty d|ty mn mx|sfs|ord keys mn mx sfs|sfs], t as [v|vs|fs|es|us]; try apply np_err;
      try (destruct ord; apply np_err).
    - rewrite set_rec_cont. apply Hstruct.
    - rewrite set_rec_entry. apply Hstruct.
    - rewrite set_rec_list. destruct ord.
      + pose proof (ordered_keys_parse_np env fo ko sfs (ekeys e0) keys) as Hpk.
        destruct (ordered_keys_parse env fo ko sfs keys (ekeys e0)); cbn [snd]; npd.
        apply set_oall_np. intros s c. now apply IH.
      + unfold set_list. cbv zeta. destruct keys as [|k [|k2 ks]];
          try (apply set_all_np; auto; intros s c; now apply IH).
        destruct (al_find k (ekeys e0)) as [pk|]; [apply set_first_np; auto; intros s c; now apply IH|].
        destruct (nil_b es); [apply set_insert_new_np; auto; intros s c; now apply IH | cbn [snd]; auto with np].
  Qed.

  Theorem set_node_no_panic s t p t' : no_nan_path p -> set_node_st env fo ko o tv s t p <> (t', Panic).
  Proof.
    intros Hp. unfold set_node_st. pose proof (set_rec_np (2 * length p + 2) s (Some t) p Hp) as H.
    destruct (set_rec env fo ko o tv (2 * length p + 2) s (Some t) p) as [c r]. cbn [snd] in H.
    destruct r as [n| |]; [destruct (Nat.eqb n O && negb (s_ignore_extra o))| |]; try discriminate.
    now destruct H.
  Qed.
End SetNP.
