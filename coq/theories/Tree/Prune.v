(* Prune.v — ygot.PruneEmptyBranches / pruneBranchesInternal and ygot.BuildEmptyTree /
   initialiseTree (ygot/struct_validation_map.go) at the tree level, and the leaf abstraction
   mg_leaves used by the C05 and C14 statements.

   Like copyStruct, both functions walk the fields of the Go struct type: the model recurses over
   the schema and looks every field up in the tree.  Every function f_struct s is defined through
   a loop f_fields over the field list with the recursive call as a parameter, so that
   f_struct s = f_fields f_struct (sfields s).  Definitions only; proofs in PruneProofs.v. *)
From Ygot Require Import Tree.Tree Tree.TreeOps Tree.Merge.

(* ---------- the leaf abstraction ----------
   One item per leaf, per leaf-list member, per keyed-list entry and per unkeyed-list entry, with
   the data path from the struct.  Keyed entries are identified by their key, unkeyed entries by
   their content (YANG gives them no other identity).  Containers (presence or not), empty
   leaf-lists and empty lists contribute nothing. *)
Inductive mg_step := MgF (name : str) | MgK (k : list scalar).
Inductive mg_item := MgV (v : scalar) | MgEntry | MgUEntry (e : tree).
Definition mg_path := list mg_step.
Definition mg_leafset := list (mg_path * mg_item).

Definition mg_pre (st : mg_step) (l : mg_leafset) : mg_leafset :=
  map (fun pi => (st :: fst pi, snd pi)) l.

Section LeavesFields.
  Variable rec : schema -> list (str * tree) -> mg_leafset.

  Definition mg_leaves_field (ss : schema) (sub : tree) : mg_leafset :=
    match ss, sub with
    | SLeaf _ _, TLeaf v => [([], MgV v)]
    | SLeafList _ _ _, TLeafList vs => map (fun v => ([], MgV v)) vs
    | SCont _, TCont cfs => rec ss cfs
    | SList _ _ _ _ _, TList es =>
        flat_map (fun ke => ([MgK (fst ke)], MgEntry) :: mg_pre (MgK (fst ke)) (rec ss (fields_of (snd ke)))) es
    | SUnkeyed _, TUnkeyed es => map (fun e => ([], MgUEntry e)) es
    | _, _ => []
    end.

  Fixpoint mg_leaves_fields (l : list (finfo * schema)) (fs : list (str * tree)) : mg_leafset :=
    match l with
    | [] => []
    | (fi, ss) :: rest =>
        match field_get (f_go fi) fs with
        | None => []
        | Some sub => mg_pre (MgF (f_go fi)) (mg_leaves_field ss sub)
        end ++ mg_leaves_fields rest fs
    end.
End LeavesFields.

Fixpoint mg_leaves (s : schema) (fs : list (str * tree)) {struct s} : mg_leafset :=
  match s with
  | SCont sfs | SList _ _ _ _ sfs | SUnkeyed sfs => mg_leaves_fields mg_leaves sfs fs
  | _ => []
  end.

(* ---------- PruneEmptyBranches ---------- *)

(* Fields of an ordered-map entry are reached through the unexported fields keys/valueMap of the
   generated OrderedMap struct, so every reflect.Value below carries the read-only flag:
     - a field that is neither pointer, slice nor map (enum int64, YANGEmpty bool, union
       interface) is read with v.Interface() whatever its value           -> panic
     - a non-nil struct pointer (container, nested ordered map) is read with
       fVal.Elem().Interface()                                             -> panic
     - scalar pointers, slices (leaf-lists, Binary, unkeyed lists) are only asked IsNil/Len
     - maps are recursed into, their entries are again read-only.
   mg_ro_panics s fs: pruneBranchesInternal on such a struct panics. *)
Definition mg_value_field (ss : schema) : bool :=
  match ss with
  | SLeaf t _ => match mg_repr_of t with REnum | REmpty | RUnion => true | _ => false end
  | _ => false
  end.

Section RoFields.
  Variable rec : schema -> list (str * tree) -> bool.

  Definition mg_ro_field (ss : schema) (sv : option tree) : bool :=
    mg_value_field ss ||
    match sv with
    | None => false
    | Some sub =>
        match ss, sub with
        | SCont _, _ => true
        | SList true _ _ _ _, _ => true
        | SList false _ _ _ _, TList es => existsb (fun ke => rec ss (fields_of (snd ke))) es
        | _, _ => false
        end
    end.

  Fixpoint mg_ro_fields (l : list (finfo * schema)) (fs : list (str * tree)) : bool :=
    match l with
    | [] => false
    | (fi, ss) :: rest => mg_ro_field ss (field_get (f_go fi) fs) || mg_ro_fields rest fs
    end.
End RoFields.

Fixpoint mg_ro_panics (s : schema) (fs : list (str * tree)) {struct s} : bool :=
  match s with
  | SCont sfs | SList _ _ _ _ sfs | SUnkeyed sfs => mg_ro_fields mg_ro_panics sfs fs
  | _ => false
  end.

Definition mg_empty_bin (v : scalar) : bool := match v with VBin [] => true | _ => false end.

Section Prune.
  (* false: the code as it is; true: with the proposed fix (ordered maps are walked through
     their Values(), like keyed lists) *)
  Variable fixed_om : bool.

  Section Fields.
    Variable rec : schema -> list (str * tree) -> result (list (str * tree) * bool).

    (* the entries of a keyed list: the return value of the recursive call is discarded *)
    Definition mg_prune_entries (ss : schema) (es : list (list scalar * tree)) : result (list (list scalar * tree)) :=
      mapM (fun ke => bind (rec ss (fields_of (snd ke))) (fun r => Ok (fst ke, TCont (fst r)))) es.

    (* one field that is set: (new value of the field, does it keep the parent alive) *)
    Definition mg_prune_field (ss : schema) (sub : tree) : result (option tree * bool) :=
      match ss, sub with
      | SCont _, TCont cfs =>
          (* a struct DeepEqual to its zero value (cfs = []) is set to nil at once; the recursion
             gives the same answer for it (all children pruned) *)
          bind (rec ss cfs)
               (fun r => if snd r then Ok (None, false) else Ok (Some (TCont (fst r)), true))
      | SList true _ _ _ _, TList es =>
          (* *OrderedMap is a struct pointer: zero or empty -> set to nil; otherwise the recursion
             runs through the unexported keys/valueMap *)
          if nil_b es then Ok (None, false)
          else if fixed_om then bind (mg_prune_entries ss es) (fun es' => Ok (Some (TList es'), true))
          else if existsb (fun ke => mg_ro_panics ss (fields_of (snd ke))) es then Panic
          else Ok (Some sub, true)
      | SList false _ _ _ _, TList es =>
          bind (mg_prune_entries ss es) (fun es' => Ok (Some (TList es'), negb (nil_b es)))
      | SUnkeyed _, TUnkeyed es => Ok (Some sub, negb (nil_b es))   (* entries are not visited *)
      | SLeafList _ _ _, TLeafList vs => Ok (Some sub, negb (nil_b vs))
      | SLeaf t _, TLeaf v =>
          (* a Binary is a slice: only its length is looked at *)
          Ok (Some sub, match mg_repr_of t with RBin => negb (mg_empty_bin v) | _ => true end)
      | _, _ => Ok (Some sub, true)
      end.

    (* the loop of pruneBranchesInternal: the struct after pruning and allChildrenPruned *)
    Fixpoint mg_prune_fields (l : list (finfo * schema)) (fs : list (str * tree)) : result (list (str * tree) * bool) :=
      match l with
      | [] => Ok ([], true)
      | (fi, ss) :: rest =>
          bind (match field_get (f_go fi) fs with
                | None => Ok (None, false)
                | Some sub => mg_prune_field ss sub
                end)
               (fun nv => bind (mg_prune_fields rest fs)
                  (fun r => Ok (mg_opt_cons (f_go fi) (fst nv) (fst r), negb (snd nv) && snd r)))
      end.
  End Fields.

  (* pruneBranchesInternal on the struct described by s *)
  Fixpoint mg_prune_struct (s : schema) (fs : list (str * tree)) {struct s} : result (list (str * tree) * bool) :=
    match s with
    | SCont sfs | SList _ _ _ _ sfs | SUnkeyed sfs => mg_prune_fields mg_prune_struct sfs fs
    | _ => Ok ([], true)
    end.

  (* PruneEmptyBranches(s): the root is never removed *)
  Definition mg_prune (S : schema) (t : tree) : result tree :=
    bind (mg_prune_struct S (fields_of t)) (fun r => Ok (TCont (fst r))).
End Prune.

(* false = /repo as it is (panics on ordered maps); set to true when the fix is applied *)
Definition mg_fixed_om : bool := true.
Definition prune := mg_prune mg_fixed_om.

(* ---------- BuildEmptyTree ---------- *)

Section EmptyFields.
  Variable rec : schema -> list (str * tree).
  Fixpoint mg_empty_fields (l : list (finfo * schema)) : list (str * tree) :=
    match l with
    | [] => []
    | (fi, ss) :: rest =>
        match ss with
        | SCont _ => (f_go fi, TCont (rec ss)) :: mg_empty_fields rest
        | _ => mg_empty_fields rest
        end
    end.
End EmptyFields.

(* initialiseTree on a new struct: every container below it is allocated *)
Fixpoint mg_empty_tree (s : schema) {struct s} : list (str * tree) :=
  match s with
  | SCont sfs | SList _ _ _ _ sfs | SUnkeyed sfs => mg_empty_fields mg_empty_tree sfs
  | _ => []
  end.

(* initialiseTree on the struct described by s: nil struct pointers (not ordered maps) are
   allocated recursively; a non-nil one is considered initialised and is NOT entered *)
Fixpoint mg_build_fields (l : list (finfo * schema)) (fs : list (str * tree)) : list (str * tree) :=
  match l with
  | [] => []
  | (fi, ss) :: rest =>
      match field_get (f_go fi) fs with
      | Some sub => (f_go fi, sub) :: mg_build_fields rest fs
      | None =>
          match ss with
          | SCont _ => (f_go fi, TCont (mg_empty_tree ss)) :: mg_build_fields rest fs
          | _ => mg_build_fields rest fs
          end
      end
  end.
Definition mg_build_struct (s : schema) (fs : list (str * tree)) : list (str * tree) :=
  mg_build_fields (sfields s) fs.

Definition build_empty (S : schema) (t : tree) : tree := TCont (mg_build_struct S (fields_of t)).

(* ---------- predicates used in the C14 / C05 statements (all boolean, all schema-directed) ---------- *)

(* the Go field names of every struct of the schema are pairwise distinct (a Go struct type) *)
Fixpoint mg_nodup_names (l : list str) : bool :=
  match l with
  | [] => true
  | n :: r => negb (existsb (str_eqb n) r) && mg_nodup_names r
  end.
Section WfFields.
  Variable rec : schema -> bool.
  Fixpoint mg_wf_fields (l : list (finfo * schema)) : bool :=
    match l with
    | [] => true
    | (_, ss) :: rest => rec ss && mg_wf_fields rest
    end.
End WfFields.
Fixpoint mg_wf_schema (s : schema) {struct s} : bool :=
  match s with
  | SCont sfs | SList _ _ _ _ sfs | SUnkeyed sfs => mg_nodup_names (go_names sfs) && mg_wf_fields mg_wf_schema sfs
  | _ => true
  end.

(* every set field holds a value of the shape its schema node asks for (what treeTerm prints) *)
Section ConfFields.
  Variable rec : schema -> list (str * tree) -> bool.
  Definition mg_conf_field (ss : schema) (sub : tree) : bool :=
    match ss, sub with
    | SLeaf _ _, TLeaf _ => true
    | SLeafList _ _ _, TLeafList _ => true
    | SCont _, TCont cfs => rec ss cfs
    | SList _ _ _ _ _, TList es => forallb (fun ke => rec ss (fields_of (snd ke))) es
    | SUnkeyed _, TUnkeyed es => forallb (fun e => rec ss (fields_of e)) es
    | _, _ => false
    end.
  Fixpoint mg_conf_fields (l : list (finfo * schema)) (fs : list (str * tree)) : bool :=
    match l with
    | [] => true
    | (fi, ss) :: rest =>
        match field_get (f_go fi) fs with
        | None => true
        | Some sub => mg_conf_field ss sub
        end && mg_conf_fields rest fs
    end.
End ConfFields.
Fixpoint mg_conforms (s : schema) (fs : list (str * tree)) {struct s} : bool :=
  match s with
  | SCont sfs | SList _ _ _ _ sfs | SUnkeyed sfs => mg_conf_fields mg_conforms sfs fs
  | _ => true
  end.

(* no binary leaf (Go type Binary) holds the empty value; unkeyed entries are not looked into *)
Section NobinFields.
  Variable rec : schema -> list (str * tree) -> bool.
  Definition mg_nobin_field (ss : schema) (sub : tree) : bool :=
    match ss, sub with
    | SLeaf t _, TLeaf v => match mg_repr_of t with RBin => negb (mg_empty_bin v) | _ => true end
    | SCont _, TCont cfs => rec ss cfs
    | SList _ _ _ _ _, TList es => forallb (fun ke => rec ss (fields_of (snd ke))) es
    | _, _ => true
    end.
  Fixpoint mg_nobin_fields (l : list (finfo * schema)) (fs : list (str * tree)) : bool :=
    match l with
    | [] => true
    | (fi, ss) :: rest =>
        match field_get (f_go fi) fs with
        | None => true
        | Some sub => mg_nobin_field ss sub
        end && mg_nobin_fields rest fs
    end.
End NobinFields.
Fixpoint mg_nobin (s : schema) (fs : list (str * tree)) {struct s} : bool :=
  match s with
  | SCont sfs | SList _ _ _ _ sfs | SUnkeyed sfs => mg_nobin_fields mg_nobin sfs fs
  | _ => true
  end.

(* the guard of c14_total for the code as it is: no entry of a reachable non-empty ordered list
   makes the read-only walk panic *)
Section SafeFields.
  Variable rec : schema -> list (str * tree) -> bool.
  Definition mg_safe_field (ss : schema) (sub : tree) : bool :=
    match ss, sub with
    | SCont _, TCont cfs => rec ss cfs
    | SList true _ _ _ _, TList es => negb (existsb (fun ke => mg_ro_panics ss (fields_of (snd ke))) es)
    | SList false _ _ _ _, TList es => forallb (fun ke => rec ss (fields_of (snd ke))) es
    | _, _ => true
    end.
  Fixpoint mg_safe_fields (l : list (finfo * schema)) (fs : list (str * tree)) : bool :=
    match l with
    | [] => true
    | (fi, ss) :: rest =>
        match field_get (f_go fi) fs with
        | None => true
        | Some sub => mg_safe_field ss sub
        end && mg_safe_fields rest fs
    end.
End SafeFields.
Fixpoint mg_prune_safe (s : schema) (fs : list (str * tree)) {struct s} : bool :=
  match s with
  | SCont sfs | SList _ _ _ _ sfs | SUnkeyed sfs => mg_safe_fields mg_prune_safe sfs fs
  | _ => true
  end.

(* a container without data is left somewhere (reached through containers and keyed / ordered
   list entries; deep = also below unkeyed list entries, as the property is stated) *)
Section EmptyContFields.
  Variable deep : bool.
  Variable rec : schema -> list (str * tree) -> bool.
  Definition mg_ec_field (ss : schema) (sub : tree) : bool :=
    match ss, sub with
    | SCont _, TCont cfs => nil_b (mg_leaves ss cfs) || rec ss cfs
    | SList _ _ _ _ _, TList es => existsb (fun ke => rec ss (fields_of (snd ke))) es
    | SUnkeyed _, TUnkeyed es => deep && existsb (fun e => rec ss (fields_of e)) es
    | _, _ => false
    end.
  Fixpoint mg_ec_fields (l : list (finfo * schema)) (fs : list (str * tree)) : bool :=
    match l with
    | [] => false
    | (fi, ss) :: rest =>
        match field_get (f_go fi) fs with
        | None => false
        | Some sub => mg_ec_field ss sub
        end || mg_ec_fields rest fs
    end.
End EmptyContFields.
Fixpoint mg_has_empty_cont (deep : bool) (s : schema) (fs : list (str * tree)) {struct s} : bool :=
  match s with
  | SCont sfs | SList _ _ _ _ sfs | SUnkeyed sfs => mg_ec_fields deep (mg_has_empty_cont deep) sfs fs
  | _ => false
  end.

(* ---------- guards of the C05 union statement ---------- *)
(* the schema has no leaf of Go type YANGEmpty or Binary (copyStruct treats those as a plain
   value assignment / as a list of bytes: see the refutations) *)
Section PlainFields.
  Variable rec : schema -> bool.
  Fixpoint mg_plain_fields (l : list (finfo * schema)) : bool :=
    match l with
    | [] => true
    | (_, ss) :: rest =>
        match ss with
        | SLeaf t _ => match mg_repr_of t with REmpty | RBin => false | _ => true end
        | SLeafList _ _ _ => true
        | _ => rec ss
        end && mg_plain_fields rest
    end.
End PlainFields.
Fixpoint mg_plain (s : schema) {struct s} : bool :=
  match s with
  | SCont sfs | SList _ _ _ _ sfs | SUnkeyed sfs => mg_plain_fields mg_plain sfs
  | _ => true
  end.

(* the keys of a list are pairwise distinct (a Go map; the keys slice of an ordered map) *)
Fixpoint mg_nodup_keys (l : list (list scalar)) : bool :=
  match l with
  | [] => true
  | k :: r => negb (existsb (keys_eqb k) r) && mg_nodup_keys r
  end.

(* no leaf holds the empty binary value (a union member: its copy reads as unset), and the keys
   of every list are pairwise distinct *)
Section SrcokFields.
  Variable rec : schema -> list (str * tree) -> bool.
  Definition mg_srcok_field (ss : schema) (sub : tree) : bool :=
    match ss, sub with
    | SLeaf _ _, TLeaf v => negb (mg_empty_bin v)
    | SCont _, TCont cfs => rec ss cfs
    | SList _ _ _ _ _, TList es =>
        mg_nodup_keys (map fst es) && forallb (fun ke => rec ss (fields_of (snd ke))) es
    | SUnkeyed _, TUnkeyed es => forallb (fun e => rec ss (fields_of e)) es
    | _, _ => true
    end.
  Fixpoint mg_srcok_fields (l : list (finfo * schema)) (fs : list (str * tree)) : bool :=
    match l with
    | [] => true
    | (fi, ss) :: rest =>
        match field_get (f_go fi) fs with
        | None => true
        | Some sub => mg_srcok_field ss sub
        end && mg_srcok_fields rest fs
    end.
End SrcokFields.
Fixpoint mg_srcok (s : schema) (fs : list (str * tree)) {struct s} : bool :=
  match s with
  | SCont sfs | SList _ _ _ _ sfs | SUnkeyed sfs => mg_srcok_fields mg_srcok sfs fs
  | _ => true
  end.

(* ---------- C05: when do two trees merge ----------
   mg_compat spec o s d src: the struct src can be merged into the struct d.
   spec = false: the conditions copyStruct actually checks (theorem: exactly when it succeeds);
   spec = true: the documented conditions, which differ in two places:
     - a binary leaf set in both must have the same value (the code compares BYTES as list
       members: equal, or no byte in common);
     - ordered lists must be disjoint or the source a same-order sub-sequence of the destination
       (the code accepts whenever the first source key does not occur in the destination). *)
Definition mg_slice_ok {A} (eqb : A -> A -> bool) (d s : list A) : bool :=
  (nil_b d && nil_b s) || list_eqb eqb s d || negb (mg_overlap eqb d s).

Fixpoint mg_subseq (dst src : list (list scalar)) : bool :=
  match src with
  | [] => true
  | s :: src' =>
      match dst with
      | [] => false
      | d :: dst' => if keys_eqb s d then mg_subseq dst' src' else mg_subseq dst' src
      end
  end.
Definition mg_keys_disjoint (dst src : list (list scalar)) : bool :=
  negb (existsb (fun s => existsb (keys_eqb s) dst) src).

Section CompatFields.
  Variable spec : bool.
  Variable o : mg_opts.
  Variable rec : schema -> list (str * tree) -> list (str * tree) -> bool.

  Definition mg_compat_field (ss : schema) (dv sv : option tree) : bool :=
    match sv with
    | None => true
    | Some sub =>
        match ss, sub with
        | SLeaf t _, TLeaf v =>
            match mg_repr_of t with
            | RPtr | REnum | RUnion => negb (mg_leaf_conflict o dv v)
            | REmpty => true
            | RBin =>
                if spec then negb (mg_leaf_conflict o dv v)
                else mg_slice_ok N.eqb (match dv with Some (TLeaf (VBin d)) => d | _ => [] end)
                                       (match v with VBin s => s | _ => [] end)
            end
        | SLeafList _ _ _, TLeafList vs =>
            mg_slice_ok scalar_eqb (match dv with Some (TLeafList x) => x | _ => [] end) vs
        | SCont _, TCont fs => rec ss (match dv with Some c => fields_of c | None => [] end) fs
        | SList ordered _ _ _ _, TList es =>
            let des := match dv with Some (TList x) => x | _ => [] end in
            (nil_b es && nil_b des && negb (mo_empty_maps o)) ||
            ((if ordered
              then (if spec then mg_keys_disjoint (map fst des) (map fst es) || mg_subseq (map fst des) (map fst es)
                    else mg_om_mergeable (map fst des) (map fst es))
              else true) &&
             forallb (fun ke => rec ss (match tl_find (fst ke) des with Some old => fields_of old | None => [] end)
                                       (fields_of (snd ke))) es)
        | SUnkeyed _, TUnkeyed es =>
            forallb (fun e => rec ss [] (fields_of e)) es &&
            mg_slice_ok mg_tree_eqb (match dv with Some (TUnkeyed x) => x | _ => [] end) es
        | _, _ => false
        end
    end.

  Fixpoint mg_compat_fields (l : list (finfo * schema)) (d src : list (str * tree)) : bool :=
    match l with
    | [] => true
    | (fi, ss) :: rest =>
        mg_compat_field ss (field_get (f_go fi) d) (field_get (f_go fi) src) && mg_compat_fields rest d src
    end.
End CompatFields.

Fixpoint mg_compat (spec : bool) (o : mg_opts) (s : schema) (d src : list (str * tree)) {struct s} : bool :=
  match s with
  | SCont sfs | SList _ _ _ _ sfs | SUnkeyed sfs => mg_compat_fields spec o (mg_compat spec o) sfs d src
  | _ => true
  end.

(* the documented compatibility of two trees *)
Definition compatible (S : schema) (a b : tree) : bool := mg_compat true mg_noopts S (fields_of a) (fields_of b).
