(* RoundTrip.v — definitions for property C01 (RFC 7951 JSON round trip is lossless):
   the JSON the decoder receives (erase_sets), and the executable well-formedness predicates
   "schema-conforming tree" (wf_treeb), "unambiguous struct tags" (wf_schemab), "enum tables
   with distinct names" (wf_envb) and "marshalling options that keep member names parseable"
   (wf_cfgb).  Definitions only; the proofs are in RoundTripObjProofs.v and RoundTripProofs.v. *)
From Ygot Require Import Tree.Tree Scalar.Dec Scalar.Base64 Tree.Codec Tree.CodecProofs.
From Ygot Require Import Tree.TreeOps Tree.Render Tree.Unmarshal.

(* ---------- the JSON text as the decoder sees it ---------- *)

(* The model renders the entries of a Go-map list as an array tagged with JSET_TAG (the real
   code emits them sorted by another key text, the checker compares them as a set).  The
   decoder receives a plain array; here: the entries in tree order. *)
Fixpoint erase_sets (j : json) : json :=
  match j with
  | JArr l =>
      let l' := (fix go (x : list json) : list json :=
                   match x with [] => [] | y :: r => erase_sets y :: go r end) l in
      match l with
      | JStr tag :: _ => if str_eqb tag JSET_TAG then JArr (tl l') else JArr l'
      | _ => JArr l'
      end
  | JObj m =>
      JObj ((fix go (x : list (str * json)) : list (str * json) :=
               match x with [] => [] | (k, v) :: r => (k, erase_sets v) :: go r end) m)
  | _ => j
  end.

(* ---------- environment and options ---------- *)

(* every ΛEnum table has pairwise distinct names (after stripping a module prefix) *)
Definition wf_envb (env : enum_env) : bool := forallb (fun p => tbl_okb (snd p)) env.

(* RewriteModuleNames targets contain no ':' (a member name "a:b:k" cannot be stripped back
   to "k"); when identityref values are emitted as "module:name", names and modules of the
   tables contain no ':' (see CodecProofs.enum_prefixed_needs_no_colon) *)
Definition wf_cfgb (env : enum_env) (cfg : jcfg) : bool :=
  forallb (fun p => no_colonb (snd p)) (c_rewrite cfg)
  && (negb (pmi cfg) || forallb (fun p => tbl_nocolonb (snd p)) env).

(* ---------- schema: struct tags are unambiguous ---------- *)

Fixpoint is_prefixb (p q : list str) : bool :=
  match p, q with
  | [], _ => true
  | x :: p', y :: q' => str_eqb x y && is_prefixb p' q'
  | _ :: _, [] => false
  end.

Definition incompb (p q : list str) : bool := negb (is_prefixb p q) && negb (is_prefixb q p).

(* no element of the list is a prefix of (or equal to) another one *)
Fixpoint prefix_freeb (l : list (list str)) : bool :=
  match l with
  | [] => true
  | p :: r => forallb (incompb p) r && prefix_freeb r
  end.

(* per-field sets of alternatives: no alternative of a field is a prefix of (or equal to) an
   alternative of another field *)
Fixpoint fields_disjointb (l : list (list (list str))) : bool :=
  match l with
  | [] => true
  | a :: r => forallb (fun b => forallb (fun p => forallb (incompb p) b) a) r && fields_disjointb r
  end.

Fixpoint nodupb (l : list str) : bool :=
  match l with
  | [] => true
  | x :: r => negb (existsb (str_eqb x) r) && nodupb r
  end.

(* a path alternative: at least one element, no ':' in an element *)
Definition alt_okb (p : list str) : bool := negb (nil_b p) && forallb no_colonb p.

(* module tag: absent, or one module list per path alternative, of the same length, no ':';
   all alternatives end in the same module (the module the children are compared with) *)
Fixpoint same_shapeb (ms ps : list (list str)) : bool :=
  match ms, ps with
  | [], [] => true
  | m :: ms', p :: ps' => Nat.eqb (length m) (length p) && same_shapeb ms' ps'
  | _, _ => false
  end.
Definition mods_okb (ms ps : list (list str)) : bool :=
  nil_b ms
  || (same_shapeb ms ps && forallb (forallb no_colonb) ms
      && match ms with
         | [] => true
         | m :: r => forallb (fun m' => str_eqb (last_str m') (last_str m)) r
         end).

(* within one field: the path alternatives are prefix-free, so are the shadow-path
   alternatives; a shadow path may repeat a path (a list key: "config/k|k" and "state/k|k")
   but is otherwise unrelated to the paths; module tags fit the path tags (if there is a
   shadow-path but no shadow-module tag, the module tag is used with the shadow paths) *)
Definition field_okb (f : finfo) : bool :=
  negb (nil_b (f_paths f)) && forallb alt_okb (f_paths f) && forallb alt_okb (f_spaths f)
  && prefix_freeb (f_paths f) && prefix_freeb (f_spaths f)
  && forallb (fun p => forallb (fun q => list_eqb str_eqb p q || incompb p q) (f_spaths f)) (f_paths f)
  && mods_okb (f_mods f) (f_paths f) && mods_okb (f_smods f) (f_spaths f)
  && (nil_b (f_spaths f) || negb (nil_b (f_smods f)) || mods_okb (f_mods f) (f_spaths f)).

Definition field_alts (f : finfo) : list (list str) := f_paths f ++ f_spaths f.

(* the fields of one struct *)
Definition struct_okb (sfs : list (finfo * schema)) : bool :=
  nodupb (go_names sfs) && forallb (fun fs => field_okb (fst fs)) sfs
  && fields_disjointb (map (fun fs => field_alts (fst fs)) sfs).

Fixpoint wf_schemab (s : schema) : bool :=
  match s with
  | SLeaf _ _ | SLeafList _ _ _ => true
  | SCont fs | SList _ _ _ _ fs | SUnkeyed fs =>
      struct_okb fs
      && (fix go (l : list (finfo * schema)) : bool :=
            match l with [] => true | (_, ss) :: r => wf_schemab ss && go r end) fs
  end.

(* ---------- leaf values ---------- *)

Definition is_some {A} (o : option A) : bool := match o with Some _ => true | None => false end.
Definition is_none {A} (o : option A) : bool := match o with Some _ => false | None => true end.

(* the alternative the decoder picks for an enum value of type ty named `name` in a union with
   the enum types ets is ty itself: ty is a member and no earlier enum type has that name *)
Fixpoint enum_canonb (env : enum_env) (ets : list str) (ty : str) (name : str) : bool :=
  match ets with
  | [] => false
  | ty' :: r =>
      if str_eqb ty' ty then true
      else match enum_cast (enum_table env ty') name with
           | Some _ => false
           | None => enum_canonb env r ty name
           end
  end.

(* the first kind (in the decoder's order) that the value has is reached: every earlier kind
   rejects the JSON text of the value *)
Fixpoint kind_canonb (fo : float_oracle) (ks : list ukind) (v : scalar) (j : json) : bool :=
  match ks with
  | [] => false
  | k :: r =>
      if has_kind k v then true
      else match dec_kind fo k j with
           | Ok _ => false
           | _ => kind_canonb fo r v j
           end
  end.

(* for the decimal64 values that occur: strconv.ParseFloat (FormatFloat f) = f and the text is in
   the decimal64 lexical space (checked on the oracle; implied by the float oracle guarantees
   forall b, fparse (ffmt b) = Some b and forall b, dec64_lexb (ffmt b) = true) *)
Definition float_okb (fo : float_oracle) (v : scalar) : bool :=
  match v with
  | VDec bits =>
      match fparse fo (ffmt fo bits) with Some b => b =? bits | None => false end
      && dec64_lexb (ffmt fo bits)
  | _ => true
  end.

Section WfTree.
  Variable env : enum_env.
  Variable fo : float_oracle.

  (* v is a value the generated code stores in a leaf of type t AND the decoder's choice for the
     lexical form of v (unions: the canonical alternative) *)
  Fixpoint wf_type (t : ytype) (v : scalar) {struct t} : bool :=
    match t with
    | YLeafref t' => wf_type t' v
    | YEnum ty | YIdref ty =>
        match v with
        | VEnum ty' n => str_eqb ty' ty && negb (n =? 0)%Z && is_some (enum_by_num (enum_table env ty) n)
        | _ => false
        end
    | YUnion _ =>
        let ets := enum_types t in
        let ks := dedup_kinds (union_kinds t) [] in
        match v with
        | VEnum ty n =>
            negb (n =? 0)%Z &&
            match enum_by_num (enum_table env ty) n with
            | Some e => enum_canonb env ets ty (ev_name e)
            | None => false
            end
        | _ =>
            match enc_scalar env fo false v with
            | Ok j => (match j with JStr s => is_none (cast_one_enum env ets s) | _ => true end)
                      && kind_canonb fo ks v j
            | _ => false
            end
        end
    | _ => match kind_of_type t with Some k => has_kind k v | None => false end
    end.

  Definition wf_leaf (t : ytype) (v : scalar) : bool := float_okb fo v && wf_type t v.

  (* model artefact: the first element of a leaf-list must not be rendered as the string that
     the model reserves as the marker of an unordered set (U+0000, not a YANG character) *)
  Definition first_not_tagb (vs : list scalar) : bool :=
    match vs with
    | v :: _ => match enc_scalar env fo false v with
                | Ok (JStr s) => negb (str_eqb s JSET_TAG)
                | _ => true
                end
    | [] => true
    end.

  Definition kind_matchb (s : schema) (t : tree) : bool :=
    match s, t with
    | SLeaf _ _, TLeaf _ | SLeafList _ _ _, TLeafList _ | SCont _, TCont _
    | SList _ _ _ _ _, TList _ | SUnkeyed _, TUnkeyed _ => true
    | _, _ => false
    end.

  Definition is_empty_cont (t : tree) : bool := match t with TCont [] => true | _ => false end.

  (* the first schema field with this Go name, and the fields after it *)
  Fixpoint drop_to (name : str) (sfs : list (finfo * schema)) : option (finfo * schema * list (finfo * schema)) :=
    match sfs with
    | [] => None
    | (fi, ss) :: r => if str_eqb (f_go fi) name then Some (fi, ss, r) else drop_to name r
    end.

  (* the key leaves of the entry are set and equal to the key tuple it is stored under *)
  Definition key_matchb (sfs : list (finfo * schema)) (keys : list str) (fs : list (str * tree)) (k : list scalar) : bool :=
    match entry_key sfs keys fs with
    | Ok k' => keys_eqb k' k
    | _ => false
    end.

  Definition is_ltb (c : comparison) : bool := match c with Lt => true | _ => false end.

  (* key tuples pairwise distinct; Go map: in the canonical order (the order in which
     tl_insert keeps them: a later key is never below an earlier one) *)
  Fixpoint keys_okb (ordered : bool) (ks : list (list scalar)) : bool :=
    match ks with
    | [] => true
    | k :: r =>
        forallb (fun k' => negb (keys_eqb k' k) && (ordered || negb (is_ltb (keys_cmp k' k)))) r
        && keys_okb ordered r
    end.

  Fixpoint wf_node (s : schema) (t : tree) {struct t} : bool :=
    match t with
    | TLeaf v => match s with SLeaf ty _ => wf_leaf ty v | _ => false end
    | TLeafList vs =>
        match s with
        | SLeafList ty _ _ => negb (nil_b vs) && forallb (wf_leaf ty) vs && first_not_tagb vs
        | _ => false
        end
    | TCont fs =>
        (* only fields of the struct, in struct order, each at most once *)
        (fix fields (l : list (str * tree)) (sfs : list (finfo * schema)) {struct l} : bool :=
           match l with
           | [] => true
           | (name, sub) :: rest =>
               match drop_to name sfs with
               | None => false
               | Some (fi, ss, sfs') =>
                   kind_matchb ss sub && wf_node ss sub
                   && (f_presence fi || negb (is_empty_cont sub))
                   && fields rest sfs'
               end
           end) fs (sfields s)
    | TList es =>
        match s with
        | SList ordered keys _ _ sfs =>
            (fix entries (l : list (list scalar * tree)) : bool :=
               match l with
               | [] => true
               | (k, e) :: rest =>
                   match e with
                   | TCont fs => wf_node s e && key_matchb sfs keys fs k
                   | _ => false
                   end && entries rest
               end) es
            && keys_okb ordered (map fst es)
        | _ => false
        end
    | TUnkeyed es =>
        match s with
        | SUnkeyed _ =>
            (fix entries (l : list tree) : bool :=
               match l with
               | [] => true
               | e :: rest => match e with TCont _ => wf_node s e | _ => false end && entries rest
               end) es
        | _ => false
        end
    end.

  Definition wf_treeb (s : schema) (t : tree) : bool := kind_matchb s t && wf_node s t.
End WfTree.
