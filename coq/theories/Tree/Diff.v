(* Diff.v — transcription of ygot/diff.go on the abstract tree (definitions only):
     findSetLeaves (incl. the walk of util.ForEachDataField2 / walkDataFieldInternal, the
       path annotations of nodeValuePath / nodeRootPath / nodeChildPath / nodeMapPath, the
       processedPaths table, the zero-value test util.IsValueNilOrDefault, DiffPathOpt with
       leastSpecificPath, orderedMapAsLeaf for DiffWithAtomic),
     toStringPathMap (map keyed by the ygot.PathToString text = PathString.path_str),
     diff (Diff / DiffWithAtomic, IgnoreAdditions),
     orderedMapLeaves / findUpdatedLeaves (render.go; only what an atomic notification of an
       ordered list needs), KeyValueAsString, EncodeTypedValue (scalar arms),
   and the specification-level leaf map with the application of a diff to it.

   Modelling decisions (each is exercised by the `diff` stream, see Corr/DiffCorr.v):
   - A Go map is iterated in unspecified order.  The walk visits Go-map list entries in the
     canonical tree order, the string-keyed maps are sorted association lists (Base.al_insert);
     the notification contents are compared as sets (atomic groups: as sequences).
   - Leaf values are compared by reflect.DeepEqual in Go and by structural equality here;
     decimal64 is identified with its bit pattern (NaN and -0.0 are not decimal64 values and
     are not generated).
   - The core result (ddiff) carries the Go values (pathInfo.val) of the updates; df_encode is
     EncodeTypedValue on them.  Decoding a TypedValue back into the tree is
     ytypes.UnmarshalNotifications (the real one is used by the implementation-side oracle).
   - An error inside an iteration callback is collected by Go and reported at the end; every
     error makes the whole call fail, so the model fails at the first one. *)
From Ygot Require Import Tree.Tree Tree.TreeOps Tree.Codec Scalar.Dec Scalar.Base64.

(* ---------- values held by the leaf maps ---------- *)

Inductive lval :=
| LScalar (v : scalar)                       (* leaf *)
| LList (vs : list scalar)                   (* leaf-list (the Go slice) *)
| LOrd (es : list (list scalar * tree))      (* an ordered map taken as one value (DiffWithAtomic) *)
| LUnkeyed (es : list tree).                 (* the slice of an unkeyed list: findSetLeaves records it as a value *)

Definition df_is_ord (v : lval) : bool := match v with LOrd _ => true | _ => false end.

(* structural equality on trees (reflect.DeepEqual on generated structs) *)
Fixpoint df_tree_eqb (a b : tree) {struct a} : bool :=
  match a, b with
  | TLeaf v, TLeaf w => scalar_eqb v w
  | TLeafList vs, TLeafList ws => list_eqb scalar_eqb vs ws
  | TCont fs, TCont gs =>
      (fix go (x y : list (str * tree)) : bool :=
         match x, y with
         | [], [] => true
         | (n, t) :: x', (m, u) :: y' => str_eqb n m && df_tree_eqb t u && go x' y'
         | _, _ => false
         end) fs gs
  | TList es, TList fs =>
      (fix go (x y : list (list scalar * tree)) : bool :=
         match x, y with
         | [], [] => true
         | (k, t) :: x', (l, u) :: y' => list_eqb scalar_eqb k l && df_tree_eqb t u && go x' y'
         | _, _ => false
         end) es fs
  | TUnkeyed es, TUnkeyed fs =>
      (fix go (x y : list tree) : bool :=
         match x, y with
         | [], [] => true
         | t :: x', u :: y' => df_tree_eqb t u && go x' y'
         | _, _ => false
         end) es fs
  | _, _ => false
  end.

Definition df_entry_eqb (a b : list scalar * tree) : bool :=
  list_eqb scalar_eqb (fst a) (fst b) && df_tree_eqb (snd a) (snd b).

Definition lval_eqb (a b : lval) : bool :=
  match a, b with
  | LScalar v, LScalar w => scalar_eqb v w
  | LList vs, LList ws => list_eqb scalar_eqb vs ws
  | LOrd es, LOrd fs => list_eqb df_entry_eqb es fs
  | LUnkeyed es, LUnkeyed fs => list_eqb df_tree_eqb es fs
  | _, _ => false
  end.

(* ---------- paths ---------- *)

Definition df_elem (n : str) : pelem := {| ename := n; ekeys := [] |}.
Definition df_names (l : list str) : gpath := map df_elem l.

Definition df_kv_eqb (a b : str * str) : bool := str_eqb (fst a) (fst b) && str_eqb (snd a) (snd b).
Definition df_pelem_eqb (a b : pelem) : bool :=
  str_eqb (ename a) (ename b) && list_eqb df_kv_eqb (ekeys a) (ekeys b).
Definition df_gpath_eqb : gpath -> gpath -> bool := list_eqb df_pelem_eqb.

(* q is a prefix of p (element-wise equality) *)
Fixpoint df_prefixb (q p : gpath) : bool :=
  match q, p with
  | [], _ => true
  | e :: q', f :: p' => df_pelem_eqb e f && df_prefixb q' p'
  | _ :: _, [] => false
  end.

(* np.Elem[len(p.Elem)-1].Key = strkeys ; an empty path is the index panic *)
Fixpoint df_set_last_keys (ks : list (str * str)) (p : gpath) : result gpath :=
  match p with
  | [] => Panic
  | [e] => Ok [ {| ename := ename e; ekeys := ks |} ]
  | e :: t => bind (df_set_last_keys ks t) (fun t' => Ok (e :: t'))
  end.

(* sort.Strings *)
Fixpoint df_str_insert (s : str) (l : list str) : list str :=
  match l with
  | [] => [s]
  | x :: t => match str_cmp s x with Gt => x :: df_str_insert s t | _ => s :: l end
  end.
Definition df_str_sort (l : list str) : list str := fold_right df_str_insert [] l.

(* leastSpecificPath: the first path of minimal length *)
Fixpoint df_least_specific (best : list str) (ps : list (list str)) : list str :=
  match ps with
  | [] => best
  | p :: t => df_least_specific (if Nat.ltb (length p) (length best) then p else best) t
  end.

(* ---------- options (as the harness prints them) ---------- *)

Record dopts := {
  o_ignore_add : bool;       (* IgnoreAdditions *)
  o_single : bool;           (* DiffPathOpt.MapToSinglePath *)
  o_shadow : bool            (* DiffPathOpt.PreferShadowPath *)
}.

(* what the walk finds: the pathSpec, the value, and whether the value is a simple-union member
   equal to its Go zero value (the entries findSetLeaves drops) *)
Record wentry := { we_paths : list gpath; we_val : lval; we_zu : bool }.
Record wst := { w_seen : list str; w_out : list wentry }.     (* processedPaths ; out (reversed) *)

Definition S_TRUE : str := [116;114;117;101].
Definition S_FALSE : str := [102;97;108;115;101].

Fixpoint df_resolve (t : ytype) : ytype := match t with YLeafref t' => df_resolve t' | _ => t end.

(* the generated field is an interface (union with more than one member Go type) *)
Definition df_is_iface (t : ytype) : bool :=
  match df_resolve t with
  | YUnion _ =>
      match enum_types t, dedup_kinds (union_kinds t) [] with
      | [], [_] => false
      | [_], [] => false
      | _, _ => true
      end
  | _ => false
  end.
(* the generated field is a plain enumeration (int64 with UNSET = 0) *)
Definition df_is_enum_field (t : ytype) : bool := negb (df_is_iface t) && negb (nil_b (enum_types t)).

(* value == reflect.New(reflect.TypeOf(value)).Elem().Interface() for a simple-union member *)
Definition df_zero_scalar (v : scalar) : bool :=
  match v with
  | VInt _ z => (z =? 0)%Z
  | VStr s => nil_b s
  | VBool b => negb b
  | VDec bits => (bits =? 0) || (bits =? 9223372036854775808)
  | VEnum _ n => (n =? 0)%Z
  | VBin _ => false
  | VEmpty => false
  end.

(* the string-keyed map of toStringPathMap: PathToString text -> pathInfo{path, val} *)
Definition strmap := list (str * (gpath * lval)).
(* specification level: a leaf map keyed by structured paths *)
Definition leafmap := list (gpath * lval).

(* the notifications before TypedValue encoding *)
Record ddiff := {
  dd_deletes : list gpath;
  dd_updates : list (gpath * lval);      (* the non-atomic notification *)
  dd_atomic : list (gpath * lval)        (* one atomic notification per ordered list: (list path, LOrd entries) *)
}.
(* the notifications as the harness observes them *)
Record enotifs := {
  en_deletes : list str;                                (* PathToString of every delete *)
  en_updates : list (str * tval);
  en_atomic : list (str * list (str * tval))            (* prefix, (relative path, value) in order *)
}.

(* The code as it is applies the zero-value test to union (interface) fields.  With the repair
   proposed for C03 (findSetLeaves: no IsValueNilOrDefault on interface fields) this constant
   becomes false: df_leaves then equals df_walk_all, df_no_zero_union is constantly true, and the
   *_refuted theorems about the zero value in Properties/C03.v have to be deleted. *)
Definition df_zero_test_on_unions : bool := false.

Section Diff.
  Variable env : enum_env.
  Variable kf : N -> str.          (* fmt.Sprintf("%g", f) for the float with these bits (harness table) *)
  Variable wu : bool.              (* the package was generated with wrapper unions *)
  Variable atomic : bool.          (* orderedMapAsLeaf / withAtomic *)
  Variable ia : bool.              (* IgnoreAdditions given *)
  Variable single : bool.          (* DiffPathOpt.MapToSinglePath *)
  Variable shadow : bool.          (* DiffPathOpt.PreferShadowPath *)

  (* ---------- KeyValueAsString ---------- *)
  Definition df_key_string (wrapped : bool) (v : scalar) : result str :=
    match v with
    | VInt _ z => Ok (dec_of_Z z)
    | VStr s => Ok s
    | VBool b => Ok (if b then S_TRUE else S_FALSE)
    | VDec bits => Ok (kf bits)
    | VBin bs => Ok (b64enc bs)
    | VEmpty => Ok S_TRUE
    | VEnum ty n =>
        if (n =? 0)%Z then (if wrapped then Err else Ok [])
        else match enum_by_num (enum_table env ty) n with
             | Some e => Ok (ev_name e)
             | None => Err
             end
    end.

  (* ΛListKeyMap of the entry struct followed by keyMapAsStrings: the key values are read from
     the entry's own key leaves; a nil pointer / nil union is an error, an UNSET enum is "" *)
  Fixpoint df_entry_keys (keys : list str) (sfs : list (finfo * schema)) (efs : list (str * tree))
    : result (list (str * str)) :=
    match keys with
    | [] => Ok []
    | k :: rest =>
        match key_field sfs k with
        | Some (fi, SLeaf ty _) =>
            bind (match field_get (f_go fi) efs with
                  | Some (TLeaf v) => df_key_string (wu && df_is_iface ty) v
                  | None => if df_is_enum_field ty then Ok [] else Err
                  | Some _ => Err
                  end) (fun s =>
            bind (df_entry_keys rest sfs efs) (fun acc => Ok (al_insert k s acc)))
        | _ => Err
        end
    end.

  (* ---------- findSetLeaves ---------- *)

  (* the schema paths used for the annotation: shadow-path if asked for and present, module
     prefixes stripped, reduced to the least specific one under MapToSinglePath *)
  Definition df_sp (fi : finfo) : list (list str) :=
    let sp0 := if shadow && negb (nil_b (f_spaths fi)) then f_spaths fi else f_paths fi in
    let sp1 := map (map strip_mod) sp0 in
    if single then match sp1 with [] => [] | p :: t => [df_least_specific p t] end else sp1.

  (* nodeValuePath *)
  Definition df_node_path (parent_ann : option (list gpath)) (ek : option (result (list (str * str))))
      (sp : list (list str)) : result (list gpath) :=
    match parent_ann with
    | None => Ok (map df_names sp)                                      (* nodeRootPath *)
    | Some cp =>
        match ek with
        | Some rk => bind rk (fun ks => mapM (df_set_last_keys ks) cp)     (* nodeMapPath *)
        | None => Ok (flat_map (fun p => map (fun s => p ++ df_names s) sp) cp)   (* nodeChildPath *)
        end
    end.

  (* findSetIterFunc up to the processedPaths test: returns the pathSpec, the node's annotation
     after the call and whether the node is processed for the first time *)
  Definition df_visit (parent_ann own_ann : option (list gpath)) (ek : option (result (list (str * str))))
      (sp : list (list str)) (st : wst) : result (list gpath * option (list gpath) * bool * wst) :=
    if nil_b sp then Err
    else
      bind (df_node_path parent_ann ek sp) (fun vp =>
      bind (mapM path_str vp) (fun ks =>
      let key := join_with SLASH (df_str_sort ks) in
      if existsb (str_eqb key) (w_seen st) then Ok (vp, own_ann, false, st)
      else Ok (vp, Some vp, true, {| w_seen := key :: w_seen st; w_out := w_out st |}))).

  Definition df_emit (vp : list gpath) (v : lval) (zu : bool) (st : wst) : wst :=
    {| w_seen := w_seen st; w_out := {| we_paths := vp; we_val := v; we_zu := zu |} :: w_out st |}.

  (* the value test of findSetIterFunc for a field that is processed for the first time *)
  Definition df_leaf_decision (ss : schema) (sub : tree) (vp : list gpath) (st : wst) : wst :=
    match sub with
    | TLeaf v =>
        let iface := match ss with SLeaf ty _ => df_is_iface ty | _ => false end in
        df_emit vp (LScalar v) (negb wu && iface && df_zero_scalar v) st
    | TLeafList vs => df_emit vp (LList vs) false st
    | TCont _ => st
    | TList es =>
        match ss with
        | SList true _ _ _ _ => if atomic && negb (nil_b es) then df_emit vp (LOrd es) false st else st
        | _ => st
        end
    | TUnkeyed es => df_emit vp (LUnkeyed es) false st
    end.

  (* walkDataFieldInternal below a struct node whose annotation is `ann` *)
  Fixpoint df_walk (s : schema) (t : tree) (ann : option (list gpath)) (st : wst) {struct t} : result wst :=
    match t with
    | TCont fs =>
        let sfs := sfields s in
        (fix fields (l : list (str * tree)) (st : wst) {struct l} : result wst :=
           match l with
           | [] => Ok st
           | (name, sub) :: rest =>
               match find (fun fs => str_eqb (f_go (fst fs)) name) sfs with
               | None => Err
               | Some (fi, ss) =>
                   let sp := df_sp fi in
                   let keys := match ss with SList _ ks _ _ _ => ks | _ => [] end in
                   let esfs := sfields ss in
                   (* the children of the field node, given its annotation *)
                   let kids := fun (own : option (list gpath)) (st : wst) =>
                     match sub with
                     | TCont _ => df_walk ss sub own st
                     | TList es =>
                         (fix entries (l : list (list scalar * tree)) (st : wst) {struct l} : result wst :=
                            match l with
                            | [] => Ok st
                            | (_, e) :: rest =>
                                bind (df_visit own own (Some (df_entry_keys keys esfs (fields_of e))) sp st)
                                     (fun r => let '(_, eann, _, st1) := r in
                                      bind (df_walk ss e eann st1) (fun st2 => entries rest st2))
                            end) es st
                     | TUnkeyed es =>
                         (fix elems (l : list tree) (st : wst) {struct l} : result wst :=
                            match l with
                            | [] => Ok st
                            | e :: rest =>
                                bind (df_visit own own None sp st)
                                     (fun r => let '(_, eann, _, st1) := r in
                                      bind (df_walk ss e eann st1) (fun st2 => elems rest st2))
                            end) es st
                     | _ => Ok st
                     end in
                   (* one visit per alternative of the `path` tag (the walk's loop over SchemaPaths) *)
                   if nil_b (f_paths fi) then Err else
                   bind ((fix alts (ps : list (list str)) (own : option (list gpath)) (st : wst) {struct ps} : result wst :=
                            match ps with
                            | [] => Ok st
                            | _ :: ps' =>
                                bind (df_visit ann own None sp st) (fun r =>
                                  let '(vp, own', fresh, st1) := r in
                                  let st2 := if fresh then df_leaf_decision ss sub vp st1 else st1 in
                                  let skip := fresh && atomic && negb (nil_b (match sub with TList es => es | _ => [] end))
                                              && match ss with SList true _ _ _ _ => true | _ => false end in
                                  bind (if skip then Ok st2 else kids own' st2) (fun st3 => alts ps' own' st3))
                            end) (f_paths fi) None st)
                        (fun st' => fields rest st')
               end
           end) fs st
    | _ => Ok st
    end.

  Definition df_wst0 : wst := {| w_seen := []; w_out := [] |}.

  (* everything the walk meets, in visit order *)
  Definition df_walk_all (sch : schema) (t : tree) : result (list wentry) :=
    bind (df_walk sch t None df_wst0) (fun st => Ok (rev (w_out st))).

  (* findSetLeaves: zero-valued simple-union members are not data for it
     (util.IsValueNilOrDefault is applied to the dynamic value of the interface field) *)
  Definition df_leaves (sch : schema) (t : tree) : result (list wentry) :=
    bind (df_walk_all sch t) (fun l => Ok (filter (fun e => negb (df_zero_test_on_unions && we_zu e)) l)).

  (* ---------- toStringPathMap ---------- *)

  Definition df_flatten (l : list wentry) : list (gpath * lval) :=
    flat_map (fun e => map (fun p => (p, we_val e)) (we_paths e)) l.
  Fixpoint df_str_map_from (l : list (gpath * lval)) (acc : strmap) : result strmap :=
    match l with
    | [] => Ok acc
    | (p, v) :: t => bind (path_str p) (fun k => df_str_map_from t (al_insert k (p, v) acc))
    end.
  Definition df_str_map (l : list wentry) : result strmap := df_str_map_from (df_flatten l) [].

  (* ---------- diff ---------- *)

  Definition df_changed (A B : strmap) : list (gpath * lval) :=
    flat_map (fun e => match al_find (fst e) B with
                       | Some pv' => if lval_eqb (snd (snd e)) (snd pv') then [] else [pv']
                       | None => []
                       end) A.
  Definition df_gone (A B : strmap) : list (gpath * lval) :=
    flat_map (fun e => match al_find (fst e) B with None => [snd e] | Some _ => [] end) A.
  Definition df_added (A B : strmap) : list (gpath * lval) :=
    flat_map (fun e => match al_find (fst e) A with None => [snd e] | Some _ => [] end) B.

  (* the path named by a delete: an ordered list is deleted through its enclosing container *)
  Definition df_trunc (pv : gpath * lval) : gpath :=
    if df_is_ord (snd pv) then removelast (fst pv) else fst pv.
  Definition df_del_path (pv : gpath * lval) : result gpath :=
    if df_is_ord (snd pv) && nil_b (fst pv) then Err else Ok (df_trunc pv).

  Definition df_diff_maps (A B : strmap) : result ddiff :=
    let ups := df_changed A B ++ (if ia then [] else df_added A B) in
    bind (mapM df_del_path (df_gone A B)) (fun dels =>
    Ok {| dd_deletes := dels;
          dd_updates := filter (fun pv => negb (df_is_ord (snd pv))) ups;
          dd_atomic := filter (fun pv => df_is_ord (snd pv)) ups |}).

  (* diff up to (and excluding) the TypedValue encoding of the values *)
  Definition df_diff_core (sch : schema) (a b : tree) : result ddiff :=
    bind (df_leaves sch a) (fun la =>
    bind (df_leaves sch b) (fun lb =>
    bind (df_str_map la) (fun A =>
    bind (df_str_map lb) (fun B => df_diff_maps A B)))).

  (* ---------- EncodeTypedValue ---------- *)

  Definition df_enc_scalar (v : scalar) : result tval :=
    match v with
    | VInt k z => Ok (if ikind_signed k then TVInt z else TVUint z)
    | VStr s => Ok (TVString s)
    | VBool b => Ok (TVBool b)
    | VDec bits => Ok (TVDouble bits)
    | VBin bs => Ok (TVBytes bs)
    | VEmpty => Ok (TVBool true)
    | VEnum ty n =>
        if (n =? 0)%Z then Ok (TVString [])
        else match enum_by_num (enum_table env ty) n with
             | Some e => Ok (TVString (ev_name e))
             | None => Err
             end
    end.

  Definition df_encode (v : lval) : result tval :=
    match v with
    | LScalar s => df_enc_scalar s
    | LList vs => bind (mapM df_enc_scalar vs) (fun l => Ok (TVLeafList l))
    | LUnkeyed [] => Ok (TVLeafList [])          (* leaflistToSlice over no elements *)
    | LUnkeyed _ => Err                          (* "invalid type ptr in leaflist" *)
    | LOrd _ => Err                              (* never an update value: handled by orderedMapNotif *)
    end.

  (* ---------- orderedMapLeaves / findUpdatedLeaves (render.go) ---------- *)

  Definition df_lib_paths (fi : finfo) (parent : gpath) : list gpath :=
    let alts := if shadow && negb (nil_b (f_spaths fi)) then f_spaths fi else f_paths fi in
    map (fun alt => parent ++ df_names (filter (fun x => negb (nil_b x)) alt)) alts.

  Fixpoint df_upd_leaves (s : schema) (t : tree) (parent : gpath) {struct t} : result (list (gpath * lval)) :=
    match t with
    | TCont fs =>
        let sfs := sfields s in
        (fix fields (l : list (str * tree)) {struct l} : result (list (gpath * lval)) :=
           match l with
           | [] => Ok []
           | (name, sub) :: rest =>
               match find (fun fs => str_eqb (f_go (fst fs)) name) sfs with
               | None => Err
               | Some (fi, ss) =>
                   let paths := df_lib_paths fi parent in
                   let p0 := hd [] paths in
                   bind (match sub with
                         | TLeaf v => Ok (map (fun p => (p, LScalar v)) paths)
                         | TLeafList vs => Ok (map (fun p => (p, LList vs)) paths)
                         | TCont _ => df_upd_leaves ss sub p0
                         | TList es =>
                             match ss with
                             | SList false keys _ _ esfs =>
                                 (fix entries (l : list (list scalar * tree)) {struct l} : result (list (gpath * lval)) :=
                                    match l with
                                    | [] => Ok []
                                    | (_, e) :: rest =>
                                        bind (df_entry_keys keys esfs (fields_of e)) (fun ks =>
                                        bind (df_set_last_keys ks p0) (fun cp =>
                                        bind (df_upd_leaves ss e cp) (fun l1 =>
                                        bind (entries rest) (fun l2 => Ok (l1 ++ l2)))))
                                    end) es
                             | _ => Err        (* nested `ordered-by user` list: not supported *)
                             end
                         | TUnkeyed _ => Err   (* keyless list cannot be output *)
                         end) (fun l1 => bind (fields rest) (fun l2 => Ok (l1 ++ l2)))
               end
           end) fs
    | _ => Err
    end.

  (* the schema node of the ordered list at data path q: needed to walk its entries *)
  Fixpoint df_schema_at (fuel : nat) (s : schema) (names : list str) : option schema :=
    match fuel with
    | O => None
    | S fuel' =>
        match names with
        | [] => Some s
        | _ =>
            (fix try (l : list (finfo * schema)) : option schema :=
               match l with
               | [] => None
               | (fi, ss) :: rest =>
                   match (fix alt (ps : list (list str)) : option schema :=
                            match ps with
                            | [] => None
                            | p :: ps' =>
                                let p' := map strip_mod p in
                                if negb (nil_b p') && list_eqb str_eqb p' (firstn (length p') names)
                                then match df_schema_at fuel' ss (skipn (length p') names) with
                                     | Some r => Some r
                                     | None => alt ps'
                                     end
                                else alt ps'
                            end) (if shadow && negb (nil_b (f_spaths fi)) then f_spaths fi else f_paths fi) with
                   | Some r => Some r
                   | None => try rest
                   end
               end) (sfields s)
        end
    end.

  (* orderedMapNotif: prefix = the list path without its last element; the leaves of all
     entries in order, paths relative to the prefix *)
  Definition df_atomic_group (sch : schema) (qv : gpath * lval) : result (gpath * list (gpath * lval)) :=
    let q := fst qv in
    match snd qv, df_schema_at (S (length q)) sch (map ename q) with
    | LOrd es, Some (SList true keys mn mx esfs) =>
        let ss := SList true keys mn mx esfs in
        bind ((fix entries (l : list (list scalar * tree)) {struct l} : result (list (gpath * lval)) :=
                 match l with
                 | [] => Ok []
                 | (_, e) :: rest =>
                     bind (df_entry_keys keys esfs (fields_of e)) (fun ks =>
                     bind (df_set_last_keys ks q) (fun cp =>
                     bind (df_upd_leaves ss e cp) (fun l1 =>
                     bind (entries rest) (fun l2 => Ok (l1 ++ l2)))))
                 end) es) (fun leaves =>
        let n := Nat.pred (length q) in
        Ok (removelast q, map (fun pv => (skipn n (fst pv), snd pv)) leaves))
    | _, _ => Err
    end.

  (* ---------- the notifications as the harness observes them ---------- *)

  Definition df_enc_update (pv : gpath * lval) : result (str * tval) :=
    bind (path_str (fst pv)) (fun s => bind (df_encode (snd pv)) (fun v => Ok (s, v))).

  Definition df_encode_diff (sch : schema) (d : ddiff) : result enotifs :=
    bind (mapM path_str (dd_deletes d)) (fun ds =>
    bind (mapM df_enc_update (dd_updates d)) (fun us =>
    bind (mapM (fun qv => bind (df_atomic_group sch qv) (fun g =>
                 bind (path_str (fst g)) (fun pfx =>
                 bind (mapM df_enc_update (snd g)) (fun l => Ok (pfx, l))))) (dd_atomic d)) (fun ats =>
    Ok {| en_deletes := ds; en_updates := us; en_atomic := ats |}))).

  (* Diff (atomic = false) / DiffWithAtomic (atomic = true) *)
  Definition df_diff (sch : schema) (a b : tree) : result enotifs :=
    bind (df_diff_core sch a b) (df_encode_diff sch).

  (* ---------- specification level: leaf maps keyed by structured paths ---------- *)

  (* every set leaf of the tree with its data paths (no zero-value test) *)
  Definition df_L (sch : schema) (t : tree) : leafmap :=
    match df_walk_all sch t with Ok l => df_flatten l | _ => [] end.

  (* guard of the partial theorems: no union leaf holds its type's zero value *)
  Definition df_no_zero_union (sch : schema) (t : tree) : bool :=
    match df_walk_all sch t with Ok l => forallb (fun e => negb (df_zero_test_on_unions && we_zu e)) l | _ => true end.

  Fixpoint lm_get (p : gpath) (m : leafmap) : option lval :=
    match m with
    | [] => None
    | (q, v) :: t => if df_gpath_eqb p q then Some v else lm_get p t
    end.
  (* gNMI delete: the subtree at q *)
  Definition lm_del (q : gpath) (m : leafmap) : leafmap :=
    filter (fun e => negb (df_prefixb q (fst e))) m.
  Fixpoint lm_set (p : gpath) (v : lval) (m : leafmap) : leafmap :=
    match m with
    | [] => [(p, v)]
    | (q, w) :: t => if df_gpath_eqb p q then (p, v) :: t else (q, w) :: lm_set p v t
    end.

  (* UnmarshalNotifications on the leaf map: in the plain notification deletes, then updates;
     then every atomic notification: delete its prefix, set the ordered list *)
  Definition apply_diff (m : leafmap) (d : ddiff) : leafmap :=
    let m1 := fold_left (fun m q => lm_del q m) (dd_deletes d) m in
    let m2 := fold_left (fun m pv => lm_set (fst pv) (snd pv) m) (dd_updates d) m1 in
    fold_left (fun m qv => lm_set (fst qv) (snd qv) (lm_del (removelast (fst qv)) m)) (dd_atomic d) m2.

  Definition lm_equiv (m1 m2 : leafmap) : Prop := forall p, lm_get p m1 = lm_get p m2.

  (* guards on leaf maps (all computable) *)
  Definition df_lm_wfb (m : leafmap) : bool := forallb (fun e => wf_pathb (fst e)) m.
  Fixpoint df_lm_nodupb (m : leafmap) : bool :=
    match m with
    | [] => true
    | (p, _) :: t => negb (existsb (fun e => df_gpath_eqb p (fst e)) t) && df_lm_nodupb t
    end.
  (* no leaf lies below (the delete path of) another one: leaf paths are prefix-free and the
     container enclosing an ordered list holds nothing but that list *)
  Definition df_isolatedb (m1 m2 : leafmap) : bool :=
    let E := m1 ++ m2 in
    forallb (fun e => forallb (fun e2 => negb (df_prefixb (df_trunc e) (fst e2)) || df_gpath_eqb (fst e2) (fst e)) E) E.

  (* ---------- histories ---------- *)

  (* the guards of the apply theorem for one pair of versions *)
  Definition df_pair_okb (sch : schema) (a b : tree) : bool :=
    df_no_zero_union sch a && df_no_zero_union sch b &&
    df_lm_wfb (df_L sch a) && df_lm_wfb (df_L sch b) &&
    df_lm_nodupb (df_L sch a) && df_lm_nodupb (df_L sch b) &&
    df_isolatedb (df_L sch a) (df_L sch b).
  Fixpoint df_chain_okb (sch : schema) (vs : list tree) : bool :=
    match vs with
    | a :: ((b :: _) as rest) => df_pair_okb sch a b && df_chain_okb sch rest
    | _ => true
    end.
  (* apply the diffs of successive versions, in sequence, to a leaf map *)
  Fixpoint df_replay (sch : schema) (m : leafmap) (vs : list tree) : option leafmap :=
    match vs with
    | a :: ((b :: _) as rest) =>
        match df_diff_core sch a b with
        | Ok d => df_replay sch (apply_diff m d) rest
        | _ => None
        end
    | _ => Some m
    end.
End Diff.

