(* DiffProofs.v — proofs about the Diff model (C03).
   Structure:
     1. boolean equalities reflect Leibniz equality (scalar, tree, lval, gpath)
     2. Base.al_insert keeps a string-keyed map sorted, hence free of duplicate keys
     3. toStringPathMap: the content of the string-keyed map in terms of the leaf list
        (this is where the injectivity of PathToString, PathStringProofs.print_injective, enters)
     4. the three loops of diff in terms of the structured leaf maps
     5. lm_get after apply_diff
     6. the C03 theorems *)
From Coq Require Import Sorting.Sorted Permutation.
From Ygot Require Import Tree.Tree Tree.TreeOps Tree.Codec Tree.CodecProofs Tree.Diff.
From Ygot Require Import Path.PathStringProofs Path.PathRelProofs.

(* ================================================================ 1. equalities *)

Lemma list_eqb_eq {A} (eqb : A -> A -> bool) (l l' : list A) :
  (forall x y, In x l -> (eqb x y = true <-> x = y)) -> (list_eqb eqb l l' = true <-> l = l').
Proof.
  revert l'; induction l as [|x l IH]; intros [|y l'] H; simpl; try (split; congruence).
  rewrite andb_true_iff, (H x y (or_introl eq_refl)), IH by (intros; apply H; now right).
  split; [intros [-> ->]; reflexivity | intros [= -> ->]; auto].
Qed.

Lemma N_list_eqb_eq (a b : list N) : list_eqb N.eqb a b = true <-> a = b.
Proof. apply list_eqb_eq. intros x y _. apply N.eqb_eq. Qed.

Lemma scalar_eqb_eq a b : scalar_eqb a b = true <-> a = b.
Proof.
  destruct a, b; simpl; try (split; [discriminate | congruence]).
  - rewrite andb_true_iff, ikind_eqb_eq, Z.eqb_eq. split; [intros [-> ->] | intros [= -> ->]]; auto.
  - rewrite str_eqb_eq. split; congruence.
  - rewrite Bool.eqb_true_iff. split; congruence.
  - rewrite N.eqb_eq. split; congruence.
  - rewrite N_list_eqb_eq. split; congruence.
  - split; reflexivity.
  - rewrite andb_true_iff, str_eqb_eq, Z.eqb_eq. split; [intros [-> ->] | intros [= -> ->]]; auto.
Qed.

Lemma scalars_eqb_eq (a b : list scalar) : list_eqb scalar_eqb a b = true <-> a = b.
Proof. apply list_eqb_eq. intros x y _. apply scalar_eqb_eq. Qed.

(* induction principle for the nested tree type *)
Section TreeInd.
  Variable P : tree -> Prop.
  Hypothesis Hleaf : forall v, P (TLeaf v).
  Hypothesis Hll : forall vs, P (TLeafList vs).
  Hypothesis Hcont : forall fs, Forall (fun nt => P (snd nt)) fs -> P (TCont fs).
  Hypothesis Hlist : forall es, Forall (fun kt => P (snd kt)) es -> P (TList es).
  Hypothesis Hunk : forall es, Forall P es -> P (TUnkeyed es).
  Fixpoint tree_ind' (t : tree) : P t :=
    match t with
    | TLeaf v => Hleaf v
    | TLeafList vs => Hll vs
    | TCont fs => Hcont fs ((fix go (l : list (str * tree)) : Forall (fun nt => P (snd nt)) l :=
                               match l with
                               | [] => Forall_nil _
                               | x :: r => Forall_cons x (tree_ind' (snd x)) (go r)
                               end) fs)
    | TList es => Hlist es ((fix go (l : list (list scalar * tree)) : Forall (fun kt => P (snd kt)) l :=
                               match l with
                               | [] => Forall_nil _
                               | x :: r => Forall_cons x (tree_ind' (snd x)) (go r)
                               end) es)
    | TUnkeyed es => Hunk es ((fix go (l : list tree) : Forall P l :=
                                 match l with
                                 | [] => Forall_nil _
                                 | x :: r => Forall_cons x (tree_ind' x) (go r)
                                 end) es)
    end.
End TreeInd.

Lemma df_tree_eqb_eq a : forall b, df_tree_eqb a b = true <-> a = b.
Proof.
  induction a using tree_ind'; intros b; destruct b; simpl; try (split; [discriminate | congruence]).
  - rewrite scalar_eqb_eq. split; congruence.
  - rewrite scalars_eqb_eq. split; congruence.
  - (* TCont *)
    revert fs0. induction fs as [|[n t] fs IHfs]; intros [|[m u] gs]; try (split; [discriminate | congruence]).
    + split; reflexivity.
    + inversion H as [|? ? Ht Hfs]; subst. simpl in Ht.
      rewrite !andb_true_iff, str_eqb_eq, Ht. specialize (IHfs Hfs gs).
      split.
      * intros [[-> ->] Hr]. apply IHfs in Hr. congruence.
      * intros [= -> -> ->]. repeat split; auto. apply IHfs. reflexivity.
  - (* TList *)
    revert es0. induction es as [|[k t] es IHes]; intros [|[l u] gs]; try (split; [discriminate | congruence]).
    + split; reflexivity.
    + inversion H as [|? ? Ht Hes]; subst. simpl in Ht.
      rewrite !andb_true_iff, scalars_eqb_eq, Ht. specialize (IHes Hes gs).
      split.
      * intros [[-> ->] Hr]. apply IHes in Hr. congruence.
      * intros [= -> -> ->]. repeat split; auto. apply IHes. reflexivity.
  - (* TUnkeyed *)
    revert es0. induction es as [|t es IHes]; intros [|u gs]; try (split; [discriminate | congruence]).
    + split; reflexivity.
    + inversion H as [|? ? Ht Hes]; subst.
      rewrite !andb_true_iff, Ht. specialize (IHes Hes gs).
      split.
      * intros [-> Hr]. apply IHes in Hr. congruence.
      * intros [= -> ->]. split; auto. apply IHes. reflexivity.
Qed.

Lemma lval_eqb_eq a b : lval_eqb a b = true <-> a = b.
Proof.
  destruct a, b; simpl; try (split; [discriminate | congruence]).
  - rewrite scalar_eqb_eq. split; congruence.
  - rewrite scalars_eqb_eq. split; congruence.
  - rewrite (list_eqb_eq df_entry_eqb es es0).
    + split; congruence.
    + intros [k t] [l u] _. unfold df_entry_eqb; simpl.
      rewrite andb_true_iff, scalars_eqb_eq, df_tree_eqb_eq. split; [intros [-> ->] | intros [= -> ->]]; auto.
  - rewrite (list_eqb_eq df_tree_eqb es es0).
    + split; congruence.
    + intros x y _. apply df_tree_eqb_eq.
Qed.

Lemma lval_eqb_refl a : lval_eqb a a = true.
Proof. now apply lval_eqb_eq. Qed.

Lemma df_pelem_eqb_eq a b : df_pelem_eqb a b = true <-> a = b.
Proof.
  destruct a as [n ks], b as [m ls]. unfold df_pelem_eqb; simpl.
  rewrite andb_true_iff, str_eqb_eq, (list_eqb_eq df_kv_eqb ks ls).
  - split; [intros [-> ->] | intros [= -> ->]]; auto.
  - intros [k v] [k' v'] _. unfold df_kv_eqb; simpl. rewrite andb_true_iff, !str_eqb_eq.
    split; [intros [-> ->] | intros [= -> ->]]; auto.
Qed.

Lemma df_gpath_eqb_eq a b : df_gpath_eqb a b = true <-> a = b.
Proof. apply list_eqb_eq. intros x y _. apply df_pelem_eqb_eq. Qed.

Lemma df_gpath_eqb_refl a : df_gpath_eqb a a = true.
Proof. now apply df_gpath_eqb_eq. Qed.

Lemma df_gpath_eqb_neq a b : df_gpath_eqb a b = false <-> a <> b.
Proof.
  destruct (df_gpath_eqb a b) eqn:E.
  - apply df_gpath_eqb_eq in E. split; [discriminate | congruence].
  - split; auto. intros _ Hab. apply df_gpath_eqb_eq in Hab. congruence.
Qed.

Lemma df_prefixb_refl p : df_prefixb p p = true.
Proof. induction p as [|e p IH]; simpl; auto. rewrite IH, andb_true_r. now apply df_pelem_eqb_eq. Qed.

Lemma df_prefixb_removelast p : df_prefixb (removelast p) p = true.
Proof.
  induction p as [|e p IH]; auto. destruct p as [|f p]; [reflexivity|].
  change (removelast (e :: f :: p)) with (e :: removelast (f :: p)).
  cbn [df_prefixb]. rewrite IH, andb_true_r. now apply df_pelem_eqb_eq.
Qed.

(* ================================================================ 2. sorted string maps *)

Lemma str_cmp_eq a b : str_cmp a b = Eq -> a = b.
Proof.
  revert b; induction a as [|x a IH]; intros [|y b]; simpl; try discriminate; auto.
  destruct (x ?= y) eqn:E; try discriminate. apply N.compare_eq in E. subst. intros H. f_equal. auto.
Qed.

Lemma str_cmp_refl a : str_cmp a a = Eq.
Proof. induction a as [|x a IH]; simpl; auto. now rewrite N.compare_refl. Qed.

Lemma str_cmp_gt_lt a b : str_cmp a b = Gt -> str_cmp b a = Lt.
Proof.
  revert b; induction a as [|x a IH]; intros [|y b]; simpl; try discriminate; auto.
  rewrite (N.compare_antisym x y). destruct (x ?= y) eqn:E; simpl; try discriminate; auto.
Qed.

Lemma str_lt_trans a b c : str_cmp a b = Lt -> str_cmp b c = Lt -> str_cmp a c = Lt.
Proof.
  revert b c; induction a as [|x a IH]; intros [|y b] [|z c]; simpl; try discriminate; auto.
  destruct (x ?= y) eqn:E1; try discriminate.
  - apply N.compare_eq in E1. subst y. destruct (x ?= z) eqn:E2; try discriminate; auto. apply IH.
  - intros _. destruct (y ?= z) eqn:E2; try discriminate.
    + apply N.compare_eq in E2. subst z. now rewrite E1.
    + intros _. assert (Hxz : (x ?= z) = Lt).
      { apply N.compare_lt_iff. eapply N.lt_trans; apply N.compare_lt_iff; eassumption. }
      now rewrite Hxz.
Qed.

Definition klt {V} (a b : str * V) : Prop := str_cmp (fst a) (fst b) = Lt.
Definition ksorted {V} (m : list (str * V)) : Prop := StronglySorted klt m.

Lemma al_insert_keys {V} k (v : V) m x : In x (al_insert k v m) -> x = (k, v) \/ In x m.
Proof.
  induction m as [|[k' v'] m IH]; simpl.
  - intros [<-|[]]; auto.
  - destruct (str_cmp k k'); simpl.
    + intros [<-|H]; auto.
    + intros [<-|H]; auto.
    + intros [<-|H]; auto. destruct (IH H); auto.
Qed.

Lemma al_insert_sorted {V} k (v : V) m : ksorted m -> ksorted (al_insert k v m).
Proof.
  induction m as [|[k' v'] m IH]; simpl; intros Hs.
  - constructor; constructor.
  - inversion Hs as [|? ? Hs' Hall]; subst.
    destruct (str_cmp k k') eqn:E.
    + apply str_cmp_eq in E. subst k'. constructor; auto.
    + constructor; auto. constructor.
      * exact E.
      * rewrite Forall_forall in Hall. apply Forall_forall. intros x Hx. specialize (Hall x Hx).
        unfold klt in *; simpl in *. eapply str_lt_trans; eauto.
    + constructor; [now apply IH|]. rewrite Forall_forall in Hall. apply Forall_forall. intros x Hx.
      destruct (al_insert_keys _ _ _ _ Hx) as [->|Hin].
      * unfold klt; simpl. now apply str_cmp_gt_lt.
      * auto.
Qed.

Lemma ksorted_nodup {V} (m : list (str * V)) : ksorted m -> NoDup (map fst m).
Proof.
  induction 1 as [|[k v] m Hs IH Hall]; simpl; constructor; auto.
  intros Hin. apply in_map_iff in Hin as ([k' v'] & E & Hin). simpl in E. subst k'.
  rewrite Forall_forall in Hall. specialize (Hall _ Hin). unfold klt in Hall; simpl in Hall.
  rewrite str_cmp_refl in Hall. discriminate.
Qed.

Lemma al_find_insert_same {V} k (v : V) m : al_find k (al_insert k v m) = Some v.
Proof.
  induction m as [|[k' v'] m IH]; simpl.
  - now rewrite str_eqb_refl.
  - destruct (str_cmp k k') eqn:E; simpl.
    + now rewrite str_eqb_refl.
    + now rewrite str_eqb_refl.
    + destruct (str_eqb_spec k k') as [->|]; auto. rewrite str_cmp_refl in E. discriminate.
Qed.

Lemma al_find_insert_other {V} k k2 (v : V) m : k2 <> k -> al_find k2 (al_insert k v m) = al_find k2 m.
Proof.
  intros Hne. induction m as [|[k' v'] m IH]; simpl.
  - destruct (str_eqb_spec k2 k); congruence.
  - destruct (str_cmp k k') eqn:E; simpl.
    + apply str_cmp_eq in E. subst k'. destruct (str_eqb_spec k2 k); congruence.
    + destruct (str_eqb_spec k2 k); congruence.
    + destruct (str_eqb_spec k2 k'); auto.
Qed.

Lemma ksorted_in_find {V} (m : list (str * V)) k x : ksorted m -> (In (k, x) m <-> al_find k m = Some x).
Proof.
  intros Hs. split.
  - apply nodup_find. now apply ksorted_nodup.
  - apply al_find_in.
Qed.

(* ================================================================ 3. toStringPathMap *)

(* the keys of a leaf list determine its entries: the consequence of PathToString's
   injectivity that the diff algorithm relies on *)
Definition keys_inj (l : leafmap) : Prop :=
  forall pv pv', In pv l -> In pv' l -> path_str (fst pv) = path_str (fst pv') -> fst pv = fst pv'.
Definition paths_nodup (l : leafmap) : Prop :=
  forall p v v', In (p, v) l -> In (p, v') l -> v = v'.

Lemma df_lm_wfb_spec m : df_lm_wfb m = true <-> forall pv, In pv m -> wf_pathb (fst pv) = true.
Proof. unfold df_lm_wfb. apply forallb_forall. Qed.

(* HERE the diff depends on C08: distinct well-formed paths have distinct PathToString texts *)
Lemma wf_keys_inj (l : leafmap) : df_lm_wfb l = true -> keys_inj l.
Proof.
  intros Hwf pv pv' H1 H2 E. rewrite df_lm_wfb_spec in Hwf.
  apply print_injective; auto.
Qed.

Lemma df_lm_nodupb_spec m : df_lm_nodupb m = true -> paths_nodup m.
Proof.
  induction m as [|[q w] m IH]; simpl; intros H p v v' H1 H2; [contradiction|].
  apply andb_true_iff in H as [Hn Hm]. apply negb_true_iff in Hn.
  assert (Hnot : forall x, ~ In (q, x) m).
  { intros x Hx. assert (existsb (fun e => df_gpath_eqb q (fst e)) m = true); [|congruence].
    apply existsb_exists. exists (q, x). split; auto. apply df_gpath_eqb_refl. }
  destruct H1 as [E1|H1], H2 as [E2|H2].
  - congruence.
  - injection E1 as -> ->. exfalso. eapply Hnot; eauto.
  - injection E2 as -> ->. exfalso. eapply Hnot; eauto.
  - eapply IH; eauto.
Qed.

Lemma wf_path_str_ok p : wf_pathb p = true -> exists k, path_str p = Ok k.
Proof. intros H. exists (path_text p). now apply path_str_ok. Qed.

Lemma key_dec (l : leafmap) k :
  (exists pv', In pv' l /\ path_str (fst pv') = Ok k) \/ (forall pv', In pv' l -> path_str (fst pv') <> Ok k).
Proof.
  induction l as [|pv l IH].
  - right. intros ? [].
  - destruct IH as [(pv' & Hin & Hk)|Hno].
    + left. exists pv'. split; auto. now right.
    + destruct (path_str (fst pv)) as [k'| |] eqn:E.
      * destruct (str_eqb_spec k' k) as [->|Hne].
        -- left. exists pv. split; auto. now left.
        -- right. intros pv' [<-|Hin]; [congruence | auto].
      * right. intros pv' [<-|Hin]; [congruence | auto].
      * right. intros pv' [<-|Hin]; [congruence | auto].
Qed.

(* content of the map built by df_str_map_from *)
Lemma df_str_map_from_spec l : forall acc A,
  df_str_map_from l acc = Ok A -> ksorted acc ->
  keys_inj l -> paths_nodup l ->
  ksorted A /\
  forall k pv, al_find k A = Some pv <->
    (In pv l /\ path_str (fst pv) = Ok k) \/
    (al_find k acc = Some pv /\ forall pv', In pv' l -> path_str (fst pv') <> Ok k).
Proof.
  induction l as [|[p v] l IH]; intros acc A H Hs Hinj Hnd; simpl in H.
  - injection H as <-. split; auto. intros k pv. split.
    + intros Hf. right. split; auto.
    + intros [[[] _]|[Hf _]]; auto.
  - destruct (path_str p) as [kp| |] eqn:Ep; simpl in H; try discriminate.
    assert (Hinj' : keys_inj l).
    { intros x y Hx Hy. apply Hinj; now right. }
    assert (Hnd' : paths_nodup l).
    { intros q w w' Hx Hy. eapply Hnd; right; eauto. }
    destruct (IH _ _ H (al_insert_sorted kp (p, v) acc Hs) Hinj' Hnd') as [HsA Hfind].
    split; auto. intros k pv. rewrite Hfind. split.
    + intros [[Hin Hk]|[Hf Hno]].
      * left. split; auto. now right.
      * destruct (str_eqb_spec k kp) as [->|Hne].
        -- rewrite al_find_insert_same in Hf. injection Hf as <-. left. split; [now left | exact Ep].
        -- rewrite al_find_insert_other in Hf by exact Hne. right. split; auto.
           intros pv' [<-|Hin]; simpl; [congruence | auto].
    + intros [[[<-|Hin] Hk]|[Hf Hno]].
      * simpl in Hk. rewrite Ep in Hk. injection Hk as <-.
        destruct (key_dec l kp) as [([p' v'] & Hin & Hk')|Hno].
        -- simpl in Hk'. left.
           assert (p = p').
           { apply (Hinj (p, v) (p', v')); [now left | now right | simpl; congruence]. }
           subst p'. assert (v = v') by (eapply Hnd; [left; reflexivity | right; exact Hin]). subst v'.
           split; auto.
        -- right. split; [apply al_find_insert_same | exact Hno].
      * left. auto.
      * right. destruct (str_eqb_spec k kp) as [->|Hne].
        -- exfalso. apply (Hno (p, v)); [now left | exact Ep].
        -- split; [now rewrite al_find_insert_other by exact Hne|]. intros pv' Hin. apply Hno. now right.
Qed.

Lemma df_str_map_from_keys l : forall acc A,
  df_str_map_from l acc = Ok A -> forall pv, In pv l -> exists k, path_str (fst pv) = Ok k.
Proof.
  induction l as [|[p v] l IH]; intros acc A H pv Hin; [contradiction|].
  simpl in H. destruct (path_str p) as [kp| |] eqn:Ep; simpl in H; try discriminate.
  destruct Hin as [<-|Hin]; [exists kp; exact Ep | eapply IH; eauto].
Qed.

(* the map of a leaf list: sorted, and al_find returns exactly the entries of the list *)
Lemma df_str_map_spec (l : leafmap) A :
  df_str_map_from l [] = Ok A -> keys_inj l -> paths_nodup l ->
  ksorted A /\
  (forall k pv, al_find k A = Some pv <-> In pv l /\ path_str (fst pv) = Ok k) /\
  (forall pv, In pv l -> exists k, path_str (fst pv) = Ok k).
Proof.
  intros H Hinj Hnd.
  destruct (df_str_map_from_spec l [] A H (SSorted_nil _) Hinj Hnd) as [Hs Hf].
  split; auto. split.
  - intros k pv. rewrite Hf. split; [intros [?|[? _]]; [auto | discriminate] | auto].
  - eapply df_str_map_from_keys; eauto.
Qed.

(* ================================================================ leaf maps *)

Lemma lm_get_in p m v : lm_get p m = Some v -> In (p, v) m.
Proof.
  induction m as [|[q w] m IH]; simpl; [discriminate|].
  destruct (df_gpath_eqb p q) eqn:E.
  - apply df_gpath_eqb_eq in E. subst q. intros [= ->]. now left.
  - intros H. right. auto.
Qed.

Lemma lm_get_none p m : lm_get p m = None <-> forall v, ~ In (p, v) m.
Proof.
  induction m as [|[q w] m IH]; simpl.
  - split; auto.
  - destruct (df_gpath_eqb p q) eqn:E.
    + apply df_gpath_eqb_eq in E. subst q. split; [discriminate|]. intros H. exfalso. apply (H w). now left.
    + apply df_gpath_eqb_neq in E. rewrite IH. split.
      * intros H v [[= <- <-]|Hin]; [congruence | eapply H; eauto].
      * intros H v Hin. apply (H v). now right.
Qed.

Lemma lm_get_nodup p v m : paths_nodup m -> In (p, v) m -> lm_get p m = Some v.
Proof.
  intros Hnd Hin. destruct (lm_get p m) as [w|] eqn:E.
  - apply lm_get_in in E. f_equal. eapply Hnd; eauto.
  - exfalso. rewrite lm_get_none in E. eapply E; eauto.
Qed.

Lemma lm_get_del q p m : lm_get p (lm_del q m) = if df_prefixb q p then None else lm_get p m.
Proof.
  induction m as [|[q' w] m IH]; simpl.
  - now destruct (df_prefixb q p).
  - destruct (df_prefixb q q') eqn:Eq; simpl.
    + rewrite IH. destruct (df_gpath_eqb p q') eqn:E; auto.
      apply df_gpath_eqb_eq in E. subst q'. now rewrite Eq.
    + rewrite IH. destruct (df_gpath_eqb p q') eqn:E; auto.
      apply df_gpath_eqb_eq in E. subst q'. now rewrite Eq.
Qed.

Lemma lm_get_set p p' v m : lm_get p (lm_set p' v m) = if df_gpath_eqb p p' then Some v else lm_get p m.
Proof.
  induction m as [|[q w] m IH]; simpl.
  - now destruct (df_gpath_eqb p p').
  - destruct (df_gpath_eqb p' q) eqn:E1; simpl.
    + apply df_gpath_eqb_eq in E1. subst q. now destruct (df_gpath_eqb p p').
    + rewrite IH. destruct (df_gpath_eqb p q) eqn:E2; auto.
      apply df_gpath_eqb_eq in E2. subst q.
      destruct (df_gpath_eqb p p') eqn:E3; auto.
      apply df_gpath_eqb_eq in E3. subst p'. rewrite df_gpath_eqb_refl in E1. discriminate.
Qed.

(* ================================================================ 5. lm_get after apply_diff *)

Definition step_set (p : gpath) (x : option lval) (pv : gpath * lval) : option lval :=
  if df_gpath_eqb p (fst pv) then Some (snd pv) else x.
Definition step_atomic (p : gpath) (x : option lval) (qv : gpath * lval) : option lval :=
  if df_gpath_eqb p (fst qv) then Some (snd qv)
  else if df_prefixb (removelast (fst qv)) p then None else x.
Definition df_apply_get (d : ddiff) (p : gpath) (x : option lval) : option lval :=
  fold_left (step_atomic p) (dd_atomic d)
    (fold_left (step_set p) (dd_updates d)
       (if existsb (fun q => df_prefixb q p) (dd_deletes d) then None else x)).

Lemma fold_dels_get D : forall m p,
  lm_get p (fold_left (fun m q => lm_del q m) D m) =
  if existsb (fun q => df_prefixb q p) D then None else lm_get p m.
Proof.
  induction D as [|q D IH]; intros m p; simpl; auto.
  rewrite IH, lm_get_del. destruct (df_prefixb q p); simpl; auto. now destruct (existsb _ D).
Qed.

Lemma fold_sets_get U : forall m p,
  lm_get p (fold_left (fun m pv => lm_set (fst pv) (snd pv) m) U m) = fold_left (step_set p) U (lm_get p m).
Proof.
  induction U as [|pv U IH]; intros m p; simpl; auto.
  rewrite IH, lm_get_set. reflexivity.
Qed.

Lemma fold_atomic_get T : forall m p,
  lm_get p (fold_left (fun m qv => lm_set (fst qv) (snd qv) (lm_del (removelast (fst qv)) m)) T m) =
  fold_left (step_atomic p) T (lm_get p m).
Proof.
  induction T as [|qv T IH]; intros m p; simpl; auto.
  rewrite IH, lm_get_set, lm_get_del. reflexivity.
Qed.

(* the leaf at p after applying d depends only on d and on the leaf at p before *)
Theorem apply_get m d p : lm_get p (apply_diff m d) = df_apply_get d p (lm_get p m).
Proof.
  unfold apply_diff, df_apply_get. now rewrite fold_atomic_get, fold_sets_get, fold_dels_get.
Qed.

Lemma apply_diff_equiv m m' d : lm_equiv m m' -> lm_equiv (apply_diff m d) (apply_diff m' d).
Proof. intros H p. now rewrite !apply_get, H. Qed.

Lemma lm_equiv_refl m : lm_equiv m m. Proof. intros p; reflexivity. Qed.
Lemma lm_equiv_trans a b c : lm_equiv a b -> lm_equiv b c -> lm_equiv a c.
Proof. intros H1 H2 p. now rewrite H1. Qed.
Lemma lm_equiv_sym a b : lm_equiv a b -> lm_equiv b a.
Proof. intros H p. now rewrite H. Qed.

Lemma in_dec_path p (U : leafmap) : (exists v, In (p, v) U) \/ (forall v, ~ In (p, v) U).
Proof.
  destruct (lm_get p U) as [v|] eqn:E; [left; exists v; now apply lm_get_in | right; now apply lm_get_none].
Qed.

Lemma fold_set_absent p U x : (forall v, ~ In (p, v) U) -> fold_left (step_set p) U x = x.
Proof.
  revert x; induction U as [|[q w] U IH]; intros x H; simpl; auto.
  unfold step_set at 2; simpl. destruct (df_gpath_eqb p q) eqn:E.
  - apply df_gpath_eqb_eq in E. subst q. exfalso. apply (H w). now left.
  - apply IH. intros v Hin. apply (H v). now right.
Qed.

Lemma fold_set_present p v U : forall x,
  In (p, v) U -> (forall v', In (p, v') U -> v' = v) -> fold_left (step_set p) U x = Some v.
Proof.
  induction U as [|[q w] U IH]; intros x Hin Hall; [contradiction|]. simpl.
  unfold step_set at 2; simpl. destruct (df_gpath_eqb p q) eqn:E.
  - apply df_gpath_eqb_eq in E. subst q. assert (w = v) by (apply Hall; now left). subst w.
    destruct (in_dec_path p U) as [(v' & Hv')|Hno].
    + apply IH; [|intros; apply Hall; now right].
      assert (v' = v) by (apply Hall; now right). now subst.
    + now apply fold_set_absent.
  - destruct Hin as [[= <- <-]|Hin].
    + rewrite df_gpath_eqb_refl in E. discriminate.
    + apply IH; auto. intros; apply Hall; now right.
Qed.

Lemma fold_atomic_untouched p T : forall x,
  (forall qv, In qv T -> fst qv <> p /\ df_prefixb (removelast (fst qv)) p = false) ->
  fold_left (step_atomic p) T x = x.
Proof.
  induction T as [|[q w] T IH]; intros x H; simpl; auto.
  destruct (H (q, w) (or_introl eq_refl)) as [Hne Hpre]. simpl in *.
  unfold step_atomic at 2; simpl.
  assert (E : df_gpath_eqb p q = false) by (apply df_gpath_eqb_neq; congruence).
  rewrite E, Hpre. apply IH. intros qv Hin. apply H. now right.
Qed.

Lemma fold_atomic_none p T :
  (forall qv, In qv T -> fst qv <> p) -> fold_left (step_atomic p) T None = None.
Proof.
  induction T as [|[q w] T IH]; intros H; simpl; auto.
  unfold step_atomic at 2; simpl.
  assert (E : df_gpath_eqb p q = false).
  { apply df_gpath_eqb_neq. intros ->. apply (H (q, w)); [now left | reflexivity]. }
  rewrite E. destruct (df_prefixb (removelast q) p); apply IH; intros qv Hin; apply H; now right.
Qed.

Lemma fold_atomic_set p v T : forall x,
  In (p, v) T ->
  (forall qv, In qv T -> (fst qv = p -> snd qv = v) /\ (fst qv <> p -> df_prefixb (removelast (fst qv)) p = false)) ->
  fold_left (step_atomic p) T x = Some v.
Proof.
  induction T as [|[q w] T IH]; intros x Hin Hall; [contradiction|]. simpl.
  destruct (Hall (q, w) (or_introl eq_refl)) as [H1 H2]. simpl in *.
  unfold step_atomic at 2; simpl.
  destruct (df_gpath_eqb p q) eqn:E.
  - apply df_gpath_eqb_eq in E. subst q. rewrite (H1 eq_refl).
    destruct (in_dec_path p T) as [(v' & Hv')|Hno].
    + apply IH; [|intros; apply Hall; now right].
      destruct (Hall (p, v') (or_intror Hv')) as [H3 _]. simpl in H3. now rewrite <- (H3 eq_refl).
    + apply fold_atomic_untouched. intros [q' w'] Hq. simpl.
      destruct (Hall (q', w') (or_intror Hq)) as [_ H4]. simpl in H4.
      assert (q' <> p) by (intros ->; eapply Hno; eauto). auto.
  - apply df_gpath_eqb_neq in E. rewrite H2 by congruence.
    destruct Hin as [[= <- <-]|Hin]; [congruence|].
    apply IH; [assumption | intros; apply Hall; now right].
Qed.

(* ================================================================ 4. the loops of diff *)

Lemma mapM_del_path l dels : mapM df_del_path l = Ok dels -> dels = map df_trunc l.
Proof.
  revert dels; induction l as [|pv l IH]; intros dels; simpl.
  - intros [= <-]. reflexivity.
  - unfold df_del_path at 1. destruct (df_is_ord (snd pv) && nil_b (fst pv)); simpl; [discriminate|].
    destruct (mapM df_del_path l) as [ds| |]; simpl; try discriminate.
    intros [= <-]. now rewrite (IH ds eq_refl).
Qed.

Section Maps.
  Variables la lb : leafmap.
  Variables A B : strmap.
  Hypothesis HsA : ksorted A.
  Hypothesis HsB : ksorted B.
  Hypothesis HA : forall k pv, al_find k A = Some pv <-> In pv la /\ path_str (fst pv) = Ok k.
  Hypothesis HB : forall k pv, al_find k B = Some pv <-> In pv lb /\ path_str (fst pv) = Ok k.
  Hypothesis HkA : forall pv, In pv la -> exists k, path_str (fst pv) = Ok k.
  Hypothesis HkB : forall pv, In pv lb -> exists k, path_str (fst pv) = Ok k.
  (* injectivity of the map keys across both leaf lists *)
  Hypothesis Hinj : keys_inj (la ++ lb).
  Hypothesis Hnda : paths_nodup la.
  Hypothesis Hndb : paths_nodup lb.

  Lemma changed_spec pv' :
    In pv' (df_changed A B) <-> In pv' lb /\ exists v, In (fst pv', v) la /\ v <> snd pv'.
  Proof.
    unfold df_changed. rewrite in_flat_map. split.
    - intros ([k [p v]] & Hin & Hx). simpl in Hx.
      apply (ksorted_in_find A k (p, v) HsA) in Hin. apply HA in Hin as [Hla Hk]. simpl in Hk.
      destruct (al_find k B) as [pv''|] eqn:EB; [|contradiction].
      destruct (lval_eqb v (snd pv'')) eqn:Ev; [contradiction|].
      destruct Hx as [<-|[]]. apply HB in EB as [Hlb Hk'].
      assert (p = fst pv'').
      { apply (Hinj (p, v) pv''); [apply in_or_app; now left | apply in_or_app; now right | simpl; congruence]. }
      subst p. split; auto. exists v. split; auto.
      intros ->. rewrite lval_eqb_refl in Ev. discriminate.
    - intros (Hlb & v & Hla & Hne).
      destruct (HkB _ Hlb) as [k Hk].
      assert (FA : al_find k A = Some (fst pv', v)) by (apply HA; split; auto).
      assert (FB : al_find k B = Some pv') by (apply HB; split; auto).
      exists (k, (fst pv', v)). split.
      + now apply (ksorted_in_find A k _ HsA).
      + simpl. rewrite FB. destruct (lval_eqb v (snd pv')) eqn:Ev.
        * apply lval_eqb_eq in Ev. contradiction.
        * now left.
  Qed.

  Lemma gone_spec pv : In pv (df_gone A B) <-> In pv la /\ lm_get (fst pv) lb = None.
  Proof.
    unfold df_gone. rewrite in_flat_map. split.
    - intros ([k [p v]] & Hin & Hx). simpl in Hx.
      apply (ksorted_in_find A k (p, v) HsA) in Hin. apply HA in Hin as [Hla Hk]. simpl in Hk.
      destruct (al_find k B) as [pv''|] eqn:EB; [contradiction|].
      destruct Hx as [<-|[]]. split; auto. simpl.
      apply lm_get_none. intros v' Hin'.
      assert (al_find k B = Some (p, v')) by (apply HB; split; auto). congruence.
    - intros (Hla & Hnone). destruct pv as [p v]. simpl in *.
      destruct (HkA _ Hla) as [k Hk]. simpl in Hk.
      exists (k, (p, v)). split.
      + apply (ksorted_in_find A k _ HsA). apply HA. split; auto.
      + simpl. destruct (al_find k B) as [[p' v']|] eqn:EB; [|now left].
        apply HB in EB as [Hlb Hk']. simpl in Hk'.
        assert (p = p').
        { apply (Hinj (p, v) (p', v')); [apply in_or_app; now left | apply in_or_app; now right | simpl; congruence]. }
        subst p'. rewrite lm_get_none in Hnone. exfalso. eapply Hnone; eauto.
  Qed.

  Lemma added_spec pv' : In pv' (df_added A B) <-> In pv' lb /\ lm_get (fst pv') la = None.
  Proof.
    unfold df_added. rewrite in_flat_map. split.
    - intros ([k [p v]] & Hin & Hx). simpl in Hx.
      apply (ksorted_in_find B k (p, v) HsB) in Hin. apply HB in Hin as [Hlb Hk]. simpl in Hk.
      destruct (al_find k A) as [pv''|] eqn:EA; [contradiction|].
      destruct Hx as [<-|[]]. split; auto. simpl.
      apply lm_get_none. intros v' Hin'.
      assert (al_find k A = Some (p, v')) by (apply HA; split; auto). congruence.
    - intros (Hlb & Hnone). destruct pv' as [p v]. simpl in *.
      destruct (HkB _ Hlb) as [k Hk]. simpl in Hk.
      exists (k, (p, v)). split.
      + apply (ksorted_in_find B k _ HsB). apply HB. split; auto.
      + simpl. destruct (al_find k A) as [[p' v']|] eqn:EA; [|now left].
        apply HA in EA as [Hla Hk']. simpl in Hk'.
        assert (p' = p).
        { apply (Hinj (p', v') (p, v)); [apply in_or_app; now left | apply in_or_app; now right | simpl; congruence]. }
        subst p'. rewrite lm_get_none in Hnone. exfalso. eapply Hnone; eauto.
  Qed.

  (* an update (plain or atomic) of the full diff: a leaf of b that a lacks or holds differently *)
  Lemma ups_spec pv' :
    In pv' (df_changed A B ++ df_added A B) <-> In pv' lb /\ lm_get (fst pv') la <> Some (snd pv').
  Proof.
    rewrite in_app_iff, changed_spec, added_spec. split.
    - intros [(Hlb & v & Hla & Hne)|(Hlb & Hnone)]; split; auto.
      + rewrite (lm_get_nodup _ _ _ Hnda Hla). congruence.
      + rewrite Hnone. discriminate.
    - intros (Hlb & Hne). destruct (lm_get (fst pv') la) as [v|] eqn:E.
      + left. split; auto. exists v. split; [now apply lm_get_in | congruence].
      + right. auto.
  Qed.

  (* ---------- soundness and completeness of the three lists, IgnoreAdditions ---------- *)

  Lemma diff_maps_fields ia d : df_diff_maps ia A B = Ok d ->
    dd_deletes d = map df_trunc (df_gone A B) /\
    dd_updates d = filter (fun pv => negb (df_is_ord (snd pv)))
                     (df_changed A B ++ (if ia then [] else df_added A B)) /\
    dd_atomic d = filter (fun pv => df_is_ord (snd pv))
                     (df_changed A B ++ (if ia then [] else df_added A B)).
  Proof.
    unfold df_diff_maps. destruct (mapM df_del_path (df_gone A B)) as [dels| |] eqn:E; simpl; try discriminate.
    intros [= <-]. simpl. apply mapM_del_path in E. auto.
  Qed.

  (* no leaf lies below the delete path of another one *)
  Hypothesis Hiso : forall e e2, In e (la ++ lb) -> In e2 (la ++ lb) ->
    df_prefixb (df_trunc e) (fst e2) = true -> fst e2 = fst e.

  Lemma trunc_prefix e : df_prefixb (df_trunc e) (fst e) = true.
  Proof. unfold df_trunc. destruct (df_is_ord (snd e)); [apply df_prefixb_removelast | apply df_prefixb_refl]. Qed.

  Theorem apply_maps d : df_diff_maps false A B = Ok d ->
    forall p, df_apply_get d p (lm_get p la) = lm_get p lb.
  Proof.
    intros Hd p. destruct (diff_maps_fields false d Hd) as (HD & HU & HT).
    unfold df_apply_get. rewrite HD, HU, HT. clear HD HU HT Hd.
    set (ups := df_changed A B ++ df_added A B).
    assert (Hups : forall pv', In pv' ups <-> In pv' lb /\ lm_get (fst pv') la <> Some (snd pv')) by apply ups_spec.
    destruct (lm_get p lb) as [vb|] eqn:Eb.
    - (* p is a leaf of b *)
      assert (Hb : In (p, vb) lb) by now apply lm_get_in.
      assert (Hb' : In (p, vb) (la ++ lb)) by (apply in_or_app; now right).
      assert (Huniq : forall v', In (p, v') lb -> v' = vb) by (intros v' Hv'; eapply Hndb; eauto).
      assert (HD : existsb (fun q => df_prefixb q p) (map df_trunc (df_gone A B)) = false).
      { destruct (existsb _ _) eqn:E; auto. apply existsb_exists in E as (q & Hq & Hpre).
        apply in_map_iff in Hq as (pv & <- & Hg). apply gone_spec in Hg as [Hla Hnone].
        assert (p = fst pv) by (apply (Hiso pv (p, vb)); [apply in_or_app; now left | exact Hb' | exact Hpre]).
        subst p. congruence. }
      rewrite HD.
      (* an atomic update for another list does not reach p *)
      assert (Hother : forall qv, In qv ups -> df_is_ord (snd qv) = true -> fst qv <> p ->
                                  df_prefixb (removelast (fst qv)) p = false).
      { intros qv Hq Hord Hne. destruct (df_prefixb (removelast (fst qv)) p) eqn:E; auto.
        exfalso. apply Hne. symmetry. apply (Hiso qv (p, vb)); auto.
        - apply in_or_app. right. now apply Hups.
        - unfold df_trunc. now rewrite Hord. }
      destruct (lm_get p la) as [va|] eqn:Ea.
      + destruct (lval_eqb va vb) eqn:Ev.
        * (* unchanged *)
          apply lval_eqb_eq in Ev. subst va.
          assert (Hnot : forall v', ~ In (p, v') ups).
          { intros v' Hin. apply Hups in Hin as [Hlb Hne]. simpl in *. rewrite (Huniq _ Hlb) in Hne. congruence. }
          rewrite fold_set_absent by (intros v' Hin; apply filter_In in Hin as [Hin _]; eapply Hnot; eauto).
          apply fold_atomic_untouched. intros qv Hin. apply filter_In in Hin as [Hin Hord].
          assert (fst qv <> p) by (intros <-; apply (Hnot (snd qv)); now destruct qv).
          split; auto.
        * (* changed *)
          assert (Hin : In (p, vb) ups).
          { apply Hups. split; auto. simpl. rewrite Ea. intros [= ->]. rewrite lval_eqb_refl in Ev. discriminate. }
          assert (Hval : forall v', In (p, v') ups -> v' = vb) by (intros v' H; apply Huniq; now apply Hups in H).
          destruct (df_is_ord vb) eqn:Eo.
          -- rewrite fold_set_absent.
             2:{ intros v' H. apply filter_In in H as [H Hno]. simpl in Hno. rewrite (Hval _ H), Eo in Hno. discriminate. }
             apply fold_atomic_set.
             ++ apply filter_In. split; auto.
             ++ intros qv Hq. apply filter_In in Hq as [Hq Hord]. split.
                ** intros <-. apply Hval. now destruct qv.
                ** intros Hne. now apply Hother.
          -- rewrite (fold_set_present p vb).
             ++ apply fold_atomic_untouched. intros qv Hq. apply filter_In in Hq as [Hq Hord].
                assert (fst qv <> p).
                { intros <-. destruct qv as [q w]. simpl in *. rewrite (Hval _ Hq), Eo in Hord. discriminate. }
                split; auto.
             ++ apply filter_In. split; auto. simpl. now rewrite Eo.
             ++ intros v' H. apply filter_In in H as [H _]. auto.
      + (* added *)
        assert (Hin : In (p, vb) ups) by (apply Hups; split; auto; simpl; rewrite Ea; discriminate).
        assert (Hval : forall v', In (p, v') ups -> v' = vb) by (intros v' H; apply Huniq; now apply Hups in H).
        destruct (df_is_ord vb) eqn:Eo.
        * rewrite fold_set_absent.
          2:{ intros v' H. apply filter_In in H as [H Hno]. simpl in Hno. rewrite (Hval _ H), Eo in Hno. discriminate. }
          apply fold_atomic_set.
          -- apply filter_In. split; auto.
          -- intros qv Hq. apply filter_In in Hq as [Hq Hord]. split.
             ++ intros <-. apply Hval. now destruct qv.
             ++ intros Hne. now apply Hother.
        * rewrite (fold_set_present p vb).
          -- apply fold_atomic_untouched. intros qv Hq. apply filter_In in Hq as [Hq Hord].
             assert (fst qv <> p).
             { intros <-. destruct qv as [q w]. simpl in *. rewrite (Hval _ Hq), Eo in Hord. discriminate. }
             split; auto.
          -- apply filter_In. split; auto. simpl. now rewrite Eo.
          -- intros v' H. apply filter_In in H as [H _]. auto.
    - (* p is not a leaf of b *)
      assert (Hnot : forall v', ~ In (p, v') ups).
      { intros v' Hin. apply Hups in Hin as [Hlb _]. rewrite lm_get_none in Eb. eapply Eb; eauto. }
      assert (Hstart : (if existsb (fun q => df_prefixb q p) (map df_trunc (df_gone A B)) then None else lm_get p la) = None).
      { destruct (lm_get p la) as [va|] eqn:Ea; [|now destruct (existsb _ _)].
        assert (Hg : In (p, va) (df_gone A B)) by (apply gone_spec; split; [now apply lm_get_in | exact Eb]).
        assert (existsb (fun q => df_prefixb q p) (map df_trunc (df_gone A B)) = true) as ->; auto.
        apply existsb_exists. exists (df_trunc (p, va)). split; [now apply in_map | apply (trunc_prefix (p, va))]. }
      rewrite Hstart.
      rewrite fold_set_absent by (intros v' Hin; apply filter_In in Hin as [Hin _]; eapply Hnot; eauto).
      apply fold_atomic_none. intros qv Hq. apply filter_In in Hq as [Hq _].
      intros <-. apply (Hnot (snd qv)). now destruct qv.
  Qed.
End Maps.

(* ================================================================ 6. trees *)

Lemma filter_all {A} (f : A -> bool) l : forallb f l = true -> filter f l = l.
Proof.
  induction l as [|x l IH]; simpl; auto. intros H. apply andb_true_iff in H as [-> H]. now rewrite IH.
Qed.

Lemma df_str_map_from_sorted l : forall acc A, df_str_map_from l acc = Ok A -> ksorted acc -> ksorted A.
Proof.
  induction l as [|[p v] l IH]; intros acc A H Hs; simpl in H.
  - now injection H as <-.
  - destruct (path_str p) as [k| |]; simpl in H; try discriminate.
    eapply IH; eauto. now apply al_insert_sorted.
Qed.

Lemma isolated_spec m1 m2 : df_isolatedb m1 m2 = true ->
  forall e e2, In e (m1 ++ m2) -> In e2 (m1 ++ m2) -> df_prefixb (df_trunc e) (fst e2) = true -> fst e2 = fst e.
Proof.
  unfold df_isolatedb. intros H e e2 He He2 Hpre.
  rewrite forallb_forall in H. specialize (H e He). rewrite forallb_forall in H. specialize (H e2 He2).
  rewrite Hpre in H. simpl in H. now apply df_gpath_eqb_eq.
Qed.

Lemma keys_inj_app_l (l1 l2 : leafmap) : keys_inj (l1 ++ l2) -> keys_inj l1.
Proof. intros H x y Hx Hy. apply H; apply in_or_app; now left. Qed.
Lemma keys_inj_app_r (l1 l2 : leafmap) : keys_inj (l1 ++ l2) -> keys_inj l2.
Proof. intros H x y Hx Hy. apply H; apply in_or_app; now right. Qed.

Lemma wfb_app m1 m2 : df_lm_wfb m1 = true -> df_lm_wfb m2 = true -> df_lm_wfb (m1 ++ m2) = true.
Proof. unfold df_lm_wfb. intros H1 H2. now rewrite forallb_app, H1, H2. Qed.

Lemma last_default_irrel {X} (l : list X) x d d' : last (x :: l) d = last (x :: l) d'.
Proof. revert x; induction l as [|y l IH]; intros x; [reflexivity|]. exact (IH y). Qed.
Lemma last_cons {X} (l : list X) x d : last (x :: l) d = last l x.
Proof. destruct l as [|y l]; [reflexivity|]. change (last (x :: y :: l) d) with (last (y :: l) d). apply last_default_irrel. Qed.

Section Trees.
  Variables (env : enum_env) (kf : N -> str) (wu atomic single shadow : bool) (sch : schema).
  Notation L := (df_L env kf wu atomic single shadow sch).
  Notation nz := (df_no_zero_union env kf wu atomic single shadow sch).
  Notation core ia := (df_diff_core env kf wu atomic ia single shadow sch).

  (* under the zero-value guard findSetLeaves sees exactly the leaves of the trees *)
  Lemma core_unfold ia a b d : core ia a b = Ok d -> nz a = true -> nz b = true ->
    exists A B, df_str_map_from (L a) [] = Ok A /\ df_str_map_from (L b) [] = Ok B /\ df_diff_maps ia A B = Ok d.
  Proof.
    unfold df_diff_core, df_leaves, df_L, df_no_zero_union, df_str_map.
    destruct (df_walk_all env kf wu atomic single shadow sch a) as [wa| |]; simpl; try discriminate.
    destruct (df_walk_all env kf wu atomic single shadow sch b) as [wb| |]; simpl; try discriminate.
    intros H Ha Hb. rewrite (filter_all _ _ Ha), (filter_all _ _ Hb) in H.
    destruct (df_str_map_from (df_flatten wa) []) as [A| |]; simpl in H; try discriminate.
    destruct (df_str_map_from (df_flatten wb) []) as [B| |]; simpl in H; try discriminate.
    exists A, B. auto.
  Qed.

  (* the facts about the two string-keyed maps that the map-level lemmas need *)
  Lemma maps_ready a b A B :
    df_str_map_from (L a) [] = Ok A -> df_str_map_from (L b) [] = Ok B ->
    df_lm_wfb (L a) = true -> df_lm_wfb (L b) = true ->
    df_lm_nodupb (L a) = true -> df_lm_nodupb (L b) = true ->
    ksorted A /\ ksorted B /\
    (forall k pv, al_find k A = Some pv <-> In pv (L a) /\ path_str (fst pv) = Ok k) /\
    (forall k pv, al_find k B = Some pv <-> In pv (L b) /\ path_str (fst pv) = Ok k) /\
    (forall pv, In pv (L a) -> exists k, path_str (fst pv) = Ok k) /\
    (forall pv, In pv (L b) -> exists k, path_str (fst pv) = Ok k) /\
    keys_inj (L a ++ L b) /\ paths_nodup (L a) /\ paths_nodup (L b).
  Proof.
    intros HA HB Hwa Hwb Hna Hnb.
    assert (Hinj : keys_inj (L a ++ L b)) by (apply wf_keys_inj; now apply wfb_app).
    pose proof (df_lm_nodupb_spec _ Hna) as Pa. pose proof (df_lm_nodupb_spec _ Hnb) as Pb.
    destruct (df_str_map_spec _ _ HA (keys_inj_app_l _ _ Hinj) Pa) as (S1 & F1 & K1).
    destruct (df_str_map_spec _ _ HB (keys_inj_app_r _ _ Hinj) Pb) as (S2 & F2 & K2).
    split; [exact S1|]. split; [exact S2|]. split; [exact F1|]. split; [exact F2|].
    split; [exact K1|]. split; [exact K2|]. auto.
  Qed.

  (* ---------- apply ---------- *)
  Theorem diff_apply a b d :
    core false a b = Ok d ->
    nz a = true -> nz b = true ->
    df_lm_wfb (L a) = true -> df_lm_wfb (L b) = true ->
    df_lm_nodupb (L a) = true -> df_lm_nodupb (L b) = true ->
    df_isolatedb (L a) (L b) = true ->
    lm_equiv (apply_diff (L a) d) (L b).
  Proof.
    intros Hc Hza Hzb Hwa Hwb Hna Hnb Hiso p.
    destruct (core_unfold _ _ _ _ Hc Hza Hzb) as (A & B & HA & HB & Hd).
    destruct (maps_ready _ _ _ _ HA HB Hwa Hwb Hna Hnb) as (S1 & S2 & F1 & F2 & K1 & K2 & Hinj & Pa & Pb).
    rewrite apply_get.
    exact (apply_maps (L a) (L b) A B S1 S2 F1 F2 K1 K2 Hinj Pa Pb (isolated_spec _ _ Hiso) d Hd p).
  Qed.

  (* in particular: after DiffWithAtomic every ordered list holds b's entries in b's order *)
  Corollary diff_apply_order a b d q es :
    core false a b = Ok d ->
    nz a = true -> nz b = true ->
    df_lm_wfb (L a) = true -> df_lm_wfb (L b) = true ->
    df_lm_nodupb (L a) = true -> df_lm_nodupb (L b) = true ->
    df_isolatedb (L a) (L b) = true ->
    lm_get q (L b) = Some (LOrd es) -> lm_get q (apply_diff (L a) d) = Some (LOrd es).
  Proof. intros. rewrite (diff_apply a b d); auto. Qed.

  (* ---------- soundness of updates and deletes ---------- *)
  Theorem diff_sound_updates ia a b d p v :
    core ia a b = Ok d ->
    nz a = true -> nz b = true ->
    df_lm_wfb (L a) = true -> df_lm_wfb (L b) = true ->
    df_lm_nodupb (L a) = true -> df_lm_nodupb (L b) = true ->
    In (p, v) (dd_updates d ++ dd_atomic d) ->
    lm_get p (L b) = Some v /\ lm_get p (L a) <> Some v.
  Proof.
    intros Hc Hza Hzb Hwa Hwb Hna Hnb Hin.
    destruct (core_unfold _ _ _ _ Hc Hza Hzb) as (A & B & HA & HB & Hd).
    destruct (maps_ready _ _ _ _ HA HB Hwa Hwb Hna Hnb) as (S1 & S2 & F1 & F2 & K1 & K2 & Hinj & Pa & Pb).
    destruct (diff_maps_fields A B ia d Hd) as (_ & HU & HT).
    assert (Hups : In (p, v) (df_changed A B ++ df_added A B)).
    { rewrite HU, HT in Hin. apply in_app_or in Hin as [H|H]; apply filter_In in H as [H _];
        apply in_app_or in H as [H|H]; apply in_or_app; auto; destruct ia; [contradiction | auto | contradiction | auto]. }
    apply (ups_spec (L a) (L b) A B S1 S2 F1 F2 K2 Hinj Pa) in Hups as [Hb Hne].
    split; auto. now apply lm_get_nodup.
  Qed.

  Theorem diff_sound_deletes ia a b d q :
    core ia a b = Ok d ->
    nz a = true -> nz b = true ->
    df_lm_wfb (L a) = true -> df_lm_wfb (L b) = true ->
    df_lm_nodupb (L a) = true -> df_lm_nodupb (L b) = true ->
    In q (dd_deletes d) ->
    exists p v, lm_get p (L a) = Some v /\ lm_get p (L b) = None /\ q = df_trunc (p, v).
  Proof.
    intros Hc Hza Hzb Hwa Hwb Hna Hnb Hin.
    destruct (core_unfold _ _ _ _ Hc Hza Hzb) as (A & B & HA & HB & Hd).
    destruct (maps_ready _ _ _ _ HA HB Hwa Hwb Hna Hnb) as (S1 & S2 & F1 & F2 & K1 & K2 & Hinj & Pa & Pb).
    destruct (diff_maps_fields A B ia d Hd) as (HD & _ & _).
    rewrite HD in Hin. apply in_map_iff in Hin as ([p v] & <- & Hg).
    apply (gone_spec (L a) (L b) A B S1 F1 F2 K1 Hinj) in Hg as [Hla Hnone].
    exists p, v. repeat split; auto. now apply lm_get_nodup.
  Qed.

  (* completeness: every leaf of b that a lacks or holds differently is updated, every leaf of a
     that b lacks is deleted *)
  Theorem diff_complete a b d :
    core false a b = Ok d ->
    nz a = true -> nz b = true ->
    df_lm_wfb (L a) = true -> df_lm_wfb (L b) = true ->
    df_lm_nodupb (L a) = true -> df_lm_nodupb (L b) = true ->
    (forall p v, lm_get p (L b) = Some v -> lm_get p (L a) <> Some v -> In (p, v) (dd_updates d ++ dd_atomic d)) /\
    (forall p v, lm_get p (L a) = Some v -> lm_get p (L b) = None -> In (df_trunc (p, v)) (dd_deletes d)).
  Proof.
    intros Hc Hza Hzb Hwa Hwb Hna Hnb.
    destruct (core_unfold _ _ _ _ Hc Hza Hzb) as (A & B & HA & HB & Hd).
    destruct (maps_ready _ _ _ _ HA HB Hwa Hwb Hna Hnb) as (S1 & S2 & F1 & F2 & K1 & K2 & Hinj & Pa & Pb).
    destruct (diff_maps_fields A B false d Hd) as (HD & HU & HT). split.
    - intros p v Hb Hne.
      assert (Hups : In (p, v) (df_changed A B ++ df_added A B)).
      { apply (ups_spec (L a) (L b) A B S1 S2 F1 F2 K2 Hinj Pa). split; [now apply lm_get_in | exact Hne]. }
      rewrite HU, HT. apply in_or_app. destruct (df_is_ord v) eqn:E; [right | left]; apply filter_In; split; auto.
      simpl. now rewrite E.
    - intros p v Ha Hnone. rewrite HD. apply in_map.
      apply (gone_spec (L a) (L b) A B S1 F1 F2 K1 Hinj). split; [now apply lm_get_in | exact Hnone].
  Qed.

  (* ---------- IgnoreAdditions ---------- *)
  Theorem diff_ignore_additions a b d0 d1 :
    core false a b = Ok d0 -> core true a b = Ok d1 ->
    nz a = true -> nz b = true ->
    df_lm_wfb (L a) = true -> df_lm_wfb (L b) = true ->
    df_lm_nodupb (L a) = true -> df_lm_nodupb (L b) = true ->
    dd_deletes d1 = dd_deletes d0 /\
    (forall pv, In pv (dd_updates d1) <-> In pv (dd_updates d0) /\ lm_get (fst pv) (L a) <> None) /\
    (forall pv, In pv (dd_atomic d1) <-> In pv (dd_atomic d0) /\ lm_get (fst pv) (L a) <> None).
  Proof.
    intros Hc0 Hc1 Hza Hzb Hwa Hwb Hna Hnb.
    destruct (core_unfold _ _ _ _ Hc0 Hza Hzb) as (A & B & HA & HB & Hd0).
    destruct (core_unfold _ _ _ _ Hc1 Hza Hzb) as (A' & B' & HA' & HB' & Hd1).
    rewrite HA in HA'. injection HA' as <-. rewrite HB in HB'. injection HB' as <-.
    destruct (maps_ready _ _ _ _ HA HB Hwa Hwb Hna Hnb) as (S1 & S2 & F1 & F2 & K1 & K2 & Hinj & Pa & Pb).
    destruct (diff_maps_fields A B false d0 Hd0) as (HD0 & HU0 & HT0).
    destruct (diff_maps_fields A B true d1 Hd1) as (HD1 & HU1 & HT1).
    rewrite app_nil_r in HU1, HT1.
    pose proof (changed_spec (L a) (L b) A B S1 F1 F2 K2 Hinj) as Hch.
    pose proof (added_spec (L a) (L b) A B S2 F1 F2 K2 Hinj) as Had.
    assert (Hkey : forall pv, In pv (df_changed A B) <->
                   In pv (df_changed A B ++ df_added A B) /\ lm_get (fst pv) (L a) <> None).
    { intros pv. rewrite in_app_iff. split.
      - intros H. split; auto. apply Hch in H as (_ & v & Hla & _).
        rewrite (lm_get_nodup _ _ _ Pa Hla). discriminate.
      - intros [[H|H] Hne]; auto. apply Had in H as [_ Hnone]. contradiction. }
    split; [congruence|]. split; intros pv.
    - rewrite HU1, HU0, !filter_In, Hkey. tauto.
    - rewrite HT1, HT0, !filter_In, Hkey. tauto.
  Qed.

  (* ---------- minimality: no guard at all ---------- *)
  Lemma flat_map_nil {X Y} (f : X -> list Y) l : (forall x, In x l -> f x = []) -> flat_map f l = [].
  Proof. induction l as [|x l IH]; simpl; auto. intros H. rewrite (H x (or_introl eq_refl)), IH; auto. Qed.

  Theorem diff_minimal ia a d : core ia a a = Ok d ->
    d = {| dd_deletes := []; dd_updates := []; dd_atomic := [] |}.
  Proof.
    unfold df_diff_core.
    destruct (df_leaves env kf wu atomic single shadow sch a) as [la| |]; simpl; try discriminate.
    unfold df_str_map. destruct (df_str_map_from (df_flatten la) []) as [A| |] eqn:HA; simpl; try discriminate.
    pose proof (df_str_map_from_sorted _ _ _ HA (SSorted_nil _)) as Hs.
    assert (Hself : forall e, In e A -> al_find (fst e) A = Some (snd e)).
    { intros [k pv] He. now apply (ksorted_in_find A k pv Hs). }
    unfold df_diff_maps.
    assert (Hc : df_changed A A = []).
    { apply flat_map_nil. intros e He. rewrite (Hself e He). now rewrite lval_eqb_refl. }
    assert (Hg : df_gone A A = []).
    { apply flat_map_nil. intros e He. now rewrite (Hself e He). }
    assert (Ha : df_added A A = []).
    { apply flat_map_nil. intros e He. now rewrite (Hself e He). }
    rewrite Hc, Hg, Ha. simpl. destruct ia; simpl; now intros [= <-].
  Qed.

  (* ---------- histories ---------- *)
  Notation replay := (df_replay env kf wu atomic false single shadow sch).
  Notation chain_ok := (df_chain_okb env kf wu atomic single shadow sch).

  Lemma pair_ok_apply a b d m :
    df_pair_okb env kf wu atomic single shadow sch a b = true ->
    core false a b = Ok d -> lm_equiv m (L a) -> lm_equiv (apply_diff m d) (L b).
  Proof.
    unfold df_pair_okb. rewrite !andb_true_iff. intros [[[[[[H1 H2] H3] H4] H5] H6] H7] Hc Hm.
    eapply lm_equiv_trans; [apply apply_diff_equiv; exact Hm|]. now apply diff_apply.
  Qed.

  Theorem diff_history vs : forall v0 m m',
    replay m (v0 :: vs) = Some m' -> chain_ok (v0 :: vs) = true ->
    lm_equiv m (L v0) -> lm_equiv m' (L (last vs v0)).
  Proof.
    induction vs as [|v1 vs IH]; intros v0 m m' Hr Hc Hm.
    - simpl in Hr. injection Hr as <-. exact Hm.
    - cbn [df_replay] in Hr. cbn [df_chain_okb] in Hc. apply andb_true_iff in Hc as [Hp Hc].
      destruct (core false v0 v1) as [d| |] eqn:Hd; try discriminate.
      rewrite last_cons. eapply IH; eauto. eapply pair_ok_apply; eauto.
  Qed.
End Trees.
