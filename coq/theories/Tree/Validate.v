(* Validate.v — ytypes.Validate at tree level (definitions only).

   Transcribed Go (ytypes/): Validate, validateContainer (validate.go, container.go),
   validateChoice / IsCaseSelected (choice.go), validateList / checkKeys / checkBasicKeyValue /
   checkStructKeyValues / validateStructElems (list.go), validateListAttr (util_schema.go),
   validateLeafList (leaf_list.go), validateLeaf / validateUnion / validateMatchingSchemas /
   findMatchingSchemasInUnion (leaf.go), validateInt / validateString / validateBinary /
   validateBool / validateEmpty / validateDecimal and their Validate*Restrictions
   (int_type.go, string_type.go, binary_type.go, bool_type.go, empty_type.go, decimal_type.go),
   isInRanges / lengthOk (util_schema.go), util.ChildSchema (util/reflect.go) as far as choices
   are concerned.

   Scope (what the schema term of Tree.v carries): integer ranges, string / binary lengths,
   enumeration and identity tables, union member types, list keys, min/max-elements, choices,
   config flags.  NOT carried, hence outside this model and outside the fault corpus: regular
   expression patterns (only counted), decimal64 ranges, `mandatory`, `must`, `when`.  The model
   describes Validate on trees whose pattern-restricted strings match their patterns and whose
   decimal64 values are inside their ranges.  Leafref target existence is Leafref.v (C30); this
   file is Validate with LeafrefOptions{IgnoreMissingData: true}.

   The second half of the file is `validb`, the declarative validity of a tree written from
   RFC 7950 (sections 9.2.4, 9.4.4, 9.6, 9.10, 9.12, 7.7.5-7.7.7, 7.8.2, 7.9) without reference to the
   algorithm above. *)
From Ygot Require Import Tree.Tree Tree.TreeOps Tree.Codec.

(* classification of the errors Validate returns (the Go side classifies the error texts) *)
Inductive verr :=
| EIntRange        (* "... integer value %v is outside specified ranges" *)
| ELength          (* "length %d is outside range %v" (string and binary) *)
| EUnionNoMatch    (* "no types in schema %s match the type of value" *)
| EType            (* "bad leaf type" / "non %v type %T" / "bad leaf value type": Go kind does not fit the YANG type *)
| EKey             (* "element key %v != map key %v" / "has different value from map key" *)
| EMin             (* "contains fewer than min required elements" *)
| EMax             (* "contains more than max allowed elements" *)
| EChoice          (* "multiple cases %v selected for choice %s" *)
| EField           (* struct field without schema: not representable in generated code *)
| EShape           (* value kind does not fit the schema node kind: not representable in generated code *)
| EEnum            (* "is not a defined value of enumerated type" (only with the fix fx_enum) *)
| EDup.            (* "duplicate value %v in leaf-list" (only with the fix fx_lldup) *)

Definition verr_code (e : verr) : N :=
  match e with
  | EIntRange => 0 | ELength => 1 | EUnionNoMatch => 2 | EType => 3 | EKey => 4
  | EMin => 5 | EMax => 6 | EChoice => 7 | EField => 8 | EShape => 9 | EEnum => 10 | EDup => 11
  end.
Definition verr_eqb (a b : verr) : bool := verr_code a =? verr_code b.

(* Which of the proposed repairs of ytypes are present in the code under test.  The harness probes
   the real code on every run and prints the record into the case-file header; fx_head is the
   code as it stands (no repair), fx_all the code with every proposed patch applied.
     fx_enum        validateLeaf looks enumeration / identityref values up in the ΛMap of their type
     fx_llattr      validateLeafList calls validateListAttr (min/max-elements)
     fx_lldup       validateLeafList rejects duplicate values in configuration leaf-lists
     fx_choice_list validateStructElems (list entries) checks the choices directly under the list
     fx_nested      IsCaseSelected adds the errors of nested choices instead of returning their result *)
Record vfix := { fx_enum : bool; fx_llattr : bool; fx_lldup : bool; fx_choice_list : bool; fx_nested : bool }.
Definition fx_head : vfix := {| fx_enum := false; fx_llattr := false; fx_lldup := false; fx_choice_list := false; fx_nested := false |}.
Definition fx_all : vfix := {| fx_enum := true; fx_llattr := true; fx_lldup := true; fx_choice_list := true; fx_nested := true |}.

Definition is_some {A} (o : option A) : bool := match o with Some _ => true | None => false end.

Fixpoint nodup_scalars (l : list scalar) : bool :=
  match l with
  | [] => true
  | x :: r => negb (existsb (scalar_eqb x) r) && nodup_scalars r
  end.

(* ---------- restrictions ---------- *)

(* isInRanges: an empty range list allows everything *)
Definition in_ranges (rs : list (Z * Z)) (z : Z) : bool :=
  nil_b rs || existsb (fun r => (fst r <=? z)%Z && (z <=? snd r)%Z) rs.
Definition in_lens (ls : list (N * N)) (n : N) : bool :=
  nil_b ls || existsb (fun r => (fst r <=? n) && (n <=? snd r)) ls.
Definition nlen {A} (l : list A) : N := N.of_nat (length l).

(* ---------- leaves ---------- *)

Fixpoint resolve_lref (t : ytype) : ytype :=
  match t with YLeafref t' => resolve_lref t' | _ => t end.

(* all member types of a union, nested unions flattened, in order *)
Fixpoint flat_union (t : ytype) : list ytype :=
  match t with
  | YUnion ms => flat_map flat_union ms
  | _ => [t]
  end.

(* reflect.Kind of the Go value that carries a scalar / of yangBuiltinTypeToGoType(kind) *)
Inductive gkind := GInt (k : ikind) | GStr | GBool | GFloat | GSlice.
Definition gkind_eqb (a b : gkind) : bool :=
  match a, b with
  | GInt x, GInt y => ikind_eqb x y
  | GStr, GStr | GBool, GBool | GFloat, GFloat | GSlice, GSlice => true
  | _, _ => false
  end.
Definition gkind_of_scalar (v : scalar) : gkind :=
  match v with
  | VInt k _ => GInt k | VStr _ => GStr | VBool _ => GBool | VDec _ => GFloat
  | VBin _ => GSlice | VEmpty => GBool (* YANGEmpty is a bool *) | VEnum _ _ => GInt I64
  end.
Definition gkind_of_type (t : ytype) : option gkind :=
  match t with
  | YInt k _ => Some (GInt k) | YDec _ => Some GFloat | YStr _ _ => Some GStr | YBin _ => Some GSlice
  | YBool | YEmpty => Some GBool | YEnum _ | YIdref _ => Some (GInt I64)
  | YUnion _ | YLeafref _ => None        (* leafref member: "no matching Go type", skipped *)
  end.

(* the first switch of validateLeaf: values that are not held through a pointer (enum int64,
   YANGEmpty bool, Binary slice) are only accepted for the YANG kinds named there *)
Definition direct_ok (t : ytype) (v : scalar) : bool :=
  match v with
  | VEnum _ _ => match t with YEnum _ | YIdref _ | YUnion _ => true | _ => false end
  | VEmpty => match t with YEmpty | YUnion _ => true | _ => false end
  | VBin _ => match t with YBin _ | YUnion _ => true | _ => false end
  | _ => true
  end.

Section Algorithm.
Variable fx : vfix.
Variable env : enum_env.

(* the second switch of validateLeaf for a non-union, non-leafref type: validateBinary,
   validateBool, validateEmpty, validateString, validateDecimal, the enum arm, validateInt *)
Definition validate_simple (t : ytype) (v : scalar) : list verr :=
  match t with
  | YBin lens => match v with
                 | VBin bs => if in_lens lens (nlen bs) then [] else [ELength]
                 | _ => [EType] end
  | YBool => match v with VBool _ | VEmpty => [] | _ => [EType] end       (* only the Go kind is looked at *)
  | YEmpty => match v with VEmpty => [] | _ => [EType] end                (* type name must be YANGEmpty *)
  | YStr lens _ => match v with
                   | VStr s => if in_lens lens (nlen s) then [] else [ELength]   (* patterns: outside the model *)
                   | _ => [EType] end
  | YDec _ => match v with VDec _ => [] | _ => [EType] end                (* ranges: outside the model *)
  | YEnum _ | YIdref _ =>
      (* "rvkind != reflect.Int64 -> error; return nil": the value is never looked up in ΛEnum.
         With fx_enum: a GoEnum value other than 0 must be in the ΛMap of its own Go type; a plain
         int64 (the int64 member's value in a union) is still waved through *)
      match v with
      | VEnum ty' n =>
          if fx_enum fx && negb (n =? 0)%Z && negb (is_some (enum_by_num (enum_table env ty') n)) then [EEnum] else []
      | VInt I64 _ => []
      | _ => [EType]
      end
  | YInt k rs =>
      match v with
      | VInt k' z => if ikind_eqb k k' then (if in_ranges rs z then [] else [EIntRange]) else [EType]
      | VEnum _ n => if ikind_eqb k I64 then (if in_ranges rs n then [] else [EIntRange]) else [EType]
      | _ => [EType]
      end
  | YUnion _ | YLeafref _ => [EType]
  end.

(* validateMatchingSchemas: nil as soon as one member (of the value's Go kind) accepts; otherwise
   the errors of all of them *)
Definition first_accepting (ms : list ytype) (v : scalar) : list verr :=
  if existsb (fun m => nil_b (validate_simple m v)) ms then []
  else flat_map (fun m => validate_simple m v) ms.

Definition kind_matches (v : scalar) (m : ytype) : bool :=
  match gkind_of_type m with Some g => gkind_eqb g (gkind_of_scalar v) | None => false end.

(* validateLeaf on a set value *)
Definition validate_leaf (t0 : ytype) (v : scalar) : list verr :=
  let t := resolve_lref t0 in
  if negb (direct_ok t v) then [EType] else
  match t with
  | YUnion _ =>
      match filter (kind_matches v) (flat_union t) with
      | [] => [EUnionNoMatch]
      | ms => first_accepting ms v
      end
  | _ => validate_simple t v
  end.

(* ---------- choices ---------- *)

Fixpoint is_prefix (p l : list str) : bool :=
  match p, l with
  | [], _ => true
  | x :: p', y :: l' => str_eqb x y && is_prefix p' l'
  | _, [] => false
  end.
Fixpoint dedup_str (l : list str) : list str :=
  match l with
  | [] => []
  | x :: r => if existsb (str_eqb x) r then dedup_str r else x :: dedup_str r
  end.
(* names found at position |p| of the f_case of the fields whose f_case extends p by at least
   `more` elements: the choices below a case (more = 2) or the cases of a choice (more = 1) *)
Definition names_below (sfs : list (finfo * schema)) (p : list str) : list str :=
  dedup_str (flat_map (fun fs => let c := f_case (fst fs) in
                                 if is_prefix p c then match skipn (length p) c with x :: _ => [x] | [] => [] end
                                 else []) sfs).
Definition is_set (fs : list (str * tree)) (name : str) : bool :=
  match field_get name fs with Some _ => true | None => false end.
(* Go field names of the set fields whose schema lies (at any depth of choice/case nesting)
   below the choice/case path q: util.ChildSchema(caseSchema, field) <> nil *)
Definition selected_below (sfs : list (finfo * schema)) (fs : list (str * tree)) (q : list str) : list str :=
  map (fun x => f_go (fst x)) (filter (fun x => is_prefix q (f_case (fst x)) && is_set fs (f_go (fst x))) sfs).

(* validateChoice (path p ends in the choice name) and IsCaseSelected (path q ends in the case
   name).  A case that contains a nested choice returns the result of that choice INSTEAD of its
   own selected fields ("return validateChoice(elemSchema, ...)" inside the loop over
   schema.Dir); with several nested choices Go takes the first in map iteration order, the model
   the first in field order.  fuel: nesting depth of choices. *)
Fixpoint validate_choice (fuel : nat) (sfs : list (finfo * schema)) (fs : list (str * tree)) (p : list str)
  : list str * list verr :=
  match fuel with
  | O => ([], [])
  | S f =>
      let case_sel (c : str) : list str * list verr :=
        let q := p ++ [c] in
        match names_below sfs q with
        | ch :: chs =>
            if fx_nested fx
            then (selected_below sfs fs q, flat_map (fun ch' => snd (validate_choice f sfs fs (q ++ [ch']))) (ch :: chs))
            else validate_choice f sfs fs (q ++ [ch])
        | [] => (selected_below sfs fs q, [])
        end in
      let rs := map case_sel (names_below sfs p) in
      let nsel := length (filter (fun r => negb (nil_b (fst r))) rs) in
      (flat_map fst rs, flat_map snd rs ++ (if Nat.ltb 1 nsel then [EChoice] else []))
  end.

Definition choice_depth (sfs : list (finfo * schema)) : nat :=
  S (fold_right (fun fs acc => Nat.max (length (f_case (fst fs))) acc) O sfs).

(* the loop over schema.Dir in validateContainer *)
Definition validate_choices (sfs : list (finfo * schema)) (fs : list (str * tree)) : list verr :=
  flat_map (fun ch => snd (validate_choice (choice_depth sfs) sfs fs [ch])) (names_below sfs []).

(* ---------- lists ---------- *)

(* validateListAttr *)
Definition list_attr (mn mx : N) (size : N) : list verr :=
  (if size <? mn then [EMin] else []) ++ (if negb (mx =? 0) && (mx <? size) then [EMax] else []).

Definition is_enum_leaf (s : schema) : option str :=
  match s with
  | SLeaf t _ => match resolve_lref t with YEnum ty | YIdref ty => Some ty | _ => None end
  | _ => None
  end.

(* checkBasicKeyValue / checkStructKeyValues: the element's key field, dereferenced when it is a
   non-nil pointer, must be == the map key.  An unset pointer field differs from every key; an
   unset enum field is the int64 0 and equals the key 0. *)
Fixpoint check_keys (sfs : list (finfo * schema)) (keys : list str) (k : list scalar) (fs : list (str * tree)) : list verr :=
  match keys, k with
  | [], _ => []
  | kn :: keys', kv :: k' =>
      (match key_field sfs kn with
       | None => [EKey]
       | Some (fi, ks) =>
           match field_get (f_go fi) fs with
           | Some (TLeaf v) => if scalar_eqb v kv then [] else [EKey]
           | Some _ => [EKey]
           | None => match is_enum_leaf ks with
                     | Some ty => if scalar_eqb (VEnum ty 0) kv then [] else [EKey]
                     | None => [EKey]
                     end
           end
       end) ++ check_keys sfs keys' k' fs
  | _ :: _, [] => [EKey]
  end.

Definition sfind (name : str) (sfs : list (finfo * schema)) : option (finfo * schema) :=
  find (fun fs => str_eqb (f_go (fst fs)) name) sfs.

(* ---------- the recursion ---------- *)

(* ent: t is an entry of the list whose schema is s (validateList -> validateStructElems on the
   element); from the root a struct pointer never meets a list schema otherwise, and a list entry
   never meets a container schema (EShape: not representable in generated code).
   cfg: the schema node is config true (only looked at by the fx_lldup repair). *)
Fixpoint validate_node (ent cfg : bool) (s : schema) (t : tree) {struct t} : list verr :=
  match t with
  | TLeaf v => match s with SLeaf ty _ => validate_leaf ty v | _ => [EShape] end
  | TLeafList vs =>
      (* validateLeafList: every element through validateLeaf; no uniqueness check, and
         validateListAttr (min/max-elements) is only called from validateList *)
      match s with
      | SLeafList ty mn mx =>
          flat_map (validate_leaf ty) vs ++
          (if fx_llattr fx then list_attr mn mx (nlen vs) else []) ++
          (if fx_lldup fx && cfg && negb (nodup_scalars vs) then [EDup] else [])
      | _ => [EShape]
      end
  | TCont fs =>
      let fields (sfs : list (finfo * schema)) :=
        flat_map (fun nt => match sfind (fst nt) sfs with
                            | None => [EField]
                            | Some (fi, ss) => validate_node false (f_cfg fi) ss (snd nt)
                            end) fs in
      match s with
      | SCont sfs => if ent then [EShape] else fields sfs ++ validate_choices sfs fs     (* validateContainer *)
      | SList _ _ _ _ sfs | SUnkeyed sfs =>
          (* validateStructElems: "choice directly under list is not handled here" *)
          if ent then fields sfs ++ (if fx_choice_list fx then validate_choices sfs fs else []) else [EShape]
      | _ => [EShape]
      end
  | TList es =>
      match s with
      | SList _ keys mn mx sfs =>
          if ent then [EShape] else
          list_attr mn mx (nlen es) ++
          flat_map (fun ke => check_keys sfs keys (fst ke) (fields_of (snd ke)) ++ validate_node true cfg s (snd ke)) es
      | _ => [EShape]
      end
  | TUnkeyed es =>
      match s with
      | SUnkeyed sfs => if ent then [EShape] else flat_map (fun e => validate_node true cfg s e) es      (* validateListAttr: no min/max in the schema term *)
      | _ => [EShape]
      end
  end.
End Algorithm.

(* generated Device.Validate(&ytypes.LeafrefOptions{IgnoreMissingData: true}).  The code as it
   stands (fx_head) consults neither the enum tables nor the float oracle: that is the point of the
   `undefined enum` finding. *)
Definition validate (fx : vfix) (env : enum_env) (fo : float_oracle) (s : schema) (t : tree) : list verr :=
  validate_node fx env false true s t.

(* ================================================================================== *)
(* Declarative validity (RFC 7950), independent of the algorithm above.               *)
(* ================================================================================== *)

Section Valid.
  Variable env : enum_env.

  (* value space of a type (9.2 integers and their range, 9.4 string length, 9.8 binary length,
     9.6 / 9.10 defined enum and identity values, 9.12 union = some member, 9.9 leafref = the
     value space of the target) *)
  Fixpoint in_space (t : ytype) (v : scalar) {struct t} : bool :=
    match t with
    | YInt k rs => match v with
                   | VInt k' z => ikind_eqb k k' && (ikind_min k <=? z)%Z && (z <=? ikind_max k)%Z && in_ranges rs z
                   | _ => false end
    | YDec _ => match v with VDec _ => true | _ => false end
    | YStr lens _ => match v with VStr s => in_lens lens (nlen s) | _ => false end
    | YBin lens => match v with VBin bs => forallb (fun b => b <? 256) bs && in_lens lens (nlen bs) | _ => false end
    | YBool => match v with VBool _ => true | _ => false end
    | YEmpty => match v with VEmpty => true | _ => false end
    | YEnum ty | YIdref ty =>
        match v with
        | VEnum ty' n => str_eqb ty ty' && is_some (enum_by_num (enum_table env ty) n)
        | _ => false end
    | YUnion ms => existsb (fun m => in_space m v) ms
    | YLeafref t' => in_space t' v
    end.

  Fixpoint nodup_keys (l : list (list scalar)) : bool :=
    match l with
    | [] => true
    | x :: r => negb (existsb (keys_eqb x) r) && nodup_keys r
    end.

  (* 7.9: two nodes may coexist unless they sit in different cases of one choice.  f_case lists
     (choice, case) pairs, outermost first. *)
  Fixpoint case_compat (a b : list str) : bool :=
    match a, b with
    | ch :: c :: a', ch' :: c' :: b' => if str_eqb ch ch' then str_eqb c c' && case_compat a' b' else true
    | _, _ => true
    end.
  Definition choices_ok (sfs : list (finfo * schema)) (fs : list (str * tree)) : bool :=
    let set := filter (fun x => is_set fs (f_go (fst x))) sfs in
    forallb (fun x => forallb (fun y => case_compat (f_case (fst x)) (f_case (fst y))) set) set.

  (* 7.8.2: the key leaves of an entry are present and are the entry's key *)
  Fixpoint keys_match (sfs : list (finfo * schema)) (keys : list str) (k : list scalar) (fs : list (str * tree)) : bool :=
    match keys, k with
    | [], [] => true
    | kn :: keys', kv :: k' =>
        match key_field sfs kn with
        | Some (fi, _) => match field_get (f_go fi) fs with
                          | Some (TLeaf v) => scalar_eqb v kv && keys_match sfs keys' k' fs
                          | _ => false end
        | None => false
        end
    | _, _ => false
    end.

  Definition bounds_ok (mn mx n : N) : bool := (mn <=? n) && ((mx =? 0) || (n <=? mx)).

  (* cfg: the node is configuration (7.7: "In configuration data, the values in a leaf-list MUST
     be unique"); ent: the node is an entry of the list whose schema is s *)
  Fixpoint validb_node (ent cfg : bool) (s : schema) (t : tree) {struct t} : bool :=
    match t with
    | TLeaf v => match s with SLeaf ty _ => in_space ty v | _ => false end
    | TLeafList vs =>
        match s with
        | SLeafList ty mn mx =>
            forallb (in_space ty) vs && bounds_ok mn mx (nlen vs) && (negb cfg || nodup_scalars vs)
        | _ => false
        end
    | TCont fs =>
        let sfs := sfields s in
        match s with SCont _ => negb ent | SList _ _ _ _ _ | SUnkeyed _ => ent | _ => false end &&
        forallb (fun nt => match sfind (fst nt) sfs with
                           | None => false
                           | Some (fi, ss) => validb_node false (f_cfg fi) ss (snd nt)
                           end) fs &&
        choices_ok sfs fs
    | TList es =>
        match s with
        | SList _ keys mn mx sfs =>
            negb ent && bounds_ok mn mx (nlen es) && nodup_keys (map fst es) &&
            forallb (fun ke => keys_match sfs keys (fst ke) (fields_of (snd ke)) && validb_node true cfg s (snd ke)) es
        | _ => false
        end
    | TUnkeyed es =>
        match s with
        | SUnkeyed _ => negb ent && forallb (fun e => validb_node true cfg s e) es
        | _ => false
        end
    end.
  Definition validb (cfg : bool) (s : schema) (t : tree) : bool := validb_node false cfg s t.
End Valid.

(* the data tree of a root struct is configuration unless a field says otherwise *)
Definition valid (env : enum_env) (s : schema) (t : tree) : Prop := validb env true s t = true.

(* ================================================================================== *)
(* Guards of the C07 theorems: what Validate does not check (one conjunct per fault   *)
(* class it misses) and what the Go type system guarantees about a GoStruct value.    *)
(* ================================================================================== *)

Definition is_lref (t : ytype) : bool := match t with YLeafref _ => true | _ => false end.
Definition is_enumty (t : ytype) : bool := match t with YEnum _ | YIdref _ => true | _ => false end.
Definition is_int64ty (t : ytype) : bool := match t with YInt I64 _ => true | _ => false end.

(* schema side.  type_ok: no leafref member inside a union (findMatchingSchemasInUnion skips it:
   a value of the leafref's target type is rejected), and no union with both an enumeration /
   identityref member and an int64 member (the enum member accepts every int64 without looking
   at it, so the int64 member's range is not enforced). *)
Definition type_ok (t : ytype) : bool :=
  let ms := flat_union (resolve_lref t) in
  forallb (fun m => negb (is_lref m)) ms && negb (existsb is_enumty ms && existsb is_int64ty ms).
(* no choice nested in a case: IsCaseSelected returns the nested choice's result instead of
   the case's own fields *)
Definition cases_flat (sfs : list (finfo * schema)) : bool :=
  forallb (fun x => match f_case (fst x) with [] | [_; _] => true | _ => false end) sfs.
(* no choice directly in a list entry: validateStructElems does not look at choices *)
Definition no_cases (sfs : list (finfo * schema)) : bool := forallb (fun x => nil_b (f_case (fst x))) sfs.

Fixpoint schema_ok (fx : vfix) (s : schema) : bool :=
  match s with
  | SLeaf ty _ | SLeafList ty _ _ => type_ok ty
  | SCont sfs => cases_flat sfs && forallb (fun x => schema_ok fx (snd x)) sfs
  | SList _ _ _ _ sfs | SUnkeyed sfs =>
      (no_cases sfs || (fx_choice_list fx && cases_flat sfs)) && forallb (fun x => schema_ok fx (snd x)) sfs
  end.

(* Go static typing of a leaf value: the scalar is a value of the Go type generated for the
   leaf (for a union: of one of its members) *)
Definition typed_simple (m : ytype) (v : scalar) : bool :=
  match m, v with
  | YInt k _, VInt k' z => ikind_eqb k k' && (ikind_min k <=? z)%Z && (z <=? ikind_max k)%Z
  | YStr _ _, VStr _ | YBool, VBool _ | YEmpty, VEmpty | YDec _, VDec _ => true
  | YBin _, VBin bs => forallb (fun b => b <? 256) bs
  | YEnum ty, VEnum ty' _ | YIdref ty, VEnum ty' _ => str_eqb ty ty'
  | _, _ => false
  end.
Definition leaf_typed (t : ytype) (v : scalar) : bool :=
  existsb (fun m => typed_simple m v) (flat_union (resolve_lref t)).

Section TreeOk.
  Variable fx : vfix.
  Variable env : enum_env.

  (* fault class `undefined enum / identity value` absent.  With the repair fx_enum what remains
     unchecked is the UNSET value 0 (possible as an element of a leaf-list or as a union value) *)
  Definition leaf_enum_defined (t : ytype) (v : scalar) : bool :=
    match v with
    | VEnum _ n => (fx_enum fx && negb (n =? 0)%Z) || in_space env t v
    | _ => true
    end.
  Definition leaf_ok (t : ytype) (v : scalar) : bool := leaf_typed t v && leaf_enum_defined t v.

  (* an entry whose enumeration-typed key leaf is unset (the int64 0): checkKeys compares 0 with
     the map key and is satisfied when the map key is 0 as well *)
  Definition enum_keys_set (sfs : list (finfo * schema)) (keys : list str) (fs : list (str * tree)) : bool :=
    forallb (fun kn => match key_field sfs kn with
                       | Some (fi, ks) => match is_enum_leaf ks with Some _ => is_set fs (f_go fi) | None => true end
                       | None => true
                       end) keys.

  Fixpoint tree_ok (cfg : bool) (s : schema) (t : tree) {struct t} : bool :=
    match t with
    | TLeaf v => match s with SLeaf ty _ => leaf_ok ty v | _ => true end
    | TLeafList vs =>
        match s with
        | SLeafList ty mn mx =>
            forallb (leaf_ok ty) vs &&
            (fx_lldup fx || negb cfg || nodup_scalars vs) &&   (* fault class `duplicate values in a configuration leaf-list` absent *)
            (fx_llattr fx || bounds_ok mn mx (nlen vs))        (* fault class `leaf-list min/max-elements` absent *)
        | _ => true
        end
    | TCont fs =>
        forallb (fun nt => match sfind (fst nt) (sfields s) with
                           | None => true
                           | Some (fi, ss) => tree_ok (f_cfg fi) ss (snd nt)
                           end) fs
    | TList es =>
        match s with
        | SList _ keys _ _ sfs =>
            nodup_keys (map fst es) &&                 (* a Go map / ordered map has distinct keys ... *)
            forallb (fun ke => Nat.eqb (length (fst ke)) (length keys) &&      (* ... of the key struct's arity *)
                               enum_keys_set sfs keys (fields_of (snd ke)) &&
                               tree_ok cfg s (snd ke)) es
        | _ => true
        end
    | TUnkeyed es => forallb (fun e => tree_ok cfg s e) es
    end.
End TreeOk.
