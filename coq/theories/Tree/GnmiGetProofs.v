(* GnmiGetProofs.v — C16 (b): the path ygot prints for a leaf (list keys rendered by
   KeyValueAsString) addresses that leaf again: GetNode on the path of every leaf emitted by
   `leaves` returns exactly that leaf, by induction over guarded trees. *)
From Ygot Require Import Tree.Tree Scalar.Dec Scalar.Base64 Tree.Codec Tree.CodecProofs.
From Ygot Require Import Tree.TreeOps Tree.Render Tree.Unmarshal Tree.RoundTrip Tree.RoundTripObjProofs Tree.RoundTripProofs.
From Ygot Require Import Tree.KeyCodec Tree.Leaves Tree.Notif Tree.Node Tree.SetReq Path.PathRel.
From Ygot Require Import Tree.KeyCodecProofs Tree.NodeStepProofs Tree.GnmiRt Tree.GnmiRtProofs.

Definition lval_tree (v : lval) : tree := match v with LV x => TLeaf x | LVs xs => TLeafList xs end.

Section Resolve.
  Variable env : enum_env.
  Variable fo : float_oracle.
  Variable ko : key_oracle.
  Hypothesis Henv : wf_envb env = true.
  Variable o : get_opts.
  Hypothesis Hsh : g_shadow o = false.
  Hypothesis Hpa : g_partial o = false.
  Hypothesis Hwi : g_wild o = false.

  Notation GR := (get_rec env fo ko o).

  (* the leaf item (p, v), seen from the node at par, is found at that node *)
  Definition found (need : dpath -> nat) (s : schema) (t : tree) (par : dpath) (it : litem) : Prop :=
    match it with
    | LLeaf p v =>
        forall fuel trav, (need (skipn (length par) p) <= fuel)%nat ->
          GR fuel s (Some t) (skipn (length par) p) trav =
            Ok [{| gn_path := trav ++ skipn (length par) p; gn_data := Some (lval_tree v) |}]
    | LAtomic _ _ => True
    end.

  Definition Rcont (t : tree) : Prop :=
    forall fs, t = TCont fs -> forall s sfs par items,
      struct_schema s sfs -> gn_schemab s = true -> gn_node env fo ko s (TCont fs) = true ->
      find_leaves env ko false false s (TCont fs) par = Ok items ->
      Forall (found need_struct s (TCont fs) par) items.
  Definition R (t : tree) : Prop :=
    Rcont t /\ forall es, t = TList es -> forall k e, In (k, e) es -> Rcont e.

  (* ---------- the entries of a list, at the list node ---------- *)
  Lemma entries_found : forall keys mn mx esfs front nm es,
    gn_schemab (SList false keys mn mx esfs) = true ->
    gn_entries env fo ko (SList false keys mn mx esfs) esfs keys es = true ->
    keys_okb false (map fst es) = true ->
    (forall k e, In (k, e) es -> Rcont e) ->
    forall l done, es = done ++ l -> forall items,
      fl_entries env ko false (SList false keys mn mx esfs) esfs keys (front ++ [mk_elem nm]) l = Ok items ->
      Forall (found need_list (SList false keys mn mx esfs) (TList es) front) items.
  Proof.
    intros keys mn mx esfs front nm es Hsch Hge Hko HR.
    set (ss := SList false keys mn mx esfs) in *.
    destruct (esfs_facts keys mn mx esfs Hsch) as (Hok & Hd & Hkne & Hdk & Ha & Hdg).
    assert (Hshape : (exists k, keys = [k]) \/ exists k1 k2 ks, keys = k1 :: k2 :: ks).
    { clear -Hkne. destruct keys as [|? [|? ?]]; eauto. congruence. }
    (* what is known of every entry of the list *)
    assert (Hent : forall mk' e', In (mk', e') es ->
              exists efs', e' = TCont efs' /\ keys_wfb env fo ko esfs keys mk' = true /\ key_leaves esfs keys mk' efs').
    { intros mk' e' Hin'. destruct (gn_entries_In env fo ko ss esfs keys es mk' e' Hge Hin') as (efs' & -> & _ & Hkm' & Hkw' & _).
      exists efs'. repeat split; auto.
      assert (Hek' : entry_key esfs keys efs' = Ok mk').
      { unfold key_matchb in Hkm'. destruct (entry_key esfs keys efs') as [k'| |]; try discriminate.
        apply keys_eqb_eq in Hkm'. now subst. }
      apply (entry_key_leaves env fo ko esfs keys mk' efs' Hd Ha Hek' Hkw'). }
    induction l as [|[mk e] more IH]; intros done Hes items Hfl.
    - cbn [fl_entries] in Hfl. injection Hfl as <-. constructor.
    - cbn [fl_entries] in Hfl.
      assert (Hin : In (mk, e) es) by (rewrite Hes; apply in_or_app; right; now left).
      destruct (Hent mk e Hin) as (efs & -> & Hkw & Hkl).
      destruct (gn_entries_In env fo ko ss esfs keys es mk (TCont efs) Hge Hin) as (? & _ & Hgn & _).
      cbn [fields_of] in Hfl.
      destruct (keys_wfb_strs env fo ko esfs keys mk Hkw) as [kk Hkk].
      rewrite (key_leaves_strs env ko esfs keys mk efs Hd Ha Hkl), Hkk in Hfl. cbn [bind] in Hfl.
      rewrite set_last_keys_snoc in Hfl. cbn [bind ename mk_elem] in Hfl.
      set (el := {| ename := nm; ekeys := kk |}) in *.
      destruct (find_leaves env ko false false ss (TCont efs) (front ++ [el])) as [here| |] eqn:Eh; try discriminate.
      cbn [bind] in Hfl.
      destruct (fl_entries env ko false ss esfs keys (front ++ [mk_elem nm]) more) as [r| |] eqn:Er; try discriminate.
      cbn [bind] in Hfl. injection Hfl as <-.
      apply Forall_app. split; [|apply (IH (done ++ [(mk, TCont efs)])); [rewrite Hes, <- app_assoc; reflexivity | reflexivity]].
      (* the items of this entry *)
      pose proof (HR mk (TCont efs) Hin efs eq_refl ss esfs (front ++ [el]) here (ss_entry false keys mn mx esfs) Hsch Hgn Eh) as Hfound.
      destruct (rebuild_all env fo ko Henv (TCont efs)) as [HPc _].
      destruct (HPc efs eq_refl ss esfs (front ++ [el]) here [] (ss_entry false keys mn mx esfs) Hsch Hgn Eh ltac:(intros n []))
        as (_ & _ & Hun).
      (* the other entries have other keys *)
      assert (Hother : forall mk' e', In (mk', e') es -> mk' <> mk ->
                keys_match env ko false false kk keys mk' = Ok false).
      { intros mk' e' Hin' Hne. destruct (Hent mk' e' Hin') as (efs' & -> & Hkw' & _).
        apply (keys_match_other env fo ko Henv esfs keys mk mk' kk); auto.
        apply mapkey_strs_In; auto. apply (keys_wfb_length env fo ko esfs keys mk Hkw). }
      assert (Hdistinct : forall mk' e', (In (mk', e') done \/ In (mk', e') more) -> mk' <> mk).
      { intros mk' e' Hor ->. rewrite Hes, map_app in Hko. cbn [map fst] in Hko.
        destruct Hor as [Hi|Hi].
        - destruct (keys_okb_app false (map fst done) mk (map fst more) Hko mk) as [Q _].
          { change mk with (fst (mk, e')). now apply in_map. }
          now rewrite keys_eqb_refl in Q.
        - apply in_split in Hi as (m1 & m2 & ->). rewrite map_app in Hko. cbn [map fst] in Hko.
          replace (map fst done ++ mk :: map fst m1 ++ mk :: map fst m2)
            with ((map fst done ++ mk :: map fst m1) ++ mk :: map fst m2) in Hko by (rewrite <- app_assoc; reflexivity).
          destruct (keys_okb_app false _ mk (map fst m2) Hko mk) as [Q _].
          { apply in_or_app. right. now left. }
          now rewrite keys_eqb_refl in Q. }
      pose proof (mapkey_strs_In env ko keys mk kk Hdk (keys_wfb_length env fo ko esfs keys mk Hkw) Hkk) as HF.
      rewrite Forall_forall in Hfound, Hun. apply Forall_forall. intros it Hit.
      specialize (Hfound it Hit). specialize (Hun it Hit).
      destruct it as [p v|]; [|exact I]. destruct Hun as (q & -> & Hq). cbn [found] in Hfound |- *.
      rewrite skipn_app_exact in Hfound. rewrite <- app_assoc, skipn_app_exact. cbn [app].
      intros fuel trav Hfuel. unfold need_list in Hfuel. cbn [length] in Hfuel.
      destruct fuel as [|f]; [lia|].
      assert (Hrec : GR f ss (Some (TCont efs)) q (trav ++ [el]) =
                     Ok [{| gn_path := (trav ++ [el]) ++ q; gn_data := Some (lval_tree v) |}]).
      { apply Hfound. unfold need_struct. lia. }
      rewrite <- app_assoc in Hrec. cbn [app] in Hrec.
      destruct Hshape as [[k Ek]|(k & k2 & ks & Ek)].
      + (* single key *)
        rewrite Ek in HF. inversion HF as [|k0 v0 ks0 vs (pk & Es & Fs) HF' E1 E2].
        inversion HF' as [E3 E4|]. rewrite <- E4 in E2. symmetry in E2.
        unfold ss. rewrite Ek at 1.
        rewrite (get_rec_list_single env fo ko o Hpa Hwi f k mn mx esfs es el q trav pk Fs).
        rewrite <- Ek. fold ss. rewrite Hes.
        assert (Hk : In k keys) by (rewrite Ek; now left).
        assert (Hty : exists fi t d, key_name_field esfs k = Ok (fi, SLeaf t d) /\ key_wfb env fo ko t v0 = true).
        { pose proof Hkw as Hw. rewrite Ek, E2 in Hw. cbn [keys_wfb] in Hw.
          destruct (key_name_field esfs k) as [[fi [t d| | | |]]| |]; try discriminate.
          apply andb_true_iff in Hw as [Hw _]. eauto. }
        destruct Hty as (fi & t & d & Ekn & Hwv0).
        rewrite (first_g_hit env fo ko o f ss esfs el q trav k pk done mk (TCont efs) more); [exact Hrec| |].
        * intros mk' e' Hin'.
          assert (Hin2 : In (mk', e') es) by (rewrite Hes; apply in_or_app; now left).
          destruct (Hent mk' e' Hin2) as (efs' & -> & Hkw' & Hkl').
          rewrite Ek in Hkl'. inversion Hkl' as [|? v' ? l' Hg Hl' E5 E6]. inversion Hl' as [E7 E8|].
          rewrite (single_key_str_leaf env ko keys mn mx esfs Hsch k _ (fields_of (TCont efs')) v' Hk Hg).
          assert (Hwv' : key_wfb env fo ko t v' = true).
          { pose proof Hkw' as Hw. rewrite Ek, <- E6, <- E8 in Hw. cbn [keys_wfb] in Hw. rewrite Ekn in Hw.
            now apply andb_true_iff in Hw as [Hw _]. }
          destruct (key_to_string_total env fo ko t v' Hwv') as [s' Es']. exists s'. split; auto.
          intros ->. apply (Hdistinct mk' (TCont efs') (or_introl Hin')). rewrite <- E6, <- E8, E2. f_equal.
          eapply key_to_string_inj; eauto.
        * pose proof Hkl as Hkl2. rewrite Ek, E2 in Hkl2. inversion Hkl2 as [|? ? ? ? Hg _].
          rewrite (single_key_str_leaf env ko keys mn mx esfs Hsch k _ (fields_of (TCont efs)) v0 Hk Hg). exact Es.
      + unfold ss. rewrite Ek at 1. rewrite (get_rec_list_multi env fo ko o Hpa Hwi).
        rewrite <- Ek. fold ss. rewrite Hes.
        rewrite (all_g_hit env fo ko o f ss esfs keys el q trav done mk (TCont efs) more kk).
        * cbn [ename ekeys el]. fold el. rewrite Hrec. cbn [bind app]. reflexivity.
        * intros mk' e' Hin'. apply (Hother mk' e'); [rewrite Hes; apply in_or_app; now left | eapply Hdistinct; eauto].
        * intros mk' e' Hin'. apply (Hother mk' e'); [rewrite Hes; apply in_or_app; right; now right | eapply Hdistinct; eauto].
        * cbn [ekeys el]. eapply keys_match_same; eauto.
        * unfold entry_elem_keys. cbn [fields_of]. now rewrite (key_leaves_strs env ko esfs keys mk efs Hd Ha Hkl), Hkk.
  Qed.

  (* ---------- the theorem ---------- *)
  Theorem resolve_all : forall t, R t.
  Proof.
    induction t as [v|vs|fs IH|es IH|es IH] using tree_ind2.
    - split; [intros fs E; discriminate | intros es E; discriminate].
    - split; [intros fs E; discriminate | intros es E; discriminate].
    - split; [|intros es E; discriminate].
      intros fs0 E. injection E as <-. intros s sfs par items Hs Hsch Hgn Hfl.
      pose proof (struct_schema_sfields s sfs Hs) as Esf.
      rewrite find_leaves_cont_eq, Esf in Hfl.
      pose proof Hgn as Hgn0.
      rewrite gn_node_cont_eq in Hgn. apply andb_true_iff in Hgn as [Hgn Hgf]. apply andb_true_iff in Hgn as [_ Hsub].
      apply subseqb_subseq in Hsub. rewrite Esf in Hsub.
      destruct (gn_schemab_fields s Hsch) as [Hok Hch]. rewrite Esf in Hok, Hch.
      destruct (gn_struct_parts sfs Hok) as [Hso _]. destruct (struct_facts sfs Hso) as (Hd & _).
      assert (Hnd : NoDup (map fst fs)) by (eapply subseq_NoDup; eauto).
      assert (G : forall l, (forall x, In x l -> In x fs) -> forall items,
                  fl_fields env ko false sfs par l = Ok items -> Forall (found need_struct s (TCont fs) par) items).
      { induction l as [|[name sub] rest IHl]; intros Hl its Hf.
        - cbn [fl_fields] in Hf. injection Hf as <-. constructor.
        - cbn [fl_fields] in Hf.
          destruct (fl_field env ko false sfs par (name, sub)) as [here| |] eqn:Eh; try discriminate. cbn [bind] in Hf.
          destruct (fl_fields env ko false sfs par rest) as [r| |] eqn:Er; try discriminate. cbn [bind] in Hf.
          injection Hf as <-. apply Forall_app. split; [|apply IHl; auto; intros x Hx; apply Hl; now right].
          assert (Hin : In (name, sub) fs) by (apply Hl; now left).
          destruct (gn_fields_In env fo ko s fs name sub Hgf Hin) as (fi & ss & Ef & Hkm & Hgs).
          rewrite Esf in Ef. destruct (find_go_name sfs name fi ss Ef) as [Hfi Hgo].
          assert (HRs : R sub) by (rewrite Forall_forall in IH; apply (IH (name, sub) Hin)).
          pose proof (field_get_In name sub fs Hnd Hin) as Hget.
          unfold fl_field in Eh. rewrite Ef in Eh. cbv zeta in Eh.
          assert (Elib : lib_paths false fi par = map (fun alt => par ++ path_of_names alt) (f_paths fi)) by reflexivity.
          pose proof (paths_nonempty sfs fi ss Hok Hfi) as Hpne.
          (* a leaf or leaf-list field: one item per alternative *)
          assert (Hleafish : forall lv, is_leafish ss = true -> sub = lval_tree lv ->
                    Forall (found need_struct s (TCont fs) par)
                      (map (fun p => LLeaf p lv) (map (fun alt => par ++ path_of_names alt) (f_paths fi)))).
          { intros lv Hlf Hsubv. apply Forall_forall. intros it Hit. apply in_map_iff in Hit as (p & <- & Hp).
            apply in_map_iff in Hp as (alt & <- & Halt). cbn [found]. rewrite skipn_app_exact.
            intros fuel trav Hfuel. unfold need_struct in Hfuel.
            pose proof (alt_nonempty sfs fi ss alt Hok Hfi Halt) as Hane.
            assert (Hlen : length (path_of_names alt) = length alt) by (unfold path_of_names; now rewrite map_length).
            destruct (path_of_names alt) as [|e0 prest] eqn:Ep.
            { destruct alt; [congruence | discriminate]. }
            destruct fuel as [|[|f]]; try (cbn [length] in Hfuel; lia).
            rewrite (get_rec_struct env fo ko o Hsh (S f) s sfs fs fi ss alt e0 prest trav Hs Hok Hfi Halt)
              by (rewrite <- Ep, pnames_of_names; apply is_prefixb_refl).
            assert (Ec : consumed ss alt = length (e0 :: prest)).
            { unfold consumed. destruct ss; try discriminate; cbn [is_keyed_list]; now rewrite Hlen. }
            rewrite Ec, skipn_all, firstn_all. rewrite Hgo, Hget, Hsubv. reflexivity. }
          destruct sub as [v|vs|cfs|es|ues].
          + destruct ss as [ty d| | | |]; try discriminate.
            destruct (leaf_walk_ok env (SLeaf ty d) v); [|discriminate]. injection Eh as <-.
            rewrite Elib. apply (Hleafish (LV v)); reflexivity.
          + destruct ss as [|ty mn mx| | |]; try discriminate. cbn [gn_node] in Hgs.
            apply andb_true_iff in Hgs as [Hne _]. destruct vs as [|v0 vs']; [discriminate|].
            injection Eh as <-. rewrite Elib. apply (Hleafish (LVs (v0 :: vs'))); reflexivity.
          + (* container *)
            destruct ss as [| |csfs| |]; try discriminate.
            destruct (f_paths fi) as [|a0 alts] eqn:Epaths; [congruence|].
            rewrite Elib in Eh. cbn [map hd] in Eh.
            assert (Ha0 : In a0 (f_paths fi)) by (rewrite Epaths; now left).
            pose proof (alt_nonempty sfs fi _ a0 Hok Hfi Ha0) as Ha0ne.
            destruct HRs as [HRc _].
            pose proof (HRc cfs eq_refl (SCont csfs) csfs (par ++ path_of_names a0) here (ss_cont csfs) (Hch fi _ Hfi) Hgs Eh) as Hfound.
            destruct (rebuild_all env fo ko Henv (TCont cfs)) as [HPc _].
            destruct (HPc cfs eq_refl (SCont csfs) csfs (par ++ path_of_names a0) here [] (ss_cont csfs) (Hch fi _ Hfi) Hgs Eh
                        ltac:(intros n [])) as (_ & _ & Hun).
            rewrite Forall_forall in Hfound, Hun. apply Forall_forall. intros it Hit.
            specialize (Hfound it Hit). specialize (Hun it Hit).
            destruct it as [p v|]; [|exact I]. destruct Hun as (q & -> & Hq). cbn [found] in Hfound |- *.
            rewrite skipn_app_exact in Hfound. rewrite <- app_assoc, skipn_app_exact.
            intros fuel trav Hfuel. unfold need_struct in Hfuel. rewrite app_length in Hfuel.
            assert (Hlen : length (path_of_names a0) = length a0) by (unfold path_of_names; now rewrite map_length).
            destruct (path_of_names a0 ++ q) as [|e0 prest] eqn:Ep.
            { destruct a0; [congruence | discriminate]. }
            destruct fuel as [|f]; [lia|].
            rewrite (get_rec_struct env fo ko o Hsh f s sfs fs fi (SCont csfs) a0 e0 prest trav Hs Hok Hfi Ha0)
              by (rewrite <- Ep, pnames_app, pnames_of_names; apply is_prefixb_app).
            unfold consumed. cbn [is_keyed_list]. rewrite <- Ep, <- Hlen, skipn_app_exact, firstn_app, firstn_all, Nat.sub_diag.
            cbn [firstn]. rewrite app_nil_r, Hgo, Hget, Hfound by (unfold need_struct; destruct a0; [congruence | cbn [length] in *; lia]).
            now rewrite <- app_assoc.
          + (* keyed list *)
            destruct ss as [| | |ordered keys mn mx esfs|]; try discriminate.
            destruct ordered; [cbn [gn_node] in Hgs; discriminate|].
            destruct (f_paths fi) as [|a0 alts] eqn:Epaths; [congruence|].
            rewrite Elib in Eh. cbn [map hd] in Eh.
            assert (Ha0 : In a0 (f_paths fi)) by (rewrite Epaths; now left).
            pose proof (alt_nonempty sfs fi _ a0 Hok Hfi Ha0) as Ha0ne.
            rewrite (removelast_last_names a0 Ha0ne), app_assoc in Eh.
            set (front := par ++ path_of_names (removelast a0)) in *.
            set (nm := last a0 []) in *.
            rewrite gn_node_list_eq in Hgs. apply andb_true_iff in Hgs as [Hg1 Hko]. apply andb_true_iff in Hg1 as [_ Hge].
            destruct HRs as [_ HRl].
            pose proof (entries_found keys mn mx esfs front nm es (Hch fi _ Hfi) Hge Hko (HRl es eq_refl) es [] eq_refl here Eh) as Hfound.
            destruct (rebuild_all env fo ko Henv (TList es)) as [_ HPl].
            destruct (entries_fold env fo ko Henv keys mn mx esfs front nm es (Hch fi _ Hfi) Hge Hko (HPl es eq_refl) es [] eq_refl here Eh)
              as (_ & _ & Hun & Hel).
            rewrite Forall_forall in Hfound, Hun. apply Forall_forall. intros it Hit.
            specialize (Hfound it Hit). specialize (Hun it Hit).
            destruct it as [p v|]; [|exact I]. destruct Hun as (q & -> & Hq). cbn [found] in Hfound |- *.
            rewrite skipn_app_exact in Hfound. unfold front. rewrite <- app_assoc, skipn_app_exact. fold front.
            (* the first element of q is the list element *)
            assert (Hq0 : exists el q', q = el :: q' /\ ename el = nm).
            { assert (Hu : In (q, enc_l env v) (ups env front [LLeaf (front ++ q) v])).
              { unfold ups. cbn [flat_map plain_of app map fst snd]. rewrite skipn_app_exact. now left. }
              assert (Hu' : In (q, enc_l env v) (ups env front here)).
              { apply in_split in Hit as (h1 & h2 & ->). rewrite ups_app. apply in_or_app. right.
                change (LLeaf (front ++ q) v :: h2) with ([LLeaf (front ++ q) v] ++ h2). rewrite ups_app.
                apply in_or_app. now left. }
              destruct (Hel _ Hu') as (el & q' & E & Hn). exists el, q'. auto. }
            destruct Hq0 as (el & q' & -> & Hname).
            intros fuel trav Hfuel. unfold need_struct in Hfuel. rewrite app_length in Hfuel.
            assert (Hlen : length (path_of_names (removelast a0)) = Nat.pred (length a0))
              by (unfold path_of_names; now rewrite map_length, removelast_length).
            destruct (path_of_names (removelast a0) ++ el :: q') as [|e0 prest] eqn:Ep.
            { destruct (path_of_names (removelast a0)); discriminate. }
            destruct fuel as [|f]; [lia|].
            rewrite (get_rec_struct env fo ko o Hsh f s sfs fs fi (SList false keys mn mx esfs) a0 e0 prest trav Hs Hok Hfi Ha0).
            * unfold consumed. cbn [is_keyed_list]. rewrite <- Ep, <- Hlen, skipn_app_exact, firstn_app, firstn_all, Nat.sub_diag.
              cbn [firstn]. rewrite app_nil_r, Hgo, Hget, Hfound by (unfold need_list; cbn [length] in *; lia).
              now rewrite <- app_assoc.
            * assert (Eq : pnames (e0 :: prest) = a0 ++ pnames q').
              { rewrite <- Ep, pnames_app, pnames_of_names. change (pnames (el :: q')) with ([ename el] ++ pnames q').
                rewrite Hname, app_assoc. f_equal. symmetry. apply app_removelast_last. exact Ha0ne. }
              rewrite Eq. apply is_prefixb_app.
          + discriminate. }
      apply (G fs (fun x H => H) items Hfl).
    - split; [intros fs E; discriminate|].
      intros es0 E k e Hin. injection E as <-. rewrite Forall_forall in IH. apply (IH (k, e) Hin).
    - split; [intros fs E; discriminate | intros es0 E; discriminate].
  Qed.

  (* C16 (b): every leaf path of `leaves` (rooted anywhere) resolves to its leaf *)
  Theorem leaf_paths_resolve : forall S t pfx l p v,
    gn_treeb env fo ko S t = true ->
    leaves env ko false S t pfx = Ok l -> In (p, v) l ->
    get_node env fo ko o S t (skipn (length pfx) p) =
      Ok [{| gn_path := skipn (length pfx) p; gn_data := Some (lval_tree v) |}].
  Proof.
    intros S t pfx l p v Hg Hl Hin. unfold gn_treeb in Hg.
    apply andb_true_iff in Hg as [Hg Ht]. apply andb_true_iff in Hg as [Hsch Hc].
    destruct S as [| |sfs| |]; try discriminate.
    destruct t as [| |fs| |]; try discriminate.
    unfold leaves in Hl.
    destruct (find_leaves env ko false false (SCont sfs) (TCont fs) pfx) as [items| |] eqn:Ef; try discriminate.
    cbn [bind] in Hl. injection Hl as <-.
    destruct fs as [|f0 fs'].
    - cbn [find_leaves] in Ef. injection Ef as <-. destruct Hin.
    - destruct (resolve_all (TCont (f0 :: fs'))) as [HRc _].
      pose proof (HRc _ eq_refl (SCont sfs) sfs pfx items (ss_cont sfs) Hsch Ht Ef) as Hf.
      apply in_flat_map in Hin as (it & Hit & Hpv). rewrite Forall_forall in Hf. specialize (Hf it Hit).
      destruct it as [p0 v0|]; [|destruct Hpv]. destruct Hpv as [[= -> ->]|[]].
      unfold get_node. cbn [found] in Hf. rewrite Hf by (unfold need_struct; lia). reflexivity.
  Qed.
End Resolve.
