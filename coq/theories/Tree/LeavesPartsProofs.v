(* LeavesPartsProofs.v — find_leaves (ygot/render.go findUpdatedLeaves, Tree/Leaves.v) taken apart
   along the structure the node operations of ytypes/node.go work on, under the guards of C13:
   1. the schema guard c13_schemab: GnmiRt.gn_schemab (the path alternatives of the fields of a
      struct are pairwise incomparable and hold no empty name, the key lookups of a list agree),
      NodeFrameProofs.swfb, and single_pathb: a field that is not a leaf has exactly one path;
      what the guard gives for one struct (fields_incomp, find_field_alt);
   2. list keys: the key strings PathKeyFromStruct prints for an entry are those of its map key
      (entry_key_strs_ok), they are the keys of a canonical path element (canonical_keys: sorted,
      complete, each the string KeyValueAsString prints), distinct map keys print differently
      (entries_differ);
   3. the leaves of one field / one list entry: every leaf path extends the parent path
      (FL_extends), lies below a path of its field (fl_field_below), leaves of different fields /
      entries are outside each other's branches; concatM_replace: one element replaced;
   4. values the walk accepts (enumFieldToString on decoded values); the key leaves of an entry
      (kleaves): what SetReqSpec.entry_keyleaves lists, reported by an entry that holds its key
      leaves, exactly the leaves of a new entry (makeValForInsert);
   5. the schema walk of SetReqSpec (GnmiStatements.schema_at, SetReqSpec.sch_walk), one step at a
      time; the elements a field match consumes (chunk_shape); the field match of DeleteNode is
      the one of GetNode / SetNode under the guard (find_field_hit_del);
   6. one field of a struct / one entry of a list replaced (struct_replace, list_replace). *)
From Ygot Require Import Tree.Tree Scalar.Dec Scalar.Base64 Tree.Codec Tree.CodecProofs.
From Ygot Require Import Tree.TreeOps Tree.Render Tree.Unmarshal Tree.RoundTrip Tree.RoundTripObjProofs Tree.RoundTripProofs.
From Ygot Require Import Tree.KeyCodec Tree.Leaves Tree.Notif Tree.Node Tree.SetReq Path.PathRel.
From Ygot Require Import Tree.KeyCodecProofs Tree.NodeStepProofs Tree.GnmiRt Tree.GnmiRtProofs.
From Ygot Require Import Tree.MergeJson Tree.MergeJsonProofs Tree.NodeFrameProofs Tree.NodeProofs.
From Ygot Require Import Tree.GnmiStatements Tree.SetReqSpec Tree.SetReqProofs Tree.LeavesBridgeProofs.

(* ====================================================================================== *)
(* 1. The schema guard                                                                    *)
(* ====================================================================================== *)

(* a field that is not a leaf or leaf-list has exactly one path (ygen emits `a|b` alternatives
   for the key leaves of compressed lists only) *)
Definition one_pathb (fs : finfo * schema) : bool :=
  is_leafish (snd fs) || Nat.eqb (length (f_paths (fst fs))) 1.
Fixpoint single_pathb (s : schema) : bool :=
  match s with
  | SLeaf _ _ | SLeafList _ _ _ => true
  | SCont fs | SUnkeyed fs | SList _ _ _ _ fs =>
      forallb one_pathb fs
      && (fix go (l : list (finfo * schema)) : bool :=
            match l with [] => true | (_, ss) :: r => single_pathb ss && go r end) fs
  end.

Definition c13_schemab (s : schema) : bool := gn_schemab s && swfb s && single_pathb s.

Lemma single_pathb_fields s : single_pathb s = true ->
  forall fi ss, In (fi, ss) (sfields s) ->
    single_pathb ss = true /\ (is_leafish ss = true \/ exists a, f_paths fi = [a]).
Proof.
  assert (G : forall l, (fix go (l : list (finfo * schema)) : bool :=
                           match l with [] => true | (_, ss) :: r => single_pathb ss && go r end) l = true ->
                        forall fi ss, In (fi, ss) l -> single_pathb ss = true).
  { induction l as [|[f0 s0] r IH]; intros H fi ss Hin; [destruct Hin|].
    apply andb_true_iff in H as [Ha Hb]. destruct Hin as [E|Hin]; [now injection E as -> ->|eauto]. }
  assert (O : forall fi ss, one_pathb (fi, ss) = true -> is_leafish ss = true \/ exists a, f_paths fi = [a]).
  { intros fi ss H. unfold one_pathb in H. cbn [fst snd] in H. apply orb_true_iff in H as [H|H]; [now left|right].
    apply Nat.eqb_eq in H. destruct (f_paths fi) as [|a [|b r]]; try discriminate. eauto. }
  destruct s; cbn [single_pathb sfields]; intros H fi ss Hin; try (now destruct Hin);
    apply andb_true_iff in H as [H1 H2]; rewrite forallb_forall in H1; split; eauto.
Qed.

Lemma c13_schemab_parts s : c13_schemab s = true -> gn_schemab s = true /\ swfb s = true /\ single_pathb s = true.
Proof. unfold c13_schemab. intros H. apply andb_true_iff in H as [H H3]. apply andb_true_iff in H as [H1 H2]. auto. Qed.

Lemma c13_schemab_fields s : c13_schemab s = true ->
  forall fi ss, In (fi, ss) (sfields s) ->
    c13_schemab ss = true /\ (is_leafish ss = true \/ exists a, f_paths fi = [a]).
Proof.
  intros H fi ss Hin. destruct (c13_schemab_parts s H) as (H1 & H2 & H3).
  destruct (gn_schemab_fields s H1) as [_ G1]. destruct (swfb_fields s H2) as [_ G2].
  destruct (single_pathb_fields s H3 fi ss Hin) as [G3 G4]. split; auto.
  unfold c13_schemab. now rewrite (G1 _ _ Hin), (G2 _ _ Hin), G3.
Qed.

(* ---------- one struct ---------- *)

Lemma find_go (sfs : list (finfo * schema)) : forall fi ss,
  NoDup (go_names sfs) -> In (fi, ss) sfs ->
  find (fun fs => str_eqb (f_go (fst fs)) (f_go fi)) sfs = Some (fi, ss).
Proof.
  induction sfs as [|[f0 s0] t IH]; intros fi ss Hd Hin; [destruct Hin|].
  simpl in Hd. inversion Hd as [|x l Hnin Hd']; subst. destruct Hin as [E|Hin]; simpl.
  - injection E as -> ->. now rewrite cstr_eqb_refl.
  - destruct (str_eqb (f_go f0) (f_go fi)) eqn:E; [|auto].
    apply cstr_eqb_eq in E. exfalso. apply Hnin. rewrite E.
    apply (in_map (fun fs => f_go (fst fs)) _ _ Hin).
Qed.

(* alternatives of two different fields are incomparable *)
Lemma fields_incomp : forall (sfs : list (finfo * schema)) f1 s1 f2 s2 a1 a2,
  struct_okb sfs = true -> In (f1, s1) sfs -> In (f2, s2) sfs -> f_go f1 <> f_go f2 ->
  In a1 (f_paths f1) -> In a2 (f_paths f2) -> incomp a1 a2.
Proof.
  intros sfs f1 s1 f2 s2 a1 a2 Hok. destruct (struct_facts sfs Hok) as (_ & _ & Hdis & _). clear Hok.
  induction sfs as [|[f0 s0] r IH]; intros H1 H2 Hne Ha1 Ha2; [destruct H1|].
  assert (Hal : forall f s a, In a (f_paths f) -> In a (alts_of (f, s))).
  { intros f s a Ha. unfold alts_of, field_alts. simpl. apply in_or_app. now left. }
  destruct H1 as [E1|H1], H2 as [E2|H2].
  - congruence.
  - injection E1 as -> ->. eapply (disjoint_later ((f1, s1) :: r) [] (f1, s1) r Hdis eq_refl (f2, s2)); eauto.
  - injection E2 as -> ->. apply incomp_sym.
    eapply (disjoint_later ((f2, s2) :: r) [] (f2, s2) r Hdis eq_refl (f1, s1)); eauto.
  - simpl in Hdis. apply andb_true_iff in Hdis as [_ Hdis]. apply IH; auto.
Qed.

(* a field match: the alternative is one of the field's paths *)
Lemma try_paths_alt del path fi ss : forall ps sl ok fj sj alt b,
  try_paths del path fi ss ps sl ok = Some (FMPath fj sj alt b) -> In alt ps /\ b = sl.
Proof.
  induction ps as [|p rest IH]; intros sl ok fj sj alt b H; simpl in H; [discriminate|].
  destruct (path_matches_prefix path p); [injection H as <- <- <- <-; split; [now left|reflexivity]|].
  destruct (ok && path_partially_matches path p && is_ordered_list ss && del); [discriminate|].
  apply IH in H as [H1 H2]. split; [now right|auto].
Qed.

Lemma find_field_alt del path : forall sfs fi ss alt,
  find_field false del path sfs = FMPath fi ss alt false -> In alt (f_paths fi).
Proof.
  induction sfs as [|[f0 s0] rest IH]; intros fi ss alt H; simpl in H; [discriminate|].
  destruct (try_paths del path f0 s0 (f_paths f0) false true) as [m|] eqn:E1.
  - subst m. pose proof (try_paths_shape _ _ _ _ _ _ _ _ E1) as [(a & [= Q1 Q2 Q3] & _)|]; [|discriminate].
    subst. now apply try_paths_alt in E1 as [E1 _].
  - destruct (try_paths del path f0 s0 (f_spaths f0) true false) as [m|] eqn:E2; [|eauto].
    subst m. apply try_paths_alt in E2 as [_ E2]. discriminate.
Qed.

(* ====================================================================================== *)
(* 2. List keys                                                                           *)
(* ====================================================================================== *)

Lemma keys_sorted_ssorted : forall ek, keys_sortedb ek = true -> ssorted ek.
Proof.
  induction ek as [|[k v] t IH]; intros H; [exact I|]. cbn [keys_sortedb] in H.
  destruct t as [|[k' v'] t']; [split; [intros ? []|exact I]|].
  apply andb_true_iff in H as [H1 H2]. specialize (IH H2). destruct IH as [IH1 IH2].
  assert (Hlt : str_cmp k k' = Lt) by (unfold str_ltb in H1; destruct (str_cmp k k'); congruence).
  split; [|split; auto]. intros kv [<-|Hin]; [exact Hlt|].
  eapply str_cmp_lt_trans; [exact Hlt | apply IH1; exact Hin].
Qed.

Lemma ssorted_find_none {V} k (v : V) t : ssorted ((k, v) :: t) -> al_find k t = None.
Proof.
  intros [H _]. destruct (al_find k t) as [x|] eqn:E; [|reflexivity].
  apply al_find_In in E. specialize (H _ E). simpl in H. now rewrite str_cmp_refl in H.
Qed.

Lemma ssorted_ext {V} : forall a b : list (str * V), ssorted a -> ssorted b ->
  (forall k, al_find k a = al_find k b) -> a = b.
Proof.
  induction a as [|[k v] a IH]; intros [|[k' v'] b] Ha Hb H.
  - reflexivity.
  - specialize (H k'). simpl in H. now rewrite cstr_eqb_refl in H.
  - specialize (H k). simpl in H. now rewrite cstr_eqb_refl in H.
  - assert (Ek : k = k').
    { pose proof (H k) as H1. pose proof (H k') as H2. simpl in H1, H2. rewrite cstr_eqb_refl in H1, H2.
      destruct (str_eqb k k') eqn:E; [now apply cstr_eqb_eq|]. exfalso.
      assert (E' : str_eqb k' k = false) by (apply str_eqb_false_neq; apply str_eqb_false_neq in E; congruence).
      rewrite E' in H2. symmetry in H1. apply al_find_In in H1. apply al_find_In in H2.
      destruct Ha as [Ha _], Hb as [Hb _]. specialize (Ha _ H2). specialize (Hb _ H1). simpl in Ha, Hb.
      eapply str_cmp_lt_asym; eauto. }
    subst k'. pose proof (H k) as Hk. simpl in Hk. rewrite cstr_eqb_refl in Hk. injection Hk as <-.
    f_equal. apply IH; [apply Ha | apply Hb |]. intros k0.
    destruct (str_eqb k0 k) eqn:E.
    + apply cstr_eqb_eq in E. subst k0. now rewrite (ssorted_find_none _ _ _ Ha), (ssorted_find_none _ _ _ Hb).
    + specialize (H k0). simpl in H. now rewrite E in H.
Qed.

Lemma ssorted_nodup : forall ek : list (str * str), ssorted ek -> nodup_keysb ek = true.
Proof.
  induction ek as [|[k v] t IH]; intros H; [reflexivity|]. cbn [nodup_keysb].
  pose proof (ssorted_find_none _ _ _ H) as Hn. destruct H as [_ H]. rewrite (IH H), andb_true_r.
  unfold has_key. now rewrite Hn.
Qed.

Section KeyStrs.
  Variable env : enum_env.
  Variable fo : float_oracle.
  Variable ko : key_oracle.
  Notation keys_ok := (keys_ok env fo ko).
  Notation path_key := (path_key env fo ko).

  (* PathKeyFromStruct on an entry whose key leaves equal its map key *)
  Lemma entry_key_strs_ok sfs : forall keys mk fs, keys_ok sfs keys mk fs = true ->
    entry_key_strs env ko sfs keys fs = mapkey_strs env ko keys mk.
  Proof.
    induction keys as [|k ks IH]; intros mk fs Hk; [destruct mk; reflexivity|].
    destruct mk as [|v vs]; [discriminate|]. cbn [NodeFrameProofs.keys_ok] in Hk.
    cbn [entry_key_strs mapkey_strs].
    destruct (key_field sfs k) as [[fi [t d| | | |]]|]; try discriminate.
    apply andb_true_iff in Hk as [Hk Hk3]. apply andb_true_iff in Hk as [Hk1 Hk2].
    destruct (field_get (f_go fi) fs) as [[v'| | | |]|]; try discriminate.
    apply scalar_eqb_eq in Hk2. subst v'. now rewrite (IH _ _ Hk3).
  Qed.

  (* the key strings of the tuple a canonical path element parses to *)
  Lemma mapkey_strs_path sfs ek : forall keys mk, NoDup keys -> path_key false sfs keys ek = Some mk ->
    exists kk, mapkey_strs env ko keys mk = Ok kk /\ ssorted kk
      /\ (forall k, In k keys -> al_find k kk = al_find k ek /\ al_find k ek <> None)
      /\ (forall k, ~ In k keys -> al_find k kk = None).
  Proof.
    induction keys as [|k ks IH]; intros mk Hd Hp.
    - simpl in Hp. injection Hp as <-. exists []. split; [reflexivity|]. split; [exact I|]. split; [intros k0 []|reflexivity].
    - cbn [NodeFrameProofs.path_key] in Hp.
      destruct (al_find k ek) as [s|] eqn:Es; [|discriminate].
      destruct (key_field sfs k) as [[fi [t d| | | |]]|]; try discriminate.
      destruct (parse_key env fo ko false t s) as [pv| |] eqn:Epv; try discriminate.
      destruct (key_canon env ko pv s) eqn:Ec; [|discriminate].
      destruct (path_key false sfs ks ek) as [r|] eqn:Er; [|discriminate]. injection Hp as <-.
      inversion Hd as [|? ? Hnin Hd']; subst.
      destruct (IH r Hd' eq_refl) as (kk & Hm & Hs & Hin & Hout).
      unfold key_canon in Ec. destruct (key_to_string env ko pv) as [s'| |] eqn:Eks; try discriminate.
      apply cstr_eqb_eq in Ec. subst s'.
      exists (al_insert k s kk). cbn [mapkey_strs]. rewrite Eks, Hm. cbn [bind].
      split; [reflexivity|]. split; [now apply al_insert_ssorted|]. split.
      + intros k0 [<-|Hk0].
        * rewrite al_find_insert_same, Es. split; [reflexivity|discriminate].
        * rewrite al_find_insert_other by (intros ->; contradiction). auto.
      + intros k0 Hk0. rewrite al_find_insert_other by (intros ->; apply Hk0; now left).
        apply Hout. intros H. apply Hk0. now right.
  Qed.

  Lemma canonical_keys sfs ek keys mk : NoDup keys -> path_key false sfs keys ek = Some mk ->
    keys_sortedb ek = true -> length ek = length keys -> mapkey_strs env ko keys mk = Ok ek.
  Proof.
    intros Hd Hp Hs Hl. destruct (mapkey_strs_path sfs ek keys mk Hd Hp) as (kk & Hm & Hss & Hin & Hout).
    rewrite Hm. f_equal. apply ssorted_ext; auto; [now apply keys_sorted_ssorted|].
    intros k. destruct (in_dec (list_eq_dec N.eq_dec) k keys) as [Hk|Hk]; [now apply Hin|].
    rewrite (Hout k Hk). destruct (al_find k ek) as [s|] eqn:E; [|reflexivity]. exfalso. apply Hk.
    assert (Hincl : incl (map fst ek) keys).
    { apply NoDup_length_incl; auto; [rewrite map_length; lia|].
      intros k0 Hk0. destruct (Hin k0 Hk0) as [_ Hne]. destruct (al_find k0 ek) as [s0|] eqn:E0; [|congruence].
      apply al_find_In in E0. apply (in_map fst _ _ E0). }
    apply Hincl. apply al_find_In in E. apply (in_map fst _ _ E).
  Qed.

  (* distinct map keys print differently *)
  Lemma mapkey_strs_inj sfs : forall keys k1 k2 fs1 fs2 kk1 kk2, NoDup keys ->
    keys_ok sfs keys k1 fs1 = true -> keys_ok sfs keys k2 fs2 = true ->
    mapkey_strs env ko keys k1 = Ok kk1 -> mapkey_strs env ko keys k2 = Ok kk2 ->
    (forall k s, In k keys -> al_find k kk1 = Some s -> al_find k kk2 = Some s) -> k1 = k2.
  Proof.
    induction keys as [|k ks IH]; intros k1 k2 fs1 fs2 kk1 kk2 Hd H1 H2 M1 M2 H.
    - destruct k1, k2; try discriminate. reflexivity.
    - destruct k1 as [|v1 r1], k2 as [|v2 r2]; try discriminate.
      cbn [NodeFrameProofs.keys_ok] in H1, H2. cbn [mapkey_strs] in M1, M2.
      destruct (key_field sfs k) as [[fi [t d| | | |]]|]; try discriminate.
      apply andb_true_iff in H1 as [H1 H13]. apply andb_true_iff in H1 as [H11 _].
      apply andb_true_iff in H2 as [H2 H23]. apply andb_true_iff in H2 as [H21 _].
      destruct (key_rt_str env fo ko _ _ H11) as (s1 & Es1 & Ek1).
      destruct (key_rt_str env fo ko _ _ H21) as (s2 & Es2 & Ek2).
      rewrite Es1 in M1. rewrite Es2 in M2. cbn [bind] in M1, M2.
      destruct (mapkey_strs env ko ks r1) as [kk1'| |] eqn:E1; try discriminate.
      destruct (mapkey_strs env ko ks r2) as [kk2'| |] eqn:E2; try discriminate.
      cbn [bind] in M1, M2. injection M1 as <-. injection M2 as <-.
      inversion Hd as [|? ? Hnin Hd']; subst.
      pose proof (H k s1 (or_introl eq_refl) (al_find_insert_same _ _ _)) as Hh.
      rewrite al_find_insert_same in Hh. injection Hh as <-.
      assert (v1 = v2) by congruence. subst v2. f_equal.
      apply (IH r1 r2 fs1 fs2 kk1' kk2' Hd' H13 H23 E1 E2).
      intros k0 s Hk0 Hf. assert (Hne : k0 <> k) by (intros ->; contradiction).
      specialize (H k0 s (or_intror Hk0)). rewrite !al_find_insert_other in H by exact Hne. auto.
  Qed.

  Lemma mapkey_strs_has sfs : forall keys mk fs kk, NoDup keys -> keys_ok sfs keys mk fs = true ->
    mapkey_strs env ko keys mk = Ok kk -> forall k, In k keys -> exists s, al_find k kk = Some s.
  Proof.
    induction keys as [|k ks IH]; intros mk fs kk Hd Hk M k0 Hin; [destruct Hin|].
    destruct mk as [|v vs]; [discriminate|].
    cbn [NodeFrameProofs.keys_ok] in Hk. cbn [mapkey_strs] in M.
    destruct (key_field sfs k) as [[fi [t d| | | |]]|]; try discriminate.
    apply andb_true_iff in Hk as [Hk Hk3].
    destruct (key_to_string env ko v) as [s| |]; try discriminate. cbn [bind] in M.
    destruct (mapkey_strs env ko ks vs) as [kk'| |] eqn:E; try discriminate. cbn [bind] in M. injection M as <-.
    inversion Hd as [|x l Hnin Hd']; subst. destruct Hin as [<-|Hin].
    - exists s. apply al_find_insert_same.
    - destruct (IH _ _ _ Hd' Hk3 E k0 Hin) as (s0 & Hs0). exists s0.
      rewrite al_find_insert_other; auto. intros ->. contradiction.
  Qed.

  Lemma entries_differ sfs keys nm nm' k1 k2 fs1 fs2 kk1 kk2 : NoDup keys ->
    keys_ok sfs keys k1 fs1 = true -> keys_ok sfs keys k2 fs2 = true ->
    mapkey_strs env ko keys k1 = Ok kk1 -> mapkey_strs env ko keys k2 = Ok kk2 ->
    elems_equal {| ename := nm; ekeys := kk1 |} {| ename := nm'; ekeys := kk2 |} = true -> k1 = k2.
  Proof.
    intros Hd H1 H2 M1 M2 He. apply (mapkey_strs_inj sfs keys k1 k2 fs1 fs2 kk1 kk2 Hd H1 H2 M1 M2).
    intros k s Hk Hf. unfold elems_equal in He. apply andb_true_iff in He as [_ He]. cbn [ekeys] in He.
    rewrite forallb_forall in He. apply al_find_In in Hf. specialize (He _ Hf). cbn [fst snd] in He.
    destruct (al_find k kk2) as [vo|]; [|discriminate]. apply cstr_eqb_eq in He. now subst.
  Qed.
End KeyStrs.

(* ====================================================================================== *)
(* 3. The leaves of one field, of one list entry                                          *)
(* ====================================================================================== *)

(* one element of a concatM list replaced (or added, or removed): the rest contributes the same *)
Lemma concatM_replace {A B C} (f : A -> result (list B)) (g : B -> list C) (sel : A -> bool)
    (l l' : list A) (c0 c3 : option A) items :
  (forall x, In x l -> sel x = true -> c0 = Some x) -> (forall x, c0 = Some x -> In x l /\ sel x = true) ->
  (forall x, In x l' -> sel x = true -> c3 = Some x) -> (forall x, c3 = Some x -> In x l' /\ sel x = true) ->
  (forall x, sel x = false -> (In x l' <-> In x l)) ->
  concatM f l = Ok items ->
  (forall x, c3 = Some x -> exists h, f x = Ok h) ->
  let Lo := fun c => match c with Some x => match f x with Ok h => flat_map g h | _ => [] end | None => [] end in
  exists oitems items', concatM f l' = Ok items'
    /\ (forall e, In e (flat_map g items) <-> In e (Lo c0 ++ flat_map g oitems))
    /\ (forall e, In e (flat_map g items') <-> In e (Lo c3 ++ flat_map g oitems))
    /\ (forall e, In e (flat_map g oitems) -> exists x h, In x l /\ sel x = false /\ f x = Ok h /\ In e (flat_map g h)).
Proof.
  intros Hl Hl0 Hl' Hl0' Hoth Hc Hf3 Lo.
  destruct (concatM_ok f (filter (fun x => negb (sel x)) l)) as (oitems & Ho).
  { intros x Hx. apply filter_In in Hx as [Hx _]. exact (concatM_inv f l items Hc x Hx). }
  destruct (concatM_ok f l') as (items' & Hc').
  { intros x Hx. destruct (sel x) eqn:Es.
    - apply Hf3. now apply Hl'.
    - apply (Hoth x Es) in Hx. exact (concatM_inv f l items Hc x Hx). }
  exists oitems, items'. split; [exact Hc'|].
  assert (HO : forall e, In e (flat_map g oitems) <-> exists x h, In x l /\ sel x = false /\ f x = Ok h /\ In e (flat_map g h)).
  { intros e. rewrite (concatM_In f g _ _ Ho e). split.
    - intros (x & h & Hx & Hf & He). apply filter_In in Hx as [Hx Hs]. apply negb_true_iff in Hs. eauto 10.
    - intros (x & h & Hx & Hs & Hf & He). exists x, h.
      split; [apply filter_In; split; [exact Hx | now rewrite Hs] | split; assumption]. }
  assert (HLo : forall (ll : list A) c its, concatM f ll = Ok its ->
            (forall x, In x ll -> sel x = true -> c = Some x) -> (forall x, c = Some x -> In x ll /\ sel x = true) ->
            (forall x, sel x = false -> (In x ll <-> In x l)) ->
            forall e, In e (flat_map g its) <-> In e (Lo c ++ flat_map g oitems)).
  { intros ll c its Hcc H1 H2 H3 e. rewrite in_app_iff, HO, (concatM_In f g _ _ Hcc e). split.
    - intros (x & h & Hx & Hf & He). destruct (sel x) eqn:Es.
      + left. rewrite (H1 x Hx Es). unfold Lo. now rewrite Hf.
      + right. exists x, h. split; [now apply (H3 x Es)|auto].
    - intros [H|(x & h & Hx & Hs & Hf & He)].
      + unfold Lo in H. destruct c as [x|]; [|destruct H]. destruct (f x) as [h| |] eqn:Ef; try (now destruct H).
        exists x, h. destruct (H2 x eq_refl). auto.
      + exists x, h. split; [now apply (H3 x Hs)|auto]. }
  split; [|split].
  - apply (HLo l c0 items Hc Hl Hl0). intros; tauto.
  - apply (HLo l' c3 items' Hc' Hl' Hl0' Hoth).
  - intros e He. now apply HO.
Qed.

Section FLParts.
  Variable env : enum_env.
  Variable ko : key_oracle.
  Notation FLv := (find_leaves env ko false).
  Notation L := (flat_map plain_of).

  Definition fl_entry (at_ : bool) (ss : schema) (esfs : list (finfo * schema)) (keys : list str) (p0 : dpath)
      (ke : list scalar * tree) : result (list litem) :=
    bind (entry_key_strs env ko esfs keys (fields_of (snd ke))) (fun kstrs =>
    bind (set_last_keys p0 kstrs) (fun child => FLv at_ ss (snd ke) child)).

  Lemma fl_entries_concat at_ ss esfs keys p0 : forall l,
    fl_entries env ko at_ ss esfs keys p0 l = concatM (fl_entry at_ ss esfs keys p0) l.
  Proof.
    induction l as [|[k e] more IH]; [reflexivity|]. cbn [fl_entries concatM]. rewrite IH. unfold fl_entry. cbn [snd].
    destruct (entry_key_strs env ko esfs keys (fields_of e)) as [kstrs| |]; try reflexivity. cbn [bind].
    destruct (set_last_keys p0 kstrs) as [child| |]; reflexivity.
  Qed.

  Lemma fl_fields_concat at_ sfs par : forall l,
    fl_fields env ko at_ sfs par l = concatM (fl_field env ko at_ sfs par) l.
  Proof. induction l as [|nt r IH]; [reflexivity|]. cbn [fl_fields concatM]. now rewrite IH. Qed.

  Lemma FL_struct at_ s fs par : FLv at_ s (TCont fs) par = concatM (fl_field env ko at_ (sfields s) par) fs.
  Proof. now rewrite find_leaves_cont_eq, fl_fields_concat. Qed.

  (* ---------- every leaf path extends the parent path ---------- *)
  Lemma set_last_keys_names : forall p ks c, set_last_keys p ks = Ok c -> pnames c = pnames p.
  Proof.
    induction p as [|e p IH]; intros ks c H; [discriminate|].
    destruct p as [|e2 p']; [injection H as <-; auto|].
    rewrite set_last_keys_cons in H by discriminate.
    destruct (set_last_keys (e2 :: p') ks) as [r| |] eqn:E; try discriminate. simpl in H. injection H as <-.
    pose proof (IH _ _ E) as H1. simpl in *. now rewrite H1.
  Qed.

  Definition extends (par : dpath) (items : list litem) : Prop :=
    forall q w, In (q, w) (L items) -> exists y, q = par ++ y.

  Lemma lib_paths_hd fi par : f_paths fi <> [] ->
    exists a0, In a0 (f_paths fi) /\ hd [] (lib_paths false fi par) = par ++ path_of_names a0.
  Proof.
    intros H. unfold lib_paths, tag_paths. simpl. destruct (f_paths fi) as [|a0 r]; [congruence|].
    exists a0. split; [now left | reflexivity].
  Qed.

  Lemma leaf_items_In (ps : list dpath) lv q w :
    In (q, w) (L (map (fun p => LLeaf p lv) ps)) <-> In q ps /\ w = lv.
  Proof.
    rewrite in_flat_map. split.
    - intros (it & Hit & Hpv). apply in_map_iff in Hit as (p & <- & Hp). destruct Hpv as [[= <- <-]|[]]. auto.
    - intros [Hq ->]. exists (LLeaf q lv). split; [apply in_map_iff; eauto | now left].
  Qed.

  (* where the leaves of a field lie: below the parent path and one of the field's paths *)
  Definition below_field (par : dpath) (fi : finfo) (q : dpath) : Prop :=
    exists a y, In a (f_paths fi) /\ q = par ++ y /\ is_prefixb a (pnames y) = true.

  Definition Pext (t : tree) : Prop := forall at_ s par items,
    gn_schemab s = true -> FLv at_ s t par = Ok items -> extends par items.

  Lemma FL_extends_all : forall t, Pext t /\ (forall es, t = TList es -> forall k e, In (k, e) es -> Pext e).
  Proof.
    induction t as [v|vs|fs IH|es IH|es IH] using tree_ind2;
      (split; [|try (intros es0 E; discriminate)]); try (intros at_ s par items Hg H; discriminate).
    - intros at_ s par items Hg H. rewrite FL_struct in H.
      destruct (gn_schemab_fields s Hg) as [Hok Hch].
      intros q w Hin. apply (concatM_In _ plain_of _ _ H) in Hin as ([name sub] & h & Hx & Hf & He).
      rewrite Forall_forall in IH. specialize (IH _ Hx). cbn [snd] in IH. destruct IH as [IH1 IH2].
      unfold fl_field in Hf. destruct (find _ (sfields s)) as [[fi ss]|] eqn:Efind; [|discriminate]. cbv zeta in Hf.
      destruct (find_go_name _ _ _ _ Efind) as [Hfi _].
      destruct (lib_paths_hd fi par (paths_nonempty _ _ _ Hok Hfi)) as (a0 & Ha0 & Ehd). rewrite Ehd in Hf.
      assert (Hps : forall p, In p (lib_paths false fi par) -> exists y, p = par ++ y).
      { intros p Hp. unfold lib_paths in Hp. apply in_map_iff in Hp as (alt & <- & _). eauto. }
      destruct sub as [v|vs|cfs|es|ues].
      + destruct (leaf_walk_ok env ss v); [|discriminate]. injection Hf as <-.
        apply leaf_items_In in He as [He _]. auto.
      + destruct vs as [|v0 vs']; injection Hf as <-; [destruct He|]. apply leaf_items_In in He as [He _]. auto.
      + destruct (IH1 _ _ _ _ (Hch _ _ Hfi) Hf q w He) as (y & ->). exists (path_of_names a0 ++ y). now rewrite app_assoc.
      + destruct ss as [| | |ordered keys mn mx esfs|]; try discriminate.
        destruct ordered.
        * destruct at_; [discriminate|].
          destruct (fl_entries env ko true _ esfs keys _ es) as [its| |]; try discriminate. cbn [bind] in Hf.
          destruct (flat_map plain_of its); [injection Hf as <-; destruct He|].
          destruct (par ++ path_of_names a0); [discriminate|]. injection Hf as <-. destruct He.
        * rewrite fl_entries_concat in Hf.
          apply (concatM_In _ plain_of _ _ Hf) in He as ([k e] & h' & Hx' & Hf' & He').
          unfold fl_entry in Hf'. cbn [snd] in Hf'.
          destruct (entry_key_strs env ko esfs keys (fields_of e)) as [kstrs| |]; try discriminate. cbn [bind] in Hf'.
          destruct (set_last_keys (par ++ path_of_names a0) kstrs) as [child| |] eqn:Ec; try discriminate. cbn [bind] in Hf'.
          destruct (IH2 es eq_refl k e Hx' _ _ _ _ (Hch _ _ Hfi) Hf' q w He') as (y & ->).
          pose proof (alt_nonempty _ _ _ _ Hok Hfi Ha0) as Hne.
          rewrite (removelast_last_names a0 Hne), app_assoc in Ec. rewrite set_last_keys_snoc in Ec. injection Ec as <-.
          rewrite <- !app_assoc. eauto.
      + discriminate.
    - intros es0 [= <-] k e Hin. rewrite Forall_forall in IH. apply (IH (k, e) Hin).
  Qed.

  Lemma FL_extends t at_ s par items : gn_schemab s = true -> FLv at_ s t par = Ok items -> extends par items.
  Proof. apply (FL_extends_all t). Qed.

  (* ---------- the leaves of one field lie below the parent path and one of the field's paths ---------- *)
  Lemma fl_field_below at_ sfs par name sub h fi ss :
    gn_struct_okb sfs = true -> gn_schemab ss = true ->
    find (fun fs => str_eqb (f_go (fst fs)) name) sfs = Some (fi, ss) ->
    fl_field env ko at_ sfs par (name, sub) = Ok h ->
    forall q w, In (q, w) (L h) -> below_field par fi q.
  Proof.
    intros Hok Hgs Efind Hf q w He. unfold fl_field in Hf. rewrite Efind in Hf. cbv zeta in Hf.
    destruct (find_go_name _ _ _ _ Efind) as [Hfi _].
    destruct (lib_paths_hd fi par (paths_nonempty _ _ _ Hok Hfi)) as (a0 & Ha0 & Ehd). rewrite Ehd in Hf.
    assert (Hleaf : forall lv, In (q, w) (L (map (fun p => LLeaf p lv) (lib_paths false fi par))) -> below_field par fi q).
    { intros lv H. apply leaf_items_In in H as [H _]. unfold lib_paths in H. apply in_map_iff in H as (a & <- & Ha).
      exists a, (path_of_names a). split; [exact Ha|]. split; [reflexivity|]. rewrite pnames_of_names. apply is_prefixb_refl. }
    destruct sub as [v|vs|cfs|es|ues].
    - destruct (leaf_walk_ok env ss v); [|discriminate]. injection Hf as <-. eauto.
    - destruct vs as [|v0 vs']; injection Hf as <-; [destruct He|]. eauto.
    - destruct (FL_extends _ _ _ _ _ Hgs Hf q w He) as (y & ->).
      exists a0, (path_of_names a0 ++ y). split; [exact Ha0|]. split; [now rewrite app_assoc|].
      rewrite pnames_app, pnames_of_names. apply is_prefixb_app.
    - destruct ss as [| | |ordered keys mn mx esfs|]; try discriminate.
      destruct ordered.
      + destruct at_; [discriminate|].
        destruct (fl_entries env ko true _ esfs keys _ es) as [its| |]; try discriminate. cbn [bind] in Hf.
        destruct (flat_map plain_of its); [injection Hf as <-; destruct He|].
        destruct (par ++ path_of_names a0); [discriminate|]. injection Hf as <-. destruct He.
      + rewrite fl_entries_concat in Hf.
        apply (concatM_In _ plain_of _ _ Hf) in He as ([k e] & h' & Hx' & Hf' & He').
        unfold fl_entry in Hf'. cbn [snd] in Hf'.
        destruct (entry_key_strs env ko esfs keys (fields_of e)) as [kstrs| |]; try discriminate. cbn [bind] in Hf'.
        destruct (set_last_keys (par ++ path_of_names a0) kstrs) as [child| |] eqn:Ec; try discriminate. cbn [bind] in Hf'.
        destruct (FL_extends _ _ _ _ _ Hgs Hf' q w He') as (y & ->).
        pose proof (alt_nonempty _ _ _ _ Hok Hfi Ha0) as Hne.
        rewrite (removelast_last_names a0 Hne), app_assoc in Ec. rewrite set_last_keys_snoc in Ec. injection Ec as <-.
        exists a0. eexists. split; [exact Ha0|]. split; [rewrite <- !app_assoc; reflexivity|].
        rewrite !pnames_app, pnames_of_names. cbn [pnames map ename mk_elem app].
        assert (E : forall z, removelast a0 ++ (last a0 [] :: z) = a0 ++ z).
        { intros z. transitivity ((removelast a0 ++ [last a0 []]) ++ z); [now rewrite <- app_assoc|].
          now rewrite <- app_removelast_last. }
        rewrite E. apply is_prefixb_app.
    - discriminate.
  Qed.

  (* two different fields of a struct: the leaves of one are outside every branch of the other *)
  Lemma below_other_outside sfs par fi ss fj sj alt dch x q :
    struct_okb sfs = true -> In (fi, ss) sfs -> In (fj, sj) sfs -> f_go fj <> f_go fi ->
    In alt (f_paths fi) -> pnames dch = alt -> below_field par fj q ->
    elems_prefix ((par ++ dch) ++ x) q = false.
  Proof.
    intros Hok Hi Hj Hne Halt Hd (a' & y & Ha' & -> & Hp).
    destruct (elems_prefix ((par ++ dch) ++ x) (par ++ y)) eqn:E; [|reflexivity]. exfalso.
    rewrite <- app_assoc in E. apply elems_prefix_app_same, elems_prefix_names in E.
    rewrite pnames_app, Hd in E.
    assert (H1 : is_prefixb alt (pnames y) = true) by (eapply is_prefixb_trans; [apply is_prefixb_app | exact E]).
    assert (Hinc : incomp alt a') by (eapply (fields_incomp sfs fi ss fj sj); eauto).
    exact (incomp_not_both_prefix alt a' _ Hinc H1 Hp).
  Qed.

  (* the leaves of a list entry lie below the path of the entry; another entry is outside *)
  Lemma fl_entry_extends at_ ss esfs keys front nm k e h kk :
    gn_schemab ss = true -> entry_key_strs env ko esfs keys (fields_of e) = Ok kk ->
    fl_entry at_ ss esfs keys (front ++ [mk_elem nm]) (k, e) = Ok h ->
    FLv at_ ss e (front ++ [{| ename := nm; ekeys := kk |}]) = Ok h
    /\ extends (front ++ [{| ename := nm; ekeys := kk |}]) h.
  Proof.
    intros Hg Hk Hf. unfold fl_entry in Hf. cbn [snd] in Hf. rewrite Hk in Hf. cbn [bind] in Hf.
    rewrite set_last_keys_snoc in Hf. cbn [bind ename mk_elem] in Hf. split; [exact Hf|].
    eapply FL_extends; eauto.
  Qed.

  Lemma entry_outside front nm ek kk (O : lmap) :
    elems_equal {| ename := nm; ekeys := ek |} {| ename := nm; ekeys := kk |} = false ->
    inside (front ++ [{| ename := nm; ekeys := kk |}]) O ->
    outside (front ++ [{| ename := nm; ekeys := ek |}]) O.
  Proof.
    intros Hne Hin q w Hq x. destruct (Hin q w Hq) as (y & ->).
    destruct (elems_prefix ((front ++ [{| ename := nm; ekeys := ek |}]) ++ x) ((front ++ [{| ename := nm; ekeys := kk |}]) ++ y)) eqn:E;
      [|reflexivity].
    rewrite <- !app_assoc in E. apply elems_prefix_app_same in E. cbn [app elems_prefix] in E.
    apply andb_true_iff in E as [E _]. congruence.
  Qed.
End FLParts.

(* ====================================================================================== *)
(* 4. Values the walk accepts; the key leaves of an entry                                 *)
(* ====================================================================================== *)

Lemma enum_cast_by_num : forall tb s e, enum_cast tb s = Some e -> enum_by_num tb (ev_num e) <> None.
Proof.
  induction tb as [|e0 r IH]; intros s e H; simpl in H; [discriminate|]. simpl.
  destruct (ev_num e0 =? ev_num e)%Z eqn:En; [discriminate|].
  destruct (str_eqb (strip_mod (ev_name e0)) (strip_mod s)); [|eauto].
  injection H as ->. now rewrite Z.eqb_refl in En.
Qed.

Lemma walk_enum env ty d s e : enum_cast (enum_table env ty) s = Some e ->
  forall t, leaf_walk_ok env (SLeaf t d) (VEnum ty (ev_num e)) = true.
Proof.
  intros H t. apply enum_cast_by_num in H. cbn [leaf_walk_ok]. destruct (is_enum_type t); [|reflexivity].
  destruct (enum_by_num (enum_table env ty) (ev_num e)); [reflexivity|congruence].
Qed.

Lemma walk_not_enum env t d v : is_enum_type t = false -> leaf_walk_ok env (SLeaf t d) v = true.
Proof. intros H. destruct v; cbn [leaf_walk_ok]; try reflexivity. now rewrite H. Qed.

Lemma walk_lref env t d v : leaf_walk_ok env (SLeaf (YLeafref t) d) v = leaf_walk_ok env (SLeaf t d) v.
Proof. destruct v; reflexivity. Qed.

Lemma string_to_key_walk env fo ko : forall t s v d,
  string_to_key env fo ko t s = Ok v -> leaf_walk_ok env (SLeaf t d) v = true.
Proof.
  induction t; intros s v d H; try (apply walk_not_enum; reflexivity).
  - cbn [string_to_key] in H. destruct (enum_cast (enum_table env ty) s) as [e|] eqn:E; [|discriminate].
    injection H as <-. eapply walk_enum; eauto.
  - cbn [string_to_key] in H. destruct (enum_cast (enum_table env ty) s) as [e|] eqn:E; [|discriminate].
    injection H as <-. eapply walk_enum; eauto.
  - rewrite walk_lref. eapply IHt. exact H.
Qed.

Lemma decode_tv_walk env ko tol : forall t tv v d,
  decode_tv env ko tol t tv = Ok v -> leaf_walk_ok env (SLeaf t d) v = true.
Proof.
  induction t; intros tv v d H; try (apply walk_not_enum; reflexivity).
  - cbn [decode_tv] in H. destruct tv; try discriminate.
    destruct (enum_cast (enum_table env ty) s) as [e|] eqn:E; [|discriminate].
    injection H as <-. eapply walk_enum; eauto.
  - cbn [decode_tv] in H. destruct tv; try discriminate.
    destruct (enum_cast (enum_table env ty) s) as [e|] eqn:E; [|discriminate].
    injection H as <-. eapply walk_enum; eauto.
  - rewrite walk_lref. eapply IHt. exact H.
Qed.

(* the key leaves of the entry with map key mk, below the path epath of the entry *)
Fixpoint kleaves (sfs : list (finfo * schema)) (keys : list str) (mk : list scalar) (epath : dpath) : lmap :=
  match keys, mk with
  | k :: ks, v :: vs =>
      match key_field sfs k with
      | Some (fi, _) => map (fun a => (a, LV v)) (lib_paths false fi epath)
      | None => []
      end ++ kleaves sfs ks vs epath
  | _, _ => []
  end.

Section KeyLeaves.
  Variable env : enum_env.
  Variable fo : float_oracle.
  Variable ko : key_oracle.
  Notation keys_ok := (keys_ok env fo ko).
  Notation FLv := (find_leaves env ko false).
  Notation L := (flat_map plain_of).

  (* what the spec lists as key leaves of a canonical path element *)
  Lemma entry_keyleaves_path sfs ek epath : NoDup (go_names sfs) -> forall keys l,
    (forall k, In k keys -> key_leaf_okb sfs k = true) ->
    entry_keyleaves env fo ko sfs keys ek epath = Some l ->
    exists mk, path_key env fo ko false sfs keys ek = Some mk /\ existsb nan_key mk = false
               /\ l = kleaves sfs keys mk epath.
  Proof.
    intros Hnd. induction keys as [|k ks IH]; intros l Hkl H.
    - simpl in H. injection H as <-. exists []. auto.
    - cbn [entry_keyleaves] in H.
      destruct (key_leaf_ok_inv _ _ Hnd (Hkl k (or_introl eq_refl))) as (fi & t & d & E1 & E2 & E3 & Hin & Hgo).
      destruct (al_find k ek) as [s|] eqn:Es; [|discriminate]. rewrite E3 in H.
      destruct (string_to_key env fo ko t s) as [v| |] eqn:Ev; try discriminate.
      destruct (key_to_string env ko v) as [s'| |] eqn:Eks; try discriminate.
      destruct (str_eqb s s' && negb (nan_key v)) eqn:Ec; [|discriminate].
      destruct (entry_keyleaves env fo ko sfs ks ek epath) as [r|] eqn:Er; [|discriminate]. injection H as <-.
      destruct (IH r (fun k0 H0 => Hkl k0 (or_intror H0)) eq_refl) as (mk & Hp & Hnan & ->).
      apply andb_true_iff in Ec as [Ec1 Ec2]. apply cstr_eqb_eq in Ec1. subst s'. apply negb_true_iff in Ec2.
      exists (v :: mk). cbn [NodeFrameProofs.path_key kleaves existsb]. rewrite Es, E1.
      unfold parse_key. rewrite Ev. unfold key_canon. rewrite Eks, cstr_eqb_refl, Hp, Ec2, Hnan. auto.
  Qed.

  (* every key leaf the spec lists is a leaf field of the entry, holding its part of the map key *)
  Lemma kleaves_present sfs epath : forall keys mk fs, keys_ok sfs keys mk fs = true ->
    forall q w, In (q, w) (kleaves sfs keys mk epath) ->
    exists fi t d v, In (fi, SLeaf t d) sfs /\ field_get (f_go fi) fs = Some (TLeaf v) /\ key_rt env fo ko t v = true
                     /\ In q (lib_paths false fi epath) /\ w = LV v.
  Proof.
    induction keys as [|k ks IH]; intros mk fs Hk q w Hin; [destruct Hin|].
    destruct mk as [|v vs]; [destruct Hin|]. cbn [NodeFrameProofs.keys_ok] in Hk. cbn [kleaves] in Hin.
    destruct (key_field sfs k) as [[fi [t d| | | |]]|] eqn:E; try discriminate.
    apply andb_true_iff in Hk as [Hk Hk3]. apply andb_true_iff in Hk as [Hk1 Hk2].
    apply in_app_or in Hin as [Hin|Hin]; [|eauto].
    apply in_map_iff in Hin as (a & [= <- <-] & Ha).
    destruct (field_get (f_go fi) fs) as [[v'| | | |]|] eqn:Eg; try discriminate.
    apply scalar_eqb_eq in Hk2. subst v'. exists fi, t, d, v. split; [eapply key_field_In; eauto|]. auto.
  Qed.

  Lemma kleaves_field sfs epath : forall keys mk fs k, keys_ok sfs keys mk fs = true -> In k keys ->
    exists fi t d v, key_field sfs k = Some (fi, SLeaf t d) /\ field_get (f_go fi) fs = Some (TLeaf v)
                     /\ key_rt env fo ko t v = true
                     /\ forall a, In a (lib_paths false fi epath) -> In (a, LV v) (kleaves sfs keys mk epath).
  Proof.
    induction keys as [|k0 ks IH]; intros mk fs k Hk Hin; [destruct Hin|].
    destruct mk as [|v vs]; [discriminate|]. cbn [NodeFrameProofs.keys_ok] in Hk.
    destruct (key_field sfs k0) as [[fi [t d| | | |]]|] eqn:E; try discriminate.
    apply andb_true_iff in Hk as [Hk Hk3]. apply andb_true_iff in Hk as [Hk1 Hk2].
    destruct Hin as [<-|Hin].
    - destruct (field_get (f_go fi) fs) as [[v'| | | |]|] eqn:Eg; try discriminate.
      apply scalar_eqb_eq in Hk2. subst v'. exists fi, t, d, v. repeat split; auto.
      intros a Ha. cbn [kleaves]. rewrite E. apply in_or_app. left. apply in_map_iff. eauto.
    - destruct (IH vs fs k Hk3 Hin) as (fi' & t' & d' & v' & H1 & H2 & H3 & H4).
      exists fi', t', d', v'. repeat split; auto. intros a Ha. cbn [kleaves]. apply in_or_app. right. auto.
  Qed.

  Lemma key_leaf_field at_ sfs par fi t d v : NoDup (go_names sfs) -> In (fi, SLeaf t d) sfs ->
    fl_field env ko at_ sfs par (f_go fi, TLeaf v) =
    if leaf_walk_ok env (SLeaf t d) v then Ok (map (fun p => LLeaf p (LV v)) (lib_paths false fi par)) else Err.
  Proof. intros Hnd Hin. unfold fl_field. now rewrite (find_go sfs fi _ Hnd Hin). Qed.

  Lemma key_rt_walk t d v : key_rt env fo ko t v = true -> leaf_walk_ok env (SLeaf t d) v = true.
  Proof. intros H. destruct (key_rt_str env fo ko _ _ H) as (s & _ & Hs). eapply string_to_key_walk; eauto. Qed.

  (* an entry that holds its key leaves reports them *)
  Lemma kleaves_reported at_ s sfs keys mk fs epath items :
    NoDup (go_names sfs) -> sfields s = sfs -> keys_ok sfs keys mk fs = true ->
    FLv at_ s (TCont fs) epath = Ok items ->
    forall q w, In (q, w) (kleaves sfs keys mk epath) -> In (q, w) (L items).
  Proof.
    intros Hnd Hsf Hk Hfl q w Hin. rewrite FL_struct, Hsf in Hfl.
    destruct (kleaves_present sfs epath keys mk fs Hk q w Hin) as (fi & t & d & v & Hfi & Hg & Hrt & Hq & ->).
    apply field_get_In in Hg.
    destruct (concatM_inv _ _ _ Hfl _ Hg) as (h & Hh).
    apply (concatM_In _ plain_of _ _ Hfl). exists (f_go fi, TLeaf v), h. split; [exact Hg|]. split; [exact Hh|].
    rewrite (key_leaf_field at_ sfs epath fi t d v Hnd Hfi), (key_rt_walk t d v Hrt) in Hh. injection Hh as <-.
    apply leaf_items_In. auto.
  Qed.

  (* a new entry (makeValForInsert) reports exactly its key leaves *)
  Lemma key_struct_leaves at_ s sfs keys mk nfs epath :
    NoDup (go_names sfs) -> sfields s = sfs -> (forall k, In k keys -> key_leaf_okb sfs k = true) ->
    key_struct env fo ko sfs keys mk nfs ->
    exists items, FLv at_ s (TCont nfs) epath = Ok items
      /\ forall q w, In (q, w) (L items) <-> In (q, w) (kleaves sfs keys mk epath).
  Proof.
    intros Hnd Hsf Hkl (Hsub & Hk & Hall).
    assert (Hndf : NoDup (map fst nfs)) by (eapply subseq_NoDup; eauto).
    assert (Hfield : forall n sub, In (n, sub) nfs ->
              exists fi t d v, In (fi, SLeaf t d) sfs /\ n = f_go fi /\ sub = TLeaf v /\ key_rt env fo ko t v = true
                /\ forall a, In a (lib_paths false fi epath) -> In (a, LV v) (kleaves sfs keys mk epath)).
    { intros n sub Hi. destruct (Hall _ _ Hi) as (Hn & _). apply in_map_iff in Hn as (k & Hgo & Hkin).
      destruct (kleaves_field sfs epath keys mk nfs k Hk Hkin) as (fi & t & d & v & E1 & Hg & Hrt & Hl).
      unfold key_go in Hgo. rewrite E1 in Hgo. subst n.
      rewrite (In_field_get _ _ _ Hndf Hi) in Hg. injection Hg as ->.
      exists fi, t, d, v. split; [eapply key_field_In; eauto|]. auto. }
    rewrite FL_struct, Hsf.
    destruct (concatM_ok (fl_field env ko at_ sfs epath) nfs) as (items & Hit).
    { intros [n sub] Hi. destruct (Hfield n sub Hi) as (fi & t & d & v & Hfi & -> & -> & Hrt & _).
      rewrite (key_leaf_field at_ sfs epath fi t d v Hnd Hfi), (key_rt_walk t d v Hrt). eauto. }
    exists items. split; [exact Hit|]. intros q w. split.
    - intros Hin. apply (concatM_In _ plain_of _ _ Hit) in Hin as ([n sub] & h & Hi & Hh & He).
      destruct (Hfield n sub Hi) as (fi & t & d & v & Hfi & -> & -> & Hrt & Hl).
      rewrite (key_leaf_field at_ sfs epath fi t d v Hnd Hfi), (key_rt_walk t d v Hrt) in Hh. injection Hh as <-.
      apply leaf_items_In in He as [He ->]. auto.
    - intros Hin.
      destruct (kleaves_present sfs epath keys mk nfs Hk q w Hin) as (fi & t & d & v & Hfi & Hg & Hrt & Hq & ->).
      apply field_get_In in Hg. apply (concatM_In _ plain_of _ _ Hit).
      exists (f_go fi, TLeaf v). eexists. split; [exact Hg|]. split.
      + rewrite (key_leaf_field at_ sfs epath fi t d v Hnd Hfi), (key_rt_walk t d v Hrt). reflexivity.
      + apply leaf_items_In. auto.
  Qed.

  Lemma kleaves_inside sfs epath : forall keys mk, inside epath (kleaves sfs keys mk epath).
  Proof.
    induction keys as [|k ks IH]; intros mk q w Hin; [destruct Hin|]. destruct mk as [|v vs]; [destruct Hin|].
    cbn [kleaves] in Hin. apply in_app_or in Hin as [Hin|Hin]; [|exact (IH vs q w Hin)].
    destruct (key_field sfs k) as [[fi ks']|]; [|destruct Hin].
    apply in_map_iff in Hin as (a & [= <- <-] & Ha). unfold lib_paths in Ha. apply in_map_iff in Ha as (alt & <- & _). eauto.
  Qed.

  (* the paths of key leaves: the path of the entry, then names without keys *)
  Lemma kleaves_plain sfs epath : forall keys mk q w, In (q, w) (kleaves sfs keys mk epath) ->
    exists a, q = epath ++ path_of_names a.
  Proof.
    induction keys as [|k ks IH]; intros mk q w Hin; [destruct Hin|]. destruct mk as [|v vs]; [destruct Hin|].
    cbn [kleaves] in Hin. apply in_app_or in Hin as [Hin|Hin]; [|eauto].
    destruct (key_field sfs k) as [[fi ks']|]; [|destruct Hin].
    apply in_map_iff in Hin as (a & [= <- <-] & Ha). unfold lib_paths in Ha. apply in_map_iff in Ha as (alt & <- & _). eauto.
  Qed.
End KeyLeaves.

(* ====================================================================================== *)
(* 5. The schema walk of SetReqSpec, one step at a time                                   *)
(* ====================================================================================== *)

Definition final_info (s : schema) (fi : finfo) (ss : schema) (p par : dpath) : node_info :=
  {| ni_schema := ss;
     ni_alts := map (fun a => par ++ keys_on_last (path_of_names a) (ekeys (last p (mk_elem [])))) (f_paths fi);
     ni_key_leaf := match s with
                    | SList _ keys _ _ _ =>
                        is_leafish ss &&
                        existsb (fun k => existsb (fun a => match a with [x] => str_eqb x k | _ => false end) (f_paths fi)) keys
                    | _ => false
                    end;
     ni_parent := par |}.

Lemma schema_at_step g s p par fi ss alt : p <> [] ->
  find_field false false p (sfields s) = FMPath fi ss alt false ->
  schema_at (S g) s p par =
  if Nat.eqb (length p) (length alt) then Some (final_info s fi ss p par)
  else schema_at g ss (skipn (length alt) p) (par ++ firstn (length alt) p).
Proof. intros Hp Hf. destruct p; [congruence|]. cbn [schema_at]. rewrite Hf. reflexivity. Qed.

Lemma schema_at_none g s p par : p <> [] ->
  (forall fi ss alt, find_field false false p (sfields s) <> FMPath fi ss alt false) -> schema_at g s p par = None.
Proof.
  intros Hp Hf. destruct g; [reflexivity|]. destruct p; [congruence|]. cbn [schema_at].
  destruct (find_field false false (p :: p0) (sfields s)) as [fi ss alt [|]| |] eqn:E; try reflexivity.
  now destruct (Hf fi ss alt).
Qed.

Section Walk.
  Variable env : enum_env.
  Variable fo : float_oracle.
  Variable ko : key_oracle.

  Definition walk_here (ss : schema) (ek : list (str * str)) (plen n : nat) (done' : dpath) : option lmap :=
    match ss with
    | SList false keys _ _ esfs =>
        if nil_b ek then (if Nat.eqb plen n then Some [] else None)
        else if keys_sortedb ek && Nat.eqb (length ek) (length keys)
        then entry_keyleaves env fo ko esfs keys ek done' else None
    | SList true _ _ _ _ | SUnkeyed _ => None
    | _ => if nil_b ek then Some [] else None
    end.

  Lemma sch_walk_step g s p par fi ss alt : p <> [] ->
    find_field false false p (sfields s) = FMPath fi ss alt false ->
    sch_walk env fo ko (S g) s p par =
    let n := length alt in
    let done' := par ++ firstn n p in
    let ek := ekeys (last (firstn n p) (mk_elem [])) in
    if negb (forallb (fun e => nil_b (ekeys e)) (removelast (firstn n p))) then None else
    match walk_here ss ek (length p) n done' with
    | Some l =>
        if Nat.eqb (length p) n then Some l
        else match sch_walk env fo ko g ss (skipn n p) done' with
             | Some r => Some (l ++ r)
             | None => None
             end
    | None => None
    end.
  Proof. intros Hp Hf. destruct p; [congruence|]. cbn [sch_walk]. rewrite Hf. reflexivity. Qed.

  Lemma sch_walk_none g s p par : p <> [] ->
    (forall fi ss alt, find_field false false p (sfields s) <> FMPath fi ss alt false) -> sch_walk env fo ko g s p par = None.
  Proof.
    intros Hp Hf. destruct g; [reflexivity|]. destruct p; [congruence|]. cbn [sch_walk].
    destruct (find_field false false (p :: p0) (sfields s)) as [fi ss alt [|]| |] eqn:E; try reflexivity.
    now destruct (Hf fi ss alt).
  Qed.

  Lemma entry_keyleaves_plain sfs ek epath : forall keys l,
    entry_keyleaves env fo ko sfs keys ek epath = Some l ->
    forall q w, In (q, w) l -> exists a, q = epath ++ path_of_names a.
  Proof.
    induction keys as [|k ks IH]; intros l H q w Hin.
    - simpl in H. injection H as <-. destruct Hin.
    - cbn [entry_keyleaves] in H. destruct (al_find k ek) as [s|]; [|discriminate].
      destruct (key_name_field sfs k) as [[fi [t d| | | |]]| |]; try discriminate.
      destruct (string_to_key env fo ko t s) as [v| |]; try discriminate.
      destruct (key_to_string env ko v) as [s'| |]; try discriminate.
      destruct (str_eqb s s' && negb (nan_key v)); [|discriminate].
      destruct (entry_keyleaves env fo ko sfs ks ek epath) as [r|] eqn:Er; [|discriminate]. injection H as <-.
      apply in_app_or in Hin as [Hin|Hin]; [|eapply IH; eauto].
      apply in_map_iff in Hin as (a & [= <- <-] & Ha). unfold lib_paths in Ha. apply in_map_iff in Ha as (alt & <- & _). eauto.
  Qed.
End Walk.

Definition keyed (x : dpath) : bool := existsb (fun e => negb (nil_b (ekeys e))) x.

Lemma keyed_app a b : keyed (a ++ b) = keyed a || keyed b.
Proof. unfold keyed. apply existsb_app. Qed.

Lemma plain_not_keyed : forall x a, elems_prefix x (path_of_names a) = true -> keyed x = false.
Proof.
  induction x as [|e x IH]; intros [|n a] H; simpl in *; try reflexivity; try discriminate.
  apply andb_true_iff in H as [H1 H2]. apply elems_equal_nkeys in H1. simpl in H1.
  destruct (ekeys e); [|discriminate]. simpl. eauto.
Qed.

Lemma last_In {A} (l : list A) d : l <> [] -> In (last l d) l.
Proof.
  induction l as [|x l IH]; intros H; [congruence|]. destruct l as [|y l']; [now left|].
  right. apply IH. discriminate.
Qed.

Section WalkFacts.
  Variable env : enum_env.
  Variable fo : float_oracle.
  Variable ko : key_oracle.

  Lemma schema_at_inside : forall g s p par ni, schema_at g s p par = Some ni -> paths_inside par (ni_alts ni).
  Proof.
    induction g as [|g IH]; intros s p par ni H; [discriminate|].
    destruct p as [|e0 prest].
    - simpl in H. injection H as <-. intros a [<-|[]]. exists []. now rewrite app_nil_r.
    - destruct (find_field false false (e0 :: prest) (sfields s)) as [fi ss alt [|]| |] eqn:E;
        try (rewrite schema_at_none in H; [discriminate|discriminate|intros ? ? ?; congruence]).
      rewrite (schema_at_step g s _ par fi ss alt) in H by (discriminate || exact E).
      destruct (Nat.eqb (length (e0 :: prest)) (length alt)).
      + injection H as <-. intros a Ha. cbn [ni_alts final_info] in Ha. apply in_map_iff in Ha as (x & <- & _). eauto.
      + intros a Ha. destruct (IH _ _ _ _ H a Ha) as (x & ->). rewrite <- app_assoc. eauto.
  Qed.

  (* the key leaves the walk lists lie below `par`, each below a path element that carries keys *)
  Lemma sch_walk_keyed : forall g s p par kl, sch_walk env fo ko g s p par = Some kl ->
    forall q w, In (q, w) kl -> exists x, q = par ++ x /\ keyed x = true.
  Proof.
    induction g as [|g IH]; intros s p par kl H q w Hin; [discriminate|].
    destruct p as [|e0 prest]; [simpl in H; injection H as <-; destruct Hin|].
    destruct (find_field false false (e0 :: prest) (sfields s)) as [fi ss alt [|]| |] eqn:E;
      try (rewrite sch_walk_none in H; [discriminate|discriminate|intros ? ? ?; congruence]).
    rewrite (sch_walk_step env fo ko g s _ par fi ss alt) in H by (discriminate || exact E). cbv zeta in H.
    set (n := length alt) in *. set (ch := firstn n (e0 :: prest)) in *.
    destruct (negb (forallb (fun e => nil_b (ekeys e)) (removelast ch))); [discriminate|].
    destruct (walk_here env fo ko ss (ekeys (last ch (mk_elem []))) (length (e0 :: prest)) n (par ++ ch)) as [l|] eqn:El; [|discriminate].
    assert (Hl : forall q w, In (q, w) l -> exists x, q = par ++ x /\ keyed x = true).
    { intros q0 w0 H0. unfold walk_here in El.
      assert (Hkl : forall keys esfs, nil_b (ekeys (last ch (mk_elem []))) = false ->
                entry_keyleaves env fo ko esfs keys (ekeys (last ch (mk_elem []))) (par ++ ch) = Some l ->
                exists x, q0 = par ++ x /\ keyed x = true).
      { intros keys esfs Hne Hk. destruct (entry_keyleaves_plain env fo ko esfs _ _ keys l Hk q0 w0 H0) as (a & ->).
        exists (ch ++ path_of_names a). split; [now rewrite app_assoc|]. rewrite keyed_app. apply orb_true_iff. left.
        assert (Hch : ch <> []) by (intros Ec; rewrite Ec in Hne; discriminate).
        unfold keyed. apply existsb_exists. exists (last ch (mk_elem [])). split; [now apply last_In|]. now rewrite Hne. }
      destruct ss as [| | |[|] keys mn mx esfs|]; try discriminate;
        try (destruct (nil_b (ekeys (last ch (mk_elem [])))); [injection El as <-; destruct H0 | discriminate]).
      destruct (nil_b (ekeys (last ch (mk_elem [])))) eqn:En.
      - destruct (Nat.eqb (length (e0 :: prest)) n); [injection El as <-; destruct H0 | discriminate].
      - destruct (keys_sortedb _ && _); [|discriminate]. eapply Hkl; eauto. }
    destruct (Nat.eqb (length (e0 :: prest)) n).
    - injection H as <-. eauto.
    - destruct (sch_walk env fo ko g ss (skipn n (e0 :: prest)) (par ++ ch)) as [r|] eqn:Er; [|discriminate].
      injection H as <-. apply in_app_or in Hin as [Hin|Hin]; [eauto|].
      destruct (IH _ _ _ _ Er q w Hin) as (x & -> & Hx). exists (ch ++ x). split; [now rewrite app_assoc|].
      rewrite keyed_app, Hx. apply orb_true_r.
  Qed.

  Lemma sch_walk_inside g s p par kl : sch_walk env fo ko g s p par = Some kl -> inside par kl.
  Proof. intros H q w Hin. destruct (sch_walk_keyed g s p par kl H q w Hin) as (x & -> & _). eauto. Qed.
End WalkFacts.

(* a keyed path is not the path of a key leaf of the same entry *)
Lemma keyed_not_kleaf D x (l : lmap) :
  (forall q w, In (q, w) l -> exists a, q = D ++ path_of_names a) -> keyed x = true -> has_path l (D ++ x) = false.
Proof.
  intros Hl Hx. destruct (has_path l (D ++ x)) eqn:E; [|reflexivity]. exfalso.
  apply has_path_In in E as ([q w] & Hin & Hs). destruct (Hl q w Hin) as (a & ->). cbn [fst] in Hs.
  apply same_path_prefix, elems_prefix_app_same, plain_not_keyed in Hs. congruence.
Qed.

(* ---------- the elements a field match consumes ---------- *)

Lemma chunk_shape : forall alt p, alt <> [] -> is_prefixb alt (pnames p) = true ->
  forallb (fun e => nil_b (ekeys e)) (removelast (firstn (length alt) p)) = true ->
  firstn (length alt) p =
    path_of_names (removelast alt) ++
    [{| ename := last alt []; ekeys := ekeys (last (firstn (length alt) p) (mk_elem [])) |}].
Proof.
  induction alt as [|x alt IH]; intros p Hne Hp Hin; [congruence|].
  destruct p as [|e p']; [discriminate|]. simpl in Hp. apply andb_true_iff in Hp as [Hx Hp]. apply cstr_eqb_eq in Hx.
  destruct alt as [|y alt'].
  - cbn. subst x. destruct e; reflexivity.
  - destruct p' as [|e2 p'']; [discriminate|].
    assert (IH' := IH (e2 :: p'') ltac:(discriminate) Hp).
    change (firstn (length (x :: y :: alt')) (e :: e2 :: p'')) with (e :: firstn (length (y :: alt')) (e2 :: p'')) in *.
    change (firstn (length (y :: alt')) (e2 :: p'')) with (e2 :: firstn (length alt') p'') in *.
    change (removelast (e :: e2 :: firstn (length alt') p'')) with (e :: removelast (e2 :: firstn (length alt') p'')) in Hin.
    cbn [forallb] in Hin. apply andb_true_iff in Hin as [He Hin]. specialize (IH' Hin).
    change (last (e :: e2 :: firstn (length alt') p'') (mk_elem [])) with (last (e2 :: firstn (length alt') p'') (mk_elem [])).
    change (removelast (x :: y :: alt')) with (x :: removelast (y :: alt')).
    change (last (x :: y :: alt') []) with (last (y :: alt') []).
    set (ek := ekeys (last (e2 :: firstn (length alt') p'') (mk_elem []))) in *.
    rewrite IH'. cbn [path_of_names map app]. f_equal.
    destruct e as [nm ks]. simpl in *. subst nm. destruct ks; [reflexivity|discriminate].
Qed.

Lemma chunk_plain alt p : alt <> [] -> is_prefixb alt (pnames p) = true ->
  forallb (fun e => nil_b (ekeys e)) (removelast (firstn (length alt) p)) = true ->
  nil_b (ekeys (last (firstn (length alt) p) (mk_elem []))) = true ->
  firstn (length alt) p = path_of_names alt.
Proof.
  intros Hne Hp Hin Hk. rewrite (chunk_shape alt p Hne Hp Hin).
  destruct (ekeys (last (firstn (length alt) p) (mk_elem []))); [|discriminate].
  now rewrite (removelast_last_names alt Hne).
Qed.

Lemma keys_on_last_nil : forall a, keys_on_last (path_of_names a) [] = path_of_names a.
Proof.
  induction a as [|x a IH]; [reflexivity|]. destruct a as [|y a']; [reflexivity|].
  change (path_of_names (x :: y :: a')) with (mk_elem x :: path_of_names (y :: a')).
  change (keys_on_last (mk_elem x :: path_of_names (y :: a')) []) with (mk_elem x :: keys_on_last (path_of_names (y :: a')) []).
  now rewrite IH.
Qed.

Lemma keys_on_last_snoc : forall front e ks,
  keys_on_last (front ++ [e]) ks = front ++ [{| ename := ename e; ekeys := ks |}].
Proof.
  induction front as [|x front IH]; intros e ks; [reflexivity|].
  cbn [app]. destruct (front ++ [e]) as [|y r] eqn:E; [destruct front; discriminate|].
  change (keys_on_last (x :: y :: r) ks) with (x :: keys_on_last (y :: r) ks). rewrite <- E, IH. reflexivity.
Qed.

(* ---------- the field match of DeleteNode is the one of GetNode / SetNode ---------- *)

Lemma names_agree_incomp : forall b a path, incomp b a -> is_prefixb a (pnames path) = true -> names_agree b path = false.
Proof.
  induction b as [|n b IH]; intros a path Hi Hp.
  - unfold incomp, incompb in Hi. simpl in Hi. discriminate.
  - destruct path as [|e path'].
    + destruct a; [|discriminate]. unfold incomp, incompb in Hi. simpl in Hi. first [discriminate Hi | now rewrite andb_false_r in Hi].
    + destruct a as [|x a'].
      * unfold incomp, incompb in Hi. simpl in Hi. first [discriminate Hi | now rewrite andb_false_r in Hi].
      * simpl in Hp. apply andb_true_iff in Hp as [Hx Hp]. apply cstr_eqb_eq in Hx. subst x. simpl.
        destruct (str_eqb n (ename e)) eqn:En; [|reflexivity]. simpl. apply cstr_eqb_eq in En. subst n.
        apply (IH a' path'); auto. unfold incomp, incompb in *. simpl in Hi. now rewrite cstr_eqb_refl in Hi.
Qed.

Section FindFieldDel.
  Variable path : dpath.

  Lemma try_paths_miss_del fi ss sl ok : forall ps,
    (forall b, In b ps -> names_nonemptyb b = true /\ is_prefixb b (pnames path) = false /\ names_agree b path = false) ->
    try_paths true path fi ss ps sl ok = None.
  Proof.
    induction ps as [|b r IH]; intros H; [reflexivity|]. simpl.
    destruct (H b (or_introl eq_refl)) as (Hn & Hp & Ha).
    rewrite path_matches_prefix_spec, Hp by assumption.
    unfold path_partially_matches. rewrite (trim_trailing_nonempty b Hn), Ha, !andb_false_r. simpl.
    apply IH. intros b' Hb'. apply H. now right.
  Qed.

  Lemma try_paths_hit_del fi ss sl ok a : forall ps,
    pairwise ps -> (forall b, In b ps -> names_nonemptyb b = true) -> In a ps ->
    is_prefixb a (pnames path) = true ->
    try_paths true path fi ss ps sl ok = Some (FMPath fi ss a sl).
  Proof.
    induction ps as [|b r IH]; intros Hpw Hne Hin Hp; [destruct Hin|]. simpl.
    rewrite path_matches_prefix_spec by (apply Hne; now left).
    destruct Hin as [->|Hin]; [now rewrite Hp|].
    destruct Hpw as [H1 H2].
    destruct (is_prefixb b (pnames path)) eqn:Pb.
    - exfalso. eapply (incomp_not_both_prefix b a); eauto.
    - unfold path_partially_matches. rewrite (trim_trailing_nonempty b (Hne b (or_introl eq_refl))).
      rewrite (names_agree_incomp b a path (H1 a Hin) Hp), !andb_false_r. simpl.
      apply IH; auto. intros b' Hb'. apply Hne. now right.
  Qed.

  Lemma find_field_hit_del : forall sfs fi ss a,
    gn_struct_okb sfs = true -> In (fi, ss) sfs -> In a (f_paths fi) ->
    is_prefixb a (pnames path) = true ->
    find_field false true path sfs = FMPath fi ss a false.
  Proof.
    intros sfs fi ss a Hok. destruct (gn_struct_parts sfs Hok) as [Hs Hne].
    destruct (struct_facts sfs Hs) as (Hnd & Hfo & Hdis & _).
    clear Hok Hs. revert Hnd Hfo Hdis Hne.
    induction sfs as [|[fj sj] r IH]; intros Hnd Hfo Hdis Hne Hin Ha Hp; [destruct Hin|].
    cbn [find_field andb negb].
    destruct Hin as [E|Hin].
    - injection E as -> ->.
      destruct (field_okb_paths fi (Hfo fi ss (or_introl eq_refl))) as (P1 & _ & _).
      rewrite (try_paths_hit_del fi ss false true a (f_paths fi)); auto using prefix_freeb_pairwise.
      intros b Hb. apply (Hne fi ss b (or_introl eq_refl)). unfold field_alts. apply in_or_app. now left.
    - assert (Hmiss : forall b, In b (field_alts fj) ->
                names_nonemptyb b = true /\ is_prefixb b (pnames path) = false /\ names_agree b path = false).
      { intros b Hb.
        assert (Hinc : incomp b a).
        { eapply (disjoint_later ((fj, sj) :: r) [] (fj, sj) r Hdis eq_refl (fi, ss)); eauto.
          unfold alts_of, field_alts. simpl. apply in_or_app. now left. }
        split; [apply (Hne fj sj b (or_introl eq_refl) Hb)|]. split.
        - destruct (is_prefixb b (pnames path)) eqn:Pb; [|reflexivity]. exfalso.
          eapply incomp_not_both_prefix; eauto.
        - eapply names_agree_incomp; eauto. }
      rewrite try_paths_miss_del by (intros b Hb; apply Hmiss; unfold field_alts; apply in_or_app; now left).
      rewrite try_paths_miss_del by (intros b Hb; apply Hmiss; unfold field_alts; apply in_or_app; now right).
      apply IH; auto.
      + simpl in Hnd. now inversion Hnd.
      + intros f0 s0 H0. eapply Hfo. right. eauto.
      + simpl in Hdis. apply andb_true_iff in Hdis as [_ Hdis]. exact Hdis.
      + intros f0 s0 b H0. eapply Hne. right. eauto.
  Qed.
End FindFieldDel.

(* what a field match of get / set says, under the schema guard *)
Lemma find_field_facts path sfs fi ss alt :
  gn_struct_okb sfs = true -> find_field false false path sfs = FMPath fi ss alt false ->
  In (fi, ss) sfs /\ In alt (f_paths fi) /\ alt <> [] /\ is_prefixb alt (pnames path) = true
  /\ (length alt <= length path)%nat
  /\ find_field false true path sfs = FMPath fi ss alt false.
Proof.
  intros Hok Hf. destruct (find_field_path _ _ _ _ _ _ _ Hf) as [Hin Hmp].
  pose proof (find_field_alt _ _ _ _ _ _ Hf) as Ha.
  destruct (gn_struct_parts sfs Hok) as [_ Hne].
  assert (Hnn : names_nonemptyb alt = true) by (apply (Hne fi ss alt Hin); unfold field_alts; apply in_or_app; now left).
  rewrite path_matches_prefix_spec in Hmp by exact Hnn.
  repeat split; auto.
  - eapply alt_nonempty; eauto.
  - apply is_prefixb_length in Hmp. unfold pnames in Hmp. now rewrite map_length in Hmp.
  - now apply find_field_hit_del.
Qed.

Lemma skipn_pred_chunk (front : dpath) eL (p : dpath) n : (n <= length p)%nat ->
  firstn n p = front ++ [eL] -> skipn (Nat.pred n) p = eL :: skipn n p.
Proof.
  intros Hle H.
  assert (Hn : n = S (length front)).
  { apply (f_equal (@length _)) in H. rewrite app_length in H. simpl in H.
    rewrite firstn_length in H. lia. }
  remember (skipn n p) as tl eqn:Etl.
  pose proof (firstn_skipn n p) as Hp. rewrite H, <- Etl in Hp.
  rewrite <- Hp, Hn. simpl Nat.pred. rewrite <- app_assoc, skipn_app_exact. reflexivity.
Qed.

(* ====================================================================================== *)
(* 6. One field of a struct / one entry of a list replaced                                *)
(* ====================================================================================== *)

Definition fsel (g : str) (nt : str * tree) : bool := str_eqb (fst nt) g.
Definition fopt (g : str) (c : option tree) : option (str * tree) :=
  match c with Some x => Some (g, x) | None => None end.

Lemma fsel_sound fs g : NoDup (map fst fs) ->
  (forall x, In x fs -> fsel g x = true -> fopt g (field_get g fs) = Some x) /\
  (forall x, fopt g (field_get g fs) = Some x -> In x fs /\ fsel g x = true).
Proof.
  intros Hd. split.
  - intros [n x] Hin Hs. unfold fsel in Hs. simpl in Hs. apply cstr_eqb_eq in Hs. subst n.
    now rewrite (In_field_get _ _ _ Hd Hin).
  - intros [n x] Hf. destruct (field_get g fs) as [y|] eqn:E; [|discriminate]. injection Hf as <- <-.
    split; [now apply field_get_In | apply cstr_eqb_refl].
Qed.

Lemma fsel_other fs fs' g : NoDup (map fst fs) -> NoDup (map fst fs') ->
  (forall n, n <> g -> field_get n fs' = field_get n fs) ->
  forall x, fsel g x = false -> (In x fs' <-> In x fs).
Proof.
  intros Hd Hd' Hoth [n x] Hs. unfold fsel in Hs. simpl in Hs. apply str_eqb_false_neq in Hs.
  split; intros Hin; apply field_get_In.
  - rewrite <- (Hoth n Hs). now apply In_field_get.
  - rewrite (Hoth n Hs). now apply In_field_get.
Qed.

Definition esel (mk : list scalar) (ke : list scalar * tree) : bool := keys_eqb (fst ke) mk.
Definition eopt (mk : list scalar) (c : option tree) : option (list scalar * tree) :=
  match c with Some x => Some (mk, x) | None => None end.

Lemma esel_sound ord es mk : keys_okb ord (map fst es) = true ->
  (forall x, In x es -> esel mk x = true -> eopt mk (tl_find mk es) = Some x) /\
  (forall x, eopt mk (tl_find mk es) = Some x -> In x es /\ esel mk x = true).
Proof.
  intros Hd. split.
  - intros [k x] Hin Hs. unfold esel in Hs. simpl in Hs. apply keys_eqb_eq in Hs. subst k.
    now rewrite (In_tl_find _ _ _ _ Hd Hin).
  - intros [k x] Hf. destruct (tl_find mk es) as [y|] eqn:E; [|discriminate]. injection Hf as <- <-.
    split; [now apply tl_find_In | apply keys_eqb_refl].
Qed.

Lemma esel_other ord ord' es es' mk : keys_okb ord (map fst es) = true -> keys_okb ord' (map fst es') = true ->
  (forall k, k <> mk -> tl_find k es' = tl_find k es) ->
  forall x, esel mk x = false -> (In x es' <-> In x es).
Proof.
  intros Hd Hd' Hoth [k x] Hs. unfold esel in Hs. simpl in Hs. apply keys_eqb_false in Hs.
  split; intros Hin; apply tl_find_In.
  - rewrite <- (Hoth k Hs). eapply In_tl_find; eauto.
  - rewrite (Hoth k Hs). eapply In_tl_find; eauto.
Qed.

Section Replace.
  Variable env : enum_env.
  Variable fo : float_oracle.
  Variable ko : key_oracle.
  Notation nwf := (nwf env fo ko).
  Notation keys_ok := (keys_ok env fo ko).
  Notation FLv := (find_leaves env ko false).
  Notation L := (flat_map plain_of).

  (* the struct rebuilt around one changed field satisfies the tree guard *)
  Lemma nwf_put_field s sfs fs fi ss c3 :
    struct_schema s sfs -> NoDup (go_names sfs) -> nwf s (TCont fs) -> In (fi, ss) sfs ->
    (forall x, c3 = Some x -> kind2 ss x = true /\ nwf ss x) ->
    nwf s (TCont (put_field (go_names sfs) (f_go fi) c3 fs)).
  Proof.
    intros Hs Hnd Hn Hin Hc3. pose proof (struct_schema_fields _ _ Hs) as Hsf.
    apply nwf_cont in Hn. rewrite Hsf in Hn. destruct Hn as [Hss Hch].
    assert (Hino : In (f_go fi) (go_names sfs)) by apply (in_map (fun fs => f_go (fst fs)) _ _ Hin).
    apply nwf_cont. rewrite Hsf. split; [now apply put_field_subseq|].
    intros nm sub Hi g sg Hg Hgn. apply put_field_In in Hi as [(x & -> & [= -> ->])|Hi]; [|eauto].
    pose proof (go_name_unique sfs Hnd _ _ _ _ Hg Hin Hgn) as [= -> ->]. auto.
  Qed.

  Definition Lo_field (at_ : bool) (sfs : list (finfo * schema)) (par : dpath) (g : str) (c : option tree) : lmap :=
    match c with
    | Some x => match fl_field env ko at_ sfs par (g, x) with Ok h => L h | _ => [] end
    | None => []
    end.

  Lemma struct_replace at_ s sfs fs par fi ss c3 items :
    gn_schemab s = true -> struct_schema s sfs -> NoDup (go_names sfs) -> nwf s (TCont fs) -> In (fi, ss) sfs ->
    FLv at_ s (TCont fs) par = Ok items ->
    (forall x3, c3 = Some x3 -> exists h3, fl_field env ko at_ sfs par (f_go fi, x3) = Ok h3) ->
    exists O items', FLv at_ s (TCont (put_field (go_names sfs) (f_go fi) c3 fs)) par = Ok items'
      /\ (forall e, In e (L items) <-> In e (Lo_field at_ sfs par (f_go fi) (field_get (f_go fi) fs) ++ O))
      /\ (forall e, In e (L items') <-> In e (Lo_field at_ sfs par (f_go fi) c3 ++ O))
      /\ (forall alt dch, In alt (f_paths fi) -> pnames dch = alt -> outside (par ++ dch) O).
  Proof.
    intros Hg Hs Hnd Hn Hin Hfl Hc3. pose proof (struct_schema_fields _ _ Hs) as Hsf.
    destruct (gn_schemab_fields s Hg) as [Hok Hch]. rewrite Hsf in Hok, Hch.
    destruct (gn_struct_parts sfs Hok) as [Hsok _].
    pose proof Hn as Hn0. apply nwf_cont in Hn0. rewrite Hsf in Hn0. destruct Hn0 as [Hss _].
    assert (Hino : In (f_go fi) (go_names sfs)) by apply (in_map (fun fs => f_go (fst fs)) _ _ Hin).
    set (g := f_go fi) in *. set (fs' := put_field (go_names sfs) g c3 fs).
    assert (Hd : NoDup (map fst fs)) by (eapply subseq_NoDup; eauto).
    assert (Hd' : NoDup (map fst fs')) by (eapply subseq_NoDup; [apply put_field_subseq; eauto | exact Hnd]).
    assert (Hg3 : field_get g fs' = c3) by (apply put_field_get_same; auto).
    assert (Hoth : forall n, n <> g -> field_get n fs' = field_get n fs) by (intros n Hne; now apply put_field_get_other).
    rewrite FL_struct, Hsf in Hfl. rewrite FL_struct, Hsf.
    destruct (fsel_sound fs g Hd) as [S1 S2]. destruct (fsel_sound fs' g Hd') as [S3 S4]. rewrite Hg3 in S3, S4.
    destruct (concatM_replace (fl_field env ko at_ sfs par) plain_of (fsel g) fs fs'
                (fopt g (field_get g fs)) (fopt g c3) items S1 S2 S3 S4 (fsel_other fs fs' g Hd Hd' Hoth) Hfl)
      as (oitems & items' & Hit' & HL & HL' & HO).
    { intros [n x] Hx. destruct c3 as [x3|]; [|discriminate]. injection Hx as <- <-. now apply Hc3. }
    exists (L oitems), items'. split; [exact Hit'|]. split; [|split].
    - intros e. rewrite (HL e). unfold Lo_field, fopt. destruct (field_get g fs); tauto.
    - intros e. rewrite (HL' e). unfold Lo_field, fopt. destruct c3; tauto.
    - intros alt dch Halt Hdch q w Hq x.
      destruct (HO _ Hq) as ([n y] & h & Hy & Hsel & Hfy & Hqy).
      unfold fsel in Hsel. simpl in Hsel. apply str_eqb_false_neq in Hsel.
      destruct (concatM_inv _ _ _ Hfl _ Hy) as (h0 & Hh0).
      assert (Hfind : exists fj sj, find (fun fs0 => str_eqb (f_go (fst fs0)) n) sfs = Some (fj, sj)).
      { unfold fl_field in Hh0. destruct (find (fun fs0 => str_eqb (f_go (fst fs0)) n) sfs) as [[fj sj]|]; [eauto|discriminate]. }
      destruct Hfind as (fj & sj & Efind). destruct (find_go_name _ _ _ _ Efind) as [Hfj Hgo].
      pose proof (fl_field_below env ko at_ sfs par n y h fj sj Hok (Hch _ _ Hfj) Efind Hfy q w Hqy) as Hb.
      eapply (below_other_outside sfs par fi ss fj sj alt dch x q); eauto.
      intros E. apply Hsel. rewrite <- Hgo. exact E.
  Qed.

  Definition Lo_entry (at_ : bool) (ss : schema) (esfs : list (finfo * schema)) (keys : list str) (p0 : dpath)
      (mk : list scalar) (c : option tree) : lmap :=
    match c with
    | Some x => match fl_entry env ko at_ ss esfs keys p0 (mk, x) with Ok h => L h | _ => [] end
    | None => []
    end.

  Lemma list_replace at_ ord keys mn mx esfs front nm es es' mk c3 items ek fsm :
    let ss := SList ord keys mn mx esfs in
    gn_schemab ss = true -> nwf ss (TList es) ->
    keys_okb ord (map fst es') = true -> tl_find mk es' = c3 -> (forall k, k <> mk -> tl_find k es' = tl_find k es) ->
    fl_entries env ko at_ ss esfs keys (front ++ [mk_elem nm]) es = Ok items ->
    keys_ok esfs keys mk fsm = true -> mapkey_strs env ko keys mk = Ok ek ->
    (forall e3, c3 = Some e3 -> exists h3, fl_entry env ko at_ ss esfs keys (front ++ [mk_elem nm]) (mk, e3) = Ok h3) ->
    exists O items', fl_entries env ko at_ ss esfs keys (front ++ [mk_elem nm]) es' = Ok items'
      /\ (forall e, In e (L items) <-> In e (Lo_entry at_ ss esfs keys (front ++ [mk_elem nm]) mk (tl_find mk es) ++ O))
      /\ (forall e, In e (L items') <-> In e (Lo_entry at_ ss esfs keys (front ++ [mk_elem nm]) mk c3 ++ O))
      /\ outside (front ++ [{| ename := nm; ekeys := ek |}]) O.
  Proof.
    intros ss Hg Hn Hokb' Hf3 Hoth Hfl Hkm Hek Hc3.
    destruct (gn_schemab_list _ _ _ _ _ Hg) as (_ & Hdk & _ & _).
    apply nwf_list in Hn as [Hokb Hent].
    rewrite fl_entries_concat in Hfl. rewrite fl_entries_concat.
    destruct (esel_sound ord es mk Hokb) as [S1 S2]. destruct (esel_sound ord es' mk Hokb') as [S3 S4]. rewrite Hf3 in S3, S4.
    destruct (concatM_replace (fl_entry env ko at_ ss esfs keys (front ++ [mk_elem nm])) plain_of (esel mk) es es'
                (eopt mk (tl_find mk es)) (eopt mk c3) items S1 S2 S3 S4 (esel_other ord ord es es' mk Hokb Hokb' Hoth) Hfl)
      as (oitems & items' & Hit' & HL & HL' & HO).
    { intros [k x] Hx. destruct c3 as [x3|]; [|discriminate]. injection Hx as <- <-. now apply Hc3. }
    exists (L oitems), items'. split; [exact Hit'|]. split; [|split].
    - intros e. rewrite (HL e). unfold Lo_entry, eopt. destruct (tl_find mk es); tauto.
    - intros e. rewrite (HL' e). unfold Lo_entry, eopt. destruct c3; tauto.
    - intros q w Hq. destruct (HO _ Hq) as ([k e] & h & Hy & Hsel & Hfy & Hqy).
      unfold esel in Hsel. simpl in Hsel. apply keys_eqb_false in Hsel.
      destruct (Hent _ _ Hy) as [(fsk & -> & Hkk) _].
      destruct (mapkey_strs_ok env fo ko esfs keys k fsk Hkk) as (kk & Ekk).
      assert (Eks : entry_key_strs env ko esfs keys (fields_of (TCont fsk)) = Ok kk)
        by (cbn [fields_of]; now rewrite (entry_key_strs_ok env fo ko esfs keys k fsk Hkk)).
      destruct (fl_entry_extends env ko at_ ss esfs keys front nm k (TCont fsk) h kk Hg Eks Hfy) as [_ Hext].
      assert (Hne : elems_equal {| ename := nm; ekeys := ek |} {| ename := nm; ekeys := kk |} = false).
      { destruct (elems_equal _ _) eqn:E; [|reflexivity]. exfalso. apply Hsel. symmetry.
        eapply (entries_differ env fo ko esfs keys nm nm mk k); eauto. }
      exact (entry_outside front nm ek kk (L h) Hne (fun q0 w0 H0 => Hext q0 w0 H0) q w Hqy).
  Qed.
End Replace.
