(* Defaults.v — the generated PopulateDefaults methods at tree level (definitions only).

   Transcribed Go: gogen/gogen.go goDefaultMethodTemplate (the generated method: BuildEmptyTree,
   one `if unset then set` per leaf with a default, recursion into child containers, into the
   entries of unordered lists (maps and unkeyed slices) and of ordered maps),
   ygot.BuildEmptyTree / initialiseTree (ygot/struct_validation_map.go: every nil struct pointer
   field is instantiated, recursively; ordered maps are not), and the conversion of the YANG
   default literal to a Go value done at generation time by gogen/goelements.go
   generateGoDefaultValue / yangDefaultValueToGo.

   Scope: a leaf has a default iff the schema term lists exactly one default statement on it
   (defaults inherited from a typedef and leaf-list defaults are not in the schema term: outside
   the model); integer literals in decimal notation only (the generator pastes the literal into
   Go source, so "0x1f" and "017" are hexadecimal / octal there: outside the model); string
   patterns and decimal64 ranges are not consulted. *)
From Ygot Require Import Tree.Tree Tree.TreeOps Tree.Codec Scalar.Dec Scalar.Base64 Tree.Validate.

(* strings.Split(value, ":")[1] when the literal contains a colon *)
Definition after_colon (s : str) : str :=
  match split_colon s [] with _ :: b :: _ => b | _ => s end.

(* decimal notation that Go reads as decimal too: optional sign, then "0" or digits not
   starting with 0 *)
Definition dec_literal (s : str) : bool :=
  let d := match s with c :: t => if (c =? MINUS) || (c =? PLUS) then t else s | [] => [] end in
  match d with
  | [] => false
  | [_] => true
  | c :: _ => negb (c =? DZERO)
  end.

Definition STR_TRUE : str := [116; 114; 117; 101].
Definition STR_FALSE : str := [102; 97; 108; 115; 101].

Section Defaults.
  Variable env : enum_env.
  Variable fo : float_oracle.

  (* yangDefaultValueToGo: None = the generator refuses the literal (no code is generated) *)
  Fixpoint parse_default (t : ytype) (lit : str) {struct t} : option scalar :=
    match t with
    | YInt k rs =>
        if negb (dec_literal lit) then None else
        match (if ikind_signed k then parse_int_range (ikind_min k) (ikind_max k) lit
               else parse_uint_range (ikind_max k) lit) with
        | Some z => if in_ranges rs z then Some (VInt k z) else None
        | None => None
        end
    | YDec _ => option_map VDec (fparse fo lit)
    | YStr lens _ => if in_lens lens (nlen lit) then Some (VStr lit) else None
    | YBin lens => match b64dec lit with
                   | Some bs => if in_lens lens (nlen bs) then Some (VBin bs) else None
                   | None => None end
    | YBool => if str_eqb lit STR_TRUE then Some (VBool true)
               else if str_eqb lit STR_FALSE then Some (VBool false) else None
    | YEmpty => None
    | YEnum ty | YIdref ty =>
        match enum_by_name (enum_table env ty) (after_colon lit) with
        | Some e => Some (VEnum ty (ev_num e))
        | None => None
        end
    | YLeafref t' => parse_default t' lit
    | YUnion ms =>
        (* "Try to convert to each type in order": util.FlattenedTypes, first success *)
        (fix first (l : list ytype) : option scalar :=
           match l with
           | [] => None
           | m :: r => match parse_default m lit with Some v => Some v | None => first r end
           end) ms
    end.

  (* the value PopulateDefaults stores in an unset leaf *)
  Definition leaf_default (ty : ytype) (dflt : list str) : option scalar :=
    match dflt with [d] => parse_default ty d | _ => None end.

  Definition cont_fields (o : option tree) : list (str * tree) :=
    match o with Some (TCont fs) => fs | _ => [] end.

  (* o: the value of the field (None = nil / unset).  Recursion on the schema: nil containers are
     instantiated (BuildEmptyTree) and populated whatever the tree holds. *)
  Fixpoint pop_node (s : schema) (o : option tree) {struct s} : option tree :=
    match s with
    | SLeaf ty dflt => match o with Some x => Some x | None => option_map TLeaf (leaf_default ty dflt) end
    | SLeafList _ _ _ => o
    | SCont sfs =>
        Some (TCont (flat_map (fun x => match pop_node (snd x) (field_get (f_go (fst x)) (cont_fields o)) with
                                        | Some y => [(f_go (fst x), y)] | None => [] end) sfs))
    | SList _ _ _ _ sfs =>
        match o with
        | Some (TList es) =>
            Some (TList (map (fun ke => (fst ke,
                    TCont (flat_map (fun x => match pop_node (snd x) (field_get (f_go (fst x)) (fields_of (snd ke))) with
                                              | Some y => [(f_go (fst x), y)] | None => [] end) sfs))) es))
        | _ => o
        end
    | SUnkeyed sfs =>
        match o with
        | Some (TUnkeyed es) =>
            Some (TUnkeyed (map (fun e =>
                    TCont (flat_map (fun x => match pop_node (snd x) (field_get (f_go (fst x)) (fields_of e)) with
                                              | Some y => [(f_go (fst x), y)] | None => [] end) sfs)) es))
        | _ => o
        end
    end.

  (* PopulateDefaults of one struct: its fields after the call, in struct order *)
  Definition pop_fields (sfs : list (finfo * schema)) (fs : list (str * tree)) : list (str * tree) :=
    flat_map (fun x => match pop_node (snd x) (field_get (f_go (fst x)) fs) with
                       | Some y => [(f_go (fst x), y)] | None => [] end) sfs.

  (* root.PopulateDefaults() *)
  Definition populate_defaults (s : schema) (t : tree) : tree :=
    match pop_node s (Some t) with Some t' => t' | None => t end.
End Defaults.

(* ---------- navigation used by the C33 statement ---------- *)

(* from a struct to a struct below it: through a container field (instantiated on demand: an
   absent container holds no data), through an existing entry of a keyed list, through an
   existing element of an unkeyed list *)
Inductive sstep :=
| StC (name : str)
| StL (name : str) (k : list scalar)
| StU (name : str) (i : nat).

Fixpoint reach (sfs : list (finfo * schema)) (fs : list (str * tree)) (p : list sstep)
  : option (list (finfo * schema) * list (str * tree)) :=
  match p with
  | [] => Some (sfs, fs)
  | StC n :: r =>
      match sfind n sfs with
      | Some (_, SCont sfs') => reach sfs' (cont_fields (field_get n fs)) r
      | _ => None
      end
  | StL n k :: r =>
      match sfind n sfs with
      | Some (_, SList _ _ _ _ sfs') =>
          match field_get n fs with
          | Some (TList es) => match tl_find k es with Some e => reach sfs' (fields_of e) r | None => None end
          | _ => None
          end
      | _ => None
      end
  | StU n i :: r =>
      match sfind n sfs with
      | Some (_, SUnkeyed sfs') =>
          match field_get n fs with
          | Some (TUnkeyed es) => match nth_error es i with Some e => reach sfs' (fields_of e) r | None => None end
          | _ => None
          end
      | _ => None
      end
  end.

(* ---------- guards of the C33 theorems ---------- *)

Fixpoint nodup_strs (l : list str) : bool :=
  match l with [] => true | x :: r => negb (existsb (str_eqb x) r) && nodup_strs r end.

(* Go struct field names are distinct *)
Fixpoint schema_nodup (s : schema) : bool :=
  match s with
  | SLeaf _ _ | SLeafList _ _ _ => true
  | SCont sfs | SList _ _ _ _ sfs | SUnkeyed sfs =>
      nodup_strs (go_names sfs) && forallb (fun x => schema_nodup (snd x)) sfs
  end.

(* what PopulateDefaults adds on its own initiative lies outside every choice: no leaf with a
   default and no container inside a case (BuildEmptyTree instantiates the container, which
   selects its case) *)
Definition adds_field (s : schema) : bool :=
  match s with
  | SLeaf _ (_ :: _) => true
  | SCont _ => true
  | _ => false
  end.
Fixpoint defaults_ok (s : schema) : bool :=
  match s with
  | SLeaf _ _ | SLeafList _ _ _ => true
  | SCont sfs | SList _ _ _ _ sfs | SUnkeyed sfs =>
      forallb (fun x => (negb (adds_field (snd x)) || nil_b (f_case (fst x))) && defaults_ok (snd x)) sfs
  end.
